"""Shared machinery for the /verif checks (python3 stdlib only).

Pipeline helpers:
  tlc_check / tlc_simulate  - run TLC on a design config (exhaustive or -simulate), parse stats,
                              coverage and "BEH <json>" behaviour lines printed by generator specs
  go_build / go_test_overlay - build and run the Go drivers against /repo's current working tree
  validate_trace            - run a trace-validation spec over a recorded ndjson trace
  Evidence / finish         - evidence file, VIOLATION / KNOWN-FINDING lines, exit codes

Exit codes: 0 held, 1 violation (VIOLATION line printed), 2 harness problem (never a verdict).
"""
import json
import os
import re
import shutil
import subprocess
import sys
import tempfile
import time

ROOT = os.path.dirname(os.path.dirname(os.path.abspath(__file__)))
REPO = os.environ.get("VERIF_REPO", "/repo")
SPECS = os.path.join(ROOT, "specs")
HARNESS = os.path.join(ROOT, "harness")
WORK = os.path.join(ROOT, ".work")
import hashlib  # noqa: E402
_RK = "" if REPO == "/repo" else "-" + hashlib.sha1(REPO.encode()).hexdigest()[:8]
BIN = os.path.join(ROOT, ".bin" + _RK)
# harness go.mod lives outside the source tree and is selected with -modfile, so that several
# repository trees (VERIF_REPO=<scratch worktree>, used for mutation testing) can be built side by side
MODDIR = os.path.join(WORK, "mod" + _RK)
MODFILE = os.path.join(MODDIR, "go.mod")
TLA_CP = "/opt/veriftools/tla/tla2tools.jar:/opt/veriftools/tla/CommunityModules-deps.jar"


class HarnessError(Exception):
    """Something in the machinery failed (build, TLC crash, timeout): exit 2, never a violation."""


def log(*a):
    print("[verif]", *a, file=sys.stderr, flush=True)


# ----------------------------------------------------------------------------------------------
# Go side
# ----------------------------------------------------------------------------------------------

def goenv(cgo=False):
    env = dict(os.environ)
    env["GOFLAGS"] = "-mod=mod"
    env["GOPROXY"] = "off"
    env.pop("GOSUMDB", None)
    env.pop("GOTOOLCHAIN", None)
    env["CGO_ENABLED"] = "1" if cgo else "0"
    env.setdefault("GOCACHE", "/root/.cache/go-build")
    return env


def ensure_gomod():
    """Derive harness/go.mod mechanically from /repo/go.mod (see DESIGN 2.3)."""
    src = open(os.path.join(REPO, "go.mod")).read()
    out = []
    for line in src.splitlines():
        if line.startswith("module "):
            out.append("module verifharness")
            continue
        if line.startswith("tool "):
            continue
        line = re.sub(r"=> \./(\S+)", lambda m: "=> %s/%s" % (REPO, m.group(1)), line)
        out.append(line)
    out.append("")
    out.append("require github.com/projectcalico/calico v0.0.0")
    out.append("replace github.com/projectcalico/calico => %s" % REPO)
    out.append("")
    text = "\n".join(out)
    os.makedirs(MODDIR, exist_ok=True)
    gm = MODFILE
    if not os.path.exists(gm) or open(gm).read() != text:
        open(gm, "w").write(text)
    stub = os.path.join(HARNESS, "go.mod")   # the go command needs a go.mod to find the module root
    if not os.path.exists(stub):
        open(stub, "w").write("module verifharness\n\ngo 1.26.5\n")
    gs_src = open(os.path.join(REPO, "go.sum")).read()
    gs = os.path.join(MODDIR, "go.sum")
    if not os.path.exists(gs) or open(gs).read() != gs_src:
        open(gs, "w").write(gs_src)


def run(cmd, cwd=None, env=None, timeout=None, check=True, capture=True, stdin=None):
    t0 = time.time()
    try:
        p = subprocess.run(cmd, cwd=cwd, env=env, timeout=timeout, input=stdin,
                           stdout=subprocess.PIPE if capture else None,
                           stderr=subprocess.STDOUT if capture else None, text=True)
    except subprocess.TimeoutExpired as e:
        raise HarnessError("timeout after %ss: %s" % (timeout, " ".join(cmd[:6])))
    if check and p.returncode != 0:
        raise HarnessError("command failed rc=%d: %s\n%s" % (p.returncode, " ".join(cmd[:8]), (p.stdout or "")[-4000:]))
    p.wall = time.time() - t0
    return p


def go_build(name, tags="verif", cgo=False, race=False):
    """Build harness/cmd/<name> against /repo's working tree; returns the binary path."""
    ensure_gomod()
    os.makedirs(BIN, exist_ok=True)
    out = os.path.join(BIN, name)
    cmd = ["go", "build", "-modfile", MODFILE, "-tags", tags, "-o", out]
    if race:
        cmd.append("-race")
    cmd.append("./cmd/" + name)
    for attempt in (1, 2, 3):
        p = run(cmd, cwd=HARNESS, env=goenv(cgo=cgo or race), timeout=1800, check=False)
        if p.returncode == 0:
            return out
        # a concurrent `go clean -cache` / cache trim removes entries under our feet ("open .../go-build/..:
        # no such file or directory"): that is not a property of the tree under test, build again
        if attempt < 3 and "go-build" in (p.stdout or "") and "no such file or directory" in (p.stdout or ""):
            log("go build hit a trimmed build cache, retrying (%d)" % attempt)
            continue
        raise HarnessError("command failed rc=%d: %s\n%s" % (p.returncode, " ".join(cmd[:8]), (p.stdout or "")[-4000:]))
    return out


def overlay_for(pkg_rel):
    """Overlay JSON mapping /verif/inpkg/<pkg_rel>/*.go into /repo/<pkg_rel>/ (go test -overlay)."""
    src = os.path.join(ROOT, "inpkg", pkg_rel)
    rep = {}
    for f in sorted(os.listdir(src)):
        if f.endswith(".go"):
            rep[os.path.join(REPO, pkg_rel, f)] = os.path.join(src, f)
    os.makedirs(WORK, exist_ok=True)
    path = os.path.join(WORK, "overlay-%s-%d.json" % (pkg_rel.replace("/", "_"), os.getpid()))
    json.dump({"Replace": rep}, open(path, "w"))
    return path


def go_test_overlay(pkg_rel, run_re="^TestVerif", env_extra=None, timeout=1800, tags="verif",
                    cgo=False, race=False, module_dir=None, extra_args=None):
    """Run in-package driver tests injected by overlay. Returns the CompletedProcess (stdout+stderr)."""
    ov = overlay_for(pkg_rel)
    env = goenv(cgo=cgo or race)
    env.update(env_extra or {})
    cmd = ["go", "test", "-overlay", ov, "-tags", tags, "-vet=off", "-count=1",
           "-timeout", "%ds" % timeout, "-run", run_re]
    if race:
        cmd.append("-race")
    cmd += (extra_args or [])
    cmd.append("./" + pkg_rel)
    try:
        for attempt in (1, 2, 3):
            p = run(cmd, cwd=module_dir or REPO, env=env, timeout=timeout + 60, check=False)
            # same transient as in go_build: the build cache was trimmed by a concurrent process
            if p.returncode != 0 and attempt < 3 and "go-build" in (p.stdout or "") and "no such file or directory" in (p.stdout or "") \
                    and "[build failed]" in (p.stdout or ""):
                log("go test hit a trimmed build cache, retrying (%d)" % attempt)
                continue
            break
    finally:
        try:
            os.unlink(ov)
        except OSError:
            pass
    return p


# ----------------------------------------------------------------------------------------------
# TLC
# ----------------------------------------------------------------------------------------------

class TLCResult:
    def __init__(self):
        self.out = ""
        self.rc = None
        self.generated = 0
        self.distinct = 0
        self.depth = 0
        self.violated = None      # name of violated invariant / property, or "deadlock"
        self.error = None         # non-verdict error text (parse error, runtime error, ...)
        self.behaviours = []      # parsed "BEH <json>" payloads
        self.prints = []          # other PrintT tuples as raw lines
        self.zero_cov = []        # actions with zero coverage (when coverage requested)
        self.action_cov = {}      # action name -> (distinct, generated)
        self.wall = 0.0
        self.last_l = None


def _stage(specdir, extra_files, scratch):
    libdir = os.path.join(SPECS, "lib")
    for d in (libdir, specdir):
        for f in os.listdir(d):
            p = os.path.join(d, f)
            if os.path.isfile(p) and (f.endswith(".tla") or f.endswith(".cfg") or f.endswith(".json") or f.endswith(".ndjson")):
                shutil.copy(p, os.path.join(scratch, f))
    for dst, src in (extra_files or {}).items():
        shutil.copy(src, os.path.join(scratch, dst))


def _parse_tlc(res):
    out = res.out
    m = None
    for m in re.finditer(r"(\d+) states generated, (\d+) distinct states found", out):
        pass
    if m:
        res.generated, res.distinct = int(m.group(1)), int(m.group(2))
    m2 = re.search(r"The number of states generated: (\d+)", out)
    if m2 and not res.generated:
        res.generated = int(m2.group(1))
        res.distinct = res.generated
    m3 = re.search(r"depth of the complete state graph search is (\d+)", out)
    if m3:
        res.depth = int(m3.group(1))
    mv = re.search(r"Error: Invariant (\S+) is violated", out)
    if mv:
        res.violated = mv.group(1)
    elif re.search(r"Error: Action property (\S+) is violated", out):
        res.violated = re.search(r"Error: Action property (\S+) is violated", out).group(1)
    elif "Error: Deadlock reached" in out:
        res.violated = "deadlock"
    elif re.search(r"Error: Temporal properties were violated", out):
        res.violated = "temporal"
    elif re.search(r"Error: Postcondition \S+ .*is false|TRACE_HWM", out):
        res.violated = "postcondition"
    elif "Error:" in out and res.rc not in (0,):
        idx = out.index("Error:")
        res.error = out[idx:idx + 1500]
    for line in out.splitlines():
        if line.startswith('"BEH '):
            try:
                s = json.loads(line)
                res.behaviours.append(json.loads(s[4:]))
            except Exception as e:  # pragma: no cover
                res.error = "unparseable BEH line: %r" % line[:200]
        elif line.startswith("<<\"") or line.startswith('"'):
            res.prints.append(line)
    ls = re.findall(r"^/\\ l = (\d+)|^l = (\d+)", out, re.M)
    if ls:
        a, b = ls[-1]
        res.last_l = int(a or b)
    # coverage: lines like "<Action line 12, col 1 to line 14, col 20 of module X>: 12:34"
    for m in re.finditer(r"^<(\w+) line \d+, col \d+ to line \d+, col \d+ of module (\w+)(?: \([\d ]+\))?>: (\d+):(\d+)", out, re.M):
        name, mod, dist, gen = m.group(1), m.group(2), int(m.group(3)), int(m.group(4))
        old = res.action_cov.get(name, (0, 0))
        res.action_cov[name] = (max(old[0], dist), max(old[1], gen))
    res.zero_cov = sorted(n for n, (d, g) in res.action_cov.items() if g == 0 and n != "Init")


def tlc(specdir, module, cfg, workers=8, timeout=600, simulate=None, extra_files=None, coverage=False,
        deque=False, heap="4g", stack=None, seed=None, extra_args=None, keep=None):
    """Run TLC in a scratch copy of specs/lib + specdir. simulate = dict(num=, depth=) or None."""
    if not os.path.isabs(specdir):
        specdir = os.path.join(SPECS, specdir)
    os.makedirs(WORK, exist_ok=True)
    scratch = tempfile.mkdtemp(prefix="tlc-", dir=WORK)
    res = TLCResult()
    try:
        _stage(specdir, extra_files, scratch)
        jopts = ["-XX:+UseParallelGC", "-Xmx" + heap]
        if stack:
            jopts.append("-Xss" + stack)
        if deque:
            jopts.append("-Dtlc2.tool.queue.IStateQueue=StateDeque")
        cmd = ["java"] + jopts + ["-cp", TLA_CP, "tlc2.TLC", "-workers", str(workers),
                                  "-metadir", os.path.join(scratch, "md"), "-config", cfg]
        if simulate:
            spec = "num=%d" % simulate["num"]
            cmd += ["-simulate", spec, "-depth", str(simulate["depth"])]
        if seed is not None:
            cmd += ["-seed", str(seed)]
        if coverage:
            cmd += ["-coverage", "1"]
        cmd += (extra_args or [])
        cmd.append(module + ".tla")
        t0 = time.time()
        for attempt in (1, 2):
            try:
                p = subprocess.run(cmd, cwd=scratch, timeout=timeout, stdout=subprocess.PIPE,
                                   stderr=subprocess.STDOUT, text=True)
            except subprocess.TimeoutExpired:
                raise HarnessError("TLC timeout (%ss) on %s/%s" % (timeout, module, cfg))
            res.wall = time.time() - t0
            res.out = p.stdout
            res.rc = p.returncode
            _parse_tlc(res)
            # an abnormal JVM/TLC exit without any verdict or spec error (seen once on a busy machine: rc=255 in the
            # middle of the search) is retried once; a second failure is a harness error as before
            if attempt == 1 and res.rc not in (0,) and res.violated is None and "Error:" not in res.out:
                log("TLC exited rc=%s without a verdict on %s/%s; retrying once" % (res.rc, module, cfg))
                shutil.rmtree(os.path.join(scratch, "md"), ignore_errors=True)
                res = TLCResult()
                continue
            break
        if keep:
            os.makedirs(keep, exist_ok=True)
            open(os.path.join(keep, "tlc-%s-%s.out" % (module, os.path.basename(cfg))), "w").write(res.out)
        if "java.lang.OutOfMemoryError" in res.out or "StackOverflowError" in res.out:
            raise HarnessError("TLC resource failure on %s/%s:\n%s" % (module, cfg, res.out[-2000:]))
        if res.rc != 0 and res.violated is None:
            i = res.out.find("Error")
            head = res.out[i:i + 2500] if i >= 0 else res.out[:1500]
            raise HarnessError("TLC failed rc=%s on %s/%s:\n%s\n...\n%s" % (res.rc, module, cfg, head, res.out[-800:]))
        return res
    finally:
        shutil.rmtree(scratch, ignore_errors=True)


def design_check(specdir, module, cfg, workers=8, timeout=600, coverage=True, allow_zero=(), **kw):
    """Exhaustive design-leg run: must finish with no violation, and (if coverage) no dead action."""
    r = tlc(specdir, module, cfg, workers=workers, timeout=timeout, coverage=coverage, **kw)
    if r.violated:
        raise HarnessError("design spec %s/%s violates %s (model problem, not a code verdict):\n%s"
                           % (module, cfg, r.violated, r.out[-3000:]))
    dead = [a for a in r.zero_cov if a not in allow_zero]
    if coverage and dead:
        raise HarnessError("vacuity: actions never taken in %s/%s: %s" % (module, cfg, dead))
    return r


class TraceResult:
    def __init__(self):
        self.accepted = False
        self.total = 0
        self.hwm = 0            # number of trace lines matched
        self.reason = None      # "invariant:<name>" | "no-match" | None
        self.states = 0
        self.out = ""
        self.wall = 0.0
        self.bad_line = None    # the first rejected trace line (dict) when known


def validate_trace(specdir, module, cfg, trace_path, workers=1, timeout=900, deque=False,
                   heap="6g", extra_files=None, keep=None, stack="64m"):
    """Validate an ndjson trace with a trace spec (EXTENDS TraceLib). The spec's POSTCONDITION
    prints <<"TRACE_HWM", matched, total>> when not every line was matched."""
    ef = dict(extra_files or {})
    ef["trace.ndjson"] = trace_path
    with open(trace_path) as f:
        lines = f.read().splitlines()
    tr = TraceResult()
    tr.total = len(lines)
    if tr.total == 0:
        raise HarnessError("empty trace " + trace_path)
    r = tlc(specdir, module, cfg, workers=workers, timeout=timeout, deque=deque, heap=heap,
            extra_files=ef, keep=keep, stack=stack)
    tr.out, tr.wall, tr.states = r.out, r.wall, r.distinct
    if r.violated is None:
        tr.accepted = True
        tr.hwm = tr.total
        return tr
    if r.violated == "postcondition" or "TRACE_HWM" in r.out:
        m = re.search(r'<<"TRACE_HWM", (\d+), (\d+)>>', r.out)
        if not m:
            raise HarnessError("trace postcondition failed without TRACE_HWM:\n" + r.out[-2000:])
        tr.hwm = int(m.group(1))
        tr.reason = "no-match"
    elif r.violated == "deadlock":
        tr.hwm = (r.last_l or 1) - 1
        tr.reason = "no-match"
    else:
        # invariant violated in the state reached after consuming line l-1
        tr.reason = "invariant:" + r.violated
        tr.hwm = max((r.last_l or 2) - 2, 0)
    if tr.hwm < tr.total:
        try:
            tr.bad_line = json.loads(lines[tr.hwm])
        except Exception:
            tr.bad_line = None
    return tr


# ----------------------------------------------------------------------------------------------
# Check context, evidence, verdicts
# ----------------------------------------------------------------------------------------------

class Ctx:
    def __init__(self, pid, tier, seed, replay=None):
        self.id = pid
        self.tier = tier
        self.seed = seed
        self.replay = replay
        self.t0 = time.time()
        os.makedirs(WORK, exist_ok=True)
        self.work = tempfile.mkdtemp(prefix="%s-" % pid, dir=WORK)
        self.cov = {"states": 0, "transitions": 0, "traces_validated_against_impl": 0, "samples": [],
                    "evaluations": 0, "distinct_nontrivial": 0, "rule": "", "exhaustive": False}
        self.assumptions = []
        self.violations = 0
        self.known = []
        self.notes = {}

    @property
    def quick(self):
        return self.tier == "quick"

    def add_design(self, r):
        """Account a design-leg TLCResult into states/transitions."""
        self.cov["states"] += r.distinct
        self.cov["transitions"] += r.generated
        self.notes.setdefault("design_runs", []).append(
            {"distinct": r.distinct, "generated": r.generated, "depth": r.depth, "wall_s": round(r.wall, 1),
             "actions": {k: v[1] for k, v in sorted(r.action_cov.items())}})

    def sample(self, s, limit=4):
        if len(self.cov["samples"]) < limit:
            self.cov["samples"].append(s)

    def cleanup(self):
        shutil.rmtree(self.work, ignore_errors=True)


def load_known():
    p = os.path.join(ROOT, "known_findings.json")
    try:
        return json.load(open(p)).get("findings", [])
    except Exception:
        return []


def known_match(pid, signature):
    """A finding entry: {"property": id, "signature": str, "what": str}. Exact signature match."""
    for f in load_known():
        if f.get("property") == pid and f.get("signature") == signature:
            return f
    return None


def save_replay(ctx, name, files=None, meta=None):
    d = os.path.join(ROOT, "replay", "%s-%s-seed%d-%s" % (ctx.id, ctx.tier, ctx.seed, name))
    if os.path.isdir(d):
        shutil.rmtree(d)
    os.makedirs(d)
    for dst, src in (files or {}).items():
        if os.path.exists(src):
            shutil.copy(src, os.path.join(d, dst))
    json.dump(meta or {}, open(os.path.join(d, "meta.json"), "w"), indent=1, default=str)
    return d


def report(ctx, signature, what, replay_dir):
    """Report one rejected real-code trace: KNOWN-FINDING if listed, else VIOLATION."""
    k = known_match(ctx.id, signature)
    if k:
        if signature not in ctx.known:
            ctx.known.append(signature)
            print("KNOWN-FINDING: property=%s %s" % (ctx.id, k.get("what", what)), flush=True)
        return False
    ctx.violations += 1
    print("VIOLATION property=%s replay=%s" % (ctx.id, replay_dir), flush=True)
    log("violation detail:", what)
    return True


def write_evidence(ctx, level="model_checking"):
    cov = dict(ctx.cov)
    cov.update({k: v for k, v in ctx.notes.items()})
    if not cov["samples"]:
        cov["samples"] = ["(no sample recorded)"]
    ev = {
        "property_id": ctx.id,
        "tier": ctx.tier,
        "seed": ctx.seed,
        "level": level,
        "coverage": cov,
        "assumptions": ctx.assumptions,
        "wall_s": round(time.time() - ctx.t0, 2),
        "violations": ctx.violations,
    }
    if ctx.known:
        ev["known_findings_seen"] = ctx.known
    os.makedirs(os.path.join(ROOT, "evidence"), exist_ok=True)
    p = os.path.join(ROOT, "evidence", ctx.id + ".json")
    json.dump(ev, open(p, "w"), indent=1, default=str)
    return p


def write_ndjson(path, events):
    with open(path, "w") as f:
        for e in events:
            f.write(json.dumps(e, separators=(",", ":"), sort_keys=True))
            f.write("\n")


def read_ndjson(path):
    out = []
    with open(path) as f:
        for line in f:
            line = line.strip()
            if line:
                out.append(json.loads(line))
    return out
