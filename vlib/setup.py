"""setup: derive the harness go.mod, pre-build every driver and overlay test binary (warms GOCACHE)."""
import os
import sys

from . import core


def main():
    core.ensure_gomod()
    cmds = sorted(os.listdir(os.path.join(core.HARNESS, "cmd")))
    ok = True
    for c in cmds:
        try:
            core.go_build(c)
            core.log("built", c)
        except core.HarnessError as e:
            ok = False
            core.log("build failed:", c, str(e)[-1500:])
    # overlay packages: compile test binaries only (-run ^$)
    inpkg = os.path.join(core.ROOT, "inpkg")
    for root, dirs, files in os.walk(inpkg):
        if any(f.endswith(".go") for f in files):
            rel = os.path.relpath(root, inpkg)
            p = core.go_test_overlay(rel, run_re="^$", timeout=1800)
            core.log("overlay compile", rel, "rc=%d" % p.returncode)
            if p.returncode != 0:
                ok = False
                core.log(p.stdout[-1500:])
    # setup only warms the build cache; every check rebuilds what it needs and reports exit 2 itself
    # if its driver does not build, so a failing driver must not fail the whole setup.
    if not ok:
        core.log("setup: some drivers failed to build (see above); continuing")
    return 0
