"""The standard three-legged pipeline used by most checks.

  design leg   : exhaustive TLC run(s) of the I_/P_ specification (with -coverage vacuity check)
  leg A        : TLC-generated behaviours (generator spec prints `BEH <json>` lines) replayed by a Go driver
  leg B        : the ndjson trace recorded from the real code validated by a trace spec with TLC

A trace file is a concatenation of traces; every line carries "t" (trace number) and "ev"; each trace
starts with an {"ev":"reset"} line.  When TLC rejects the file, the rejected trace is identified from the
high-water mark, the driver is re-executed and the verdict is only reported if the same trace is
rejected again; the rejected trace is then removed and validation continues with the rest, so that
known findings do not hide other violations.
"""
import json
import os
import shutil

from . import core
from .core import HarnessError, log


def run_driver(ctx, drv, beh_path, out_path, n_random):
    """drv: {"cmd": name, "args": [...]} (external harness binary) or
            {"overlay_pkg": rel, "run": regex} (in-package test driver)."""
    env_extra = {
        "VERIF_BEH": beh_path or "",
        "VERIF_OUT": out_path,
        "VERIF_SEED": str(ctx.seed),
        "VERIF_N": str(n_random),
        "VERIF_TIER": ctx.tier,
    }
    env_extra.update(drv.get("env", {}))
    if os.path.exists(out_path):
        os.unlink(out_path)
    if "cmd" in drv:
        binp = core.go_build(drv["cmd"], tags=drv.get("tags", "verif"), race=drv.get("race", False))
        env = core.goenv()
        env.update(env_extra)
        p = core.run([binp] + list(drv.get("args", [])), env=env, timeout=drv.get("timeout", 1800), check=False)
        if p.returncode != 0:
            raise HarnessError("driver %s failed rc=%d:\n%s" % (drv["cmd"], p.returncode, (p.stdout or "")[-4000:]))
    else:
        p = core.go_test_overlay(drv["overlay_pkg"], run_re=drv.get("run", "^TestVerif"), env_extra=env_extra,
                                 timeout=drv.get("timeout", 1800), race=drv.get("race", False),
                                 tags=drv.get("tags", "verif"), module_dir=drv.get("module_dir"))
        if p.returncode != 0 or "no tests to run" in (p.stdout or ""):
            raise HarnessError("overlay driver %s failed rc=%d:\n%s" % (drv["overlay_pkg"], p.returncode, (p.stdout or "")[-4000:]))
    if not os.path.exists(out_path) or os.path.getsize(out_path) == 0:
        raise HarnessError("driver produced no trace: %s\n%s" % (out_path, (p.stdout or "")[-2000:]))
    return p


def split_traces(path):
    """-> ordered list of (t, [raw lines])"""
    traces = []
    cur_t, cur = None, None
    with open(path) as f:
        for raw in f:
            raw = raw.rstrip("\n")
            if not raw:
                continue
            t = json.loads(raw).get("t")
            if cur is None or t != cur_t:
                cur_t, cur = t, []
                traces.append((t, cur))
            cur.append(raw)
    return traces


def write_traces(path, traces):
    with open(path, "w") as f:
        for _, lines in traces:
            for l in lines:
                f.write(l + "\n")


def line_to_trace(traces, idx):
    """trace-file line index (0-based) -> (position in traces list, offset within the trace)"""
    n = 0
    for i, (_, lines) in enumerate(traces):
        if idx < n + len(lines):
            return i, idx - n
        n += len(lines)
    return len(traces) - 1, len(traces[-1][1]) - 1


def validate_all(ctx, tspec, trace_path, signature_fn, rerun_fn, max_rejects=12, chunk=None):
    """Validate; handle rejections (re-execute, known findings, continue). Returns stats dict."""
    traces = split_traces(trace_path)
    total_traces = len(traces)
    total_events = sum(len(l) for _, l in traces)
    stats = {"traces": total_traces, "events": total_events, "rejected": [], "tlc_states": 0, "tlc_wall_s": 0.0}
    work_path = os.path.join(ctx.work, "trace-work.ndjson")
    rejects = 0
    reran = None
    chunks = [traces]
    if chunk and total_events > chunk:
        chunks, cur, n = [], [], 0
        for t in traces:
            cur.append(t)
            n += len(t[1])
            if n >= chunk:
                chunks.append(cur)
                cur, n = [], 0
        if cur:
            chunks.append(cur)
    for part in chunks:
        part = list(part)
        while part:
            write_traces(work_path, part)
            tr = core.validate_trace(tspec["specdir"], tspec["module"], tspec["cfg"], work_path,
                                     deque=tspec.get("deque", False), timeout=tspec.get("timeout", 300),
                                     heap=tspec.get("heap", "6g"), extra_files=tspec.get("extra_files"),
                                     workers=tspec.get("workers", 1), keep=ctx.work)
            stats["tlc_states"] += tr.states
            stats["tlc_wall_s"] += tr.wall
            if tr.accepted:
                break
            pos, off = line_to_trace(part, tr.hwm)
            t_id, lines = part[pos]
            rejects += 1
            what = "%s at event %d of trace %s: %s" % (tr.reason, off, t_id, lines[off][:300])
            log("trace rejected:", what)
            # re-execute once (whole driver, same inputs) and validate that single trace again
            confirmed = True
            if rerun_fn is not None:
                # tspec["rerun_attempts"] (default 1): for code whose command order is not deterministic (Go map
                # iteration) the re-execution is repeated; a verdict still needs a re-execution that is rejected again
                confirmed = False
                for attempt in range(max(1, int(tspec.get("rerun_attempts", 1)))):
                    if reran is None or attempt > 0:
                        reran = rerun_fn()
                    again = dict(split_traces(reran)).get(t_id) if reran else None
                    if again is None:
                        continue
                    one = os.path.join(ctx.work, "trace-one.ndjson")
                    write_traces(one, [(t_id, again)])
                    tr2 = core.validate_trace(tspec["specdir"], tspec["module"], tspec["cfg"], one,
                                              deque=tspec.get("deque", False), timeout=tspec.get("timeout", 300),
                                              extra_files=tspec.get("extra_files"), workers=tspec.get("workers", 1))
                    if not tr2.accepted:
                        confirmed = True
                        break
            if not confirmed:
                raise HarnessError("rejection did not reproduce on re-execution (trace %s): %s" % (t_id, what))
            sig = signature_fn(t_id, [json.loads(x) for x in lines], off, tr.reason) if signature_fn else "trace"
            one = os.path.join(ctx.work, "rejected-%s.ndjson" % t_id)
            write_traces(one, [(t_id, lines)])
            tlcout = os.path.join(ctx.work, "tlc-%s-%s.out" % (tspec["module"], os.path.basename(tspec["cfg"])))
            rdir = core.save_replay(ctx, "t%s" % t_id, files={"trace.ndjson": one, "tlc.out": tlcout,
                                                              "behaviours.json": tspec.get("beh_path", "")},
                                    meta={"property": ctx.id, "trace": t_id, "event_index": off, "reason": tr.reason,
                                          "signature": sig, "seed": ctx.seed, "tier": ctx.tier,
                                          "rejected_line": json.loads(lines[off])})
            is_new = core.report(ctx, sig, what, rdir)
            stats["rejected"].append({"trace": t_id, "event": off, "reason": tr.reason, "signature": sig, "new": is_new})
            part.pop(pos)
            if sum(1 for r in stats["rejected"] if r["new"]) >= 2:
                return stats
            if rejects >= max_rejects:
                log("too many rejections, stopping validation early")
                return stats
    return stats


def standard_check(ctx, P):
    """P keys: specdir, design:[{module,cfg,(thorough_cfg),timeout,workers,coverage,allow_zero}],
    gen:{module,cfg,(thorough_cfg),simulate:{num,depth},(thorough_simulate),timeout,max},
    driver:{...}, n_random:(quick,thorough), trace:{module,cfg,...}, signature: fn, nontrivial: fn(trace events)->bool,
    rule: str, assumptions: [..], exhaustive_note"""
    quick = ctx.quick
    specdir = P["specdir"]
    # ---- design leg
    for d in P.get("design", []):
        cfg = d["cfg"] if quick else d.get("thorough_cfg", d["cfg"])
        to = d.get("timeout", 300) if quick else d.get("thorough_timeout", 3600)
        r = core.design_check(d.get("specdir", specdir), d["module"], cfg, workers=d.get("workers", 8), timeout=to,
                              coverage=d.get("coverage", True), allow_zero=d.get("allow_zero", ()),
                              heap=d.get("heap", "4g" if quick else "12g"))
        ctx.add_design(r)
        log("design %s/%s: %d distinct, %d generated, %.1fs" % (d["module"], cfg, r.distinct, r.generated, r.wall))
    # ---- behaviours (leg A)
    beh_path = None
    nbeh = 0
    g = P.get("gen")
    if g and not ctx.replay:
        cfg = g["cfg"] if quick else g.get("thorough_cfg", g["cfg"])
        sim = g.get("simulate") if quick else g.get("thorough_simulate", g.get("simulate"))
        r = core.tlc(g.get("specdir", specdir), g["module"], cfg, workers=g.get("workers", 1 if sim else 4), simulate=sim,
                     timeout=g.get("timeout", 300) if quick else g.get("thorough_timeout", 1800),
                     seed=ctx.seed if sim else None, heap=g.get("heap", "4g"))
        if r.violated and r.violated != "deadlock":
            raise HarnessError("generator spec problem: %s\n%s" % (r.violated, r.out[-2000:]))
        behs = r.behaviours
        if g.get("select"):
            # optional check-specific pre-selection (fn(list of behaviours, random.Random(seed)) -> list)
            import random as _random
            behs = g["select"](behs, _random.Random(ctx.seed))
        mx = g.get("max") if quick else g.get("thorough_max", g.get("max"))
        if mx and len(behs) > mx:
            # deterministic thinning by seed
            import random
            rnd = random.Random(ctx.seed)
            behs = rnd.sample(behs, mx)
        if not behs:
            raise HarnessError("generator produced no behaviours:\n" + r.out[-2000:])
        nbeh = len(behs)
        beh_path = os.path.join(ctx.work, "behaviours.json")
        json.dump(behs, open(beh_path, "w"))
        ctx.notes["behaviours_from_tlc"] = nbeh
        ctx.notes["behaviour_generator"] = {"module": g["module"], "cfg": cfg, "simulate": sim, "states": r.distinct}
        if not sim:
            ctx.cov["states"] += r.distinct
            ctx.cov["transitions"] += r.generated
        ctx.sample({"behaviour": behs[0]})
        log("generated %d behaviours (%s)" % (nbeh, "simulate" if sim else "exhaustive"))
    elif ctx.replay:
        beh_path = os.path.join(ctx.replay, "behaviours.json")
    # ---- drive the real code
    nr = P.get("n_random", (0, 0))
    n_random = nr[0] if quick else nr[1]
    trace_path = os.path.join(ctx.work, "trace.ndjson")
    run_driver(ctx, P["driver"], beh_path, trace_path, n_random)

    def rerun():
        p2 = os.path.join(ctx.work, "trace-rerun.ndjson")
        run_driver(ctx, P["driver"], beh_path, p2, n_random)
        return p2

    # ---- trace validation (leg B)
    tspec = dict(P["trace"])
    tspec.setdefault("specdir", specdir)
    tspec["beh_path"] = beh_path or ""
    stats = validate_all(ctx, tspec, trace_path, P.get("signature"), rerun, chunk=P.get("chunk"))
    traces = split_traces(trace_path)
    nt = 0
    nontrivial = P.get("nontrivial")
    seen = set()
    for t_id, lines in traces:
        evs = [json.loads(x) for x in lines]
        kf = P.get("dedupe_key")   # optional: fn(events) -> hashable key (e.g. to ignore clock readings)
        key = kf(evs) if kf else json.dumps([{k: v for k, v in e.items() if k != "t"} for e in evs], sort_keys=True)
        if key in seen:
            continue
        seen.add(key)
        if nontrivial is None or nontrivial(evs):
            nt += 1
    ctx.cov["traces_validated_against_impl"] += stats["traces"]
    ctx.cov["evaluations"] += stats["events"]
    ctx.cov["distinct_nontrivial"] += nt
    ctx.cov["rule"] = P.get("rule", "")
    ctx.cov["exhaustive"] = bool(P.get("exhaustive", False)) and not (g and ((g.get("simulate") if quick else g.get("thorough_simulate", g.get("simulate")))))
    ctx.notes["trace_validation"] = {"traces": stats["traces"], "events": stats["events"], "distinct_traces": len(seen),
                                     "tlc_states": stats["tlc_states"], "tlc_wall_s": round(stats["tlc_wall_s"], 1),
                                     "rejected": stats["rejected"]}
    if traces:
        t_id, lines = traces[min(len(traces) - 1, 1)]
        ctx.sample({"trace": t_id, "events": [json.loads(x) for x in lines[:6]]})
    ctx.assumptions += P.get("assumptions", [])
    return stats


def corruption_selftest(ctx, P, corruptions, n_random=20):
    """Binding self-test: record a small trace from the real code, check TLC accepts it, then apply each
    corruption (fn(list-of-event-dicts) -> list-of-event-dicts or None if not applicable) to a copy and
    require that TLC rejects every corrupted copy.  Returns True iff all corruptions were rejected."""
    tspec = dict(P["trace"])
    tspec.setdefault("specdir", P["specdir"])
    trace_path = os.path.join(ctx.work, "selftest.ndjson")
    run_driver(ctx, P["driver"], None, trace_path, n_random)
    base = core.validate_trace(tspec["specdir"], tspec["module"], tspec["cfg"], trace_path,
                               deque=tspec.get("deque", False), workers=tspec.get("workers", 1),
                               extra_files=tspec.get("extra_files"))
    if not base.accepted:
        log("selftest: uncorrupted trace rejected")
        return False
    evs = core.read_ndjson(trace_path)
    ok = True
    for name, fn in corruptions:
        bad = fn([dict(e) for e in evs])
        if bad is None:
            log("selftest: corruption %s not applicable" % name)
            ok = False
            continue
        bp = os.path.join(ctx.work, "selftest-%s.ndjson" % name)
        core.write_ndjson(bp, bad)
        r = core.validate_trace(tspec["specdir"], tspec["module"], tspec["cfg"], bp,
                                deque=tspec.get("deque", False), workers=tspec.get("workers", 1),
                                extra_files=tspec.get("extra_files"))
        log("selftest: corruption %-24s -> %s" % (name, "accepted (BAD)" if r.accepted else "rejected (%s at line %d)" % (r.reason, r.hwm)))
        ok = ok and not r.accepted
    return ok
