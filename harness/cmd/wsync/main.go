// Driver for C26: the real watchersyncer (one watcherCache goroutine per resource type + the syncer's main
// loop) against a harness datastore whose List/Watch answers are decided by a script.
//
// The datastore ("fake") is a revisioned map per resource type with a mutation log.  Every List and
// Watch call of the syncer blocks at a gate until the script answers it; watch events are handed to the
// cache goroutine over an unbuffered channel.  Script steps are environment decisions that never
// presuppose what the syncer does next:
//     mut(t,k,del)     change the datastore
//     reply(t,how)     answer the List/Watch call type t is (or will shortly be) blocked in
//                      (skipped when t has an open watch)
//     deliver(t)       hand the next pending change to t's open watch (skipped when none)
//     wev(t,kind)      inject error / expired / closed / bookmark into t's open watch
// After every decision the driver waits until the syncer is quiescent: every watcherCache goroutine parked
// at the List/Watch gate or on its watch channel and the syncer's main loop parked receiving from the
// results channel (observed in a runtime.Stack snapshot; all of these are states only the driver can end,
// so the observation cannot be stale).  This makes the recorded order reproducible.
// After the script: every pending call is answered OK and every pending change delivered until each
// type has an open, drained watch; a sentinel key is written and delivered last; once the syncer is
// quiescent again "quiesce" is logged.  A wait that times out is a harness error (exit 2), never a verdict.
//
// One log, ordered by the log's mutex: a List result is logged inside List() before it returns, a
// callback at its entry, so the log order is consistent with causality (no wall-clock anywhere).
// The fake's own answers are recorded too and checked against the TLA+ store model by the trace spec.
package main

import (
	"context"
	"errors"
	"fmt"
	"io"
	"math/rand"
	"os"
	"regexp"
	"runtime"
	"sort"
	"strconv"
	"strings"
	"sync"
	"syscall"
	"time"

	"github.com/sirupsen/logrus"
	kerrors "k8s.io/apimachinery/pkg/api/errors"
	"k8s.io/apimachinery/pkg/runtime/schema"

	"github.com/projectcalico/calico/libcalico-go/lib/backend/api"
	"github.com/projectcalico/calico/libcalico-go/lib/backend/model"
	"github.com/projectcalico/calico/libcalico-go/lib/backend/watchersyncer"
	cerrors "github.com/projectcalico/calico/libcalico-go/lib/errors"

	"verifharness/tracelog"
)

const sentinel = "zz"

var bound = 30 * time.Second

func fatal(f string, a ...any) {
	fmt.Fprintf(os.Stderr, "wsync driver: "+f+"\n", a...)
	os.Exit(2)
}

type mutation struct {
	rev int
	k   string
	v   int // 0 = deletion
}

type gateReq struct {
	kind  string // "list" | "watch"
	from  string
	reply chan string
	done  chan struct{} // closed by List/Watch once the answer has been computed and logged
}

type fwatch struct {
	ft      *ftype
	ch      chan api.WatchEvent
	stopped chan struct{}
	once    sync.Once
	pos     int
}

func (w *fwatch) Stop()                             { w.once.Do(func() { close(w.stopped) }) }
func (w *fwatch) ResultChan() <-chan api.WatchEvent { return w.ch }
func (w *fwatch) HasTerminated() bool               { return true }

type ftype struct {
	name  string
	store map[string]int
	nrev  int
	evlog []mutation
	gate  chan gateReq
	open  *fwatch // driver-side view: the watch the script may feed (nil when none / terminated)
	kdd   bool    // the last answered List was "empty collection, revision 0" (the cache polls, it cannot watch)
}

type fake struct {
	mu    sync.Mutex
	log   *tracelog.Log
	types map[string]*ftype
}

func (f *fake) typeOf(l model.ListInterface) *ftype {
	switch l.(type) {
	case model.GlobalConfigListOptions:
		return f.types["a"]
	case model.HostConfigListOptions:
		return f.types["b"]
	}
	fatal("unexpected list interface %T", l)
	return nil
}

func keyFor(t, k string) model.Key {
	if t == "a" {
		return model.GlobalConfigKey{Name: k}
	}
	return model.HostConfigKey{Hostname: "h", Name: k}
}

func keyOf(key model.Key) (string, string) {
	switch k := key.(type) {
	case model.GlobalConfigKey:
		return "a", k.Name
	case model.HostConfigKey:
		return "b", k.Name
	}
	fatal("unexpected key type %T", key)
	return "", ""
}

var errInjected = errors.New("injected datastore failure")

func (f *fake) ask(ctx context.Context, ft *ftype, kind, from string) (string, chan struct{}, error) {
	req := gateReq{kind: kind, from: from, reply: make(chan string, 1), done: make(chan struct{})}
	select {
	case ft.gate <- req:
	case <-ctx.Done():
		return "", nil, ctx.Err()
	}
	select {
	case how := <-req.reply:
		return how, req.done, nil
	case <-ctx.Done():
		return "", nil, ctx.Err()
	}
}

func (f *fake) List(ctx context.Context, l model.ListInterface, revision string) (*model.KVPairList, error) {
	ft := f.typeOf(l)
	how, done, err := f.ask(ctx, ft, "list", revision)
	if err != nil {
		return nil, err
	}
	defer close(done)
	f.mu.Lock()
	defer f.mu.Unlock()
	if how == "emptyrev" {
		// what a KDD backend answers for an EMPTY collection: no items and revision "0", although the datastore has been
		// written before.  With items present this is not a possible answer: answer like "ok".
		if len(ft.store) == 0 {
			ft.kdd = true
			f.log.Emit("list", map[string]any{"ty": ft.name, "res": "ok", "items": []map[string]any{}, "rev": 0})
			return &model.KVPairList{Revision: "0"}, nil
		}
		how = "ok"
	}
	switch how {
	case "ok":
		ft.kdd = false
		out := &model.KVPairList{Revision: strconv.Itoa(ft.nrev)}
		items := []map[string]any{}
		ks := make([]string, 0, len(ft.store))
		for k := range ft.store {
			ks = append(ks, k)
		}
		sort.Strings(ks)
		for _, k := range ks {
			out.KVPairs = append(out.KVPairs, &model.KVPair{Key: keyFor(ft.name, k), Value: "v" + strconv.Itoa(ft.store[k]), Revision: strconv.Itoa(ft.store[k])})
			items = append(items, map[string]any{"k": k, "rev": ft.store[k]})
		}
		f.log.Emit("list", map[string]any{"ty": ft.name, "res": "ok", "items": items, "rev": ft.nrev})
		return out, nil
	case "notinstalled":
		f.log.Emit("list", map[string]any{"ty": ft.name, "res": "notinstalled"})
		return nil, kerrors.NewNotFound(schema.GroupResource{Group: "verif", Resource: ft.name}, "")
	case "expired":
		f.log.Emit("list", map[string]any{"ty": ft.name, "res": "expired"})
		return nil, kerrors.NewResourceExpired("injected: too old resource version")
	}
	f.log.Emit("list", map[string]any{"ty": ft.name, "res": "err"})
	return nil, errInjected
}

func (f *fake) Watch(ctx context.Context, l model.ListInterface, o api.WatchOptions) (api.WatchInterface, error) {
	ft := f.typeOf(l)
	how, done, err := f.ask(ctx, ft, "watch", o.Revision)
	if err != nil {
		return nil, err
	}
	defer close(done)
	f.mu.Lock()
	defer f.mu.Unlock()
	f.log.Emit("watch", map[string]any{"ty": ft.name, "res": how, "from": o.Revision})
	switch how {
	case "ok":
		pos, _ := strconv.Atoi(o.Revision)
		w := &fwatch{ft: ft, ch: make(chan api.WatchEvent), stopped: make(chan struct{}), pos: pos}
		ft.open = w
		return w, nil
	case "expired":
		return nil, kerrors.NewResourceExpired("injected: too old resource version")
	case "refused":
		return nil, syscall.ECONNREFUSED
	case "notsupported":
		return nil, cerrors.ErrorOperationNotSupported{Operation: "watch", Identifier: l}
	}
	return nil, errInjected
}

func (f *fake) Create(context.Context, *model.KVPair) (*model.KVPair, error) { panic("unused") }
func (f *fake) Update(context.Context, *model.KVPair) (*model.KVPair, error) { panic("unused") }
func (f *fake) Apply(context.Context, *model.KVPair) (*model.KVPair, error)  { panic("unused") }
func (f *fake) Delete(context.Context, model.Key, string) (*model.KVPair, error) {
	panic("unused")
}
func (f *fake) DeleteKVP(context.Context, *model.KVPair) (*model.KVPair, error) { panic("unused") }
func (f *fake) Get(context.Context, model.Key, string) (*model.KVPair, error)   { panic("unused") }
func (f *fake) EnsureInitialized() error                                       { return nil }
func (f *fake) Clean() error                                                   { return nil }
func (f *fake) Close() error                                                   { return nil }

// ---- callbacks ---------------------------------------------------------------------------------------------------

type callbacks struct {
	log      *tracelog.Log
	mu       sync.Mutex
	done     bool
	sentinel map[string]bool
	seen     chan sentinelSeen
	holdReq  bool          // the next callback blocks after it has been logged
	blocked  bool          // a callback is blocked at the gate
	gate     chan struct{} // closed by release
}

// block is called with c.mu held at the end of every callback: a slow consumer.  The syncer's main loop stays
// inside the callback until the driver releases it; meanwhile the caches keep filling the results channel.
func (c *callbacks) block() {
	if !c.holdReq {
		return
	}
	c.holdReq = false
	c.blocked = true
	ch := c.gate
	c.mu.Unlock()
	<-ch
	c.mu.Lock()
	c.blocked = false
}

type sentinelSeen struct {
	t   string
	rev int
}

func statusName(s api.SyncStatus) string {
	switch s {
	case api.WaitForDatastore:
		return "wait"
	case api.ResyncInProgress:
		return "resync"
	case api.InSync:
		return "insync"
	}
	return "unknown"
}

func (c *callbacks) OnStatusUpdated(s api.SyncStatus) {
	c.mu.Lock()
	defer c.mu.Unlock()
	if c.done {
		return
	}
	c.log.Emit("cb_status", map[string]any{"s": statusName(s)})
	c.block()
}

func (c *callbacks) OnUpdates(us []api.Update) {
	c.mu.Lock()
	defer c.mu.Unlock()
	if c.done {
		return
	}
	kvs := []map[string]any{}
	var got []sentinelSeen
	for _, u := range us {
		t, k := keyOf(u.Key)
		rev := 0
		if u.Value != nil {
			rev, _ = strconv.Atoi(u.Revision)
		}
		kvs = append(kvs, map[string]any{"t": t, "k": k, "rev": rev})
		if k == sentinel && rev != 0 {
			got = append(got, sentinelSeen{t, rev})
		}
	}
	c.log.Emit("cb_upd", map[string]any{"kvs": kvs})
	for _, g := range got {
		select {
		case c.seen <- g:
		default:
		}
	}
	c.block()
}

func (c *callbacks) SyncFailed(err error) {
	c.mu.Lock()
	defer c.mu.Unlock()
	if c.done {
		return
	}
	c.log.Emit("cb_syncfailed", nil)
	c.block()
}

// ---- driver --------------------------------------------------------------------------------------------------------

type drv struct {
	log *tracelog.Log
	f   *fake
	cb  *callbacks
	s   api.Syncer
	ts  []string
}

func (d *drv) begin(t int, keys []string, rt string, sd map[string]bool) {
	d.ts = []string{"a", "b"}
	d.f = &fake{log: d.log, types: map[string]*ftype{}}
	for _, n := range d.ts {
		d.f.types[n] = &ftype{name: n, store: map[string]int{}, gate: make(chan gateReq)}
	}
	d.cb = &callbacks{log: d.log, sentinel: map[string]bool{}, seen: make(chan sentinelSeen, 256)}
	sdl := []string{}
	for _, n := range d.ts {
		if sd[n] {
			sdl = append(sdl, n)
		}
	}
	d.log.Reset(t, map[string]any{"types": d.ts, "keys": append(append([]string{}, keys...), sentinel), "rt": rt, "sd": sdl})
	rts := []watchersyncer.ResourceType{
		{ListInterface: model.GlobalConfigListOptions{}, SendDeletesOnConnFail: sd["a"]},
		{ListInterface: model.HostConfigListOptions{}, SendDeletesOnConnFail: sd["b"]},
	}
	to := time.Hour
	if rt == "always" {
		to = -1
	}
	d.s = watchersyncer.New(d.f, rts, d.cb, watchersyncer.WithWatchRetryTimeout(to))
	d.s.Start()
	d.settle()
}

func (d *drv) mutate(t, k string, del bool) {
	ft := d.f.types[t]
	d.f.mu.Lock()
	defer d.f.mu.Unlock()
	if del {
		if _, ok := ft.store[k]; !ok {
			return
		}
	}
	ft.nrev++
	m := mutation{rev: ft.nrev, k: k, v: ft.nrev}
	if del {
		m.v = 0
		delete(ft.store, k)
	} else {
		ft.store[k] = ft.nrev
	}
	ft.evlog = append(ft.evlog, m)
	d.log.Emit("mut", map[string]any{"ty": t, "k": k, "rev": m.v})
}

// the watch the script may feed, or nil
func (d *drv) openWatch(t string) *fwatch {
	d.f.mu.Lock()
	defer d.f.mu.Unlock()
	return d.f.types[t].open
}

func (d *drv) closeWatch(t string) {
	d.f.mu.Lock()
	d.f.types[t].open = nil
	d.f.mu.Unlock()
}

func (d *drv) reply(t, how string) bool {
	if d.openWatch(t) != nil {
		return false
	}
	ft := d.f.types[t]
	select {
	case req := <-ft.gate:
		if req.kind == "list" {
			switch how {
			case "ok", "emptyrev", "err", "notinstalled", "expired":
			default:
				how = "err"
			}
		} else {
			switch how {
			case "ok", "err", "expired", "refused", "notsupported":
			default:
				how = "err"
			}
		}
		req.reply <- how
		// the answer is computed and logged by List/Watch itself before it returns; wait until that has
		// happened so that the script's next decision is made in a defined state
		select {
		case <-req.done:
		case <-time.After(bound):
			fatal("timeout: %s did not return (trace %d)", req.kind, d.log.T)
		}
		return true
	case <-time.After(bound):
		fatal("timeout: cache %s reached neither List nor Watch within %v (trace %d)", t, bound, d.log.T)
	}
	return false
}

func (d *drv) push(t string, w *fwatch, ev api.WatchEvent, what map[string]any) {
	what["ty"] = t
	d.log.Emit("wev", what)
	select {
	case w.ch <- ev:
	case <-w.stopped:
		fatal("watch of %s stopped by the syncer while the script still considers it open (trace %d)", t, d.log.T)
	case <-time.After(bound):
		fatal("timeout: cache %s did not take a watch event within %v (trace %d)", t, bound, d.log.T)
	}
}

func (d *drv) pending(t string, w *fwatch) *mutation {
	d.f.mu.Lock()
	defer d.f.mu.Unlock()
	for i := range d.f.types[t].evlog {
		if m := d.f.types[t].evlog[i]; m.rev > w.pos {
			return &m
		}
	}
	return nil
}

func (d *drv) deliver(t string) bool {
	w := d.openWatch(t)
	if w == nil {
		return false
	}
	m := d.pending(t, w)
	if m == nil {
		return false
	}
	rev := strconv.Itoa(m.rev)
	if m.v == 0 {
		d.push(t, w, api.WatchEvent{Type: api.WatchDeleted, Old: &model.KVPair{Key: keyFor(t, m.k), Value: "gone", Revision: rev}},
			map[string]any{"kind": "deleted", "k": m.k, "rev": m.rev})
	} else {
		typ := api.WatchAdded
		if m.rev%2 == 0 {
			typ = api.WatchModified // the cache must not rely on the datastore's Added/Modified distinction
		}
		d.push(t, w, api.WatchEvent{Type: typ, New: &model.KVPair{Key: keyFor(t, m.k), Value: "v" + rev, Revision: rev}},
			map[string]any{"kind": "set", "k": m.k, "rev": m.rev})
	}
	w.pos = m.rev
	return true
}

func (d *drv) wev(t, kind string) bool {
	w := d.openWatch(t)
	if w == nil {
		return false
	}
	switch kind {
	case "bookmark":
		if d.pending(t, w) != nil {
			return false
		}
		d.f.mu.Lock()
		rev := d.f.types[t].nrev
		d.f.mu.Unlock()
		d.push(t, w, api.WatchEvent{Type: api.WatchBookmark, New: &model.KVPair{Revision: strconv.Itoa(rev)}},
			map[string]any{"kind": "bookmark", "rev": rev})
		w.pos = rev
	case "expired":
		d.push(t, w, api.WatchEvent{Type: api.WatchError, Error: kerrors.NewResourceExpired("injected")}, map[string]any{"kind": "expired"})
		d.closeWatch(t)
	case "error":
		d.push(t, w, api.WatchEvent{Type: api.WatchError, Error: errInjected}, map[string]any{"kind": "error"})
		d.closeWatch(t)
	case "closed":
		d.log.Emit("wev", map[string]any{"ty": t, "kind": "closed"})
		close(w.ch)
		d.closeWatch(t)
	default:
		fatal("unknown watch event kind %q", kind)
	}
	return true
}

var goroutineHdr = regexp.MustCompile(`^goroutine \d+ \[([^\],]*)`)

// quiescent reports whether every goroutine of the syncer under test is parked in a state only the driver
// can end: each watcherCache at the List/Watch gate or reading its (unbuffered) watch channel, the syncer's
// main loop receiving from the (therefore empty) results channel.  A goroutine that is runnable, sleeping
// on a retry timer or inside a callback makes the answer "not yet".
var stackBuf = make([]byte, 1<<16)

func quiescent(ncaches int) bool {
	var buf []byte
	for {
		n := runtime.Stack(stackBuf, true)
		if n < len(stackBuf) {
			buf = stackBuf[:n]
			break
		}
		stackBuf = make([]byte, 2*len(stackBuf))
	}
	caches, mains := 0, 0
	for _, blk := range strings.Split(string(buf), "\n\n") {
		isCache := strings.Contains(blk, "watchersyncer.(*watcherCache).run(")
		isMain := strings.Contains(blk, "watchersyncer.(*watcherSyncer).run(") && !isCache
		if !isCache && !isMain {
			continue
		}
		lines := strings.SplitN(blk, "\n", 3)
		if len(lines) < 2 {
			return false
		}
		m := goroutineHdr.FindStringSubmatch(lines[0])
		if m == nil {
			return false
		}
		state, top := m[1], lines[1]
		if isMain {
			// parked receiving from the (empty) results channel, or inside a callback the driver holds at its gate
			if state != "chan receive" || !(strings.Contains(top, "(*watcherSyncer).run") || strings.HasPrefix(top, "main.(*callbacks).block")) {
				return false
			}
			mains++
			continue
		}
		switch {
		case state == "chan send" && strings.HasPrefix(top, "main.(*fake).ask"):
		case state == "select" && strings.HasPrefix(top, "main.(*fake).ask"):
		case state == "select" && strings.Contains(top, "(*watcherCache).loopReadingFromWatcher"):
		default:
			return false
		}
		caches++
	}
	return caches == ncaches && mains == 1
}

func (d *drv) settle() {
	deadline := time.Now().Add(bound)
	for i := 0; ; i++ {
		if quiescent(len(d.ts)) {
			return
		}
		if time.Now().After(deadline) {
			fatal("timeout: the syncer did not become quiescent within %v (trace %d)", bound, d.log.T)
		}
		if i < 3 {
			runtime.Gosched()
		} else {
			time.Sleep(50 * time.Microsecond)
		}
	}
}

func (d *drv) hold() {
	d.cb.mu.Lock()
	defer d.cb.mu.Unlock()
	if d.cb.holdReq || d.cb.blocked {
		return
	}
	d.cb.holdReq = true
	d.cb.gate = make(chan struct{})
	d.log.Emit("hold", nil)
}

func (d *drv) release() {
	d.cb.mu.Lock()
	defer d.cb.mu.Unlock()
	if !d.cb.holdReq && !d.cb.blocked {
		return
	}
	d.log.Emit("release", nil)
	if d.cb.blocked {
		close(d.cb.gate)
	}
	d.cb.holdReq = false
}

func (d *drv) step(op map[string]any) {
	t := tracelog.Str(op["t"])
	switch tracelog.Str(op["op"]) {
	case "mut":
		del, _ := op["del"].(bool)
		d.mutate(t, tracelog.Str(op["k"]), del)
	case "reply":
		d.reply(t, tracelog.Str(op["how"]))
	case "deliver":
		d.deliver(t)
	case "wev":
		d.wev(t, tracelog.Str(op["kind"]))
	case "hold":
		d.hold()
	case "release":
		d.release()
	case "cfg", "end":
		return
	default:
		fatal("unknown op %v", op["op"])
	}
	d.settle()
}

// heal: answer everything OK and deliver everything until every type has an open, drained watch; then the sentinel
func (d *drv) finish() {
	d.release()
	d.settle()
	polling := map[string]bool{}
	for _, t := range d.ts {
		d.f.mu.Lock()
		virgin := d.f.types[t].nrev == 0
		kddEmpty := d.f.types[t].kdd && len(d.f.types[t].store) == 0 && d.f.types[t].open == nil
		d.f.mu.Unlock()
		if kddEmpty {
			// an empty collection that answers with revision 0: no watch can ever be opened from it.  The type is quiet
			// once one more List has shown the present (empty) content and the cache is back at the List gate, polling.
			if !d.reply(t, "emptyrev") {
				fatal("type %s is polling but has an open watch (trace %d)", t, d.log.T)
			}
			d.settle()
			polling[t] = true
			continue
		}
		if virgin {
			// a datastore that has never been written answers List with revision "0": the cache would poll
			// forever and never open a watch.  Give it a first revision.
			d.mutate(t, sentinel, false)
		}
		for i := 0; ; i++ {
			if i > 200 {
				fatal("timeout: type %s did not reach an open watch after 200 healthy answers (trace %d)", t, d.log.T)
			}
			if d.openWatch(t) != nil {
				for d.deliver(t) {
					d.settle()
				}
				break
			}
			d.reply(t, "ok")
			d.settle()
		}
	}
	for _, t := range d.ts {
		if polling[t] {
			continue
		}
		d.mutate(t, sentinel, false)
		if !d.deliver(t) {
			fatal("sentinel could not be delivered for %s", t)
		}
		d.settle()
	}
	// every goroutine of the syncer is parked on something only the driver can provide: nothing more will
	// come out of the callbacks
	d.settle()
	d.cb.mu.Lock()
	d.log.Emit("quiesce", nil)
	d.cb.done = true
	d.cb.mu.Unlock()
	// shut the syncer down (its shutdown deletions are not part of the trace)
	stopped := make(chan struct{})
	go func() { d.s.Stop(); close(stopped) }()
	for {
		select {
		case <-stopped:
			return
		case <-d.cb.seen:
		case <-time.After(bound):
			fatal("timeout: syncer did not stop (trace %d)", d.log.T)
		}
	}
}

func (d *drv) random(t int, rnd *rand.Rand) {
	nk := 2 + rnd.Intn(5)
	keys := make([]string, nk)
	for i := range keys {
		keys[i] = "k" + strconv.Itoa(i+1)
	}
	rt := []string{"never", "always"}[rnd.Intn(2)]
	sd := map[string]bool{"a": rnd.Intn(2) == 0, "b": rnd.Intn(2) == 0}
	d.begin(t, keys, rt, sd)
	steps := 30 + rnd.Intn(60)
	faulty := 5 + rnd.Intn(30) // percentage of faulty answers
	for i := 0; i < steps; i++ {
		ty := d.ts[rnd.Intn(2)]
		if h := rnd.Intn(100); h < 6 {
			d.hold()
		} else if h < 14 {
			d.release()
		}
		switch c := rnd.Intn(100); {
		case c < 30:
			d.mutate(ty, keys[rnd.Intn(nk)], rnd.Intn(3) == 0)
		case c < 60:
			how := "ok"
			if rnd.Intn(100) < 20 {
				how = "emptyrev" // only differs from "ok" when the collection is empty at that moment
			}
			if rnd.Intn(100) < faulty {
				how = []string{"err", "err", "err", "notinstalled", "expired", "refused", "notsupported"}[rnd.Intn(7)]
			}
			d.reply(ty, how)
		case c < 85:
			d.deliver(ty)
		default:
			if rnd.Intn(100) < faulty+10 {
				d.wev(ty, []string{"bookmark", "expired", "error", "error", "closed"}[rnd.Intn(5)])
			} else {
				d.deliver(ty)
			}
		}
		d.settle()
	}
	d.finish()
}

// connloss: sustained connection loss with SendDeletesOnConnFail while the consumer is blocked in a callback, so
// that the deletes and the WaitForDatastore status are consolidated in one pass of the syncer's main loop.
// Inputs only; the verdict ("no update while waiting for the datastore") is the property layer's.
func (d *drv) connloss(t int, rnd *rand.Rand, variant int) {
	keys := []string{"k1", "k2", "k3", "k4"}
	sd := map[string]bool{"a": true, "b": true}
	if variant%8 == 7 {
		sd["b"] = false
	}
	d.begin(t, keys, "always", sd) // watchRetryTimeout always exceeded: a failed List is "sustained" connection loss
	order := []string{"a", "b"}
	if variant%2 == 1 {
		order = []string{"b", "a"}
	}
	for _, ty := range order {
		n := 1 + rnd.Intn(3)
		for i := 0; i < n; i++ {
			d.mutate(ty, keys[i], false)
		}
		d.reply(ty, "ok") // List
		d.settle()
		d.reply(ty, "ok") // Watch
		d.settle()
	}
	withHold := variant%4 != 3
	if withHold {
		// block the consumer inside the callback of one more update
		d.hold()
		d.mutate(order[0], "k4", false)
		d.deliver(order[0])
		d.settle()
	}
	for _, ty := range order {
		if (variant/2)%2 == 0 {
			d.wev(ty, "expired") // full resync
			d.settle()
		} else {
			for i := 0; i < 5; i++ { // MaxErrorsPerRevision watch failures at one revision
				d.wev(ty, "error")
				d.settle()
				if i < 4 {
					d.reply(ty, "ok") // the watch is re-created
					d.settle()
				}
			}
		}
		d.reply(ty, "err") // the re-List fails: deletes (SendDeletesOnConnFail), then WaitForDatastore
		d.settle()
	}
	d.release()
	d.settle()
	if rnd.Intn(2) == 0 {
		// the datastore comes back while nothing has been listed yet
		d.mutate(order[0], "k2", rnd.Intn(2) == 0)
	}
	d.finish()
}

// kddempty: a collection is listed and watched, everything in it is deleted, the watch fails so that a full resync is
// needed, and the re-List is answered the KDD way for an empty collection (no items, revision "0"): the cache polls.
// The vanished resources must have been deleted from the stream by the time the system is quiet.  Inputs only.
func (d *drv) kddempty(t int, rnd *rand.Rand, variant int) {
	keys := []string{"k1", "k2", "k3"}
	rt := []string{"never", "always"}[variant%2]
	d.begin(t, keys, rt, map[string]bool{"a": rnd.Intn(2) == 0, "b": rnd.Intn(2) == 0})
	ty, other := "a", "b"
	if (variant/2)%2 == 1 {
		ty, other = "b", "a"
	}
	n := 1 + rnd.Intn(3)
	for i := 0; i < n; i++ {
		d.mutate(ty, keys[i], false)
	}
	if rnd.Intn(2) == 0 {
		d.mutate(other, "k1", false)
	}
	for _, x := range []string{ty, other} {
		d.reply(x, "ok") // List
		d.settle()
		d.reply(x, "ok") // Watch (or the next poll when the other collection is still virgin)
		d.settle()
	}
	delivered := rnd.Intn(2) == 0
	for i := 0; i < n; i++ {
		d.mutate(ty, keys[i], true)
		if delivered && i == 0 {
			d.deliver(ty) // some deletions are seen through the watch, the rest only by the re-List
			d.settle()
		}
	}
	switch (variant / 4) % 3 {
	case 0:
		d.wev(ty, "expired")
		d.settle()
	case 1:
		for i := 0; i < 5; i++ {
			d.wev(ty, "error")
			d.settle()
			if i < 4 {
				d.reply(ty, "ok")
				d.settle()
			}
		}
	case 2:
		d.wev(ty, "closed")
		d.settle()
		d.reply(ty, "expired") // the watch cannot be re-created from the old revision
		d.settle()
	}
	d.reply(ty, "emptyrev") // the re-List of the now empty collection
	d.settle()
	if rnd.Intn(3) == 0 {
		d.reply(ty, "emptyrev") // one poll later
		d.settle()
	}
	d.finish()
}

func main() {
	logrus.SetOutput(io.Discard)
	logrus.SetLevel(logrus.PanicLevel)
	watchersyncer.MinResyncInterval = 100 * time.Microsecond
	watchersyncer.ListRetryInterval = 100 * time.Microsecond
	watchersyncer.WatchPollInterval = 200 * time.Microsecond
	watchersyncer.MissingAPIRetryTime = 300 * time.Microsecond
	if s := os.Getenv("VERIF_BOUND_S"); s != "" {
		if n, err := strconv.Atoi(s); err == nil {
			bound = time.Duration(n) * time.Second
		}
	}
	env := tracelog.GetEnv()
	lg, err := tracelog.Open(env.OutPath)
	if err != nil {
		fatal("%v", err)
	}
	d := &drv{log: lg}
	behs, err := tracelog.LoadBehaviours(env.BehPath)
	if err != nil {
		fatal("%v", err)
	}
	t := 0
	for _, b := range behs {
		t++
		rt, sd := "never", map[string]bool{}
		if len(b) > 0 && tracelog.Str(b[0]["op"]) == "cfg" {
			rt = tracelog.Str(b[0]["rt"])
			if a, ok := b[0]["sd"].([]any); ok {
				for _, x := range a {
					sd[tracelog.Str(x)] = true
				}
			}
		}
		d.begin(t, []string{"k1", "k2", "k3"}, rt, sd)
		for _, op := range b {
			d.step(op)
		}
		d.finish()
	}
	for i := 0; i < env.N; i++ {
		t++
		rnd := rand.New(rand.NewSource(env.Seed*1000003 + int64(i)))
		scen := os.Getenv("VERIF_MODE") == "connloss"
		if (scen && i%2 == 1) || (!scen && i >= 8 && i < 14) {
			d.kddempty(t, rnd, i/2)
		} else if scen || i < 8 {
			d.connloss(t, rnd, i/2)
		} else {
			d.random(t, rnd)
		}
	}
	if err := lg.Close(); err != nil {
		fatal("%v", err)
	}
}
