// Driver for C37: asks the real naming functions for names and records (name space, identity, name).
//   - TLC behaviours: every suffix over a small alphabet around a small limit -> GetLengthLimitedID and
//     EndpointChainName with that limit;
//   - seeded: policies of every kind / namespace, profiles, endpoints (interface names), policy groups and
//     IP sets (selector / named-port / service ids made with MakeUniqueID, and the well-known ids), with
//     identities near each limit, sharing long common prefixes, starting with the shortening marker, and
//     identities built from the tail of names already produced (an identity that spells a shortened name);
//     for the iptables (28) and nftables (256) limits and the ipset limit (31).
//
// The driver judges nothing: fits / same-identity-same-name / distinctness are checked by T_Names.tla.
package main

import (
	"fmt"
	"math/rand"
	"os"
	"strings"

	"github.com/sirupsen/logrus"

	"github.com/projectcalico/calico/felix/ipsets"
	"github.com/projectcalico/calico/felix/rules"
	"github.com/projectcalico/calico/felix/types"
	"github.com/projectcalico/calico/libcalico-go/lib/hash"
)

import "verifharness/tracelog"

type jc = map[string]any

func chars(s string) []int {
	out := make([]int, 0, len(s))
	for i := 0; i < len(s); i++ {
		out = append(out, int(s[i]))
	}
	return out
}

type drv struct {
	log  *tracelog.Log
	rnd  *rand.Rand
	seen []struct{ dom, kind, pre, name string } // names produced so far in this trace (for feedback identities)
}

// call runs f (the real naming function) and records the answer or the panic
func (d *drv) call(dom, id string, scheme bool, pre, suf string, max int, f func() string) string {
	name, panicked := "", false
	func() {
		defer func() {
			if r := recover(); r != nil {
				panicked = true
			}
		}()
		name = f()
	}()
	d.log.Emit("name", jc{"dom": dom, "id": id, "name": name, "chars": chars(name), "panic": panicked,
		"scheme": scheme, "pre": chars(pre), "suf": chars(suf), "max": max})
	return name
}

func maxFor(nft bool) int {
	if nft {
		return 256
	}
	return 28
}

func domFor(nft bool) string {
	if nft {
		return "nft"
	}
	return "ipt"
}

// ---- the objects ------------------------------------------------------------------------------------

func (d *drv) policy(p types.PolicyID, nft bool) {
	for _, pfx := range []rules.PolicyChainNamePrefix{rules.PolicyInboundPfx, rules.PolicyOutboundPfx} {
		id := fmt.Sprintf("policy|%s|%s|%s|%s", pfx, p.Kind, p.Namespace, p.Name)
		pp := p
		n := d.call(domFor(nft), id, true, string(pfx), p.ID(), maxFor(nft), func() string { return rules.PolicyChainName(pfx, &pp, nft) })
		d.seen = append(d.seen, struct{ dom, kind, pre, name string }{domFor(nft), "policy", string(pfx), n})
	}
}

func (d *drv) profile(name string, nft bool) {
	for _, pfx := range []rules.ProfileChainNamePrefix{rules.ProfileInboundPfx, rules.ProfileOutboundPfx} {
		id := fmt.Sprintf("profile|%s|%s", pfx, name)
		n := d.call(domFor(nft), id, true, string(pfx), name, maxFor(nft), func() string {
			return rules.ProfileChainName(pfx, &types.ProfileID{Name: name}, nft)
		})
		d.seen = append(d.seen, struct{ dom, kind, pre, name string }{domFor(nft), "profile", string(pfx), n})
	}
}

var epPrefixes = []string{rules.WorkloadToEndpointPfx, rules.WorkloadFromEndpointPfx, rules.HostToEndpointPfx,
	rules.HostFromEndpointPfx, rules.HostToEndpointForwardPfx, rules.HostFromEndpointForwardPfx,
	rules.SetEndPointMarkPfx, rules.WorkloadARPPfx}

func (d *drv) endpoint(iface string, nft bool, prefixes []string) {
	for _, pfx := range prefixes {
		id := fmt.Sprintf("endpoint|%s|%s", pfx, iface)
		n := d.call(domFor(nft), id, true, pfx, iface, maxFor(nft), func() string { return rules.EndpointChainName(pfx, iface, maxFor(nft)) })
		d.seen = append(d.seen, struct{ dom, kind, pre, name string }{domFor(nft), "endpoint", pfx, n})
	}
}

func (d *drv) group(dir rules.PolicyDirection, sel string, pols []types.PolicyID) {
	var ids []string
	ptrs := make([]*types.PolicyID, len(pols))
	for i := range pols {
		ptrs[i] = &pols[i]
		ids = append(ids, pols[i].Kind+"/"+pols[i].Namespace+"/"+pols[i].Name)
	}
	id := fmt.Sprintf("group|%s|%s|%s", dir, sel, strings.Join(ids, ","))
	// policy-group chains live in the same tables as the other chains, for both dataplanes
	for _, nft := range []bool{false, true} {
		d.call(domFor(nft), id, false, "", "", 0, func() string {
			g := &rules.PolicyGroup{Direction: dir, Selector: sel, Policies: ptrs}
			return g.ChainName()
		})
	}
}

var v4 = ipsets.NewIPVersionConfig(ipsets.IPFamilyV4, ipsets.IPSetNamePrefix, nil, nil)
var v6 = ipsets.NewIPVersionConfig(ipsets.IPFamilyV6, ipsets.IPSetNamePrefix, nil, nil)

// ipset identities are (kind, content): the set id is made from the content by the real MakeUniqueID,
// exactly as the calculation graph does; well-known sets use their constant id
func (d *drv) ipset(kind, content string) {
	setID := content
	if kind != "wellknown" {
		setID = hash.MakeUniqueID(kind, content)
	}
	for fam, c := range map[string]*ipsets.IPVersionConfig{"4": v4, "6": v6} {
		id := fmt.Sprintf("ipset|%s|%s|%s", fam, kind, content)
		cc := c
		d.call("ipset", id, false, "", "", 0, func() string { return cc.NameForMainIPSet(setID) })
	}
}

// ---- identity generators ------------------------------------------------------------------------------

const nameAlphabet = "abcdefghijklmnopqrstuvwxyz0123456789-."

func (d *drv) word(n int) string {
	b := make([]byte, n)
	for i := range b {
		b[i] = nameAlphabet[d.rnd.Intn(len(nameAlphabet))]
	}
	if n > 0 && (b[0] == '-' || b[0] == '.') {
		b[0] = 'x'
	}
	return string(b)
}

var kinds = []string{"NetworkPolicy", "GlobalNetworkPolicy", "StagedNetworkPolicy", "StagedGlobalNetworkPolicy",
	"StagedKubernetesNetworkPolicy", "KubernetesNetworkPolicy", "KubernetesClusterNetworkPolicy"}

func namespaced(kind string) bool {
	return kind == "NetworkPolicy" || kind == "StagedNetworkPolicy" || kind == "StagedKubernetesNetworkPolicy" ||
		kind == "KubernetesNetworkPolicy"
}

// one trace of chain and set names for one dataplane; lens = interesting total lengths around the limit
func (d *drv) objects(t int, nft bool, mode string) {
	long := mode != "normal"
	d.log.Reset(t, nil)
	d.seen = nil
	limit := maxFor(nft)
	stem := d.word(300) // identities sharing long common prefixes
	nameLens := []int{1, 2, 5, limit - 22, limit - 18, limit - 16, limit - 14, limit - 12, limit - 11, limit - 10, limit - 9, limit - 8, limit - 6, limit}
	if nft {
		// identities that fit the nftables limit verbatim (9+5+20+1+220 < 256) ...
		nameLens = []int{1, 2, 5, 19, 30, 100, 200, 215, 220}
	}
	if long {
		// ... and identities on both sides of it (they need shortening): kept in traces of their own
		nameLens = []int{limit - 40, limit - 30, limit - 22, limit - 12, limit - 9, limit - 8, limit - 7, limit - 3, limit, limit + 1, limit + 40}
	}
	var pols []types.PolicyID
	for _, kind := range kinds {
		if mode == "long-profile" {
			break
		}
		nss := []string{""}
		if namespaced(kind) {
			nss = []string{"default", "ns-" + d.word(3), stem[:20]}
		}
		for _, ns := range nss {
			for _, ln := range nameLens {
				if ln < 1 {
					continue
				}
				p := types.PolicyID{Kind: kind, Namespace: ns, Name: stem[:ln]}
				d.policy(p, nft)
				pols = append(pols, p)
				if d.rnd.Intn(3) == 0 {
					q := types.PolicyID{Kind: kind, Namespace: ns, Name: d.word(ln)}
					d.policy(q, nft)
					pols = append(pols, q)
				}
			}
		}
	}
	// profiles: plain, k8s-style, near the limit, and starting with the marker
	for _, ln := range nameLens {
		if ln < 1 || mode == "long-policy" {
			continue
		}
		d.profile(stem[:ln], nft)
		d.profile("_"+stem[:ln], nft)
		d.profile("kns."+stem[:ln], nft)
	}
	// endpoints: interface names (up to IFNAMSIZ-1 = 15 and, through the API, beyond)
	if !long {
		// (interface names are at most 15 characters for the kernel; the API is also asked for longer ones around the
		// iptables limit, which stay far below the nftables limit)
		for _, ln := range []int{1, 4, 11, 14, 15, 16, 17, 18, 19, 20, 21, 23, 28 - 9, 28 - 8, 28 - 7} {
			if ln < 1 {
				continue
			}
			d.endpoint("cali"+stem[:ln], nft, epPrefixes)
			d.endpoint(stem[:ln], nft, epPrefixes)
			d.endpoint("_"+stem[:ln], nft, epPrefixes)
		}
	}
	// feedback: identities that spell the variable part of a name produced above
	for _, s := range append([]struct{ dom, kind, pre, name string }{}, d.seen...) {
		if !strings.HasPrefix(s.name, s.pre) || len(s.name) == len(s.pre) {
			continue
		}
		tail := s.name[len(s.pre):]
		switch s.kind {
		case "profile":
			d.profile(tail, nft)
		case "endpoint":
			d.endpoint(tail, nft, []string{s.pre})
		case "policy":
			// a profile / endpoint whose name is the policy chain's tail cannot clash: other prefix; ask anyway
			if d.rnd.Intn(4) == 0 && mode == "normal" {
				d.profile(tail, nft)
			}
		}
	}
	if !long && !nft {
		// policy groups
		sels := []string{"all()", "a == 'b'", "has(" + d.word(5) + ")"}
		for _, sel := range sels {
			for _, dir := range []rules.PolicyDirection{rules.PolicyDirectionInbound, rules.PolicyDirectionOutbound} {
				for k := 1; k <= 3; k++ {
					i := d.rnd.Intn(len(pols) - 3)
					g := append([]types.PolicyID{}, pols[i:i+k]...)
					d.group(dir, sel, g)
					if k == 1 {
						for _, q := range pols {
							if q.Name == g[0].Name && q.Namespace == g[0].Namespace && q.Kind != g[0].Kind {
								d.group(dir, sel, []types.PolicyID{q})
								break
							}
						}
					}
					if k > 1 {
						rev := []types.PolicyID{}
						for j := len(g) - 1; j >= 0; j-- {
							rev = append(rev, g[j])
						}
						d.group(dir, sel, rev)
						// same first policy and length, another last policy; same members, tail in another order
						other := append([]types.PolicyID{}, g...)
						other[k-1] = pols[(i+k+1+d.rnd.Intn(5))%len(pols)]
						d.group(dir, sel, other)
						// same members except that the last one is another policy with the same namespace and name
						// (another kind: the staged and the enforced variant of one policy), or the same kind and
						// name in another namespace
						for _, q := range pols {
							last := g[k-1]
							if q.Name == last.Name && q.Namespace == last.Namespace && q.Kind != last.Kind {
								twin := append([]types.PolicyID{}, g...)
								twin[k-1] = q
								d.group(dir, sel, twin)
								break
							}
						}
						for _, q := range pols {
							last := g[k-1]
							if q.Name == last.Name && q.Kind == last.Kind && q.Namespace != last.Namespace {
								twin := append([]types.PolicyID{}, g...)
								twin[k-1] = q
								d.group(dir, sel, twin)
								break
							}
						}
						if k > 2 {
							sw := append([]types.PolicyID{}, g...)
							sw[1], sw[2] = sw[2], sw[1]
							d.group(dir, sel, sw)
						}
					}
				}
			}
		}
		// ip sets
		for _, id := range []string{rules.IPSetIDThisHostIPs, rules.IPSetIDAllHostNets, rules.IPSetIDAllVXLANSourceNets,
			rules.IPSetIDNATOutgoingMasqPools, rules.IPSetIDNetworkPools, rules.IPSetIDAllIstioWEPs, rules.IPSetIDDSCPEndpoints,
			rules.IPSetIDNoFlowOffload} {
			d.ipset("wellknown", id)
		}
		for i := 0; i < 60; i++ {
			sel := fmt.Sprintf("%s == '%s'", d.word(1+d.rnd.Intn(8)), d.word(d.rnd.Intn(6)))
			d.ipset("s", sel)
			if i%3 == 0 {
				d.ipset("n", sel+",tcp,http")
				d.ipset("svc", "default/"+d.word(6))
				d.ipset("svcnoport", "default/"+d.word(6))
			}
		}
	}
	// determinism: ask a sample of everything again, later and in another order
	again := d.rnd.Perm(len(pols))
	for _, i := range again[:min(len(again), 40)] {
		d.policy(pols[i], nft)
	}
}

func (d *drv) replay(t int, beh []map[string]any) {
	for _, op := range beh {
		switch tracelog.Str(op["op"]) {
		case "raw":
			join := func(v any) string {
				s := ""
				for _, c := range v.([]any) {
					s += tracelog.Str(c)
				}
				return s
			}
			pre, max := join(op["pre"]), tracelog.Int(op["max"])
			d.log.Reset(t, nil)
			var ids []string
			for _, x := range op["ids"].([]any) {
				ids = append(ids, join(x))
			}
			dom := fmt.Sprintf("raw:%s:%d", pre, max)
			for _, s := range ids {
				s := s
				d.call(dom, s, true, pre, s, max, func() string { return hash.GetLengthLimitedID(pre, s, max) })
			}
			for i := len(ids) - 1; i >= 0; i-- { // again, in reverse order, through the endpoint-chain wrapper
				s := ids[i]
				d.call(dom, s, true, pre, s, max, func() string { return rules.EndpointChainName(pre, s, max) })
			}
		case "end":
		default:
			panic("unknown op " + tracelog.Str(op["op"]))
		}
	}
}

func main() {
	logrus.SetLevel(logrus.FatalLevel)
	env := tracelog.GetEnv()
	lg, err := tracelog.Open(env.OutPath)
	if err != nil {
		fmt.Fprintln(os.Stderr, err)
		os.Exit(2)
	}
	d := &drv{log: lg}
	behs, err := tracelog.LoadBehaviours(env.BehPath)
	if err != nil {
		fmt.Fprintln(os.Stderr, err)
		os.Exit(2)
	}
	t := 0
	for _, b := range behs {
		t++
		d.replay(t, b)
	}
	for i := 0; i < env.N; i++ {
		d.rnd = rand.New(rand.NewSource(env.Seed*1000003 + int64(i)))
		t++
		d.objects(t, false, "normal")
		t++
		d.objects(t, true, "normal")
	}
	// identities longer than the nftables limit (last, so that everything else is validated first)
	if os.Getenv("VERIF_C37_SKIP_NFT_LONG") != "1" {
		d.rnd = rand.New(rand.NewSource(env.Seed * 31))
		t++
		d.objects(t, true, "long-policy")
		t++
		d.objects(t, true, "long-profile")
	}
	if err := lg.Close(); err != nil {
		fmt.Fprintln(os.Stderr, err)
		os.Exit(2)
	}
}
