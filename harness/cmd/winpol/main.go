// Case generator for C30 (Windows HNS rule flattening).  The code under test needs unexported pieces of
// felix/dataplane/windows (endpointManager, flattenTiers, rewritePriorities), so the real code is run by
// the in-package driver /verif/inpkg/felix/dataplane/windows/verif_winpol_test.go; that file cannot
// import this module, so this binary only GENERATES the cases and hands them over as a file:
//
//	VERIF_OUT   ndjson, one case per line:
//	  {"case":n,"cls":s,
//	   "msgs":[{"k":"ipset|policy|profile|wep","pb":<protojson of the felix/proto message>}],   delivery order
//	   "hostAddrs":[s], "staticFile":s,
//	   "ref":{"sets","eps":[{"tiers","profiles"}],"hostAddrs","polByMsg"}}   PolicySem JSON (specs/winpol/WinSem.tla);
//	         msgs holds one "wep" + one {"k":"apply"} marker per endpoint (ref.eps order)
//	VERIF_SEED / VERIF_N        seeded random cases (classes below)
//	VERIF_NBIG                  cases whose IP sets / port lists hit (exact multiples) or cross the 4000-entries-per-rule
//	                            chunk limit; the first four are the exact multiples (1x / 2x, addresses / ports)
//	VERIF_NMULTI                scenarios with 2-3 endpoints that share policy sets and are programmed one after the other
//	VERIF_BEH                   {"alphabet":{code:rule},"sets":ipsets,"layouts":[...]} enumerated by TLC (specs/winpol/Gen_Win)
//
// Everything exported is a field-by-field copy of the generated protobuf messages; nothing here
// evaluates a rule or knows a verdict.
//
// Random classes (field "cls"):
//
//	rand    supported rules only, 0-3 tiers (the default tier anywhere or absent) x 1-3 policies, tier default
//	        actions, policies that govern one or both directions, 0-2 profiles, host addresses
//	late    as rand, but the IP sets are delivered after the policies (PolicySets.ProcessIpSetUpdate path)
//	staged  as rand, some policies are Staged* kinds (delivered like the calculation graph does)
//	static  as rand, plus a static-rules.json file
//	svcmix  as rand, egress rules that combine a service (ip,port) set with a protocol / source match
//	big     chunking: > 4000 addresses and/or ports per rule
//	multi   2-3 endpoints on one dataplane instance, each seeing a part of a shared pool of policies (ref.eps)
//	regr    fixed cases with the shapes of the defects found in the pinned tree (always generated)
//	enum    TLC-enumerated small layouts
package main

import (
	"bufio"
	"encoding/json"
	"fmt"
	"math/rand"
	"os"
	"strconv"
	"strings"

	"google.golang.org/protobuf/encoding/protojson"
	googleproto "google.golang.org/protobuf/proto"

	"github.com/projectcalico/calico/felix/proto"

	"verifharness/nfparse"
	"verifharness/polgen"
)

type M = map[string]any

type wpol struct {
	kind, ns, name string
	staged         bool
	govIn, govOut  bool
	in, out        []*proto.Rule
}

type wtier struct {
	name, defaultAction string
	pols                []*wpol
}

type wprof struct {
	name    string
	in, out []*proto.Rule
}

// wep is one workload endpoint of a multi-endpoint scenario: its own view (the tiers / policies / profiles
// that select it) of the case's shared policies and profiles.
type wep struct {
	tiers    []*wtier
	profiles []*wprof
}

type wcase struct {
	id       int
	cls      string
	sets     []*polgen.IPSet
	tiers    []*wtier // all policies of the case (each is sent once)
	profiles []*wprof
	// eps: nil = one endpoint to which all tiers / profiles apply; otherwise the endpoints are programmed one
	// after the other (one apply per endpoint) on the SAME dataplane instance
	eps        []*wep
	hostAddrs  []string
	staticFile string
	lateSets   bool
}

// ---------------------------------------------------------------------------------------------
// supported-rule generator

type ruleOpts struct {
	egress bool
	svcmix bool
}

func winRule(rnd *rand.Rand, sg *polgen.SetGen, o ruleOpts) *proto.Rule {
	r := &proto.Rule{}
	r.Action = polgen.Pick(rnd, []string{"allow", "allow", "allow", "deny", "deny", "pass", "pass", "next-tier", "log"})
	if polgen.Chance(rnd, 3) {
		r.Action = ""
	}
	switch rnd.Intn(12) {
	case 0:
		r.IpVersion = proto.IPVersion_IPV6
	case 1, 2:
		r.IpVersion = proto.IPVersion_IPV4
	}
	portProto := false
	switch rnd.Intn(12) {
	case 0, 1, 2, 3:
		r.Protocol = polgen.ProtoByName(polgen.Pick(rnd, []string{"tcp", "tcp", "udp", "sctp"}))
		portProto = true
	case 4:
		r.Protocol = polgen.ProtoByNum(int32(polgen.Pick(rnd, []int{6, 17, 132})))
		portProto = true
	case 5:
		r.Protocol = polgen.ProtoByName("icmp")
	case 6:
		r.Protocol = polgen.ProtoByName(polgen.Pick(rnd, []string{"udplite", "icmpv6"}))
	case 7:
		r.Protocol = polgen.ProtoByNum(int32(polgen.Pick(rnd, []int{1, 4, 47, 50, 255, 2})))
	}
	if o.egress && polgen.Chance(rnd, 10) {
		// destination service: (ip,proto,port) set; the API forbids other destination matches with it
		protos := []int{6, 17}
		if polgen.Chance(rnd, 20) {
			protos = []int{6, 17, 132}
		}
		r.DstIpPortSetIds = []string{sg.PortSet(protos)}
		if !o.svcmix {
			r.Protocol = nil
			return r
		}
		// svcmix: the API allows a protocol and source matches next to destination.services
		switch rnd.Intn(3) {
		case 0:
			r.Protocol = polgen.ProtoByName(polgen.Pick(rnd, []string{"tcp", "udp"}))
		case 1:
			r.Protocol = nil
			r.SrcNet = []string{polgen.Pick(rnd, polgen.CIDRPool[4])}
		default:
			r.Protocol = polgen.ProtoByName(polgen.Pick(rnd, []string{"tcp", "udp"}))
			r.SrcNet = []string{polgen.Pick(rnd, polgen.CIDRPool[4])}
		}
		return r
	}
	r.SrcNet = polgen.RandNets(rnd, 4, 3, false)
	r.DstNet = polgen.RandNets(rnd, 4, 3, false)
	if portProto {
		if polgen.Chance(rnd, 30) {
			r.SrcPorts = polgen.RandPorts(rnd)
		}
		if polgen.Chance(rnd, 60) {
			r.DstPorts = polgen.RandPorts(rnd)
		}
	}
	if polgen.Chance(rnd, 25) {
		r.SrcIpSetIds = []string{sg.NetSet()}
	}
	if polgen.Chance(rnd, 25) {
		r.DstIpSetIds = []string{sg.NetSet()}
	}
	// thin out: fully random conjunctions match almost nothing
	if rnd.Intn(2) == 0 {
		drop := func() bool { return rnd.Intn(3) > 0 }
		if drop() {
			r.SrcNet = nil
		}
		if drop() {
			r.DstNet = nil
		}
		if drop() {
			r.SrcIpSetIds = nil
		}
		if drop() {
			r.DstIpSetIds = nil
		}
		if drop() {
			r.SrcPorts = nil
		}
		if drop() {
			r.IpVersion = 0
		}
	}
	return r
}

func winRules(rnd *rand.Rand, sg *polgen.SetGen, max int, o ruleOpts) []*proto.Rule {
	var out []*proto.Rule
	for i, n := 0, rnd.Intn(max+1); i < n; i++ {
		out = append(out, winRule(rnd, sg, o))
	}
	return out
}

func genRandom(id int, seed int64, cls string) *wcase {
	rnd := rand.New(rand.NewSource(seed))
	sg := polgen.NewSetGen(rnd, 4)
	c := &wcase{id: id, cls: cls, lateSets: cls == "late"}
	svc := cls == "svcmix"
	// tier names: a subsequence of (tier-a, default, tier-z) - the default tier anywhere or absent
	var names []string
	for _, n := range []string{"tier-a", "default", "tier-z"} {
		if rnd.Intn(3) > 0 {
			names = append(names, n)
		}
	}
	if cls == "staged" && len(names) == 0 {
		names = []string{"default"}
	}
	for ti, tn := range names {
		t := &wtier{name: tn, defaultAction: "Deny"}
		if rnd.Intn(5) < 2 {
			t.defaultAction = "Pass"
		}
		for pi, np := 0, 1+rnd.Intn(3); pi < np; pi++ {
			p := &wpol{kind: "GlobalNetworkPolicy", name: fmt.Sprintf("%s.p%d-%d", tn, ti, pi)}
			if rnd.Intn(3) == 0 {
				p.kind, p.ns = "NetworkPolicy", "ns1"
			}
			switch rnd.Intn(5) {
			case 0:
				p.govIn = true
			case 1:
				p.govOut = true
			default:
				p.govIn, p.govOut = true, true
			}
			if cls == "staged" && rnd.Intn(3) == 0 {
				p.staged = true
				if p.ns != "" {
					p.kind = polgen.Pick(rnd, []string{"StagedNetworkPolicy", "StagedKubernetesNetworkPolicy"})
				} else {
					p.kind = "StagedGlobalNetworkPolicy"
				}
			}
			if p.govIn {
				p.in = winRules(rnd, sg, 3, ruleOpts{})
			}
			if p.govOut {
				p.out = winRules(rnd, sg, 3, ruleOpts{egress: true, svcmix: svc})
			}
			t.pols = append(t.pols, p)
		}
		c.tiers = append(c.tiers, t)
	}
	if cls == "staged" {
		// make sure at least one policy is staged
		t := c.tiers[rnd.Intn(len(c.tiers))]
		p := t.pols[rnd.Intn(len(t.pols))]
		if !p.staged {
			p.staged = true
			if p.ns != "" {
				p.kind = "StagedNetworkPolicy"
			} else {
				p.kind = "StagedGlobalNetworkPolicy"
			}
		}
	}
	for i, n := 0, rnd.Intn(3); i < n; i++ {
		pr := &wprof{name: fmt.Sprintf("prof%d", i)}
		if rnd.Intn(3) == 0 {
			// the usual namespace profile: allow everything
			pr.in = []*proto.Rule{{Action: "allow"}}
			pr.out = []*proto.Rule{{Action: "allow"}}
		} else {
			pr.in = winRules(rnd, sg, 2, ruleOpts{})
			pr.out = winRules(rnd, sg, 2, ruleOpts{egress: true, svcmix: svc})
		}
		c.profiles = append(c.profiles, pr)
	}
	switch rnd.Intn(6) {
	case 0:
		c.hostAddrs = []string{}
	case 1:
		c.hostAddrs = []string{"10.1.2.3/32", "192.0.2.1/32"} // inside the CIDR pool the rules draw from
	default:
		c.hostAddrs = []string{"192.0.2.1/32"}
	}
	if cls == "static" {
		c.staticFile = genStatic(rnd)
	}
	c.sets = sg.Sets()
	return c
}

// genMulti: a random pool of tiers / policies / profiles (as genRandom) and 2-3 endpoints that each see a random
// part of it (whole tiers missing, single policies missing, fewer profiles), programmed one after the other on
// one dataplane instance: the same policy set is rendered in a last tier for one endpoint and in a non-last
// tier for another, before and after each other.
func genMulti(id int, seed int64) *wcase {
	c := genRandom(id, seed, "rand")
	c.cls = "multi"
	rnd := rand.New(rand.NewSource(seed ^ 0x5eed))
	for k, n := 0, 2+rnd.Intn(2); k < n; k++ {
		ep := &wep{}
		for _, t := range c.tiers {
			if rnd.Intn(3) == 0 {
				continue
			}
			vt := &wtier{name: t.name, defaultAction: t.defaultAction}
			for _, p := range t.pols {
				if rnd.Intn(4) > 0 {
					vt.pols = append(vt.pols, p)
				}
			}
			if len(vt.pols) > 0 {
				ep.tiers = append(ep.tiers, vt)
			}
		}
		for _, p := range c.profiles {
			if rnd.Intn(4) > 0 {
				ep.profiles = append(ep.profiles, p)
			}
		}
		c.eps = append(c.eps, ep)
	}
	return c
}

func genStatic(rnd *rand.Rand) string {
	type rule struct {
		Type            string `json:"Type"`
		ID              string `json:"ID"`
		Protocol        int    `json:"Protocol"`
		Action          string `json:"Action"`
		Direction       string `json:"Direction"`
		LocalAddresses  string `json:"LocalAddresses,omitempty"`
		RemoteAddresses string `json:"RemoteAddresses,omitempty"`
		LocalPorts      string `json:"LocalPorts,omitempty"`
		RemotePorts     string `json:"RemotePorts,omitempty"`
		RuleType        string `json:"RuleType"`
		Priority        int    `json:"Priority"`
	}
	type pol struct {
		Name string `json:"Name"`
		Rule rule   `json:"Rule"`
	}
	var rules []pol
	for i, n := 0, 1+rnd.Intn(2); i < n; i++ {
		r := rule{Type: "ACL", ID: fmt.Sprintf("static%d", i), Protocol: polgen.Pick(rnd, []int{6, 17, 256}),
			Action: polgen.Pick(rnd, []string{"Allow", "Block"}), Direction: polgen.Pick(rnd, []string{"In", "Out"}),
			RuleType: "Switch", Priority: 200 + 100*i}
		switch rnd.Intn(3) {
		case 0:
			r.RemoteAddresses = polgen.Pick(rnd, []string{"169.254.169.254/32", "10.1.2.0/24", "10.0.0.0/8,192.168.0.0/30"})
		case 1:
			if r.Protocol != 256 {
				r.LocalPorts = polgen.Pick(rnd, []string{"22", "80,443", "1000-1040"})
			}
		default:
			if r.Protocol != 256 {
				r.RemotePorts = polgen.Pick(rnd, []string{"53", "8080-8090"})
			}
			r.LocalAddresses = "10.65.0.2/32"
		}
		rules = append(rules, pol{Name: fmt.Sprintf("rule%d", i), Rule: r})
	}
	b, _ := json.Marshal(M{"Provider": "verif", "Version": "0.1.0", "Rules": rules})
	return string(b)
}

// ---------------------------------------------------------------------------------------------
// chunking cases: more than 4000 entries in an address / port list

func bigNetSet(rnd *rand.Rand, id string, n int, base int) *polgen.IPSet {
	s := &polgen.IPSet{ID: id, Type: "net", Members: []M{}, MemberStrings: []string{}}
	// distinct /32s 10.<base>.x.y plus a few wider CIDRs mixed in
	for i := 0; i < n; i++ {
		var c string
		if i%997 == 5 {
			c = fmt.Sprintf("172.%d.%d.0/24", 16+base%8, i%256)
		} else {
			c = fmt.Sprintf("10.%d.%d.%d", base+i/65536, (i/256)%256, i%256)
		}
		m, err := nfparse.CIDR(c)
		if err != nil {
			panic(err)
		}
		s.Members = append(s.Members, m)
		s.MemberStrings = append(s.MemberStrings, c)
	}
	rnd.Shuffle(len(s.Members), func(i, j int) {
		s.Members[i], s.Members[j] = s.Members[j], s.Members[i]
		s.MemberStrings[i], s.MemberStrings[j] = s.MemberStrings[j], s.MemberStrings[i]
	})
	return s
}

func bigPorts(rnd *rand.Rand, n int) []*proto.PortRange {
	var out []*proto.PortRange
	// disjoint small ranges / single ports spread over 1..65535 in shuffled order
	step := 65000 / n
	if step < 2 {
		step = 2
	}
	for i := 0; i < n; i++ {
		lo := int32(1 + i*step)
		hi := lo
		if step > 2 && rnd.Intn(3) == 0 {
			hi = lo + int32(rnd.Intn(step-1))
		}
		out = append(out, &proto.PortRange{First: lo, Last: hi})
	}
	rnd.Shuffle(len(out), func(i, j int) { out[i], out[j] = out[j], out[i] })
	return out
}

// chunkLimit is the number of addresses / ports felix puts into one HNS rule (policysets.go, ipPortsPerRule);
// only used to choose list lengths AROUND it (exact multiples, one past, a few hundred past).
const chunkLimit = 4000

func genBig(id int, seed int64, variant int) *wcase {
	rnd := rand.New(rand.NewSource(seed))
	c := &wcase{id: id, cls: "big", hostAddrs: []string{"192.0.2.1/32"}}
	over := func() int { return chunkLimit + 1 + rnd.Intn(300) }
	r := &proto.Rule{Action: polgen.Pick(rnd, []string{"allow", "deny", "pass"})}
	r2 := &proto.Rule{Action: "allow", Protocol: polgen.ProtoByName("udp")}
	egress := false
	switch variant % 9 {
	case 0: // source set of EXACTLY one chunk, ingress
		s := bigNetSet(rnd, "s:bigsrc", chunkLimit, 20)
		c.sets = append(c.sets, s)
		r.SrcIpSetIds = []string{s.ID}
	case 1: // destination ports: EXACTLY two chunks, egress
		r.Protocol = polgen.ProtoByName("tcp")
		r.DstPorts = bigPorts(rnd, 2*chunkLimit)
		egress = true
	case 2: // destination set of EXACTLY two chunks, egress
		s := bigNetSet(rnd, "s:bigdst", 2*chunkLimit, 40)
		c.sets = append(c.sets, s)
		r.DstIpSetIds = []string{s.ID}
		egress = true
	case 3: // destination ports: EXACTLY one chunk, ingress
		r.Protocol = polgen.ProtoByName("tcp")
		r.DstPorts = bigPorts(rnd, chunkLimit)
	case 4: // source set just over one chunk, ingress
		s := bigNetSet(rnd, "s:bigsrc", over(), 20)
		c.sets = append(c.sets, s)
		r.SrcIpSetIds = []string{s.ID}
	case 5: // destination ports over one chunk, ingress
		r.Protocol = polgen.ProtoByName("tcp")
		r.DstPorts = bigPorts(rnd, over())
	case 6: // destination set over two chunks, egress
		s := bigNetSet(rnd, "s:bigdst", 2*chunkLimit+1+rnd.Intn(200), 40)
		c.sets = append(c.sets, s)
		r.DstIpSetIds = []string{s.ID}
		egress = true
	case 7: // source set x destination ports: 2 x 2 rules, egress
		s := bigNetSet(rnd, "s:bigsrc", over(), 60)
		c.sets = append(c.sets, s)
		r.SrcIpSetIds = []string{s.ID}
		r.Protocol = polgen.ProtoByName("tcp")
		r.DstPorts = bigPorts(rnd, over())
		egress = true
	default: // source ports and source set at / one below / one over the limit, ingress
		s := bigNetSet(rnd, "s:bigsrc", chunkLimit-1+rnd.Intn(3), 80)
		c.sets = append(c.sets, s)
		r.SrcIpSetIds = []string{s.ID}
		r.Protocol = polgen.ProtoByName("udp")
		r.SrcPorts = bigPorts(rnd, chunkLimit-1+rnd.Intn(3))
	}
	p := &wpol{kind: "GlobalNetworkPolicy", name: "default.big", govIn: !egress, govOut: egress}
	other := &proto.Rule{Action: "allow"} // decides differently from the chunked rule: its exact extent is visible
	if r.Action == "allow" {
		other.Action = "deny"
	}
	if egress {
		p.out = []*proto.Rule{r2, r, other}
	} else {
		p.in = []*proto.Rule{r2, r, other}
	}
	tn := polgen.Pick(rnd, []string{"default", "tier-a"})
	c.tiers = []*wtier{{name: tn, defaultAction: polgen.Pick(rnd, []string{"Deny", "Pass"}), pols: []*wpol{p}}}
	c.profiles = []*wprof{{name: "prof0", in: []*proto.Rule{{Action: "allow"}}, out: []*proto.Rule{{Action: "allow"}}}}
	return c
}

// ---------------------------------------------------------------------------------------------
// fixed regression cases: the shapes of the defects C30 found in the pinned tree (notes/C30.md F1a, F1b, F2),
// present in every run so that a return of any of them is always exercised

func tcpPorts(action string, ports ...int32) *proto.Rule {
	r := &proto.Rule{Action: action, Protocol: polgen.ProtoByName("tcp")}
	for _, p := range ports {
		r.DstPorts = append(r.DstPorts, &proto.PortRange{First: p, Last: p})
	}
	return r
}

func genRegression(id int) []*wcase {
	allowAll := func() []*wprof {
		return []*wprof{{name: "prof0", in: []*proto.Rule{{Action: "allow"}}, out: []*proto.Rule{{Action: "allow"}}}}
	}
	gnp := func(name string, in, out []*proto.Rule) *wpol {
		return &wpol{kind: "GlobalNetworkPolicy", name: name, govIn: in != nil, govOut: out != nil, in: in, out: out}
	}
	staged := func(name string, in []*proto.Rule) *wpol {
		return &wpol{kind: "StagedGlobalNetworkPolicy", name: name, staged: true, govIn: true, in: in}
	}
	mk := func(k int, tiers ...*wtier) *wcase {
		return &wcase{id: id + k, cls: "regr", tiers: tiers, profiles: allowAll(), hostAddrs: []string{"192.0.2.1/32"}}
	}
	return []*wcase{
		// F1a: pass on tcp:80, next tier allows tcp:443 (disjoint port lists), ingress and egress
		mk(1, &wtier{name: "tier-a", defaultAction: "Deny", pols: []*wpol{gnp("tier-a.p", []*proto.Rule{tcpPorts("pass", 80)}, []*proto.Rule{tcpPorts("pass", 80)})}},
			&wtier{name: "default", defaultAction: "Deny", pols: []*wpol{gnp("default.p", []*proto.Rule{tcpPorts("allow", 443)}, []*proto.Rule{tcpPorts("allow", 443)})}}),
		// F1b: both port lists end with the same port
		mk(2, &wtier{name: "tier-a", defaultAction: "Deny", pols: []*wpol{gnp("tier-a.p", []*proto.Rule{tcpPorts("pass", 22, 80)}, nil)}},
			&wtier{name: "default", defaultAction: "Deny", pols: []*wpol{gnp("default.p", []*proto.Rule{tcpPorts("allow", 80)}, nil)}}),
		// F2: a staged policy in front of an enforced one; a tier that holds only a staged policy
		mk(3, &wtier{name: "tier-a", defaultAction: "Deny", pols: []*wpol{staged("tier-a.staged", []*proto.Rule{{Action: "deny"}})}},
			&wtier{name: "default", defaultAction: "Deny", pols: []*wpol{staged("default.staged", []*proto.Rule{{Action: "deny"}}),
				gnp("default.p", []*proto.Rule{tcpPorts("allow", 80)}, nil)}}),
		// F2: the default tier holds only a staged policy: the profiles still apply
		mk(4, &wtier{name: "default", defaultAction: "Deny", pols: []*wpol{staged("default.staged", []*proto.Rule{{Action: "deny"}})}}),
		// shared policy sets: the policy with the pass rule is in the LAST tier of the first endpoint and in a
		// non-last tier of the second one (and the other way round)
		sharedPass(id+5, false),
		sharedPass(id+6, true),
	}
}

func sharedPass(id int, reverse bool) *wcase {
	p := &wpol{kind: "GlobalNetworkPolicy", name: "default.passweb", govIn: true, govOut: true,
		in:  []*proto.Rule{tcpPorts("deny", 22), tcpPorts("pass", 80, 443), {Action: "allow", Protocol: polgen.ProtoByName("udp")}},
		out: []*proto.Rule{tcpPorts("pass", 80), {Action: "deny"}}}
	q := &wpol{kind: "GlobalNetworkPolicy", name: "tier-z.web", govIn: true, govOut: true,
		in: []*proto.Rule{tcpPorts("allow", 80), tcpPorts("deny", 443)}, out: []*proto.Rule{tcpPorts("allow", 80)}}
	def := &wtier{name: "default", defaultAction: "Deny", pols: []*wpol{p}}
	tz := &wtier{name: "tier-z", defaultAction: "Deny", pols: []*wpol{q}}
	prof := &wprof{name: "prof0", in: []*proto.Rule{{Action: "allow"}}, out: []*proto.Rule{{Action: "allow"}}}
	last := &wep{tiers: []*wtier{def}, profiles: []*wprof{prof}}        // default is the last rendered tier
	nonLast := &wep{tiers: []*wtier{def, tz}, profiles: []*wprof{prof}} // default passes on to tier-z
	c := &wcase{id: id, cls: "regr", tiers: []*wtier{def, tz}, profiles: []*wprof{prof}, hostAddrs: []string{"192.0.2.1/32"}}
	if reverse {
		c.eps = []*wep{nonLast, last, nonLast}
	} else {
		c.eps = []*wep{last, nonLast, last}
	}
	return c
}

// ---------------------------------------------------------------------------------------------
// TLC-enumerated layouts: PolicySem rule JSON -> proto.Rule (the inverse field-by-field copy)

func ints(v any) []int {
	var out []int
	for _, x := range v.([]any) {
		out = append(out, int(x.(float64)))
	}
	return out
}

func cidrString(v any) string {
	m := v.(map[string]any)
	oct := ints(m["a"])
	n := int(m["n"].(float64))
	if len(oct) != 4 {
		panic("enumerated alphabets are IPv4 only")
	}
	return fmt.Sprintf("%d.%d.%d.%d/%d", oct[0], oct[1], oct[2], oct[3], n)
}

func ruleFromSem(m map[string]any) *proto.Rule {
	r := &proto.Rule{Action: m["action"].(string), IpVersion: proto.IPVersion(int(m["ipv"].(float64)))}
	if p := int(m["proto"].(float64)); p != 0 {
		r.Protocol = polgen.ProtoByNum(int32(p))
	}
	for _, f := range []string{"notProto"} {
		if int(m[f].(float64)) != 0 {
			panic("enumerated alphabet uses unsupported field " + f)
		}
	}
	for _, f := range []string{"notSrcNets", "notDstNets", "notSrcPorts", "notDstPorts", "srcNamed", "notSrcNamed", "dstNamed",
		"notDstNamed", "notSrcSets", "notDstSets", "icmp", "notIcmp", "dstIpPortSets"} {
		if len(m[f].([]any)) != 0 {
			panic("enumerated alphabet uses field " + f + " (not wired)")
		}
	}
	for _, id := range m["srcSets"].([]any) {
		r.SrcIpSetIds = append(r.SrcIpSetIds, id.(string))
	}
	for _, id := range m["dstSets"].([]any) {
		r.DstIpSetIds = append(r.DstIpSetIds, id.(string))
	}
	for _, c := range m["srcNets"].([]any) {
		r.SrcNet = append(r.SrcNet, cidrString(c))
	}
	for _, c := range m["dstNets"].([]any) {
		r.DstNet = append(r.DstNet, cidrString(c))
	}
	for _, p := range m["srcPorts"].([]any) {
		x := ints(p)
		r.SrcPorts = append(r.SrcPorts, &proto.PortRange{First: int32(x[0]), Last: int32(x[1])})
	}
	for _, p := range m["dstPorts"].([]any) {
		x := ints(p)
		r.DstPorts = append(r.DstPorts, &proto.PortRange{First: int32(x[0]), Last: int32(x[1])})
	}
	return r
}

// layout: {"dir":"In"|"Out","tiers":[{"name":s,"defaultAction":s,"policies":[[code,...],...]}],"profile":[code,...]}
// setsFromSem: the alphabet's IP sets (PolicySem ipsets JSON, "net" sets only) as generator IP sets.
func setsFromSem(sets map[string]any) []*polgen.IPSet {
	var out []*polgen.IPSet
	for _, id := range polgen.SortedKeys(sets) {
		sm := sets[id].(map[string]any)
		if sm["type"].(string) != "net" {
			panic("enumerated alphabets use net sets only")
		}
		s := &polgen.IPSet{ID: id, Type: "net", Members: []M{}, MemberStrings: []string{}}
		for _, mv := range sm["members"].([]any) {
			str := cidrString(mv)
			m, err := nfparse.CIDR(str)
			if err != nil {
				panic(err)
			}
			s.Members = append(s.Members, m)
			s.MemberStrings = append(s.MemberStrings, str)
		}
		out = append(out, s)
	}
	return out
}

func genEnum(id int, lay map[string]any, alphabet map[string]any, sets []*polgen.IPSet) *wcase {
	c := &wcase{id: id, cls: "enum", hostAddrs: []string{"192.0.2.1/32"}, sets: sets}
	in := lay["dir"].(string) == "In"
	rulesOf := func(codes any) []*proto.Rule {
		var out []*proto.Rule
		for _, code := range codes.([]any) {
			rm, ok := alphabet[code.(string)]
			if !ok {
				panic("unknown rule code " + code.(string))
			}
			out = append(out, ruleFromSem(rm.(map[string]any)))
		}
		return out
	}
	for ti, tv := range lay["tiers"].([]any) {
		tm := tv.(map[string]any)
		t := &wtier{name: tm["name"].(string), defaultAction: tm["defaultAction"].(string)}
		for pi, pv := range tm["policies"].([]any) {
			p := &wpol{kind: "GlobalNetworkPolicy", name: fmt.Sprintf("%s.p%d-%d", t.name, ti, pi), govIn: in, govOut: !in}
			if in {
				p.in = rulesOf(pv)
			} else {
				p.out = rulesOf(pv)
			}
			t.pols = append(t.pols, p)
		}
		c.tiers = append(c.tiers, t)
	}
	pr := &wprof{name: "prof0"}
	if in {
		pr.in = rulesOf(lay["profile"])
	} else {
		pr.out = rulesOf(lay["profile"])
	}
	c.profiles = []*wprof{pr}
	return c
}

// ---------------------------------------------------------------------------------------------
// export: protobuf messages (what the calculation graph would send) + PolicySem JSON

func pb(k string, m googleproto.Message) M {
	b, err := protojson.Marshal(m)
	if err != nil {
		panic(err)
	}
	return M{"k": k, "pb": json.RawMessage(b)}
}

func semRulesOrEmpty(rs []*proto.Rule) []M { return polgen.SemRules(rs) }

func semTiersOf(tiers []*wtier) ([]*proto.TierInfo, []M) {
	var tis []*proto.TierInfo
	sem := []M{}
	for _, t := range tiers {
		ti := &proto.TierInfo{Name: t.name, DefaultAction: t.defaultAction}
		st := M{"name": t.name, "defaultAction": t.defaultAction}
		sin, sout := []M{}, []M{}
		for _, p := range t.pols {
			id := &proto.PolicyID{Name: p.name, Namespace: p.ns, Kind: p.kind}
			if p.govIn {
				ti.IngressPolicies = append(ti.IngressPolicies, id)
				sin = append(sin, M{"name": p.name, "staged": p.staged, "rules": semRulesOrEmpty(p.in)})
			}
			if p.govOut {
				ti.EgressPolicies = append(ti.EgressPolicies, id)
				sout = append(sout, M{"name": p.name, "staged": p.staged, "rules": semRulesOrEmpty(p.out)})
			}
		}
		st["ingress"], st["egress"] = sin, sout
		sem = append(sem, st)
		tis = append(tis, ti)
	}
	return tis, sem
}

func semProfilesOf(profiles []*wprof) ([]string, []M) {
	var ids []string
	sem := []M{}
	for _, p := range profiles {
		ids = append(ids, p.name)
		sem = append(sem, M{"name": p.name, "ingress": semRulesOrEmpty(p.in), "egress": semRulesOrEmpty(p.out)})
	}
	return ids, sem
}

func (c *wcase) export() M {
	var setMsgs, polMsgs []M
	for _, s := range c.sets {
		typ := proto.IPSetUpdate_NET
		if s.Type == "ipport" {
			typ = proto.IPSetUpdate_IP_AND_PORT
		}
		setMsgs = append(setMsgs, pb("ipset", &proto.IPSetUpdate{Id: s.ID, Type: typ, Members: s.MemberStrings}))
	}
	type pm struct {
		msg     M
		in, out []*proto.Rule
	}
	var pms []pm
	for _, t := range c.tiers {
		for _, p := range t.pols {
			id := &proto.PolicyID{Name: p.name, Namespace: p.ns, Kind: p.kind}
			pol := &proto.Policy{Namespace: p.ns, Tier: t.name, InboundRules: p.in, OutboundRules: p.out}
			pms = append(pms, pm{msg: pb("policy", &proto.ActivePolicyUpdate{Id: id, Policy: pol}), in: p.in, out: p.out})
		}
	}
	for _, p := range c.profiles {
		pms = append(pms, pm{msg: pb("profile", &proto.ActiveProfileUpdate{Id: &proto.ProfileID{Name: p.name},
			Profile: &proto.Profile{InboundRules: p.in, OutboundRules: p.out}}), in: p.in, out: p.out})
	}
	for _, x := range pms {
		polMsgs = append(polMsgs, x.msg)
	}
	var msgs []M
	if c.lateSets {
		msgs = append(append(msgs, polMsgs...), setMsgs...)
	} else {
		msgs = append(append(msgs, setMsgs...), polMsgs...)
	}
	eps := c.eps
	if eps == nil {
		eps = []*wep{{tiers: c.tiers, profiles: c.profiles}}
	}
	semEps := []M{}
	for k, ep := range eps {
		tis, semTiers := semTiersOf(ep.tiers)
		profIDs, semProfiles := semProfilesOf(ep.profiles)
		msgs = append(msgs, pb("wep", &proto.WorkloadEndpointUpdate{
			Id: &proto.WorkloadEndpointID{OrchestratorId: "k8s", WorkloadId: fmt.Sprintf("ns1/verif-pod%d", k), EndpointId: "eth0"},
			Endpoint: &proto.WorkloadEndpoint{State: "active", Name: fmt.Sprintf("verif-wep%d", k), Tiers: tis, ProfileIds: profIDs,
				Ipv4Nets: []string{fmt.Sprintf("10.65.0.%d/32", 2+k)}}}))
		msgs = append(msgs, M{"k": "apply", "pb": M{}})
		semEps = append(semEps, M{"tiers": semTiers, "profiles": semProfiles})
	}
	polByMsg := M{"_none": M{"ingress": []M{}, "egress": []M{}}}
	off := 0
	if !c.lateSets {
		off = len(setMsgs)
	}
	for i, x := range pms {
		polByMsg["m"+strconv.Itoa(off+i)] = M{"ingress": semRulesOrEmpty(x.in), "egress": semRulesOrEmpty(x.out)}
	}
	hostC := []M{}
	for _, h := range c.hostAddrs {
		m, err := nfparse.CIDR(h)
		if err != nil {
			panic(err)
		}
		hostC = append(hostC, m)
	}
	host := c.hostAddrs
	if host == nil {
		host = []string{}
	}
	return M{"case": c.id, "cls": c.cls, "msgs": msgs, "hostAddrs": host, "staticFile": c.staticFile,
		"ref": M{"sets": polgen.SemIPSets(c.sets), "eps": semEps, "hostAddrs": hostC, "polByMsg": polByMsg}}
}

func envInt(k string, def int) int {
	if v, err := strconv.Atoi(os.Getenv(k)); err == nil {
		return v
	}
	return def
}

func main() {
	seed := int64(envInt("VERIF_SEED", 1))
	n := envInt("VERIF_N", 40)
	nbig := envInt("VERIF_NBIG", 0)
	only := os.Getenv("VERIF_CLASSES") // optional comma separated filter of random classes
	out := os.Getenv("VERIF_OUT")
	if out == "" {
		out = "cases.ndjson"
	}
	f, err := os.Create(out)
	if err != nil {
		panic(err)
	}
	w := bufio.NewWriterSize(f, 1<<20)
	emit := func(c *wcase) {
		b, err := json.Marshal(c.export())
		if err != nil {
			panic(err)
		}
		w.Write(b)
		w.WriteByte('\n')
	}
	id := 0
	if beh := os.Getenv("VERIF_BEH"); beh != "" {
		raw, err := os.ReadFile(beh)
		if err != nil {
			panic(err)
		}
		var b struct {
			Alphabet map[string]any   `json:"alphabet"`
			Sets     map[string]any   `json:"sets"`
			Layouts  []map[string]any `json:"layouts"`
		}
		if err := json.Unmarshal(raw, &b); err != nil {
			panic(err)
		}
		sets := setsFromSem(b.Sets)
		for _, lay := range b.Layouts {
			id++
			emit(genEnum(id, lay, b.Alphabet, sets))
		}
	}
	if os.Getenv("VERIF_NOREGR") == "" {
		for _, c := range genRegression(300000) {
			emit(c)
		}
	}
	id = 100000
	classes := []string{"rand", "rand", "rand", "rand", "rand", "rand", "late", "staged", "static", "svcmix"}
	if only != "" {
		classes = strings.Split(only, ",")
	}
	for i := 0; i < n; i++ {
		id++
		emit(genRandom(id, seed*1000003+int64(i), classes[i%len(classes)]))
	}
	id = 400000
	for i, nm := 0, envInt("VERIF_NMULTI", 0); i < nm; i++ {
		id++
		emit(genMulti(id, seed*15485863+int64(i)))
	}
	id = 200000
	for i := 0; i < nbig; i++ {
		id++
		variant := i // 0..3 = the exact multiples of the chunk size, always present
		if i >= 4 {
			variant = 4 + (int(seed)+i)%5
		}
		emit(genBig(id, seed*7919+int64(i), variant))
	}
	if err := w.Flush(); err != nil {
		panic(err)
	}
	f.Close()
}
