// Driver for C29: Kubernetes NetworkPolicy keeps its Kubernetes meaning after conversion.
//
// The driver only (1) builds typed Kubernetes objects (from TLC-generated behaviours or from a seeded
// generator), (2) runs the REAL conversion code on them
//
//	conversion.K8sNetworkPolicyToCalico / PodToWorkloadEndpoints / NamespaceToProfile / ServiceAccountToProfile
//	updateprocessors.NewNetworkPolicyUpdateProcessor(KindKubernetesNetworkPolicy) / WorkloadEndpoint / Profile
//
// and (3) projects both sides *syntactically* to JSON: the Kubernetes objects as they were handed to
// the converter, and the resulting model.Policy / model.WorkloadEndpoint / profile labels+rules
// (selectors as the real parser's AST, CIDRs as octets + prefix length).  Nothing here evaluates a
// selector, a CIDR, a port or a policy: all judging is done by TLC (specs/k8snp).
//
// Trace shape: {"ev":"reset", cluster, eps, profiles} then one {"ev":"case", nps, pols} per policy set.
package main

import (
	"bytes"
	"encoding/json"
	"fmt"
	"math/rand"
	"net"
	"os"
	"reflect"

	kapiv1 "k8s.io/api/core/v1"
	networkingv1 "k8s.io/api/networking/v1"
	metav1 "k8s.io/apimachinery/pkg/apis/meta/v1"
	"k8s.io/apimachinery/pkg/types"
	"k8s.io/apimachinery/pkg/util/intstr"

	"github.com/projectcalico/api/pkg/lib/numorstring"
	"github.com/sirupsen/logrus"

	"github.com/projectcalico/calico/libcalico-go/lib/backend/k8s/conversion"
	"github.com/projectcalico/calico/libcalico-go/lib/backend/model"
	"github.com/projectcalico/calico/libcalico-go/lib/backend/syncersv1/updateprocessors"
	cnet "github.com/projectcalico/calico/libcalico-go/lib/net"
	"github.com/projectcalico/calico/libcalico-go/lib/selector/parser"

	"verifharness/tracelog"
)

// ---------------------------------------------------------------------------------------------
// JSON projection of the Kubernetes side (also the format of TLC-generated behaviours)
// ---------------------------------------------------------------------------------------------

// LabelMap marshals as a JSON object ({} when empty) and also accepts [] (TLC prints an empty
// function as an empty array).
type LabelMap map[string]string

func (m *LabelMap) UnmarshalJSON(b []byte) error {
	if bytes.Equal(bytes.TrimSpace(b), []byte("[]")) {
		*m = LabelMap{}
		return nil
	}
	x := map[string]string{}
	if err := json.Unmarshal(b, &x); err != nil {
		return err
	}
	*m = x
	return nil
}

func (m LabelMap) MarshalJSON() ([]byte, error) {
	if m == nil {
		return []byte("{}"), nil
	}
	return json.Marshal(map[string]string(m))
}

type ReqJ struct {
	K  string   `json:"k"`
	Op string   `json:"op"`
	Vs []string `json:"vs"`
}

type SelJ struct {
	ML LabelMap `json:"ml"`
	ME []ReqJ   `json:"me"`
}

type CIDRJ struct {
	A []int  `json:"a"`
	N int    `json:"n"`
	S string `json:"s,omitempty"`
}

type IPBJ struct {
	CIDR   CIDRJ   `json:"cidr"`
	Except []CIDRJ `json:"except"`
}

type PeerJ struct {
	PodSel  *SelJ `json:"podSel,omitempty"`
	NsSel   *SelJ `json:"nsSel,omitempty"`
	IPBlock *IPBJ `json:"ipBlock,omitempty"`
}

type PortJ struct {
	Proto *string `json:"proto,omitempty"`
	Port  *int    `json:"port,omitempty"`
	Name  *string `json:"name,omitempty"`
	End   *int    `json:"end,omitempty"`
}

type RuleJ struct {
	Peers []PeerJ `json:"peers"`
	Ports []PortJ `json:"ports"`
}

type NPJ struct {
	Name    string   `json:"name"`
	Ns      string   `json:"ns"`
	PodSel  SelJ     `json:"podSel"`
	Types   []string `json:"types"`
	Ingress []RuleJ  `json:"ingress"`
	Egress  []RuleJ  `json:"egress"`
}

type CPortJ struct {
	Name  string  `json:"name"`
	Proto *string `json:"proto,omitempty"`
	Port  int     `json:"port"`
	C     int     `json:"c"` // container index
}

type PodJ struct {
	Name   string   `json:"name"`
	Ns     string   `json:"ns"`
	IPs    [][]int  `json:"ips"`
	Labels LabelMap `json:"labels"`
	Ports  []CPortJ `json:"ports"`
	SA     string   `json:"sa,omitempty"`
}

type NsJ struct {
	Name   string   `json:"name"`
	Labels LabelMap `json:"labels"`
}

type SAJ struct {
	Name   string   `json:"name"`
	Ns     string   `json:"ns"`
	Labels LabelMap `json:"labels"`
}

type ClusterJ struct {
	Namespaces []NsJ   `json:"namespaces"`
	Pods       []PodJ  `json:"pods"`
	SAs        []SAJ   `json:"sas"`
	Ext        [][]int `json:"ext"`
}

func die(format string, a ...any) {
	fmt.Fprintf(os.Stderr, "k8snp driver: "+format+"\n", a...)
	os.Exit(2)
}

func ipString(a []int) string {
	b := make(net.IP, len(a))
	for i, x := range a {
		b[i] = byte(x)
	}
	return b.String()
}

func octets(ip net.IP) []int {
	if v4 := ip.To4(); v4 != nil {
		ip = v4
	}
	out := make([]int, len(ip))
	for i, x := range ip {
		out[i] = int(x)
	}
	return out
}

// cidrText: the string handed to Kubernetes (as written, host bits kept).
func (c CIDRJ) text() string {
	if c.S != "" {
		return c.S
	}
	return fmt.Sprintf("%s/%d", ipString(c.A), c.N)
}

// projCIDR is the purely syntactic reading of a CIDR string: address octets as written + prefix length.
func projCIDR(s string) CIDRJ {
	ip, ipn, err := net.ParseCIDR(s)
	if err != nil {
		die("unparseable CIDR in generated object: %q", s)
	}
	ones, _ := ipn.Mask.Size()
	return CIDRJ{A: octets(ip), N: ones, S: s}
}

func projIPNet(n net.IPNet) CIDRJ {
	ones, _ := n.Mask.Size()
	return CIDRJ{A: octets(n.IP), N: ones, S: n.String()}
}

// ---------------------------------------------------------------------------------------------
// JSON -> typed Kubernetes objects
// ---------------------------------------------------------------------------------------------

const uidNP = "30316465-6365-4463-ad63-3564622d3638"

func toLabelSelector(s *SelJ, nilMaps bool) *metav1.LabelSelector {
	if s == nil {
		return nil
	}
	ls := &metav1.LabelSelector{}
	if len(s.ML) > 0 || !nilMaps {
		ls.MatchLabels = map[string]string{}
		for k, v := range s.ML {
			ls.MatchLabels[k] = v
		}
	}
	for _, e := range s.ME {
		r := metav1.LabelSelectorRequirement{Key: e.K, Operator: metav1.LabelSelectorOperator(e.Op)}
		if len(e.Vs) > 0 {
			r.Values = append([]string{}, e.Vs...)
		}
		ls.MatchExpressions = append(ls.MatchExpressions, r)
	}
	return ls
}

func buildNP(j *NPJ, nilMaps bool) *networkingv1.NetworkPolicy {
	np := &networkingv1.NetworkPolicy{
		ObjectMeta: metav1.ObjectMeta{Name: j.Name, Namespace: j.Ns, UID: types.UID(uidNP), ResourceVersion: "7"},
	}
	np.Spec.PodSelector = *toLabelSelector(&j.PodSel, nilMaps)
	for _, t := range j.Types {
		np.Spec.PolicyTypes = append(np.Spec.PolicyTypes, networkingv1.PolicyType(t))
	}
	peers := func(ps []PeerJ) []networkingv1.NetworkPolicyPeer {
		var out []networkingv1.NetworkPolicyPeer
		for _, p := range ps {
			q := networkingv1.NetworkPolicyPeer{
				PodSelector:       toLabelSelector(p.PodSel, nilMaps),
				NamespaceSelector: toLabelSelector(p.NsSel, nilMaps),
			}
			if p.IPBlock != nil {
				b := &networkingv1.IPBlock{CIDR: p.IPBlock.CIDR.text()}
				for _, e := range p.IPBlock.Except {
					b.Except = append(b.Except, e.text())
				}
				q.IPBlock = b
			}
			out = append(out, q)
		}
		return out
	}
	ports := func(ps []PortJ) []networkingv1.NetworkPolicyPort {
		var out []networkingv1.NetworkPolicyPort
		for _, p := range ps {
			q := networkingv1.NetworkPolicyPort{}
			if p.Proto != nil {
				pr := kapiv1.Protocol(*p.Proto)
				q.Protocol = &pr
			}
			if p.Port != nil {
				v := intstr.FromInt32(int32(*p.Port))
				q.Port = &v
			} else if p.Name != nil {
				v := intstr.FromString(*p.Name)
				q.Port = &v
			}
			if p.End != nil {
				e := int32(*p.End)
				q.EndPort = &e
			}
			out = append(out, q)
		}
		return out
	}
	for _, r := range j.Ingress {
		np.Spec.Ingress = append(np.Spec.Ingress, networkingv1.NetworkPolicyIngressRule{From: peers(r.Peers), Ports: ports(r.Ports)})
	}
	for _, r := range j.Egress {
		np.Spec.Egress = append(np.Spec.Egress, networkingv1.NetworkPolicyEgressRule{To: peers(r.Peers), Ports: ports(r.Ports)})
	}
	return np
}

func buildPod(j *PodJ) *kapiv1.Pod {
	pod := &kapiv1.Pod{
		ObjectMeta: metav1.ObjectMeta{Name: j.Name, Namespace: j.Ns, UID: types.UID("pod-" + j.Ns + "-" + j.Name), ResourceVersion: "3"},
		Spec:       kapiv1.PodSpec{NodeName: "node1", ServiceAccountName: j.SA},
		Status:     kapiv1.PodStatus{Phase: kapiv1.PodRunning},
	}
	if len(j.Labels) > 0 {
		pod.Labels = map[string]string{}
		for k, v := range j.Labels {
			pod.Labels[k] = v
		}
	}
	for i, ip := range j.IPs {
		s := ipString(ip)
		if i == 0 {
			pod.Status.PodIP = s
		}
		pod.Status.PodIPs = append(pod.Status.PodIPs, kapiv1.PodIP{IP: s})
	}
	nc := 1
	for _, p := range j.Ports {
		if p.C+1 > nc {
			nc = p.C + 1
		}
	}
	for c := 0; c < nc; c++ {
		ctr := kapiv1.Container{Name: fmt.Sprintf("c%d", c), Image: "img"}
		for _, p := range j.Ports {
			if p.C != c {
				continue
			}
			cp := kapiv1.ContainerPort{Name: p.Name, ContainerPort: int32(p.Port)}
			if p.Proto != nil {
				cp.Protocol = kapiv1.Protocol(*p.Proto)
			}
			ctr.Ports = append(ctr.Ports, cp)
		}
		pod.Spec.Containers = append(pod.Spec.Containers, ctr)
	}
	return pod
}

// ---------------------------------------------------------------------------------------------
// typed Kubernetes objects -> JSON projection (what is logged is what the converter was given)
// ---------------------------------------------------------------------------------------------

func projSel(s *metav1.LabelSelector) *SelJ {
	if s == nil {
		return nil
	}
	out := &SelJ{ML: LabelMap{}, ME: []ReqJ{}}
	for k, v := range s.MatchLabels {
		out.ML[k] = v
	}
	for _, e := range s.MatchExpressions {
		out.ME = append(out.ME, ReqJ{K: e.Key, Op: string(e.Operator), Vs: append([]string{}, e.Values...)})
	}
	return out
}

func projPeers(ps []networkingv1.NetworkPolicyPeer) []PeerJ {
	out := []PeerJ{}
	for _, p := range ps {
		q := PeerJ{PodSel: projSel(p.PodSelector), NsSel: projSel(p.NamespaceSelector)}
		if p.IPBlock != nil {
			b := &IPBJ{CIDR: projCIDR(p.IPBlock.CIDR), Except: []CIDRJ{}}
			for _, e := range p.IPBlock.Except {
				b.Except = append(b.Except, projCIDR(e))
			}
			q.IPBlock = b
		}
		out = append(out, q)
	}
	return out
}

func projPorts(ps []networkingv1.NetworkPolicyPort) []PortJ {
	out := []PortJ{}
	for _, p := range ps {
		q := PortJ{}
		if p.Protocol != nil {
			s := string(*p.Protocol)
			q.Proto = &s
		}
		if p.Port != nil {
			if p.Port.Type == intstr.Int {
				v := int(p.Port.IntVal)
				q.Port = &v
			} else {
				s := p.Port.StrVal
				q.Name = &s
			}
		}
		if p.EndPort != nil {
			v := int(*p.EndPort)
			q.End = &v
		}
		out = append(out, q)
	}
	return out
}

func projNP(np *networkingv1.NetworkPolicy) NPJ {
	j := NPJ{Name: np.Name, Ns: np.Namespace, PodSel: *projSel(&np.Spec.PodSelector), Types: []string{}, Ingress: []RuleJ{}, Egress: []RuleJ{}}
	for _, t := range np.Spec.PolicyTypes {
		j.Types = append(j.Types, string(t))
	}
	for _, r := range np.Spec.Ingress {
		j.Ingress = append(j.Ingress, RuleJ{Peers: projPeers(r.From), Ports: projPorts(r.Ports)})
	}
	for _, r := range np.Spec.Egress {
		j.Egress = append(j.Egress, RuleJ{Peers: projPeers(r.To), Ports: projPorts(r.Ports)})
	}
	return j
}

func projPod(pod *kapiv1.Pod) PodJ {
	j := PodJ{Name: pod.Name, Ns: pod.Namespace, IPs: [][]int{}, Labels: LabelMap{}, Ports: []CPortJ{}, SA: pod.Spec.ServiceAccountName}
	for k, v := range pod.Labels {
		j.Labels[k] = v
	}
	for _, ip := range pod.Status.PodIPs {
		j.IPs = append(j.IPs, octets(net.ParseIP(ip.IP)))
	}
	for c, ctr := range pod.Spec.Containers {
		for _, p := range ctr.Ports {
			q := CPortJ{Name: p.Name, Port: int(p.ContainerPort), C: c}
			if p.Protocol != "" {
				s := string(p.Protocol)
				q.Proto = &s
			}
			j.Ports = append(j.Ports, q)
		}
	}
	return j
}

// ---------------------------------------------------------------------------------------------
// model side -> JSON projection (pure syntax)
// ---------------------------------------------------------------------------------------------

func nodeJSON(n parser.Node) map[string]any {
	switch v := n.(type) {
	case *parser.LabelEqValueNode:
		return map[string]any{"op": "eq", "k": v.LabelName.Value(), "v": v.Value.Value()}
	case *parser.LabelNeValueNode:
		return map[string]any{"op": "ne", "k": v.LabelName.Value(), "v": v.Value.Value()}
	case *parser.LabelContainsValueNode:
		return map[string]any{"op": "contains", "k": v.LabelName.Value(), "v": v.Value.Value()}
	case *parser.LabelStartsWithValueNode:
		return map[string]any{"op": "startswith", "k": v.LabelName.Value(), "v": v.Value.Value()}
	case *parser.LabelEndsWithValueNode:
		return map[string]any{"op": "endswith", "k": v.LabelName.Value(), "v": v.Value.Value()}
	case *parser.LabelInSetNode:
		vs := v.Value.StringSlice()
		if vs == nil {
			vs = []string{}
		}
		return map[string]any{"op": "in", "k": v.LabelName.Value(), "vs": vs}
	case *parser.LabelNotInSetNode:
		vs := v.Value.StringSlice()
		if vs == nil {
			vs = []string{}
		}
		return map[string]any{"op": "notin", "k": v.LabelName.Value(), "vs": vs}
	case *parser.HasNode:
		return map[string]any{"op": "has", "k": v.LabelName.Value()}
	case *parser.NotNode:
		return map[string]any{"op": "not", "a": nodeJSON(v.Operand)}
	case *parser.AndNode:
		args := []any{}
		for _, o := range v.Operands {
			args = append(args, nodeJSON(o))
		}
		return map[string]any{"op": "and", "args": args}
	case *parser.OrNode:
		args := []any{}
		for _, o := range v.Operands {
			args = append(args, nodeJSON(o))
		}
		return map[string]any{"op": "or", "args": args}
	case *parser.AllNode:
		return map[string]any{"op": "all"}
	case *parser.GlobalNode:
		return map[string]any{"op": "global"}
	}
	return map[string]any{"op": "unknown", "go": fmt.Sprintf("%T", n)}
}

// selAST parses a model selector string with the real parser (the one Felix uses) and exports its tree.
func selAST(s string) map[string]any {
	sel, err := parser.Parse(s)
	if err != nil {
		return map[string]any{"op": "unparseable", "text": s}
	}
	m := nodeJSON(sel.Root())
	return m
}

func projModelPorts(ps []numorstring.Port) []any {
	out := []any{}
	for _, p := range ps {
		if p.PortName != "" {
			out = append(out, map[string]any{"name": p.PortName})
		} else {
			out = append(out, map[string]any{"lo": int(p.MinPort), "hi": int(p.MaxPort)})
		}
	}
	return out
}

func projNets(ns []*cnet.IPNet) []any {
	out := []any{}
	for _, n := range ns {
		if n == nil {
			out = append(out, map[string]any{"a": []int{}, "n": -1})
			continue
		}
		out = append(out, projIPNet(n.IPNet))
	}
	return out
}

var ruleHandled = map[string]bool{"Action": true, "Protocol": true, "SrcNets": true, "SrcSelector": true, "DstNets": true,
	"DstSelector": true, "DstPorts": true, "NotSrcNets": true, "NotDstNets": true}

// informational pass-through fields that no dataplane match is rendered from
var ruleIgnored = map[string]bool{"OriginalSrcSelector": true, "OriginalSrcNamespaceSelector": true, "OriginalDstSelector": true,
	"OriginalDstNamespaceSelector": true, "OriginalNotSrcSelector": true, "OriginalNotDstSelector": true,
	"OriginalSrcServiceAccountNames": true, "OriginalSrcServiceAccountSelector": true, "OriginalDstServiceAccountNames": true,
	"OriginalDstServiceAccountSelector": true, "Metadata": true}

func projModelRule(r *model.Rule) map[string]any {
	m := map[string]any{"action": r.Action}
	if r.Protocol != nil {
		if r.Protocol.Type == numorstring.NumOrStringNum {
			m["protoNum"] = int(r.Protocol.NumVal)
		} else {
			m["proto"] = r.Protocol.StrVal
		}
	}
	if r.SrcSelector != "" {
		m["srcSel"] = selAST(r.SrcSelector)
	}
	if r.DstSelector != "" {
		m["dstSel"] = selAST(r.DstSelector)
	}
	m["srcNets"] = projNets(r.SrcNets)
	m["dstNets"] = projNets(r.DstNets)
	m["notSrcNets"] = projNets(r.NotSrcNets)
	m["notDstNets"] = projNets(r.NotDstNets)
	m["dstPorts"] = projModelPorts(r.DstPorts)
	other := []string{}
	rv := reflect.ValueOf(*r)
	for i := 0; i < rv.NumField(); i++ {
		name := rv.Type().Field(i).Name
		if ruleHandled[name] || ruleIgnored[name] {
			continue
		}
		if !rv.Field(i).IsZero() {
			other = append(other, name)
		}
	}
	m["other"] = other
	return m
}

func projModelRules(rs []model.Rule) []any {
	out := []any{}
	for i := range rs {
		out = append(out, projModelRule(&rs[i]))
	}
	return out
}

func projModelPolicy(k model.PolicyKey, p *model.Policy) map[string]any {
	m := map[string]any{"name": k.Name, "ns": k.Namespace, "kind": k.Kind, "vns": p.Namespace, "tier": p.Tier,
		"sel": selAST(p.Selector), "selText": p.Selector, "inb": projModelRules(p.InboundRules), "outb": projModelRules(p.OutboundRules)}
	if p.Order != nil {
		o := *p.Order
		if o == float64(int(o)) && o >= 0 && o < 1e9 {
			m["order"] = int(o)
		} else {
			m["order"] = -1
		}
	}
	ts := []string{}
	ts = append(ts, p.Types...)
	m["types"] = ts
	flags := []string{}
	if p.DoNotTrack {
		flags = append(flags, "untracked")
	}
	if p.PreDNAT {
		flags = append(flags, "preDNAT")
	}
	if p.ApplyOnForward {
		flags = append(flags, "applyOnForward")
	}
	if p.StagedAction != nil {
		flags = append(flags, "staged")
	}
	m["flags"] = flags
	return m
}

// ---------------------------------------------------------------------------------------------
// the real conversion
// ---------------------------------------------------------------------------------------------

type world struct {
	conv     conversion.Converter
	npProc   interface{ Process(*model.KVPair) ([]*model.KVPair, error) }
	wepProc  interface{ Process(*model.KVPair) ([]*model.KVPair, error) }
	profProc interface{ Process(*model.KVPair) ([]*model.KVPair, error) }
}

func newWorld() *world {
	return &world{
		conv:     conversion.NewConverter(),
		npProc:   updateprocessors.NewNetworkPolicyUpdateProcessor(model.KindKubernetesNetworkPolicy),
		wepProc:  updateprocessors.NewWorkloadEndpointUpdateProcessor(),
		profProc: updateprocessors.NewProfileUpdateProcessor(),
	}
}

func (w *world) profile(kvp *model.KVPair, err error, what string) map[string]any {
	if err != nil {
		return map[string]any{"name": what, "error": err.Error()}
	}
	out, err := w.profProc.Process(kvp)
	if err != nil {
		return map[string]any{"name": what, "error": err.Error()}
	}
	m := map[string]any{"labels": map[string]string{}, "inb": []any{}, "outb": []any{}}
	for _, o := range out {
		switch k := o.Key.(type) {
		case model.ProfileLabelsKey:
			m["name"] = k.Name
			if l, ok := o.Value.(map[string]string); ok && l != nil {
				m["labels"] = l
			}
		case model.ProfileRulesKey:
			m["name"] = k.Name
			if pr, ok := o.Value.(*model.ProfileRules); ok && pr != nil {
				m["inb"] = projModelRules(pr.InboundRules)
				m["outb"] = projModelRules(pr.OutboundRules)
			}
		}
	}
	return m
}

// convertCluster returns the projected typed cluster (as given to the converter) and the converted side.
func (w *world) convertCluster(c *ClusterJ) map[string]any {
	nss := []NsJ{}
	profiles := []any{}
	for i, n := range c.Namespaces {
		ns := &kapiv1.Namespace{ObjectMeta: metav1.ObjectMeta{Name: n.Name, UID: types.UID(fmt.Sprintf("30316465-6365-4463-ad63-3564622d36%02x", i)), ResourceVersion: "2"}}
		if len(n.Labels) > 0 {
			ns.Labels = map[string]string{}
			for k, v := range n.Labels {
				ns.Labels[k] = v
			}
		}
		pj := NsJ{Name: ns.Name, Labels: LabelMap{}}
		for k, v := range ns.Labels {
			pj.Labels[k] = v
		}
		nss = append(nss, pj)
		kvp, err := w.conv.NamespaceToProfile(ns)
		profiles = append(profiles, w.profile(kvp, err, "ns:"+n.Name))
	}
	sas := []SAJ{}
	for i, s := range c.SAs {
		sa := &kapiv1.ServiceAccount{ObjectMeta: metav1.ObjectMeta{Name: s.Name, Namespace: s.Ns, UID: types.UID(fmt.Sprintf("40316465-6365-4463-ad63-3564622d36%02x", i))}}
		if len(s.Labels) > 0 {
			sa.Labels = map[string]string{}
			for k, v := range s.Labels {
				sa.Labels[k] = v
			}
		}
		pj := SAJ{Name: sa.Name, Ns: sa.Namespace, Labels: LabelMap{}}
		for k, v := range sa.Labels {
			pj.Labels[k] = v
		}
		sas = append(sas, pj)
		kvp, err := w.conv.ServiceAccountToProfile(sa)
		profiles = append(profiles, w.profile(kvp, err, "sa:"+s.Name))
	}
	pods := []PodJ{}
	eps := []any{}
	for i := range c.Pods {
		pod := buildPod(&c.Pods[i])
		pods = append(pods, projPod(pod))
		kvps, err := w.conv.PodToWorkloadEndpoints(pod)
		if err != nil {
			eps = append(eps, map[string]any{"pod": pod.Name, "error": err.Error()})
			continue
		}
		for _, kvp := range kvps {
			out, err := w.wepProc.Process(kvp)
			if err != nil {
				eps = append(eps, map[string]any{"pod": pod.Name, "error": err.Error()})
				continue
			}
			for _, o := range out {
				wep, ok := o.Value.(*model.WorkloadEndpoint)
				if !ok || wep == nil {
					continue // filtered out (no IPs): the endpoint does not exist for Felix
				}
				nets := []any{}
				for _, n := range wep.IPv4Nets {
					nets = append(nets, projIPNet(n.IPNet))
				}
				for _, n := range wep.IPv6Nets {
					nets = append(nets, projIPNet(n.IPNet))
				}
				labels := map[string]string{}
				for k, v := range wep.Labels.AllStrings() {
					labels[k] = v
				}
				ports := []any{}
				for _, p := range wep.Ports {
					pm := map[string]any{"name": p.Name, "port": int(p.Port)}
					if p.Protocol.Type == numorstring.NumOrStringNum {
						pm["protoNum"] = int(p.Protocol.NumVal)
					} else {
						pm["proto"] = p.Protocol.StrVal
					}
					ports = append(ports, pm)
				}
				profs := []string{}
				profs = append(profs, wep.ProfileIDs...)
				eps = append(eps, map[string]any{"key": fmt.Sprint(o.Key), "nets": nets, "labels": labels, "profiles": profs, "ports": ports})
			}
		}
	}
	ext := c.Ext
	if ext == nil {
		ext = [][]int{}
	}
	return map[string]any{"namespaces": nss, "sas": sas, "pods": pods, "ext": ext, "eps": eps, "profiles": profiles}
}

// safeConvertNP: a panic of the converter on a valid object is recorded (as a missing policy with the panic
// text), which the specification never accepts - it is an observation about the code, not a driver failure.
func (w *world) safeConvertNP(np *networkingv1.NetworkPolicy) (kvp *model.KVPair, err error) {
	defer func() {
		if r := recover(); r != nil {
			kvp, err = nil, fmt.Errorf("PANIC in K8sNetworkPolicyToCalico: %v", r)
		}
	}()
	return w.conv.K8sNetworkPolicyToCalico(np)
}

func (w *world) convertCase(nps []NPJ, nilMaps bool) map[string]any {
	logged := []NPJ{}
	pols := []any{}
	errs := []string{}
	for i := range nps {
		np := buildNP(&nps[i], nilMaps)
		logged = append(logged, projNP(np))
		kvp, err := w.safeConvertNP(np)
		if err != nil {
			errs = append(errs, err.Error())
		}
		if kvp == nil {
			// the real client propagates this as a failed list/watch event: no policy reaches Felix
			pols = append(pols, map[string]any{"name": np.Name, "missing": true})
			continue
		}
		out, perr := w.npProc.Process(kvp)
		if perr != nil {
			pols = append(pols, map[string]any{"name": np.Name, "missing": true, "error": perr.Error()})
			continue
		}
		for _, o := range out {
			k, ok := o.Key.(model.PolicyKey)
			p, ok2 := o.Value.(*model.Policy)
			if !ok || !ok2 || p == nil {
				pols = append(pols, map[string]any{"name": np.Name, "missing": true})
				continue
			}
			pols = append(pols, projModelPolicy(k, p))
		}
	}
	return map[string]any{"nps": logged, "pols": pols, "convErrs": errs, "nilMaps": nilMaps}
}

// ---------------------------------------------------------------------------------------------
// seeded generator
// ---------------------------------------------------------------------------------------------

type gen struct {
	r       *rand.Rand
	v6      bool
	blocks  []IPBJ // ipBlock pool of this trace
	nsNames []string
	cl      *ClusterJ
}

func (g *gen) somePodLabels(ns string) LabelMap {
	var c []LabelMap
	for _, p := range g.cl.Pods {
		if ns == "" || p.Ns == ns {
			c = append(c, p.Labels)
		}
	}
	if len(c) == 0 {
		return nil
	}
	return c[g.r.Intn(len(c))]
}

func (g *gen) someNsLabels() LabelMap {
	return g.cl.Namespaces[g.r.Intn(len(g.cl.Namespaces))].Labels
}

func sp(s string) *string { return &s }
func ip(i int) *int       { return &i }

var podKeys = []string{"app", "tier", "env"}
var podVals = []string{"a", "b", "c"}
var nsKeys = []string{"team", "stage", "kubernetes.io/metadata.name"}
var nsVals = []string{"x", "y"}
var portNames = []string{"http", "dns", "metrics"}
var portNums = []int{80, 81, 82, 8080, 53} // 80/82: a gap of one port that range coalescing must not close
var protos = []string{"TCP", "UDP", "SCTP"}

func (g *gen) pick(ss []string) string { return ss[g.r.Intn(len(ss))] }

func (g *gen) labels(keys, vals []string, p float64) LabelMap {
	m := LabelMap{}
	for _, k := range keys {
		if g.r.Float64() < p {
			if k == "kubernetes.io/metadata.name" {
				continue
			}
			v := g.pick(vals)
			if g.r.Intn(25) == 0 {
				v = ""
			}
			m[k] = v
		}
	}
	return m
}

// selector draws a label selector over (keys, vals).  `target` (may be nil) biases the draw towards
// selectors that match that label map - otherwise most random selectors select nothing and the case is
// vacuous.  This is generation strategy only; nothing here is used to judge.
func (g *gen) selector(keys, vals []string, target LabelMap) SelJ {
	s := SelJ{ML: LabelMap{}, ME: []ReqJ{}}
	if g.r.Intn(5) == 0 {
		return s // empty selector: everything
	}
	biased := target != nil && g.r.Intn(5) > 0
	var present, absent []string
	for _, k := range keys {
		if _, ok := target[k]; ok {
			present = append(present, k)
		} else {
			absent = append(absent, k)
		}
	}
	anyVal := func(k string) string {
		if k == "kubernetes.io/metadata.name" {
			return g.pick(g.nsNames)
		}
		if g.r.Intn(25) == 0 {
			return ""
		}
		return g.pick(vals)
	}
	otherVal := func(k string) string {
		for i := 0; i < 8; i++ {
			if v := anyVal(k); v != target[k] {
				return v
			}
		}
		return "zz"
	}
	nml := []int{0, 1, 1, 2}[g.r.Intn(4)]
	for i := 0; i < nml; i++ {
		if biased && len(present) > 0 {
			k := g.pick(present)
			s.ML[k] = target[k]
		} else {
			k := g.pick(keys)
			s.ML[k] = anyVal(k)
		}
	}
	nme := []int{0, 0, 1, 1, 2}[g.r.Intn(5)]
	for i := 0; i < nme; i++ {
		op := g.r.Intn(4)
		k := g.pick(keys)
		var vs []string
		if biased {
			switch {
			case op == 0 && len(present) > 0: // In, containing the target's value
				k = g.pick(present)
				vs = []string{target[k]}
				if g.r.Intn(2) == 0 {
					vs = append(vs, otherVal(k))
					g.r.Shuffle(len(vs), func(a, b int) { vs[a], vs[b] = vs[b], vs[a] })
				}
			case op == 1: // NotIn, other values (or a key the target lacks)
				vs = []string{otherVal(k)}
				if g.r.Intn(2) == 0 {
					vs = append(vs, otherVal(k))
				}
			case op == 2 && len(present) > 0:
				k = g.pick(present)
			case op == 3 && len(absent) > 0:
				k = g.pick(absent)
			default:
				op = 1
				vs = []string{otherVal(k)}
			}
		} else if op < 2 {
			vs = []string{anyVal(k)}
			if g.r.Intn(2) == 0 {
				vs = append(vs, anyVal(k))
			}
		}
		if vs == nil {
			vs = []string{}
		}
		s.ME = append(s.ME, ReqJ{K: k, Op: []string{"In", "NotIn", "Exists", "DoesNotExist"}[op], Vs: vs})
	}
	return s
}

// v4 bases: the pod network 10.0.<ns>.<pod>, and an "outside" range
type base struct {
	a []int
	n int
}

func (g *gen) bases() []base {
	if g.v6 {
		fd := func(rest ...int) []int {
			a := make([]int, 16)
			a[0] = 0xfd
			copy(a[2:], rest)
			return a
		}
		return []base{
			{fd(), 16}, {fd(0, 0, 0, 0, 0, 0), 64}, {fd(0, 0, 0, 0, 0, 1), 64}, {fd(0, 0, 0, 0, 0, 9), 64},
			{make([]int, 16), 0}, {fd(0, 0, 0, 0, 0, 9, 0, 0, 0, 0, 0, 0, 0, 0x10), 124},
		}
	}
	return []base{
		{[]int{10, 0, 0, 0}, 16}, {[]int{10, 0, 0, 0}, 24}, {[]int{10, 0, 1, 0}, 24}, {[]int{10, 0, 2, 0}, 23},
		{[]int{192, 168, 4, 0}, 22}, {[]int{192, 168, 0, 0}, 16}, {[]int{0, 0, 0, 0}, 0}, {[]int{10, 0, 1, 2}, 32},
		{[]int{192, 168, 5, 16}, 28}, {[]int{10, 0, 0, 0}, 8},
	}
}

// subCIDR returns a strict sub-prefix of b (longer prefix, random aligned offset biased to the edges)
func (g *gen) subCIDR(b base) (CIDRJ, bool) {
	width := 8 * len(b.a)
	if b.n >= width {
		return CIDRJ{}, false
	}
	n := b.n + 1 + g.r.Intn(min(width-b.n, 9))
	a := append([]int{}, b.a...)
	// choose the bits b.n..n-1: all zero, all one, or random
	mode := g.r.Intn(3)
	for bit := b.n; bit < n; bit++ {
		v := 0
		switch mode {
		case 1:
			v = 1
		case 2:
			v = g.r.Intn(2)
		}
		if v == 1 {
			a[bit/8] |= 1 << (7 - bit%8)
		}
	}
	// sometimes leave host bits set in the written form (accepted by Kubernetes' sloppy CIDR parsing)
	if g.r.Intn(8) == 0 && n < width {
		a[len(a)-1] |= 1
	}
	return CIDRJ{A: a, N: n}, true
}

func (g *gen) ipBlock() IPBJ {
	bs := g.bases()
	b := bs[g.r.Intn(len(bs))]
	blk := IPBJ{CIDR: CIDRJ{A: append([]int{}, b.a...), N: b.n}, Except: []CIDRJ{}}
	if g.r.Intn(8) == 0 && b.n < 8*len(b.a) {
		blk.CIDR.A[len(b.a)-1] |= 1 // host bits set in the written form
	}
	ne := []int{0, 1, 1, 2}[g.r.Intn(4)]
	for i := 0; i < ne; i++ {
		if e, ok := g.subCIDR(b); ok {
			blk.Except = append(blk.Except, e)
		}
	}
	return blk
}

func (g *gen) peer(ownNs string) PeerJ {
	switch g.r.Intn(8) {
	case 0, 1:
		s := g.selector(podKeys, podVals, g.somePodLabels(ownNs))
		return PeerJ{PodSel: &s}
	case 2, 3:
		s := g.selector(nsKeys, nsVals, g.someNsLabels())
		return PeerJ{NsSel: &s}
	case 4, 5:
		s := g.selector(podKeys, podVals, g.somePodLabels(""))
		n := g.selector(nsKeys, nsVals, g.someNsLabels())
		return PeerJ{PodSel: &s, NsSel: &n}
	default:
		b := g.blocks[g.r.Intn(len(g.blocks))]
		return PeerJ{IPBlock: &b}
	}
}

func (g *gen) port() PortJ {
	p := PortJ{}
	if g.r.Intn(5) < 3 {
		p.Proto = sp(g.pick(protos))
	}
	switch g.r.Intn(7) {
	case 0:
		// protocol only (all ports of the protocol)
	case 1, 2:
		p.Port = ip(portNums[g.r.Intn(len(portNums))])
	case 3, 4:
		lo := portNums[g.r.Intn(len(portNums))]
		p.Port = ip(lo)
		p.End = ip(lo + []int{0, 1, 2, 7000, 65535 - lo}[g.r.Intn(5)])
	default:
		p.Name = sp(g.pick(portNames))
	}
	return p
}

func (g *gen) rule(ownNs string) RuleJ {
	r := RuleJ{Peers: []PeerJ{}, Ports: []PortJ{}}
	for i, n := 0, []int{0, 1, 1, 2, 3}[g.r.Intn(5)]; i < n; i++ {
		r.Peers = append(r.Peers, g.peer(ownNs))
	}
	for i, n := 0, []int{0, 1, 1, 2, 3}[g.r.Intn(5)]; i < n; i++ {
		r.Ports = append(r.Ports, g.port())
	}
	return r
}

func (g *gen) policy(name string, undefaulted bool) NPJ {
	ns := g.cl.Pods[g.r.Intn(len(g.cl.Pods))].Ns // a namespace that has pods
	if g.r.Intn(10) == 0 {
		ns = g.pick(g.nsNames)
	}
	np := NPJ{Name: name, Ns: ns, PodSel: g.selector(podKeys, podVals, g.somePodLabels(ns)), Types: []string{}, Ingress: []RuleJ{}, Egress: []RuleJ{}}
	switch g.r.Intn(7) {
	case 0:
		// policyTypes absent
	case 1, 2:
		np.Types = []string{"Ingress"}
	case 3, 4:
		np.Types = []string{"Egress"}
	case 5:
		np.Types = []string{"Ingress", "Egress"}
	case 6:
		np.Types = []string{"Egress", "Ingress"}
	}
	for i, n := 0, []int{0, 1, 1, 2}[g.r.Intn(4)]; i < n; i++ {
		np.Ingress = append(np.Ingress, g.rule(ns))
	}
	// An object read from the API server always has policyTypes filled in (defaulting), so a policy without
	// policyTypes but with egress rules is only generated on request (VERIF_C29_UNDEFAULTED=1, see notes/C29.md).
	if len(np.Types) > 0 || undefaulted {
		for i, n := 0, []int{0, 1, 1, 2}[g.r.Intn(4)]; i < n; i++ {
			np.Egress = append(np.Egress, g.rule(ns))
		}
	}
	return np
}

func (g *gen) cluster() ClusterJ {
	c := ClusterJ{SAs: []SAJ{}, Ext: [][]int{}}
	for i, n := range g.nsNames {
		l := g.labels(nsKeys, nsVals, 0.6)
		if g.r.Intn(3) > 0 {
			l["kubernetes.io/metadata.name"] = n
		}
		c.Namespaces = append(c.Namespaces, NsJ{Name: n, Labels: l})
		if i == 0 {
			c.SAs = append(c.SAs, SAJ{Name: "sa1", Ns: n, Labels: LabelMap{"role": "r"}})
		}
	}
	npods := 5 + g.r.Intn(3)
	for i := 0; i < npods; i++ {
		nsi := i % len(g.nsNames)
		if g.r.Intn(4) == 0 {
			nsi = g.r.Intn(len(g.nsNames))
		}
		p := PodJ{Name: fmt.Sprintf("p%d", i), Ns: g.nsNames[nsi], Labels: g.labels(podKeys, podVals, 0.6), Ports: []CPortJ{}}
		p.IPs = [][]int{{10, 0, nsi, i + 1}}
		if g.v6 {
			a := make([]int, 16)
			a[0], a[7], a[15] = 0xfd, nsi, i+1
			p.IPs = append(p.IPs, a)
		}
		if nsi == 0 && g.r.Intn(2) == 0 {
			p.SA = "sa1"
		}
		used := map[string]bool{}
		for k, n := 0, g.r.Intn(4); k < n; k++ {
			cp := CPortJ{Name: g.pick(portNames), Port: portNums[g.r.Intn(len(portNums))], C: g.r.Intn(2)}
			if g.r.Intn(3) > 0 {
				cp.Proto = sp(g.pick(protos))
			}
			// "each named port in a pod must have a unique name"
			if used[cp.Name] {
				continue
			}
			used[cp.Name] = true
			p.Ports = append(p.Ports, cp)
		}
		c.Pods = append(c.Pods, p)
	}
	// three external addresses at the edges of the trace's ipBlock pool (first/last of a cidr or except,
	// or one step outside); TLC adds the complete edge set of every CIDR of every case on its own.
	for tries := 0; len(c.Ext) < 3; tries++ {
		b := g.blocks[g.r.Intn(len(g.blocks))]
		cs := append([]CIDRJ{b.CIDR}, b.Except...)
		cc := cs[g.r.Intn(len(cs))]
		a := edgeAddr(cc, g.r.Intn(4))
		if a == nil || tries > 20 { // no (more) free edge address: any outside address
			a = []int{192, 168, 200, 1 + g.r.Intn(200)}
			if g.v6 {
				a = make([]int, 16)
				a[0], a[1], a[15] = 0x20, 0x01, 1+g.r.Intn(200)
			}
		}
		dup := false
		for _, p := range c.Pods {
			for _, q := range p.IPs {
				dup = dup || reflect.DeepEqual(q, a)
			}
		}
		for _, q := range c.Ext {
			dup = dup || reflect.DeepEqual(q, a)
		}
		if !dup {
			c.Ext = append(c.Ext, a)
		}
	}
	return c
}

// edgeAddr: which = 0 first address, 1 last address, 2 one below first, 3 one above last (nil on wrap-around)
func edgeAddr(c CIDRJ, which int) []int {
	a := append([]int{}, c.A...)
	for bit := c.N; bit < 8*len(a); bit++ {
		if which == 0 || which == 2 {
			a[bit/8] &^= 1 << (7 - bit%8)
		} else {
			a[bit/8] |= 1 << (7 - bit%8)
		}
	}
	step := 0
	if which == 2 {
		step = -1
	} else if which == 3 {
		step = 1
	}
	for i := len(a) - 1; i >= 0 && step != 0; i-- {
		a[i] += step
		if a[i] < 0 {
			a[i] = 255
		} else if a[i] > 255 {
			a[i] = 0
		} else {
			step = 0
		}
	}
	if step != 0 {
		return nil
	}
	return a
}

// ---------------------------------------------------------------------------------------------

func remarshal(in any, out any) {
	b, err := json.Marshal(in)
	if err != nil {
		die("remarshal: %v", err)
	}
	if err := json.Unmarshal(b, out); err != nil {
		die("behaviour does not have the expected shape: %v\n%s", err, string(b))
	}
}

func normNP(j *NPJ) {
	fix := func(rs []RuleJ) []RuleJ {
		if rs == nil {
			return []RuleJ{}
		}
		return rs
	}
	j.Ingress, j.Egress = fix(j.Ingress), fix(j.Egress)
}

func main() {
	logrus.SetLevel(logrus.PanicLevel) // the converter's warnings are not part of the observation
	env := tracelog.GetEnv()
	lg, err := tracelog.Open(env.OutPath)
	if err != nil {
		die("%v", err)
	}
	w := newWorld()
	behs, err := tracelog.LoadBehaviours(env.BehPath)
	if err != nil {
		die("%v", err)
	}
	t := 0
	// leg A: TLC-enumerated small scope. A behaviour is [cluster record, case record, case record ...]
	for _, b := range behs {
		t++
		for i, rec := range b {
			switch tracelog.Str(rec["op"]) {
			case "cluster":
				if i != 0 {
					die("cluster record must come first")
				}
				var c ClusterJ
				remarshal(rec, &c)
				lg.Reset(t, w.convertCluster(&c))
			case "case":
				var cs struct {
					NPs     []NPJ `json:"nps"`
					NilMaps *bool `json:"nilMaps"`
				}
				remarshal(rec, &cs)
				for k := range cs.NPs {
					normNP(&cs.NPs[k])
				}
				nilMaps := (t+i)%2 == 0
				if cs.NilMaps != nil {
					nilMaps = *cs.NilMaps // replay of a recorded case
				}
				lg.Emit("case", w.convertCase(cs.NPs, nilMaps))
			default:
				die("unknown behaviour record %v", rec["op"])
			}
		}
	}
	// seeded random leg
	undefaulted := os.Getenv("VERIF_C29_UNDEFAULTED") == "1"
	casesPer := 4
	for i := 0; i < env.N; i++ {
		t++
		g := &gen{r: rand.New(rand.NewSource(env.Seed*1000003 + int64(i))), nsNames: []string{"ns-a", "ns-b", "ns-c"}}
		g.v6 = g.r.Intn(5) == 0
		for k, n := 0, 2+g.r.Intn(2); k < n; k++ {
			g.blocks = append(g.blocks, g.ipBlock())
		}
		c := g.cluster()
		g.cl = &c
		lg.Reset(t, w.convertCluster(&c))
		for k := 0; k < casesPer; k++ {
			nps := []NPJ{g.policy("np1", undefaulted)}
			if g.r.Intn(3) == 0 {
				nps = append(nps, g.policy("np2", undefaulted))
			}
			lg.Emit("case", w.convertCase(nps, g.r.Intn(2) == 0))
		}
	}
	if err := lg.Close(); err != nil {
		die("%v", err)
	}
}
