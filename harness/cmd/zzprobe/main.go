package main

import (
	"fmt"
	"strings"

	"github.com/projectcalico/calico/felix/ip"
	"github.com/projectcalico/calico/felix/rules"
	"github.com/projectcalico/calico/felix/types"
	"github.com/projectcalico/calico/libcalico-go/lib/hash"
)

func try(name string, f func()) {
	defer func() {
		if r := recover(); r != nil {
			fmt.Println(name, "PANIC:", r)
		}
	}()
	f()
}

func main() {
	try("nft-long", func() {
		id := &types.PolicyID{Name: "knp.default." + strings.Repeat("a", 253), Namespace: "default", Kind: "KubernetesNetworkPolicy"}
		fmt.Println(rules.PolicyChainName(rules.PolicyInboundPfx, id, true))
	})
	try("ipt-long", func() {
		id := &types.PolicyID{Name: "knp.default." + strings.Repeat("a", 253), Namespace: "default", Kind: "KubernetesNetworkPolicy"}
		fmt.Println(rules.PolicyChainName(rules.PolicyInboundPfx, id, false))
	})
	try("empty", func() {
		fmt.Println(hash.GetLengthLimitedID("p-", "", 10), hash.GetLengthLimitedID("p-", "_", 10))
	})
	try("coveredby-empty", func() {
		t := ip.NewCIDRTrie()
		fmt.Println(t.CoveredBy(ip.MustParseCIDROrIP("10.0.0.0/8")))
	})
	try("lpm-cidr", func() {
		t := ip.NewCIDRTrie()
		t.Update(ip.MustParseCIDROrIP("10.0.0.0/26"), 1)
		c, v := t.LPM(ip.MustParseCIDROrIP("10.0.0.0/25"))
		fmt.Println("LPM(10.0.0.0/25) over {10.0.0.0/26} =", c, v)
	})
}
