// Driver for C32: replays TLC-generated behaviours and seeded random histories on the real
// goldmane/pkg/storage BucketRing with explicit time, recording every call and everything the ring
// reports: FlowCollections received by the sink, List results, Statistics results.  Nothing is
// judged here; sums and window rules live in P_Ring.
package main

import (
	"fmt"
	"io"
	"math/rand"
	"os"
	"sort"

	"github.com/sirupsen/logrus"

	"github.com/projectcalico/calico/goldmane/pkg/storage"
	"github.com/projectcalico/calico/goldmane/pkg/types"
	"github.com/projectcalico/calico/goldmane/proto"
	ctime "github.com/projectcalico/calico/lib/std/time"

	"verifharness/tracelog"
)

const t0 = int64(1_700_000_000) // seconds at model time 0

type keyDef struct {
	name   string
	action proto.Action
	rep    proto.Reporter
}

var keyDefs = []keyDef{
	{"A", proto.Action_Allow, proto.Reporter_Dst},
	{"B", proto.Action_Deny, proto.Reporter_Src},
	{"C", proto.Action_Allow, proto.Reporter_Src},
	{"D", proto.Action_Deny, proto.Reporter_Dst},
}

func keyByName(n string) keyDef {
	for _, k := range keyDefs {
		if k.name == n {
			return k
		}
	}
	panic("unknown key " + n)
}

func protoKey(k keyDef) *proto.FlowKey {
	return &proto.FlowKey{
		SourceName: "src-" + k.name, SourceNamespace: "ns-" + k.name, SourceType: proto.EndpointType_WorkloadEndpoint,
		DestName: "dst-" + k.name, DestNamespace: "ns-" + k.name, DestType: proto.EndpointType_WorkloadEndpoint,
		DestPort: 80, Proto: "tcp", Action: k.action, Reporter: k.rep,
		Policies: &proto.PolicyTrace{EnforcedPolicies: []*proto.PolicyHit{{
			Kind: proto.PolicyKind_CalicoNetworkPolicy, Tier: "default", Name: "pol-" + k.name, Namespace: "ns-" + k.name,
			Action: k.action, PolicyIndex: 0, RuleIndex: 0,
		}}},
	}
}

// keyName recovers the universe name of a flow key from its source name (syntax only).
func keyName(k *types.FlowKey) string {
	s := k.SourceName()
	if len(s) > 4 {
		return s[4:]
	}
	return s
}

type drv struct {
	log      *tracelog.Log
	ring     *storage.BucketRing
	interval int64
	now      int64
	rnd      *rand.Rand
}

type sink struct{ d *drv }

func flowRec(f *types.Flow) map[string]any {
	return map[string]any{"key": keyName(f.Key), "pin": f.PacketsIn, "pout": f.PacketsOut, "bin": f.BytesIn, "bout": f.BytesOut}
}

func sorted(fl []map[string]any) []map[string]any {
	sort.SliceStable(fl, func(i, j int) bool { return fl[i]["key"].(string) < fl[j]["key"].(string) })
	if fl == nil {
		fl = []map[string]any{}
	}
	return fl
}

func (s sink) Receive(c *storage.FlowCollection) {
	var fl []map[string]any
	for i := range c.Flows {
		fl = append(fl, flowRec(&c.Flows[i]))
	}
	s.d.log.Emit("emit", map[string]any{"s": c.StartTime, "e": c.EndTime, "flows": sorted(fl)})
}

func (d *drv) start(t, n int, interval int64, nowModel int64, push, agg int, keys []string) {
	d.interval = interval
	d.now = t0 + nowModel*interval
	d.ring = storage.NewBucketRing(n, int(interval), d.now,
		storage.WithPushAfter(push), storage.WithBucketsToAggregate(agg),
		storage.WithNowFunc(func() ctime.Time { return ctime.Unix(d.now, 0) }))
	d.log.Reset(t, map[string]any{"n": n, "interval": interval, "now": d.now, "push": push, "agg": agg, "keys": keys})
}

// sec maps a model time (in intervals) to seconds; 0 stays 0 (open end of a range).
func (d *drv) sec(m int64) int64 {
	if m == 0 {
		return 0
	}
	return t0 + m*d.interval
}

func (d *drv) add(key string, sec int64, p int64) {
	k := keyByName(key)
	pf := &proto.Flow{Key: protoKey(k), StartTime: sec, EndTime: sec + d.interval,
		PacketsIn: p, PacketsOut: 3 * p, BytesIn: 100 * p, BytesOut: 7 * p, NumConnectionsLive: 1}
	d.ring.AddFlow(types.ProtoToFlow(pf))
	d.log.Emit("add", map[string]any{"key": key, "ts": sec, "pin": pf.PacketsIn, "pout": pf.PacketsOut, "bin": pf.BytesIn, "bout": pf.BytesOut})
}

func (d *drv) roll(withSink bool) {
	d.log.Emit("roll_begin", map[string]any{"sink": withSink})
	d.now += d.interval
	if withSink {
		d.ring.Rollover(sink{d})
	} else {
		d.ring.Rollover(nil)
	}
	d.log.Emit("roll_end", nil)
}

func (d *drv) list(gte, lt int64) {
	flows, _, err := d.ring.List(&proto.FlowListRequest{StartTimeGte: gte, StartTimeLt: lt})
	if err != nil {
		fmt.Println("ring: List error:", err)
		os.Exit(2)
	}
	var fl []map[string]any
	for _, f := range flows {
		fl = append(fl, flowRec(f))
	}
	d.log.Emit("list", map[string]any{"gte": gte, "lt": lt, "flows": sorted(fl)})
}

func (d *drv) stats(gte, lt int64) {
	res, err := d.ring.Statistics(&proto.StatisticsRequest{StartTimeGte: gte, StartTimeLt: lt,
		Type: proto.StatisticType_PacketCount, GroupBy: proto.StatisticsGroupBy_Policy})
	var fl []map[string]any
	for _, r := range res {
		name := r.Policy.Name
		if len(name) > 4 {
			name = name[4:]
		}
		k := keyByName(name)
		sum := func(xs []int64) (s int64) {
			for _, x := range xs {
				s += x
			}
			return
		}
		rec := map[string]any{"key": name, "other": int64(0)}
		// the counters of the key's own action carry its packets; the other counters are reported too
		if k.action == proto.Action_Allow {
			rec["pin"], rec["pout"] = sum(r.AllowedIn), sum(r.AllowedOut)
			rec["other"] = sum(r.DeniedIn) + sum(r.DeniedOut) + sum(r.PassedIn) + sum(r.PassedOut)
		} else {
			rec["pin"], rec["pout"] = sum(r.DeniedIn), sum(r.DeniedOut)
			rec["other"] = sum(r.AllowedIn) + sum(r.AllowedOut) + sum(r.PassedIn) + sum(r.PassedOut)
		}
		fl = append(fl, rec)
	}
	d.log.Emit("stats", map[string]any{"gte": gte, "lt": lt, "flows": sorted(fl), "err": err != nil})
}

func (d *drv) replay(t int, beh []map[string]any) {
	interval := []int64{15, 10, 60}[d.rnd.Intn(3)]
	d.start(t, 5, interval, 20, 1, 2, []string{"A", "B"})
	for _, op := range beh {
		switch tracelog.Str(op["op"]) {
		case "add":
			sec := d.sec(int64(tracelog.Int(op["t"]))) + d.rnd.Int63n(interval)
			d.add(tracelog.Str(op["k"]), sec, 1+d.rnd.Int63n(3))
		case "roll":
			w, _ := op["sink"].(bool)
			d.roll(w)
		case "list":
			d.list(d.sec(int64(tracelog.Int(op["gte"]))), d.sec(int64(tracelog.Int(op["lt"]))))
		case "stats":
			d.stats(d.sec(int64(tracelog.Int(op["gte"]))), d.sec(int64(tracelog.Int(op["lt"]))))
		case "end":
		default:
			panic("unknown op")
		}
	}
}

// random histories over larger rings (configurations keep (n-1-push) % agg != 0, see specs/ring/I_Ring.tla)
func (d *drv) random(t int) {
	cfgs := [][3]int{{5, 1, 2}, {6, 1, 3}, {7, 2, 3}, {8, 0, 2}, {9, 2, 4}, {12, 3, 5}, {16, 4, 3}}
	c := cfgs[d.rnd.Intn(len(cfgs))]
	n, push, agg := c[0], c[1], c[2]
	interval := []int64{15, 10, 60, 1}[d.rnd.Intn(4)]
	keys := []string{"A", "B", "C", "D"}[:2+d.rnd.Intn(3)]
	d.start(t, n, interval, 20, push, agg, keys)
	steps := 20 + d.rnd.Intn(40)
	sinkOn := d.rnd.Intn(3) > 0
	for i := 0; i < steps; i++ {
		boh, eoh := d.ring.BeginningOfHistory(), d.ring.EndOfHistory()
		switch x := d.rnd.Intn(10); {
		case x < 5:
			// mostly inside the history, sometimes too old / in the future
			sec := boh - d.interval + d.rnd.Int63n(eoh-boh+2*d.interval)
			d.add(keys[d.rnd.Intn(len(keys))], sec, 1+d.rnd.Int63n(4))
		case x < 8:
			if d.rnd.Intn(8) == 0 {
				sinkOn = !sinkOn
			}
			d.roll(sinkOn)
		case x == 8:
			nb := (eoh - boh) / d.interval
			g, l := boh+d.interval*d.rnd.Int63n(nb), boh+d.interval*(1+d.rnd.Int63n(nb))
			if d.rnd.Intn(4) == 0 {
				g = 0
			}
			if d.rnd.Intn(4) == 0 {
				l = 0
			}
			if g != 0 && l != 0 && g >= l {
				g, l = l-d.interval, l
				if g < boh {
					g = 0
				}
			}
			d.list(g, l)
		default:
			nb := (eoh-boh)/d.interval - 1
			a, b := d.rnd.Int63n(nb), d.rnd.Int63n(nb)
			if a > b {
				a, b = b, a
			}
			if a == b {
				if b+1 < nb {
					b++
				} else {
					a--
				}
			}
			if a < 0 {
				continue
			}
			d.stats(boh+a*d.interval, boh+b*d.interval)
		}
	}
}

func main() {
	logrus.SetOutput(io.Discard)
	logrus.SetLevel(logrus.PanicLevel)
	env := tracelog.GetEnv()
	lg, err := tracelog.Open(env.OutPath)
	if err != nil {
		fmt.Println(err)
		os.Exit(2)
	}
	behs, err := tracelog.LoadBehaviours(env.BehPath)
	if err != nil {
		fmt.Println(err)
		os.Exit(2)
	}
	d := &drv{log: lg}
	t := 0
	for _, b := range behs {
		t++
		d.rnd = rand.New(rand.NewSource(env.Seed*1000003 + int64(t)))
		d.replay(t, b)
	}
	for i := 0; i < env.N; i++ {
		t++
		d.rnd = rand.New(rand.NewSource(env.Seed*7919 + int64(i)))
		d.random(t)
	}
	if err := lg.Close(); err != nil {
		fmt.Println(err)
		os.Exit(2)
	}
}
