// Driver for the CachingMap leg of C18: the real felix/cachingmap.CachingMap over a harness
// dataplane map that records every Update/Delete/Load with its outcome and fails on request.
package main

import (
	"errors"
	"fmt"
	"math/rand"
	"os"
	"sort"

	"github.com/projectcalico/calico/felix/cachingmap"

	"verifharness/tracelog"
)

var errNotExist = errors.New("no such key")
var errInjected = errors.New("injected failure")

// dpMap is "the kernel": its content is the truth the spec calls `real`.
type dpMap struct {
	log      *tracelog.Log
	m        map[string]int
	failUpd  map[string]bool // keys whose next Update fails
	failDel  map[string]bool
	failLoad bool
}

func (d *dpMap) Update(k string, v int) error {
	if d.failUpd[k] {
		d.log.Emit("dp_update", map[string]any{"k": k, "v": v, "ok": false})
		return errInjected
	}
	d.m[k] = v
	d.log.Emit("dp_update", map[string]any{"k": k, "v": v, "ok": true})
	return nil
}

func (d *dpMap) Delete(k string) error {
	if d.failDel[k] {
		d.log.Emit("dp_delete", map[string]any{"k": k, "res": "fail"})
		return errInjected
	}
	if _, ok := d.m[k]; !ok {
		d.log.Emit("dp_delete", map[string]any{"k": k, "res": "enoent"})
		return errNotExist
	}
	delete(d.m, k)
	d.log.Emit("dp_delete", map[string]any{"k": k, "res": "ok"})
	return nil
}

func (d *dpMap) Load() (map[string]int, error) {
	if d.failLoad {
		d.log.Emit("dp_load", map[string]any{"ok": false, "m": map[string]int{}})
		return nil, errInjected
	}
	out := map[string]int{}
	for k, v := range d.m {
		out[k] = v
	}
	d.log.Emit("dp_load", map[string]any{"ok": true, "m": out})
	return out, nil
}

func (d *dpMap) ErrIsNotExists(err error) bool { return errors.Is(err, errNotExist) }

// batched variant: same map, plus the batch API (applies a prefix, stops at the first failure)
type dpBatched struct{ *dpMap }

func (d dpBatched) BatchUpdate(ks []string, vs []int) (int, error) {
	for i := range ks {
		if err := d.Update(ks[i], vs[i]); err != nil {
			return i, err
		}
	}
	return len(ks), nil
}

func (d dpBatched) BatchDelete(ks []string) (int, error) {
	for i := range ks {
		if err := d.Delete(ks[i]); err != nil {
			return i, err
		}
	}
	return len(ks), nil
}

type drv struct {
	log  *tracelog.Log
	dp   *dpMap
	cm   *cachingmap.CachingMap[string, int]
	keys []string
}

func (d *drv) start(t int, keys []string, real map[string]int, batched bool) {
	d.keys = keys
	d.dp = &dpMap{log: d.log, m: map[string]int{}, failUpd: map[string]bool{}, failDel: map[string]bool{}}
	for k, v := range real {
		if v != 0 {
			d.dp.m[k] = v
		}
	}
	if batched {
		d.cm = cachingmap.New[string, int]("verif", dpBatched{d.dp})
	} else {
		d.cm = cachingmap.New[string, int]("verif", d.dp)
	}
	d.log.Reset(t, map[string]any{"keys": keys, "real": d.dp.m, "batched": batched})
	d.obs()
}

func (d *drv) obs() {
	des, dpv := map[string]int{}, map[string]int{}
	d.cm.Desired().Iter(func(k string, v int) { des[k] = v })
	d.cm.Dataplane().Iter(func(k string, v int) { dpv[k] = v })
	real := map[string]int{}
	for k, v := range d.dp.m {
		real[k] = v
	}
	d.log.Emit("obs", map[string]any{"desired": des, "dataplane": dpv, "real": real})
}

func strs(v any) []string {
	var out []string
	if a, ok := v.([]any); ok {
		for _, x := range a {
			out = append(out, tracelog.Str(x))
		}
	}
	return out
}

func (d *drv) apply(kind string, fail []string, lf bool) {
	d.dp.failUpd, d.dp.failDel = map[string]bool{}, map[string]bool{}
	for _, k := range fail {
		if kind == "upd" {
			d.dp.failUpd[k] = true
		} else {
			d.dp.failDel[k] = true
		}
	}
	d.dp.failLoad = lf
	d.log.Emit("begin", map[string]any{"kind": kind})
	var err error
	if kind == "upd" {
		err = d.cm.ApplyUpdatesOnly()
	} else {
		err = d.cm.ApplyDeletionsOnly()
	}
	d.log.Emit("end", map[string]any{"err": err != nil})
	d.dp.failLoad = false
	d.dp.failUpd, d.dp.failDel = map[string]bool{}, map[string]bool{}
}

func (d *drv) step(op map[string]any) {
	k, v := tracelog.Str(op["k"]), tracelog.Int(op["v"])
	switch tracelog.Str(op["op"]) {
	case "init", "end":
		return
	case "des_set":
		d.cm.Desired().Set(k, v)
		d.log.Emit("des_set", map[string]any{"k": k, "v": v})
	case "des_del":
		d.cm.Desired().Delete(k)
		d.log.Emit("des_del", map[string]any{"k": k})
	case "des_delall":
		d.cm.Desired().DeleteAll()
		d.log.Emit("des_delall", nil)
	case "ext":
		if v == 0 {
			delete(d.dp.m, k)
		} else {
			d.dp.m[k] = v
		}
		d.log.Emit("ext", map[string]any{"k": k, "v": v})
	case "load":
		ok, _ := op["ok"].(bool)
		d.dp.failLoad = !ok
		err := d.cm.LoadCacheFromDataplane()
		d.dp.failLoad = false
		d.log.Emit("load_ret", map[string]any{"err": err != nil})
	case "apply_upd":
		lf, _ := op["lf"].(bool)
		d.apply("upd", strs(op["fail"]), lf)
	case "apply_del":
		lf, _ := op["lf"].(bool)
		d.apply("del", strs(op["fail"]), lf)
	default:
		panic("unknown op " + tracelog.Str(op["op"]))
	}
	d.obs()
}

func (d *drv) random(t int, rnd *rand.Rand) {
	nk := 2 + rnd.Intn(5)
	keys := make([]string, nk)
	for i := range keys {
		keys[i] = fmt.Sprintf("k%d", i)
	}
	real := map[string]int{}
	for _, k := range keys {
		if rnd.Intn(2) == 0 {
			real[k] = 1 + rnd.Intn(2)
		}
	}
	d.start(t, keys, real, rnd.Intn(2) == 0)
	rk := func() string { return keys[rnd.Intn(nk)] }
	some := func() []any {
		var out []any
		for _, k := range keys {
			if rnd.Intn(3) == 0 {
				out = append(out, k)
			}
		}
		return out
	}
	for i, n := 0, 15+rnd.Intn(25); i < n; i++ {
		switch rnd.Intn(10) {
		case 0, 1, 2:
			d.step(map[string]any{"op": "des_set", "k": rk(), "v": 1 + rnd.Intn(2)})
		case 3:
			d.step(map[string]any{"op": "des_del", "k": rk()})
		case 4:
			if rnd.Intn(4) == 0 {
				d.step(map[string]any{"op": "des_delall"})
			} else {
				d.step(map[string]any{"op": "ext", "k": rk(), "v": rnd.Intn(3)})
			}
		case 5:
			d.step(map[string]any{"op": "load", "ok": rnd.Intn(4) != 0})
		case 6, 7:
			d.step(map[string]any{"op": "apply_upd", "fail": some(), "lf": rnd.Intn(6) == 0})
		case 8:
			d.step(map[string]any{"op": "apply_del", "fail": some(), "lf": rnd.Intn(6) == 0})
		case 9:
			// ApplyAllChanges = deletions then updates; logged as two calls by instrumenting around it is
			// not possible from outside, so drive the two halves the way ApplyAllChanges does.
			d.step(map[string]any{"op": "apply_del", "fail": some(), "lf": false})
			d.step(map[string]any{"op": "apply_upd", "fail": some(), "lf": false})
		}
	}
}

func main() {
	env := tracelog.GetEnv()
	lg, err := tracelog.Open(env.OutPath)
	if err != nil {
		fmt.Fprintln(os.Stderr, err)
		os.Exit(2)
	}
	d := &drv{log: lg}
	behs, err := tracelog.LoadBehaviours(env.BehPath)
	if err != nil {
		fmt.Fprintln(os.Stderr, err)
		os.Exit(2)
	}
	t := 0
	for _, b := range behs {
		for _, batched := range []bool{false, true} {
			t++
			real := map[string]int{}
			if len(b) > 0 {
				if m, ok := b[0]["real"].(map[string]any); ok {
					for k, x := range m {
						real[k] = tracelog.Int(x)
					}
				}
			}
			keys := []string{"a", "b", "c"}
			sort.Strings(keys)
			d.start(t, keys, real, batched)
			for _, op := range b {
				d.step(op)
			}
		}
	}
	for i := 0; i < env.N; i++ {
		t++
		d.random(t, rand.New(rand.NewSource(env.Seed*7919+int64(i))))
	}
	if err := lg.Close(); err != nil {
		fmt.Fprintln(os.Stderr, err)
		os.Exit(2)
	}
}
