// Driver for C24: real typha snapcache.Cache + syncserver.Server + syncclient.SyncerClient over loopback TCP.
//
// The driver plays the upstream syncer (Cache.OnUpdates / OnStatusUpdated; every value carries a per-key
// strictly increasing version in its KV revision - deletions too - and a value from a small domain, so that the same
// value can come back: A -> B -> A inside one batch), starts clients at
// script-chosen points (streamed-snapshot clients and binary-snapshot clients), makes clients slow by
// blocking their callbacks at a gate, and inserts "settle" points: a marker key is written upstream and
// the driver waits (bounded) until every client that is not held has been given it.  At the end all
// gates are opened, a final marker is written and awaited, and "quiesce" is logged.
// A wait that times out is a harness error (exit 2), never a verdict.
//
// One log ordered by the log's mutex: an upstream write is logged before the call that hands it to
// Typha, a client callback at its entry, so the order is consistent with causality; every event also
// carries its process ("p") and that process's own sequence number ("n").  No wall-clock anywhere.
package main

import (
	"context"
	"fmt"
	"io"
	"math/rand"
	"os"
	"runtime"
	"strconv"
	"strings"
	"sync"
	"time"

	"github.com/sirupsen/logrus"

	"github.com/projectcalico/calico/libcalico-go/lib/backend/api"
	"github.com/projectcalico/calico/libcalico-go/lib/backend/model"
	"github.com/projectcalico/calico/typha/pkg/discovery"
	"github.com/projectcalico/calico/typha/pkg/snapcache"
	"github.com/projectcalico/calico/typha/pkg/syncclient"
	"github.com/projectcalico/calico/typha/pkg/syncproto"
	"github.com/projectcalico/calico/typha/pkg/syncserver"

	"verifharness/tracelog"
)

const markerPrefix = "zz" // marker keys sort after every other key (being given one implies the whole snapshot was given) and are fresh for every settle point

var bound = 30 * time.Second

func fatal(f string, a ...any) {
	fmt.Fprintf(os.Stderr, "typha driver: "+f+"\n", a...)
	os.Exit(2)
}

type plog struct {
	log *tracelog.Log
	mu  sync.Mutex
	seq map[string]int
}

func (p *plog) emit(proc, ev string, f map[string]any) {
	p.mu.Lock()
	defer p.mu.Unlock()
	p.seq[proc]++
	if f == nil {
		f = map[string]any{}
	}
	f["p"] = proc
	f["n"] = p.seq[proc]
	p.log.Emit(ev, f)
}

type kv struct {
	K   string `json:"k"`
	Ver int    `json:"ver"`
	Val int    `json:"val"` // value drawn from a small domain (the same value can come back); 0 for a deletion
	Del bool   `json:"del"`
}

type client struct {
	name   string
	pl     *plog
	mu     sync.Mutex
	cond   *sync.Cond
	held   bool
	done   bool
	marker int // highest marker number delivered
	cancel context.CancelFunc
	sc     *syncclient.SyncerClient
}

func statusName(s api.SyncStatus) string {
	switch s {
	case api.WaitForDatastore:
		return "wait"
	case api.ResyncInProgress:
		return "resync"
	case api.InSync:
		return "insync"
	}
	return "unknown"
}

func statusOf(s string) api.SyncStatus {
	switch s {
	case "wait":
		return api.WaitForDatastore
	case "resync":
		return api.ResyncInProgress
	case "insync":
		return api.InSync
	}
	panic("bad status " + s)
}

func (c *client) gate() {
	for c.held && !c.done {
		c.cond.Wait()
	}
}

func (c *client) OnStatusUpdated(s api.SyncStatus) {
	c.mu.Lock()
	defer c.mu.Unlock()
	if c.done {
		return
	}
	c.pl.emit(c.name, "c_status", map[string]any{"c": c.name, "s": statusName(s)})
	c.gate()
}

func (c *client) OnUpdates(us []api.Update) {
	c.mu.Lock()
	defer c.mu.Unlock()
	if c.done {
		return
	}
	kvs := []map[string]any{}
	for _, u := range us {
		k, ok := u.Key.(model.GlobalConfigKey)
		if !ok {
			fatal("unexpected key type %T", u.Key)
		}
		ver, _ := strconv.Atoi(u.Revision)
		val := 0
		if u.Value != nil {
			s, _ := u.Value.(string)
			s = strings.TrimPrefix(s, "x")
			if i := strings.Index(s, ":"); i >= 0 {
				s = s[:i]
			}
			val, _ = strconv.Atoi(s)
		}
		kvs = append(kvs, map[string]any{"k": k.Name, "ver": ver, "val": val, "del": u.Value == nil})
		if strings.HasPrefix(k.Name, markerPrefix) && u.Value != nil {
			if n, err := strconv.Atoi(k.Name[len(markerPrefix):]); err == nil && n > c.marker {
				c.marker = n
			}
		}
	}
	c.pl.emit(c.name, "c_upd", map[string]any{"c": c.name, "kvs": kvs})
	c.cond.Broadcast()
	c.gate()
}

type drv struct {
	pl      *plog
	ctx     context.Context
	cancel  context.CancelFunc
	cacheCancel context.CancelFunc
	cache   *snapcache.Cache
	server  *syncserver.Server
	addr    string
	vers    map[string]int
	present map[string]bool
	curval  map[string]int
	clients map[string]*client
	order   []string
	pad     int
	nmark   int
}

func (d *drv) begin(t int, keys, clients []string, maxBatch, maxMsg, pad int) {
	d.pl.log.Reset(t, map[string]any{"keys": keys, "clients": clients})
	d.nmark = 0
	d.pl.seq = map[string]int{}
	d.ctx, d.cancel = context.WithCancel(context.Background())
	d.vers, d.present, d.curval = map[string]int{}, map[string]bool{}, map[string]int{}
	d.clients, d.order = map[string]*client{}, nil
	d.pad = pad
	d.cache = snapcache.New(snapcache.Config{MaxBatchSize: maxBatch, WakeUpInterval: 50 * time.Millisecond})
	// the cache outlives the server (as in typha's daemon): a connection that is being torn down is only woken
	// out of Breadcrumb.Next by the cache's periodic broadcast
	var cctx context.Context
	cctx, d.cacheCancel = context.WithCancel(context.Background())
	d.cache.Start(cctx)
	d.server = syncserver.New(
		map[syncproto.SyncerType]syncserver.BreadcrumbProvider{syncproto.SyncerTypeFelix: d.cache},
		syncserver.Config{
			Host: "127.0.0.1", Port: syncserver.PortRandom,
			MaxMessageSize:          maxMsg,
			MinBatchingAgeThreshold: 1, // any client that is not on the newest crumb coalesces deltas
			MaxFallBehind:           time.Hour,
			BinarySnapshotTimeout:   time.Millisecond,
			DropInterval:            time.Hour,
		})
	d.server.Start(d.ctx)
	d.addr = "127.0.0.1:" + strconv.Itoa(d.server.Port())
}

func (d *drv) end() {
	for _, n := range d.order {
		c := d.clients[n]
		c.mu.Lock()
		c.done = true
		c.cond.Broadcast()
		c.mu.Unlock()
	}
	d.cancel()
	fin := make(chan struct{})
	go func() {
		for _, n := range d.order {
			d.clients[n].sc.Finished.Wait()
		}
		d.server.Finished.Wait()
		d.cacheCancel()
		<-d.cache.Done
		close(fin)
	}()
	select {
	case <-fin:
	case <-time.After(bound):
		if os.Getenv("VERIF_DEBUG") != "" {
			buf := make([]byte, 1<<20)
			os.Stderr.Write(buf[:runtime.Stack(buf, true)])
		}
		fatal("timeout: typha server/clients did not shut down (trace %d)", d.pl.log.T)
	}
}

func (d *drv) up(items []kv) {
	us := make([]api.Update, 0, len(items))
	rec := []kv{}
	for _, it := range items {
		if it.Del && !d.present[it.K] {
			continue
		}
		if !it.Del {
			if it.Val == 0 {
				it.Val = 1
			}
			if d.present[it.K] && d.curval[it.K] == it.Val {
				continue // a syncer only reports changes
			}
		}
		d.vers[it.K]++
		v := d.vers[it.K]
		u := api.Update{KVPair: model.KVPair{Key: model.GlobalConfigKey{Name: it.K}, Revision: strconv.Itoa(v)}}
		if it.Del {
			u.UpdateType = api.UpdateTypeKVDeleted
			d.present[it.K] = false
		} else {
			if d.present[it.K] {
				u.UpdateType = api.UpdateTypeKVUpdated
			} else {
				u.UpdateType = api.UpdateTypeKVNew
			}
			val := "x" + strconv.Itoa(it.Val)
			if d.pad > 0 {
				val += ":" + strings.Repeat("p", d.pad)
			}
			u.Value = val
			d.present[it.K] = true
			d.curval[it.K] = it.Val
		}
		us = append(us, u)
		rv := it.Val
		if it.Del {
			rv = 0
		}
		rec = append(rec, kv{K: it.K, Ver: v, Val: rv, Del: it.Del})
	}
	if len(us) == 0 {
		return
	}
	d.pl.emit("up", "up", map[string]any{"kvs": rec})
	d.cache.OnUpdates(us)
}

func (d *drv) status(s string) {
	d.pl.emit("up", "ustatus", map[string]any{"s": s})
	d.cache.OnStatusUpdated(statusOf(s))
}

func (d *drv) join(name string, bin bool) {
	if _, ok := d.clients[name]; ok {
		return
	}
	c := &client{name: name, pl: d.pl}
	c.cond = sync.NewCond(&c.mu)
	d.clients[name] = c
	d.order = append(d.order, name)
	d.pl.emit("up", "cjoin", map[string]any{"c": name, "bin": bin})
	disc := discovery.New(discovery.WithAddrOverride(d.addr))
	c.sc = syncclient.New(disc, "verif", "host-"+name, "verif", c, &syncclient.Options{
		SyncerType: syncproto.SyncerTypeFelix, DisableDecoderRestart: !bin, ReadTimeout: 10 * time.Minute,
	})
	if err := c.sc.Start(d.ctx); err != nil {
		fatal("client %s could not connect: %v", name, err)
	}
}

func (d *drv) hold(name string, on bool) {
	c, ok := d.clients[name]
	if !ok {
		return
	}
	c.mu.Lock()
	if c.held != on {
		c.held = on
		ev := "release"
		if on {
			ev = "hold"
		}
		d.pl.emit("up", ev, map[string]any{"c": name})
		c.cond.Broadcast()
	}
	c.mu.Unlock()
}

// settle: write a fresh marker key (deleting the previous one), wait until the cache has published it and
// until every client that is not held has been given it.  The marker sorts last, so a client that finds it in
// its snapshot has been given the whole snapshot; being fresh it cannot be swallowed by de-duplication.
// If a marker does not arrive within an attempt's
// patience another fresh marker is written (it can only get lost when the code under test loses updates; the
// next one then still arrives and the loss is judged at "quiesce" instead of becoming a time-out).  The
// overall wait is bounded; exceeding it is a harness error.
func (d *drv) settle() {
	deadline := time.Now().Add(bound)
	patience := 2 * time.Second
	for {
		items := []kv{}
		if d.nmark > 0 {
			items = append(items, kv{K: markerPrefix + strconv.Itoa(d.nmark), Del: true})
		}
		d.nmark++
		name := markerPrefix + strconv.Itoa(d.nmark)
		items = append(items, kv{K: name})
		d.up(items)
		want := d.nmark
		path, err := model.KeyToDefaultPath(model.GlobalConfigKey{Name: name})
		if err != nil {
			fatal("%v", err)
		}
		attemptEnd := time.Now().Add(patience)
		ok := true
		// (1) the cache has published the marker
		for {
			if _, found := d.cache.CurrentBreadcrumb().KVs.Get(syncproto.SerializedUpdate{Key: path}); found {
				break
			}
			if time.Now().After(deadline) {
				fatal("timeout: the cache did not publish marker %d within %v (trace %d)", want, bound, d.pl.log.T)
			}
			time.Sleep(50 * time.Microsecond)
		}
		// (2) every client that is not held has been given it
		for _, n := range d.order {
			c := d.clients[n]
			c.mu.Lock()
			for !c.held && c.marker < want {
				now := time.Now()
				if now.After(deadline) {
					c.mu.Unlock()
					fatal("timeout: client %s was not given marker %d within %v (trace %d)", n, want, bound, d.pl.log.T)
				}
				if now.After(attemptEnd) {
					ok = false
					break
				}
				c.mu.Unlock()
				time.Sleep(100 * time.Microsecond)
				c.mu.Lock()
			}
			c.mu.Unlock()
			if !ok {
				break
			}
		}
		if ok {
			return
		}
		patience *= 2
	}
}

// barrier: write a fresh marker and wait until the cache has published it - everything handed to the cache before
// has then been processed (the input channel is FIFO).  Used after every scripted upstream call so that the
// grouping of calls into breadcrumbs is the same on every execution of a script.
func (d *drv) barrier() {
	items := []kv{}
	if d.nmark > 0 {
		items = append(items, kv{K: markerPrefix + strconv.Itoa(d.nmark), Del: true})
	}
	d.nmark++
	name := markerPrefix + strconv.Itoa(d.nmark)
	items = append(items, kv{K: name})
	d.up(items)
	path, err := model.KeyToDefaultPath(model.GlobalConfigKey{Name: name})
	if err != nil {
		fatal("%v", err)
	}
	deadline := time.Now().Add(bound)
	for {
		if _, found := d.cache.CurrentBreadcrumb().KVs.Get(syncproto.SerializedUpdate{Key: path}); found {
			return
		}
		if time.Now().After(deadline) {
			fatal("timeout: the cache did not publish marker %d within %v (trace %d)", d.nmark, bound, d.pl.log.T)
		}
		time.Sleep(50 * time.Microsecond)
	}
}

func (d *drv) finish() {
	for _, n := range d.order {
		d.hold(n, false)
	}
	d.settle()
	d.pl.emit("up", "quiesce", nil)
	d.end()
}

func (d *drv) step(op map[string]any) {
	switch tracelog.Str(op["op"]) {
	case "up":
		var items []kv
		for _, x := range op["kvs"].([]any) {
			m := x.(map[string]any)
			del, _ := m["del"].(bool)
			items = append(items, kv{K: tracelog.Str(m["k"]), Val: tracelog.Int(m["val"]), Del: del})
		}
		d.up(items)
		d.barrier()
	case "status":
		d.status(tracelog.Str(op["s"]))
		d.barrier()
	case "join":
		// scripted runs: the join happens at a defined point of the upstream sequence (everything written so far
		// has been published, and the new connection has taken its snapshot before the next write)
		bin, _ := op["bin"].(bool)
		d.settle()
		d.join(tracelog.Str(op["c"]), bin)
		d.settle()
	case "hold":
		d.hold(tracelog.Str(op["c"]), true)
	case "release":
		d.hold(tracelog.Str(op["c"]), false)
	case "settle":
		d.settle()
	case "end":
	default:
		fatal("unknown op %v", op["op"])
	}
}

func (d *drv) random(t int, rnd *rand.Rand) {
	nk := 2 + rnd.Intn(5)
	keys := make([]string, nk)
	for i := range keys {
		keys[i] = "k" + strconv.Itoa(i+1)
	}
	nc := 1 + rnd.Intn(3)
	clients := make([]string, nc)
	for i := range clients {
		clients[i] = "c" + strconv.Itoa(i+1)
	}
	pad := 0
	if rnd.Intn(4) == 0 {
		pad = 20000 // fat values: socket buffers fill up and the server's writes really block behind a held client
	}
	nv := 2 + rnd.Intn(2)
	d.begin(t, keys, clients, 2+rnd.Intn(7), 1+rnd.Intn(3), pad)
	steps := 20 + rnd.Intn(40)
	insyncAt := rnd.Intn(steps)
	next := 0
	for i := 0; i < steps; i++ {
		if i == insyncAt {
			d.status("insync")
			continue
		}
		switch c := rnd.Intn(100); {
		case c < 55:
			n := 1 + rnd.Intn(4)
			var items []kv
			seen := map[string]bool{}
			for j := 0; j < n; j++ {
				k := keys[rnd.Intn(nk)]
				if seen[k] && rnd.Intn(2) == 0 {
					continue
				}
				seen[k] = true
				items = append(items, kv{K: k, Val: 1 + rnd.Intn(nv), Del: rnd.Intn(4) == 0})
				if rnd.Intn(3) == 0 { // the same key again within the batch: flap back / delete + re-create
					switch rnd.Intn(3) {
					case 0:
						items = append(items, kv{K: k, Val: 1 + rnd.Intn(nv)}, kv{K: k, Val: 1 + rnd.Intn(nv)})
					case 1:
						items = append(items, kv{K: k, Del: true}, kv{K: k, Val: 1 + rnd.Intn(nv)})
					case 2:
						items = append(items, kv{K: k, Val: 1 + rnd.Intn(nv)})
					}
				}
			}
			d.up(items)
		case c < 62:
			d.status([]string{"wait", "resync", "resync", "insync"}[rnd.Intn(4)])
		case c < 74:
			if next < nc {
				d.join(clients[next], rnd.Intn(2) == 0)
				next++
			}
		case c < 82:
			if next > 0 {
				d.hold(clients[rnd.Intn(next)], true)
			}
		case c < 90:
			if next > 0 {
				d.hold(clients[rnd.Intn(next)], false)
			}
		default:
			d.settle()
		}
	}
	for next < nc && rnd.Intn(2) == 0 {
		d.join(clients[next], rnd.Intn(2) == 0)
		next++
	}
	d.finish()
}

// flaps: value flaps of one key inside ONE input batch (one OnUpdates call, MaxBatchSize large enough to hold it in one
// breadcrumb), with a client connected throughout and a client joining afterwards.  Inputs only: the verdict is the
// property layer's (upstream truth after the drain, for both clients).
func (d *drv) flaps(t int, rnd *rand.Rand, variant int) {
	keys := []string{"k1", "k2", "k3"}
	d.begin(t, keys, []string{"c1", "c2"}, 8+rnd.Intn(8), 1+rnd.Intn(3), 0)
	A, B, C := 1, 2, 3
	if rnd.Intn(2) == 0 {
		d.status("resync")
	}
	d.up([]kv{{K: "k1", Val: A}, {K: "k2", Val: A}})
	if rnd.Intn(2) == 0 {
		d.up([]kv{{K: "k3", Val: C}})
	}
	d.settle()
	d.join("c1", variant%2 == 0)
	d.settle()
	if rnd.Intn(2) == 0 {
		d.status("insync")
	}
	if rnd.Intn(3) == 0 {
		d.hold("c1", true)
	}
	switch (variant / 2) % 6 {
	case 0: // A -> B -> A
		d.up([]kv{{K: "k1", Val: B}, {K: "k1", Val: A}})
	case 1: // A -> B -> C -> B
		d.up([]kv{{K: "k1", Val: B}, {K: "k1", Val: C}, {K: "k1", Val: B}})
	case 2: // A -> B -> C -> A
		d.up([]kv{{K: "k1", Val: B}, {K: "k1", Val: C}, {K: "k1", Val: A}})
	case 3: // present -> deleted -> present with the same value
		d.up([]kv{{K: "k1", Del: true}, {K: "k1", Val: A}})
	case 4: // two keys interleaved, one flapping back, one deleted and re-created
		d.up([]kv{{K: "k1", Val: B}, {K: "k2", Val: B}, {K: "k1", Val: A}, {K: "k2", Del: true}, {K: "k2", Val: A}})
	case 5: // flap back, then a later batch changes the key again
		d.up([]kv{{K: "k1", Val: C}, {K: "k1", Val: A}, {K: "k2", Val: C}})
		d.up([]kv{{K: "k2", Val: A}, {K: "k2", Val: B}, {K: "k2", Val: A}})
	}
	if rnd.Intn(2) == 0 {
		d.settle()
	}
	d.hold("c1", false)
	d.join("c2", variant%2 == 1) // joins after the batch: gets the snapshot
	if rnd.Intn(2) == 0 {
		d.status("insync")
	}
	d.finish()
}

func main() {
	logrus.SetOutput(io.Discard)
	logrus.SetLevel(logrus.PanicLevel)
	if s := os.Getenv("VERIF_BOUND_S"); s != "" {
		if n, err := strconv.Atoi(s); err == nil {
			bound = time.Duration(n) * time.Second
		}
	}
	env := tracelog.GetEnv()
	lg, err := tracelog.Open(env.OutPath)
	if err != nil {
		fatal("%v", err)
	}
	d := &drv{pl: &plog{log: lg, seq: map[string]int{}}}
	behs, err := tracelog.LoadBehaviours(env.BehPath)
	if err != nil {
		fatal("%v", err)
	}
	t := 0
	for _, b := range behs {
		t++
		d.begin(t, []string{"a", "b"}, []string{"c1", "c2"}, 3, 1, 0)
		for _, op := range b {
			d.step(op)
		}
		d.finish()
	}
	flapsOnly := os.Getenv("VERIF_MODE") == "flaps"
	for i := 0; i < env.N; i++ {
		t++
		rnd := rand.New(rand.NewSource(env.Seed*1000003 + int64(i)))
		if i < 12 || flapsOnly {
			d.flaps(t, rnd, i)
		} else {
			d.random(t, rnd)
		}
	}
	if err := lg.Close(); err != nil {
		fatal("%v", err)
	}
}
