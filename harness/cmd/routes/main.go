// Driver for C17: replays TLC-generated behaviours and seeded random histories on the real
// felix/routetable.RouteTable over the repository's own felix/netlinkshim/mocknetlink kernel mock.
// The driver only executes calls, edits the mock kernel as the behaviour says (environment), and
// records the full content of the mock kernel (routes + links) after every environment step and
// after every Apply.  All judgement (ownership, class priority, expected routes) is in
// specs/reconcile_routes/Routes.tla.
package main

import (
	"fmt"
	"math/rand"
	"net"
	"os"
	"sort"
	"strings"
	"syscall"
	"time"

	"github.com/onsi/gomega"
	log "github.com/sirupsen/logrus"
	"github.com/vishvananda/netlink"
	"golang.org/x/sys/unix"

	"github.com/projectcalico/calico/felix/ifacemonitor"
	"github.com/projectcalico/calico/felix/ip"
	"github.com/projectcalico/calico/felix/netlinkshim"
	"github.com/projectcalico/calico/felix/netlinkshim/mocknetlink"
	"github.com/projectcalico/calico/felix/routetable"
	"github.com/projectcalico/calico/felix/routetable/ownershippol"
	"github.com/projectcalico/calico/felix/timeshim/mocktime"
	"github.com/projectcalico/calico/lib/logrusr"

	"verifharness/tracelog"
)

// The declared interface universe.  Names starting with "cali" are workload interfaces (the policy is
// configured with prefix "cali"), "vxlan.calico"/"bpfin.cali" are Calico special devices, "tunl0" is
// the IPIP device, everything else is foreign.
var (
	wlNames      = []string{"cali1", "cali2", "cali3"}
	specialNames = []string{"vxlan.calico", "bpfin.cali"}
	ipipName     = "tunl0"
)

var failFlags = map[string]mocknetlink.FailFlags{
	"LinkList":           mocknetlink.FailNextLinkList,
	"LinkListEINTR":      mocknetlink.FailNextLinkListWrappedEINTR,
	"LinkByName":         mocknetlink.FailNextLinkByName,
	"LinkByNameNotFound": mocknetlink.FailNextLinkByNameNotFound,
	"RouteList":          mocknetlink.FailNextRouteList,
	"RouteListEINTR":     mocknetlink.FailNextRouteListEINTR,
	"RouteListWEINTR":    mocknetlink.FailNextRouteListWrappedEINTR,
	"RouteReplace":       mocknetlink.FailNextRouteReplace,
	"RouteDel":           mocknetlink.FailNextRouteDel,
	"NewNetlink":         mocknetlink.FailNextNewNetlink,
	"SetSocketTimeout":   mocknetlink.FailNextSetSocketTimeout,
	"SetStrict":          mocknetlink.FailNextSetStrict,
}

type drv struct {
	log   *tracelog.Log
	dp    *mocknetlink.MockNetlinkDataplane
	rt    *routetable.RouteTable
	// dump race (environment): the mock key of a route; the next route dump that delivers it is
	// interrupted with EINTR after delivering everything, and the route is gone before the retry
	raceKey string
	ipv   int
	table int
}

type M = map[string]any

func b(v any) bool {
	x, _ := v.(bool)
	return x
}

func arr(v any) []any {
	a, _ := v.([]any)
	return a
}

func rec(v any) M {
	m, _ := v.(map[string]any)
	return m
}

func (d *drv) family() int {
	if d.ipv == 6 {
		return netlink.FAMILY_V6
	}
	return netlink.FAMILY_V4
}

// nlRace is the netlink handle handed to the RouteTable: the mock itself, except that a route dump can
// be interrupted the way the kernel does it - EINTR because the table changed while it was dumped.  The
// mock's own FailNextRouteListEINTR can only abort a dump of an unchanged table.
type nlRace struct {
	*mocknetlink.MockNetlinkDataplane
	d *drv
}

func (w *nlRace) RouteListFilteredIter(family int, filter *netlink.Route, mask uint64, f func(netlink.Route) bool) error {
	d := w.d
	if d.raceKey == "" {
		return w.MockNetlinkDataplane.RouteListFilteredIter(family, filter, mask, f)
	}
	routes, err := w.MockNetlinkDataplane.RouteListFiltered(family, filter, mask)
	hit := false
	for _, r := range routes {
		if mocknetlink.KeyForRoute(&r) == d.raceKey {
			hit = true
		}
		if !f(r) {
			break
		}
	}
	if err != nil || !hit {
		return err
	}
	delete(d.dp.RouteKeyToRoute, d.raceKey)
	d.raceKey = ""
	d.log.Emit("env_routes", M{"kernel": d.kernel(), "during": "dump"})
	return unix.EINTR
}

// ---- syntax conversion: JSON route <-> netlink.Route ---------------------------------------------

func ipStr(x net.IP) string {
	if x == nil {
		return ""
	}
	return x.String()
}

func routeToJSON(r netlink.Route) M {
	dst := "default"
	if r.Dst != nil {
		dst = r.Dst.String()
	}
	return M{
		"table": r.Table, "dst": dst, "prio": r.Priority, "tos": r.Tos, "ifx": r.LinkIndex,
		"type": r.Type, "scope": int(r.Scope), "proto": int(r.Protocol), "gw": ipStr(r.Gw), "src": ipStr(r.Src),
		"onlink": r.Flags&unix.RTNH_F_ONLINK != 0, "mtu": r.MTU, "family": r.Family, "nmp": len(r.MultiPath),
	}
}

func (d *drv) routeFromJSON(m M) netlink.Route {
	_, dst, err := net.ParseCIDR(tracelog.Str(m["dst"]))
	if err != nil {
		panic(err)
	}
	r := netlink.Route{
		Table: tracelog.Int(m["table"]), Dst: dst, Priority: tracelog.Int(m["prio"]), Tos: tracelog.Int(m["tos"]),
		LinkIndex: tracelog.Int(m["ifx"]), Type: tracelog.Int(m["type"]), Scope: netlink.Scope(tracelog.Int(m["scope"])),
		Protocol: netlink.RouteProtocol(tracelog.Int(m["proto"])), MTU: tracelog.Int(m["mtu"]), Family: tracelog.Int(m["family"]),
	}
	if g := tracelog.Str(m["gw"]); g != "" {
		r.Gw = net.ParseIP(g)
	}
	if s := tracelog.Str(m["src"]); s != "" {
		r.Src = net.ParseIP(s)
	}
	if b(m["onlink"]) {
		r.Flags = unix.RTNH_F_ONLINK
	}
	if r.Family == 0 {
		r.Family = d.family()
	}
	return r
}

func (d *drv) kernel() []M {
	keys := make([]string, 0, len(d.dp.RouteKeyToRoute))
	for k := range d.dp.RouteKeyToRoute {
		keys = append(keys, k)
	}
	sort.Strings(keys)
	out := make([]M, 0, len(keys))
	for _, k := range keys {
		out = append(out, routeToJSON(d.dp.RouteKeyToRoute[k]))
	}
	return out
}

func (d *drv) links() []M {
	names := make([]string, 0, len(d.dp.NameToLink))
	for n := range d.dp.NameToLink {
		names = append(names, n)
	}
	sort.Strings(names)
	out := make([]M, 0, len(names))
	for _, n := range names {
		l := d.dp.NameToLink[n]
		out = append(out, M{"name": n, "idx": l.LinkAttrs.Index, "up": l.LinkAttrs.RawFlags&syscall.IFF_RUNNING != 0})
	}
	return out
}

func (d *drv) target(m M) routetable.Target {
	t := routetable.Target{
		RouteKey: routetable.RouteKey{CIDR: ip.MustParseCIDROrIP(tracelog.Str(m["dst"])), Priority: tracelog.Int(m["prio"])},
		Type:     routetable.TargetType(tracelog.Str(m["tt"])),
		Protocol: netlink.RouteProtocol(tracelog.Int(m["proto"])),
		MTU:      tracelog.Int(m["mtu"]),
	}
	if g := tracelog.Str(m["gw"]); g != "" {
		t.GW = ip.FromString(g)
	}
	if s := tracelog.Str(m["src"]); s != "" {
		t.Src = ip.FromString(s)
	}
	return t
}

// normalised copy of a target record for the trace (all fields present, uniform types)
func tjson(m M) M {
	return M{"dst": tracelog.Str(m["dst"]), "prio": tracelog.Int(m["prio"]), "tt": tracelog.Str(m["tt"]),
		"gw": tracelog.Str(m["gw"]), "src": tracelog.Str(m["src"]), "proto": tracelog.Int(m["proto"]), "mtu": tracelog.Int(m["mtu"])}
}

// ---- trace start -----------------------------------------------------------------------------------

func (d *drv) start(t int, init M) {
	d.ipv = tracelog.Int(init["ipv"])
	if d.ipv == 0 {
		d.ipv = 4
	}
	tbl := tracelog.Int(init["table"]) // 0 = main
	d.table = tbl
	if tbl == 0 {
		d.table = unix.RT_TABLE_MAIN
	}
	removeExt, ownBird := b(init["removeExt"]), b(init["ownBird"])
	d.dp = mocknetlink.New()
	d.raceKey = ""
	for _, l := range arr(init["links"]) {
		lm := rec(l)
		up := b(lm["up"])
		d.dp.AddIface(tracelog.Int(lm["idx"]), tracelog.Str(lm["name"]), up, up)
	}
	for _, r := range arr(init["routes"]) {
		rr := d.routeFromJSON(rec(r))
		d.dp.AddMockRoute(&rr)
	}
	pol := ownershippol.NewMainTable("vxlan.calico", unix.RTPROT_BOOT, []string{"cali"}, removeExt, ownBird)
	all, excl := []int{}, []int{}
	for _, p := range pol.AllRouteProtocols {
		all = append(all, int(p))
	}
	for _, p := range pol.ExclusiveRouteProtocols {
		excl = append(excl, int(p))
	}
	ct := true // conntrack cleanup on route moves (the main table's default)
	if v, ok := init["ct"]; ok {
		ct = b(v)
	}
	mt := mocktime.New()
	d.rt = routetable.New(pol, uint8(d.ipv), 10*time.Second, nil, unix.RTPROT_BOOT, removeExt, tbl,
		logrusr.NewSummarizer("verif"), d.dp,
		routetable.WithTimeShim(mt),
		routetable.WithConntrackShim(d.dp),
		routetable.WithConntrackCleanup(ct),
		routetable.WithNetlinkHandleShim(func() (netlinkshim.Interface, error) {
			if _, err := d.dp.NewMockNetlink(); err != nil {
				return nil, err
			}
			return &nlRace{MockNetlinkDataplane: d.dp, d: d}, nil
		}),
	)
	d.log.Reset(t, M{
		"cfg": M{"ipv": d.ipv, "table": d.table, "defProto": int(unix.RTPROT_BOOT), "devSrc": "",
			"wl": wlNames, "special": specialNames, "ipip": ipipName, "removeExt": removeExt, "ownBird": ownBird,
			"allProtos": all, "exclusive": excl, "ct": ct},
		"wild": b(init["wild"]),
		"kernel": d.kernel(), "links": d.links(),
	})
}

// ---- one step ---------------------------------------------------------------------------------------

func stateOf(up bool) ifacemonitor.State {
	if up {
		return ifacemonitor.StateUp
	}
	return ifacemonitor.StateDown
}

func (d *drv) flush(idx int) {
	for k, r := range d.dp.RouteKeyToRoute {
		if r.LinkIndex == idx {
			delete(d.dp.RouteKeyToRoute, k)
		}
	}
}

func (d *drv) step(op M) {
	switch tracelog.Str(op["op"]) {
	case "set_routes":
		ts := []routetable.Target{}
		tj := []M{}
		for _, t := range arr(op["targets"]) {
			ts = append(ts, d.target(rec(t)))
			tj = append(tj, tjson(rec(t)))
		}
		d.rt.SetRoutes(routetable.RouteClass(tracelog.Int(op["cls"])), tracelog.Str(op["ifn"]), ts)
		d.log.Emit("set_routes", M{"cls": tracelog.Int(op["cls"]), "ifn": tracelog.Str(op["ifn"]), "targets": tj})
	case "route_update":
		d.rt.RouteUpdate(routetable.RouteClass(tracelog.Int(op["cls"])), tracelog.Str(op["ifn"]), d.target(rec(op["target"])))
		d.log.Emit("route_update", M{"cls": tracelog.Int(op["cls"]), "ifn": tracelog.Str(op["ifn"]), "target": tjson(rec(op["target"]))})
	case "route_remove":
		d.rt.RouteRemove(routetable.RouteClass(tracelog.Int(op["cls"])), tracelog.Str(op["ifn"]),
			routetable.RouteKey{CIDR: ip.MustParseCIDROrIP(tracelog.Str(op["dst"])), Priority: tracelog.Int(op["prio"])})
		d.log.Emit("route_remove", M{"cls": tracelog.Int(op["cls"]), "ifn": tracelog.Str(op["ifn"]),
			"dst": tracelog.Str(op["dst"]), "prio": tracelog.Int(op["prio"])})
	case "link":
		// environment: create / change / delete (idx 0) an interface; `flush` removes the routes
		// through the old ifindex as the kernel does when a device goes down or away
		name, idx, up := tracelog.Str(op["name"]), tracelog.Int(op["idx"]), b(op["up"])
		old, exists := d.dp.NameToLink[name]
		oldIdx := 0
		if exists {
			oldIdx = old.LinkAttrs.Index
		}
		if exists && (idx == 0 || idx != oldIdx) {
			d.dp.DelIface(name)
			exists = false
		}
		if idx != 0 {
			if exists {
				d.dp.SetIface(name, up, up)
			} else {
				d.dp.AddIface(idx, name, up, up)
			}
		}
		if b(op["flush"]) && oldIdx != 0 {
			d.flush(oldIdx)
		}
		d.log.Emit("env_link", M{"name": name, "kernel": d.kernel(), "links": d.links()})
	case "notify":
		// the interface monitor delivers the current true state of the interface
		name := tracelog.Str(op["name"])
		if l, ok := d.dp.NameToLink[name]; ok {
			up := l.LinkAttrs.RawFlags&syscall.IFF_RUNNING != 0
			d.rt.OnIfaceStateChanged(name, l.LinkAttrs.Index, stateOf(up))
			d.log.Emit("iface_event", M{"name": name, "idx": l.LinkAttrs.Index, "state": string(stateOf(up))})
		} else {
			d.rt.OnIfaceStateChanged(name, 0, ifacemonitor.StateNotPresent)
			d.log.Emit("iface_event", M{"name": name, "idx": 0, "state": ""})
		}
	case "event":
		// an explicit (possibly out-of-date) interface monitor event
		name, idx, st := tracelog.Str(op["name"]), tracelog.Int(op["idx"]), tracelog.Str(op["state"])
		d.rt.OnIfaceStateChanged(name, idx, ifacemonitor.State(st))
		d.log.Emit("iface_event", M{"name": name, "idx": idx, "state": st})
	case "ext_add":
		r := d.routeFromJSON(rec(op["r"]))
		d.dp.AddMockRoute(&r)
		d.log.Emit("env_routes", M{"kernel": d.kernel()})
	case "ext_del":
		_, dst, err := net.ParseCIDR(tracelog.Str(op["dst"]))
		if err != nil {
			panic(err)
		}
		r := netlink.Route{Table: tracelog.Int(op["table"]), Dst: dst, Priority: tracelog.Int(op["prio"])}
		d.dp.RemoveMockRoute(&r)
		d.log.Emit("env_routes", M{"kernel": d.kernel()})
	case "resync":
		d.rt.QueueResync()
		d.log.Emit("queue_resync", nil)
	case "resync_iface":
		d.rt.QueueResyncIface(tracelog.Str(op["name"]))
		d.log.Emit("queue_resync_iface", M{"name": tracelog.Str(op["name"])})
	case "dump_race":
		_, dst, err := net.ParseCIDR(tracelog.Str(op["dst"]))
		if err != nil {
			panic(err)
		}
		r := netlink.Route{Table: tracelog.Int(op["table"]), Dst: dst, Priority: tracelog.Int(op["prio"])}
		d.raceKey = mocknetlink.KeyForRoute(&r)
		d.log.Emit("dump_race", M{"table": tracelog.Int(op["table"]), "dst": tracelog.Str(op["dst"]), "prio": tracelog.Int(op["prio"])})
	case "fail":
		var f mocknetlink.FailFlags
		names := []string{}
		for _, n := range arr(op["flags"]) {
			ff, ok := failFlags[tracelog.Str(n)]
			if !ok {
				panic("unknown fail flag " + tracelog.Str(n))
			}
			f |= ff
			names = append(names, tracelog.Str(n))
		}
		d.dp.FailuresToSimulate = f
		d.dp.PersistFailures = b(op["persist"])
		d.log.Emit("fail", M{"flags": names, "persist": b(op["persist"])})
	case "apply":
		err := d.rt.Apply()
		es := ""
		if err != nil {
			es = err.Error()
		}
		d.log.Emit("apply", M{"ok": err == nil, "err": es, "kernel": d.kernel(), "links": d.links()})
	case "end", "init":
	default:
		panic("unknown op " + tracelog.Str(op["op"]))
	}
}

// ---- seeded random histories over a larger universe ----------------------------------------------------

type ifs struct {
	name string
	idxs []int
}

func (d *drv) random(t int, rnd *rand.Rand) {
	ipv := 4
	if rnd.Intn(4) == 0 {
		ipv = 6
	}
	dsts := []string{"10.0.0.1/32", "10.0.0.2/32", "10.0.0.3/32", "10.0.1.0/26", "10.0.2.0/26", "192.168.0.0/16"}
	gws := []string{"", "172.16.0.1", "172.16.0.2"}
	if ipv == 6 {
		dsts = []string{"fd00::1/128", "fd00::2/128", "fd00::3/128", "fd00:1::/64", "fd00:2::/64", "fe80::/64"}
		gws = []string{"", "fd77::1", "fd77::2"}
	}
	fam := netlink.FAMILY_V4
	if ipv == 6 {
		fam = netlink.FAMILY_V6
	}
	universe := []ifs{{"cali1", []int{11, 12, 13}}, {"cali2", []int{21, 22}}, {"cali3", []int{31, 32}}, {"eth0", []int{2}},
		{"eth1", []int{3, 4}}, {"vxlan.calico", []int{41, 42}}, {"tunl0", []int{51}}}
	next := map[string]int{}
	fresh := 100
	// "wild" histories include the triggers of the three confirmed defects (notes/C17.md): ifindex reuse,
	// route-listing failures hitting a per-interface resync, contested single-address destinations with
	// conntrack cleanup on.  A rejection there is classified by the check (tolerance specs); the other
	// histories keep away from the triggers, so any rejection in them is a new violation.
	wildShare := 16
	if os.Getenv("VERIF_TIER") == "thorough" {
		wildShare = 6
	}
	wild := rnd.Intn(wildShare) == 0 || os.Getenv("VERIF_WILD") == "1"
	idxReuse := wild
	tables := []int{254, 254, 254, 100}
	prios := []int{0, 0, 100}
	if ipv == 6 {
		prios = []int{1024, 1024, 100}
	}
	// With conntrack cleanup enabled the histories keep away from the confirmed defect F1 (notes/C17.md):
	// a single-address destination is only ever wanted through one fixed (class, interface), and kernel
	// routes put there by the environment never look like a route Felix would program.
	ct := rnd.Intn(2) == 0
	bound := ct && !wild // single-address destinations keep one fixed owner
	single := func(dst string) bool { return dst[len(dst)-3:] == "/32" || dst[len(dst)-4:] == "/128" }
	// foreign / stale kernel routes
	rroute := func(live func(string) int) M {
		u := universe[rnd.Intn(len(universe))]
		ifx := live(u.name)
		typ, scope := unix.RTN_UNICAST, int(netlink.SCOPE_LINK)
		switch rnd.Intn(8) {
		case 0:
			ifx = 0
			if ipv == 6 {
				ifx = 1
			}
			typ, scope = unix.RTN_BLACKHOLE, int(netlink.SCOPE_UNIVERSE)
		case 1:
			scope = int(netlink.SCOPE_UNIVERSE)
		}
		if ifx == 0 && typ == unix.RTN_UNICAST {
			ifx = 2
		}
		dst := dsts[rnd.Intn(len(dsts))]
		gw := gws[rnd.Intn(len(gws))]
		if bound && single(dst) && typ == unix.RTN_UNICAST {
			gw = gws[1][:len(gws[1])-1] + "9"
		}
		return M{"table": tables[rnd.Intn(len(tables))], "dst": dst, "prio": prios[rnd.Intn(len(prios))], "tos": 0,
			"ifx": ifx, "type": typ, "scope": scope, "proto": []int{2, 3, 3, 12, 80, 4}[rnd.Intn(6)],
			"gw": gw, "src": "", "onlink": rnd.Intn(5) == 0, "mtu": 0, "family": fam}
	}
	links := []any{}
	cur := map[string]int{}
	for _, u := range universe {
		if u.name == "eth0" || rnd.Intn(3) > 0 {
			up := u.name == "eth0" || rnd.Intn(4) > 0
			links = append(links, M{"name": u.name, "idx": u.idxs[0], "up": up})
			cur[u.name] = u.idxs[0]
			next[u.name] = 1
		}
	}
	live := func(n string) int { return cur[n] }
	routes := []any{}
	for i := rnd.Intn(6); i > 0; i-- {
		routes = append(routes, rroute(live))
	}
	d.start(t, M{"ipv": ipv, "table": 0, "removeExt": rnd.Intn(2) == 0, "ownBird": rnd.Intn(2) == 0, "ct": ct, "wild": wild, "links": links, "routes": routes})
	classes := []int{0, 3, 4, 7, 8}
	rtarget := func(ifn string) M {
		tt := []string{"", "", "vxlan", "global-unicast", "local-unicast", "noencap", "onlink"}[rnd.Intn(7)]
		if ifn == routetable.InterfaceNone {
			tt = []string{"blackhole", "throw", "prohibit", "unreachable", "local"}[rnd.Intn(5)]
		}
		gw := gws[rnd.Intn(len(gws))]
		if ifn == routetable.InterfaceNone {
			gw = ""
		}
		// Felix only asks for routes its own policy recognises: Calico's exclusive protocol (80) anywhere,
		// the default protocol (0 -> RTPROT_BOOT) only on workload interfaces
		proto := 80
		if len(ifn) > 4 && ifn[:4] == "cali" {
			proto = []int{0, 0, 80}[rnd.Intn(3)]
		}
		m := M{"dst": dsts[rnd.Intn(len(dsts)-1)], "prio": prios[rnd.Intn(len(prios))], "tt": tt, "gw": gw, "src": "",
			"proto": proto, "mtu": []int{0, 0, 1400}[rnd.Intn(3)]}
		if ipv == 6 && rnd.Intn(3) == 0 {
			m["prio"] = 0 // normalised to 1024 by the route table
		}
		return m
	}
	rifn := func() string {
		if rnd.Intn(6) == 0 {
			return routetable.InterfaceNone
		}
		return []string{"cali1", "cali2", "cali3", "cali1", "eth0", "vxlan.calico", "tunl0"}[rnd.Intn(7)]
	}
	type bnd struct {
		cls int
		ifn string
	}
	bind := map[string]bnd{dsts[0]: {0, "cali1"}, dsts[1]: {0, "cali2"}, dsts[2]: {3, "cali3"}}
	// pick (class, interface, target); in ct mode a single-address destination keeps its fixed owner
	pick := func() (int, string, M) {
		ifn := rifn()
		cls := classes[rnd.Intn(len(classes))]
		tg := rtarget(ifn)
		if bd, ok := bind[tracelog.Str(tg["dst"])]; ok && bound {
			t2 := rtarget(bd.ifn)
			t2["dst"] = tg["dst"]
			return bd.cls, bd.ifn, t2
		}
		return cls, ifn, tg
	}
	// "quiet" histories: nobody edits routes behind Felix's back and no full resync is queued after the
	// first Apply, so Felix has to get everything right from interface events and per-interface resyncs
	quiet := rnd.Intn(3) == 0
	// the name of an interface that currently carries a route in the main table (else any)
	busy := func() ifs {
		ks := d.kernel()
		for tries := 0; tries < 4 && len(ks) > 0; tries++ {
			k := ks[rnd.Intn(len(ks))]
			for _, u := range universe {
				if u.name != "eth0" && cur[u.name] == tracelog.Int(k["ifx"]) && tracelog.Int(k["table"]) == 254 {
					return u
				}
			}
		}
		return universe[1+rnd.Intn(len(universe)-1)]
	}
	type want struct {
		cls int
		ifn string
		tg  M
	}
	issued := []want{}
	steps := 15 + rnd.Intn(25)
	connFails := 0
	for i := 0; i < steps; i++ {
		c := rnd.Intn(24)
		if quiet && (c >= 9 && c <= 12) {
			c = 8 // no environment route edits / full resyncs; more interface churn instead
		}
		if quiet && c == 22 {
			c = 20
		}
		switch c {
		case 0, 1:
			cls, ifn, first := pick()
			n := rnd.Intn(4)
			ts := []any{}
			for j := 0; j < n; j++ {
				tg := first
				if j > 0 {
					tg = rtarget(ifn)
					if _, isb := bind[tracelog.Str(tg["dst"])]; isb && bound {
						continue
					}
				}
				ts = append(ts, tg)
			}
			d.step(M{"op": "set_routes", "cls": cls, "ifn": ifn, "targets": ts})
			for _, tg := range ts {
				issued = append(issued, want{cls, ifn, tg.(M)})
			}
		case 2, 3, 4:
			cls, ifn, tg := pick()
			d.step(M{"op": "route_update", "cls": cls, "ifn": ifn, "target": tg})
			issued = append(issued, want{cls, ifn, tg})
		case 20:
			// same class, same destination, another interface: a conflict decided by the tie-break inside a class
			if len(issued) == 0 {
				continue
			}
			w := issued[rnd.Intn(len(issued))]
			if w.ifn == routetable.InterfaceNone || (bound && single(tracelog.Str(w.tg["dst"]))) {
				continue
			}
			other := wlNames[rnd.Intn(len(wlNames))]
			if other == w.ifn {
				continue
			}
			tg := M{}
			for k, v := range w.tg {
				tg[k] = v
			}
			tg["gw"] = gws[rnd.Intn(len(gws))]
			d.step(M{"op": "route_update", "cls": w.cls, "ifn": other, "target": tg})
			issued = append(issued, want{w.cls, other, tg})
		case 21:
			// withdraw something that was asked for (often one side of a conflict)
			if len(issued) == 0 {
				continue
			}
			w := issued[rnd.Intn(len(issued))]
			if rnd.Intn(4) == 0 {
				d.step(M{"op": "set_routes", "cls": w.cls, "ifn": w.ifn, "targets": []any{}})
			} else {
				d.step(M{"op": "route_remove", "cls": w.cls, "ifn": w.ifn, "dst": w.tg["dst"], "prio": w.tg["prio"]})
			}
		case 22:
			// a full resync whose route dump is interrupted after delivering a route that is gone before the retry
			ks := d.kernel()
			if len(ks) == 0 {
				continue
			}
			k := ks[rnd.Intn(len(ks))]
			if tracelog.Int(k["table"]) != 254 {
				continue
			}
			d.step(M{"op": "dump_race", "table": k["table"], "dst": k["dst"], "prio": k["prio"]})
			d.step(M{"op": "resync"})
			d.step(M{"op": "apply"})
		case 5:
			cls, ifn, tg := pick()
			d.step(M{"op": "route_remove", "cls": cls, "ifn": ifn, "dst": tg["dst"], "prio": tg["prio"]})
		case 6, 7:
			u := universe[rnd.Intn(len(universe))]
			if rnd.Intn(2) == 0 {
				u = busy()
			}
			if u.name == "eth0" {
				continue
			}
			switch rnd.Intn(4) {
			case 0: // delete
				d.step(M{"op": "link", "name": u.name, "idx": 0, "up": false, "flush": true})
				delete(cur, u.name)
			case 1: // (re)create with the next ifindex (wild histories: cycle through a small pool, so
				// that an interface can come back with an index it had before - see notes/C17.md)
				idx := u.idxs[next[u.name]%len(u.idxs)]
				next[u.name]++
				if !idxReuse {
					fresh++
					idx = fresh
				}
				if idx == cur[u.name] {
					continue
				}
				d.step(M{"op": "link", "name": u.name, "idx": idx, "up": rnd.Intn(3) > 0, "flush": true})
				cur[u.name] = idx
			default: // up/down flip
				if idx, ok := cur[u.name]; ok {
					up := rnd.Intn(2) == 0
					d.step(M{"op": "link", "name": u.name, "idx": idx, "up": up, "flush": !up && rnd.Intn(4) > 0})
				}
			}
			if rnd.Intn(5) > 0 {
				d.step(M{"op": "notify", "name": u.name})
			}
		case 8:
			if rnd.Intn(3) == 0 {
				d.step(M{"op": "notify", "name": universe[rnd.Intn(len(universe))].name})
				continue
			}
			// flap: down (routes flushed) and up again before Felix gets to apply anything
			u := busy()
			if u.name == "eth0" {
				continue
			}
			if idx, ok := cur[u.name]; ok {
				d.step(M{"op": "link", "name": u.name, "idx": idx, "up": false, "flush": true})
				if rnd.Intn(2) == 0 {
					d.step(M{"op": "notify", "name": u.name})
				}
				d.step(M{"op": "link", "name": u.name, "idx": idx, "up": true, "flush": false})
				if rnd.Intn(6) > 0 {
					d.step(M{"op": "notify", "name": u.name})
				}
			}
		case 9, 10:
			d.step(M{"op": "ext_add", "r": rroute(live)})
			if rnd.Intn(3) > 0 {
				d.step(M{"op": "resync"})
			}
		case 11:
			ks := d.kernel()
			if len(ks) > 0 {
				k := ks[rnd.Intn(len(ks))]
				d.step(M{"op": "ext_del", "table": k["table"], "dst": k["dst"], "prio": k["prio"]})
				if rnd.Intn(3) > 0 {
					d.step(M{"op": "resync"})
				}
			}
		case 12:
			d.step(M{"op": "resync"})
		case 13:
			d.step(M{"op": "resync_iface", "name": universe[rnd.Intn(len(universe))].name})
		case 14, 15:
			names := []string{"LinkList", "LinkListEINTR", "LinkByName", "RouteList", "RouteListEINTR", "RouteListWEINTR",
				"RouteReplace", "RouteDel", "NewNetlink", "SetSocketTimeout", "SetStrict", "LinkByNameNotFound"}
			if quiet {
				names = []string{"LinkByName", "RouteReplace", "RouteDel", "NewNetlink", "SetSocketTimeout", "SetStrict"}
			}
			fl := []any{}
			for j := 1 + rnd.Intn(2); j > 0; j-- {
				fl = append(fl, names[rnd.Intn(len(names))])
			}
			persist := rnd.Intn(4) == 0
			listing := false
			for _, f := range fl {
				if f == "NewNetlink" || f == "SetSocketTimeout" || f == "SetStrict" {
					connFails++
					persist = false
				}
				if f == "RouteList" || f == "RouteListEINTR" || f == "RouteListWEINTR" {
					listing = true
				}
			}
			if connFails > 2 {
				continue // three connection failures in a row make the handle manager panic by design
			}
			if listing && !wild {
				// a failed route listing is only injected into a FULL resync: a per-interface resync
				// swallows it (confirmed defect F2, notes/C17.md)
				d.step(M{"op": "resync"})
			}
			d.step(M{"op": "fail", "flags": fl, "persist": persist})
			d.step(M{"op": "apply"})
			d.step(M{"op": "fail", "flags": []any{}, "persist": false})
			d.step(M{"op": "apply"})
			connFails = 0
		default:
			d.step(M{"op": "apply"})
		}
	}
	d.step(M{"op": "fail", "flags": []any{}, "persist": false})
	d.step(M{"op": "apply"})
	d.step(M{"op": "resync"})
	d.step(M{"op": "apply"})
	d.step(M{"op": "apply"})
}

func main() {
	log.SetLevel(log.PanicLevel)
	gomega.RegisterFailHandler(func(message string, _ ...int) { panic("mocknetlink assertion: " + message) })
	env := tracelog.GetEnv()
	lg, err := tracelog.Open(env.OutPath)
	if err != nil {
		fmt.Fprintln(os.Stderr, err)
		os.Exit(2)
	}
	d := &drv{log: lg}
	behs, err := tracelog.LoadBehaviours(env.BehPath)
	if err != nil {
		fmt.Fprintln(os.Stderr, err)
		os.Exit(2)
	}
	// further behaviour files (other generator configurations), replayed after the main one
	for _, extra := range strings.Split(os.Getenv("VERIF_BEH_EXTRA"), ":") {
		if extra == "" {
			continue
		}
		more, err := tracelog.LoadBehaviours(extra)
		if err != nil {
			fmt.Fprintln(os.Stderr, err)
			os.Exit(2)
		}
		behs = append(behs, more...)
	}
	t := 0
	for _, bh := range behs {
		if len(bh) == 0 || tracelog.Str(bh[0]["op"]) != "init" {
			continue
		}
		t++
		d.start(t, bh[0])
		for _, op := range bh[1:] {
			d.step(op)
		}
	}
	for i := 0; i < env.N; i++ {
		t++
		d.random(t, rand.New(rand.NewSource(env.Seed*1000003+int64(i))))
	}
	if err := lg.Close(); err != nil {
		fmt.Fprintln(os.Stderr, err)
		os.Exit(2)
	}
}
