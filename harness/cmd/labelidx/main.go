// Driver for C07: drives the real felix/labelindex.InheritIndex (TLC behaviours + seeded random
// histories), and the two candidate-pruning indexes it relies on elsewhere
// (labelrestrictionindex.LabelRestrictionIndex, labelnamevalueindex.LabelNameValueIndex) with seeded
// random histories.  Every public call is logged before it is made, every callback as it arrives, and a
// "done" marker when the call has returned.  Selectors are logged as the purely syntactic export of the
// real parser's node tree; nothing here evaluates a selector or a restriction.
package main

import (
	"fmt"
	"iter"
	"math/rand"
	"os"
	"sort"

	"github.com/sirupsen/logrus"

	"github.com/projectcalico/calico/felix/labelindex"
	"github.com/projectcalico/calico/felix/labelindex/labelnamevalueindex"
	"github.com/projectcalico/calico/felix/labelindex/labelrestrictionindex"
	"github.com/projectcalico/calico/lib/std/uniquelabels"
	"github.com/projectcalico/calico/lib/std/uniquestr"
	"github.com/projectcalico/calico/libcalico-go/lib/selector"
	"github.com/projectcalico/calico/libcalico-go/lib/selector/parser"

	"verifharness/selgen"
	"verifharness/tracelog"
)

type drv struct {
	log *tracelog.Log
	idx *labelindex.InheritIndex
}

func ctOf(strs map[string]bool) map[string][]string { return selgen.CharTable(strs) }

func labelStrs(m map[string]string, strs map[string]bool) {
	for _, v := range m {
		strs[v] = true
	}
}

func toLabels(v any) map[string]string {
	out := map[string]string{}
	if m, ok := v.(map[string]any); ok {
		for k, x := range m {
			out[k] = tracelog.Str(x)
		}
	}
	return out
}

func toStrs(v any) []string {
	out := []string{}
	if a, ok := v.([]any); ok {
		for _, x := range a {
			out = append(out, tracelog.Str(x))
		}
	}
	return out
}

func parseAST(ast *selgen.N) *selector.Selector {
	text := selgen.Text(ast)
	sel, err := selector.Parse(text)
	if err != nil {
		fmt.Fprintf(os.Stderr, "harness gap: rendering %q of a generated AST does not parse: %v\n", text, err)
		os.Exit(2)
	}
	return sel
}

// ---- InheritIndex -----------------------------------------------------------------------------------

func (d *drv) startInherit(t int, keys, vals []string) {
	d.idx = labelindex.NewInheritIndex(
		func(selID, itemID any) { d.log.Emit("started", map[string]any{"sel": selID, "item": itemID}) },
		func(selID, itemID any) { d.log.Emit("stopped", map[string]any{"sel": selID, "item": itemID}) },
	)
	strs := map[string]bool{}
	for _, v := range vals {
		strs[v] = true
	}
	d.log.Reset(t, map[string]any{"kind": "inherit", "keys": keys, "vals": vals, "ct": ctOf(strs)})
}

func (d *drv) updateLabels(id string, labels map[string]string, parents []string) {
	strs := map[string]bool{}
	labelStrs(labels, strs)
	d.log.Emit("update_labels", map[string]any{"id": id, "labels": labels, "parents": parents, "ct": ctOf(strs)})
	d.idx.UpdateLabels(id, uniquelabels.Make(labels), parents)
	d.log.Emit("done", nil)
}

func (d *drv) deleteLabels(id string) {
	d.log.Emit("delete_labels", map[string]any{"id": id})
	d.idx.DeleteLabels(id)
	d.log.Emit("done", nil)
}

func (d *drv) updateParent(id string, labels map[string]string) {
	strs := map[string]bool{}
	labelStrs(labels, strs)
	d.log.Emit("update_parent", map[string]any{"id": id, "labels": labels, "ct": ctOf(strs)})
	d.idx.UpdateParentLabels(id, labels)
	d.log.Emit("done", nil)
}

func (d *drv) deleteParent(id string) {
	d.log.Emit("delete_parent", map[string]any{"id": id})
	d.idx.DeleteParentLabels(id)
	d.log.Emit("done", nil)
}

func (d *drv) updateSel(id string, sel *selector.Selector) {
	strs := map[string]bool{}
	ast := selgen.Export(sel.Root(), strs)
	restr := selgen.ExportRestrictions(sel.LabelRestrictions(), strs)
	d.log.Emit("update_sel", map[string]any{"id": id, "ast": ast, "restr": restr, "text": sel.String(), "ct": ctOf(strs)})
	d.idx.UpdateSelector(id, sel)
	d.log.Emit("done", nil)
}

func (d *drv) deleteSel(id string) {
	d.log.Emit("delete_sel", map[string]any{"id": id})
	d.idx.DeleteSelector(id)
	d.log.Emit("done", nil)
}

func (d *drv) step(op map[string]any) {
	id := tracelog.Str(op["id"])
	switch tracelog.Str(op["op"]) {
	case "update_labels":
		d.updateLabels(id, toLabels(op["labels"]), toStrs(op["parents"]))
	case "delete_labels":
		d.deleteLabels(id)
	case "update_parent":
		d.updateParent(id, toLabels(op["labels"]))
	case "delete_parent":
		d.deleteParent(id)
	case "update_sel":
		ast, err := selgen.FromJSON(op["ast"])
		if err != nil {
			fmt.Fprintln(os.Stderr, "bad AST in behaviour:", err)
			os.Exit(2)
		}
		d.updateSel(id, parseAST(ast))
	case "delete_sel":
		d.deleteSel(id)
	case "end":
	default:
		panic("unknown op " + tracelog.Str(op["op"]))
	}
}

var keyPool = []string{"a", "b", "role", "k8s.io/name", "tier"}
var valFamilies = [][]string{
	{"x", "xy", "yxy"}, {"prod", "production", "duct"}, {"", "s", "it's"}, {"a", "b", "ab"}, {"1", "11", "21"},
}

type universe struct {
	keys, vals             []string
	items, parents, selIDs []string
	gen                    *selgen.Gen
	rnd                    *rand.Rand
}

func newUniverse(rnd *rand.Rand) *universe {
	u := &universe{rnd: rnd}
	nk := 1 + rnd.Intn(3)
	u.keys = pick(rnd, keyPool, nk)
	fam := valFamilies[rnd.Intn(len(valFamilies))]
	nv := 2 + rnd.Intn(2)
	if nk == 3 {
		nv = 2
	}
	u.vals = pick(rnd, fam, nv)
	sort.Strings(u.keys)
	sort.Strings(u.vals)
	for i := 0; i < 2+rnd.Intn(4); i++ {
		u.items = append(u.items, fmt.Sprintf("i%d", i))
	}
	for i := 0; i < 1+rnd.Intn(3); i++ {
		u.parents = append(u.parents, fmt.Sprintf("p%d", i))
	}
	for i := 0; i < 1+rnd.Intn(4); i++ {
		u.selIDs = append(u.selIDs, fmt.Sprintf("s%d", i))
	}
	// selectors mostly over the vocabulary, sometimes mentioning a value outside it
	u.gen = &selgen.Gen{Rnd: rnd, Keys: u.keys, Vals: append(append([]string{}, u.vals...), fam[rnd.Intn(len(fam))])}
	return u
}

func (u *universe) labels() map[string]string {
	m := map[string]string{}
	p := u.rnd.Float64()
	for _, k := range u.keys {
		if u.rnd.Float64() < p {
			m[k] = u.vals[u.rnd.Intn(len(u.vals))]
		}
	}
	return m
}

func (u *universe) parentList() []string {
	n := u.rnd.Intn(len(u.parents) + 1)
	if u.rnd.Intn(3) == 0 {
		n = 0
	}
	out := []string{}
	for i := 0; i < n; i++ {
		out = append(out, u.parents[u.rnd.Intn(len(u.parents))]) // duplicates allowed
	}
	return out
}

func (u *universe) sel() *selector.Selector {
	if u.rnd.Intn(5) == 0 {
		return parseAST(u.gen.SameLabelShape())
	}
	return parseAST(u.gen.AST(u.rnd.Intn(4)))
}

func (d *drv) randomInherit(t int, rnd *rand.Rand) {
	u := newUniverse(rnd)
	d.startInherit(t, u.keys, u.vals)
	if len(u.parents) >= 2 && rnd.Intn(2) == 0 {
		// two parents that disagree on a label the item does not carry itself, listed in both orders
		k, v0, v1 := u.keys[0], u.vals[0], u.vals[1]
		d.updateParent(u.parents[0], map[string]string{k: v0})
		d.updateParent(u.parents[1], map[string]string{k: v1})
		d.updateSel(u.selIDs[0], parseAST(&selgen.N{Op: "eq", K: k, V: v0}))
		d.updateLabels(u.items[0], map[string]string{}, []string{u.parents[0], u.parents[1]})
		d.updateLabels(u.items[0], map[string]string{}, []string{u.parents[1], u.parents[0]})
		d.updateLabels(u.items[0], map[string]string{k: v0}, []string{u.parents[1], u.parents[0]})
	}
	steps := 20 + rnd.Intn(40)
	var lastLabels map[string]string
	var lastParents []string
	lastItem := ""
	for i := 0; i < steps; i++ {
		switch c := rnd.Intn(20); {
		case c < 6:
			lastItem, lastLabels, lastParents = u.items[rnd.Intn(len(u.items))], u.labels(), u.parentList()
			d.updateLabels(lastItem, lastLabels, lastParents)
		case c < 7 && lastItem != "":
			d.updateLabels(lastItem, lastLabels, lastParents) // identical update
		case c < 9:
			d.deleteLabels(u.items[rnd.Intn(len(u.items))])
		case c < 13:
			d.updateParent(u.parents[rnd.Intn(len(u.parents))], u.labels())
		case c < 15:
			d.deleteParent(u.parents[rnd.Intn(len(u.parents))])
		case c < 18:
			d.updateSel(u.selIDs[rnd.Intn(len(u.selIDs))], u.sel())
		default:
			d.deleteSel(u.selIDs[rnd.Intn(len(u.selIDs))])
		}
	}
}

// ---- LabelRestrictionIndex ------------------------------------------------------------------------------

// mapLabeled is the Labeled plumbing for a plain label map (each key/value exactly once).
type mapLabeled map[string]string

func (m mapLabeled) AllOwnAndParentLabelHandles() iter.Seq2[uniquestr.Handle, uniquestr.Handle] {
	return func(yield func(k, v uniquestr.Handle) bool) {
		for _, k := range selgen.SortedKeys(m) {
			if !yield(uniquestr.Make(k), uniquestr.Make(m[k])) {
				return
			}
		}
	}
}

func (d *drv) randomRidx(t int, rnd *rand.Rand) {
	u := newUniverse(rnd)
	strs := map[string]bool{}
	for _, v := range u.vals {
		strs[v] = true
	}
	d.log.Reset(t, map[string]any{"kind": "ridx", "keys": u.keys, "vals": u.vals, "ct": ctOf(strs)})
	idx := labelrestrictionindex.New[string]()
	maps := selgen.AllMaps(u.keys, u.vals)
	query := func(m map[string]string) {
		got := []string{}
		for id := range idx.AllPotentialMatches(mapLabeled(m)) {
			got = append(got, id)
		}
		sort.Strings(got)
		d.log.Emit("r_query", map[string]any{"labels": m, "got": got})
	}
	ids := []string{"s0", "s1", "s2", "s3", "s4", "s5"}
	steps := 10 + rnd.Intn(15)
	for i := 0; i < steps; i++ {
		id := ids[rnd.Intn(len(ids))]
		if rnd.Intn(4) == 0 {
			d.log.Emit("r_del", map[string]any{"id": id})
			idx.DeleteSelector(id)
		} else {
			sel := u.sel()
			s := map[string]bool{}
			ast := selgen.Export(sel.Root(), s)
			restr := selgen.ExportRestrictions(sel.LabelRestrictions(), s)
			d.log.Emit("r_add", map[string]any{"id": id, "ast": ast, "restr": restr, "text": sel.String(), "ct": ctOf(s)})
			idx.AddSelector(id, sel)
		}
		for j := 0; j < 6; j++ {
			query(maps[rnd.Intn(len(maps))])
		}
	}
	for _, m := range maps {
		query(m)
	}
}

// ---- LabelNameValueIndex ----------------------------------------------------------------------------------

type kvItem struct{ labels uniquelabels.Map }

func (i *kvItem) OwnLabelHandles() iter.Seq2[uniquestr.Handle, uniquestr.Handle] {
	return i.labels.AllHandles()
}

func (d *drv) randomKvidx(t int, rnd *rand.Rand) {
	u := newUniverse(rnd)
	d.log.Reset(t, map[string]any{"kind": "kvidx", "keys": u.keys, "vals": u.vals})
	idx := labelnamevalueindex.New[string, *kvItem]("items")
	present := map[string]bool{}
	ids := []string{"i0", "i1", "i2", "i3", "i4", "i5", "i6"}
	scan := func(k string, r parser.LabelRestriction) {
		st := idx.StrategyFor(uniquestr.Make(k), r)
		got := []string{}
		st.Scan(func(id string) bool { got = append(got, id); return true })
		sort.Strings(got)
		vals := []string{}
		for _, h := range r.MustHaveOneOfValues {
			vals = append(vals, h.Value())
		}
		d.log.Emit("kv_scan", map[string]any{"k": k, "name": st.Name(), "est": st.EstimatedItemsToScan(), "got": got,
			"r": map[string]any{"present": r.MustBePresent, "absent": r.MustBeAbsent, "hasvals": r.MustHaveOneOfValues != nil, "vals": vals}})
	}
	randRestr := func() parser.LabelRestriction {
		r := parser.LabelRestriction{MustBePresent: rnd.Intn(3) > 0, MustBeAbsent: rnd.Intn(5) == 0}
		if rnd.Intn(2) == 0 {
			r.MustHaveOneOfValues = []uniquestr.Handle{}
			for i := 0; i < rnd.Intn(4); i++ {
				v := u.vals[rnd.Intn(len(u.vals))]
				if rnd.Intn(6) == 0 {
					v = "not-a-value"
				}
				r.MustHaveOneOfValues = append(r.MustHaveOneOfValues, uniquestr.Make(v))
			}
		}
		return r
	}
	steps := 15 + rnd.Intn(25)
	for i := 0; i < steps; i++ {
		id := ids[rnd.Intn(len(ids))]
		switch c := rnd.Intn(10); {
		case c < 5:
			labels := u.labels()
			if present[id] {
				d.log.Emit("kv_del", map[string]any{"id": id})
				idx.Remove(id)
			}
			d.log.Emit("kv_add", map[string]any{"id": id, "labels": labels})
			idx.Add(id, &kvItem{labels: uniquelabels.Make(labels)})
			present[id] = true
		case c < 7:
			if present[id] {
				d.log.Emit("kv_del", map[string]any{"id": id})
				idx.Remove(id)
				delete(present, id)
			}
		}
		// restrictions: random ones and the ones a real selector produces
		for j := 0; j < 3; j++ {
			scan(u.keys[rnd.Intn(len(u.keys))], randRestr())
		}
		sel := u.sel()
		for k, r := range sel.LabelRestrictions().All() {
			scan(k.Value(), r)
		}
	}
}

func pick(rnd *rand.Rand, pool []string, n int) []string {
	idx := rnd.Perm(len(pool))
	if n > len(pool) {
		n = len(pool)
	}
	out := make([]string, n)
	for i := 0; i < n; i++ {
		out[i] = pool[idx[i]]
	}
	return out
}

func main() {
	logrus.SetLevel(logrus.ErrorLevel) // the indexes log every selector update at Info level
	env := tracelog.GetEnv()
	lg, err := tracelog.Open(env.OutPath)
	if err != nil {
		fmt.Fprintln(os.Stderr, err)
		os.Exit(2)
	}
	d := &drv{log: lg}
	behs, err := tracelog.LoadBehaviours(env.BehPath)
	if err != nil {
		fmt.Fprintln(os.Stderr, err)
		os.Exit(2)
	}
	t := 0
	for _, b := range behs {
		t++
		d.startInherit(t, []string{"a", "b"}, []string{"x", "y"})
		for _, op := range b {
			d.step(op)
		}
	}
	for i := 0; i < env.N; i++ {
		rnd := rand.New(rand.NewSource(env.Seed*1000003 + int64(i)))
		t++
		switch i % 4 {
		case 0, 1:
			d.randomInherit(t, rnd)
		case 2:
			d.randomRidx(t, rnd)
		case 3:
			d.randomKvidx(t, rnd)
		}
	}
	if err := lg.Close(); err != nil {
		fmt.Fprintln(os.Stderr, err)
		os.Exit(2)
	}
}
