// Driver for C04 (index level): drives the real felix/labelindex.SelectorAndNamedPortIndex through its
// OnUpdate entry point (workload endpoints, host endpoints, network sets, profiles) and
// UpdateIPSet / DeleteIPSet, with and without overlap suppression, and records every call, every
// OnMemberAdded / OnMemberRemoved callback and a "done" marker when the call has returned.
// Conversions are purely syntactic (CIDR -> octets + prefix length, member -> address/protocol/port);
// which members an IP set should have is decided by TLC (specs/labelindex/IpSets.tla).
package main

import (
	"fmt"
	"math/rand"
	"net"
	"os"

	v3 "github.com/projectcalico/api/pkg/apis/projectcalico/v3"
	"github.com/projectcalico/api/pkg/lib/numorstring"
	"github.com/sirupsen/logrus"

	"github.com/projectcalico/calico/felix/ip"
	"github.com/projectcalico/calico/felix/labelindex"
	"github.com/projectcalico/calico/felix/labelindex/ipsetmember"
	"github.com/projectcalico/calico/lib/std/uniquelabels"
	"github.com/projectcalico/calico/libcalico-go/lib/backend/api"
	"github.com/projectcalico/calico/libcalico-go/lib/backend/model"
	calinet "github.com/projectcalico/calico/libcalico-go/lib/net"
	"github.com/projectcalico/calico/libcalico-go/lib/selector"

	"verifharness/selgen"
	"verifharness/tracelog"
)

type cidr struct {
	A []int `json:"a"`
	N int   `json:"n"`
}

type port struct {
	Name  string `json:"name"`
	Proto string `json:"proto"`
	Port  int    `json:"port"`
}

type epRec struct {
	Kind    string            `json:"kind"` // netset | wep | hep
	Labels  map[string]string `json:"labels"`
	Parents []string          `json:"parents"`
	Nets    []cidr            `json:"nets"`
	Ports   []port            `json:"ports"`
}

type setDef struct {
	sel   *selector.Selector
	proto string
	port  string
}

type drv struct {
	log   *tracelog.Log
	idx   *labelindex.SelectorAndNamedPortIndex
	kinds map[string]string // endpoint id -> kind (fixes the datastore key)
	dead  bool              // the index panicked: its state is undefined, the trace ends here
}

// call runs one public call of the real index; a panic is recorded as a "panic" event (which the
// specification never accepts) instead of killing the driver, and ends the trace.
func (d *drv) call(f func()) {
	defer func() {
		if r := recover(); r != nil {
			d.dead = true
			d.log.Emit("panic", map[string]any{"msg": fmt.Sprint(r)})
		}
	}()
	f()
	d.log.Emit("done", nil)
}

func octets(b net.IP) []int {
	out := make([]int, len(b))
	for i, x := range b {
		out[i] = int(x)
	}
	return out
}

func cidrJSON(c ip.CIDR) map[string]any {
	return map[string]any{"a": octets(c.Addr().AsNetIP()), "n": int(c.Prefix())}
}

var protoNames = map[ipsetmember.Protocol]string{ipsetmember.ProtocolTCP: "tcp", ipsetmember.ProtocolUDP: "udp", ipsetmember.ProtocolSCTP: "sctp",
	ipsetmember.ProtocolNone: "none", ipsetmember.ProtocolAny: "any"}
var protoByName = map[string]ipsetmember.Protocol{"tcp": ipsetmember.ProtocolTCP, "udp": ipsetmember.ProtocolUDP, "sctp": ipsetmember.ProtocolSCTP,
	"none": ipsetmember.ProtocolNone}

type portMember interface {
	CIDR() ip.CIDR
	Protocol() ipsetmember.Protocol
	PortNumber() uint16
}

func memberJSON(m ipsetmember.IPSetMember) map[string]any {
	if c, ok := m.(ipsetmember.CIDROrIPOnlyIPSetMember); ok {
		return cidrJSON(c.CIDR())
	}
	if p, ok := m.(portMember); ok {
		return map[string]any{"a": octets(p.CIDR().Addr().AsNetIP()), "proto": protoNames[p.Protocol()], "port": int(p.PortNumber())}
	}
	fmt.Fprintf(os.Stderr, "harness gap: unknown member type %T\n", m)
	os.Exit(2)
	return nil
}

func (d *drv) start(t int, suppress bool) {
	d.idx = labelindex.NewSelectorAndNamedPortIndex(suppress)
	d.idx.OnMemberAdded = func(setID string, m ipsetmember.IPSetMember) {
		d.log.Emit("added", map[string]any{"set": setID, "m": memberJSON(m)})
	}
	d.idx.OnMemberRemoved = func(setID string, m ipsetmember.IPSetMember) {
		d.log.Emit("removed", map[string]any{"set": setID, "m": memberJSON(m)})
	}
	d.kinds = map[string]string{}
	d.dead = false
	d.log.Reset(t, map[string]any{"suppress": suppress, "ct": map[string]any{}})
}

func ipNet(c cidr) net.IPNet {
	b := make(net.IP, len(c.A))
	for i, x := range c.A {
		b[i] = byte(x)
	}
	return net.IPNet{IP: b, Mask: net.CIDRMask(c.N, 8*len(c.A))}
}

func (d *drv) key(id, kind string) model.Key {
	switch kind {
	case "netset":
		return model.NetworkSetKey{Name: id}
	case "wep":
		return model.WorkloadEndpointKey{Hostname: "host", OrchestratorID: "k8s", WorkloadID: id, EndpointID: "eth0"}
	case "hep":
		return model.HostEndpointKey{Hostname: "host", EndpointID: id}
	}
	panic("unknown endpoint kind " + kind)
}

func modelPorts(ps []port) []model.EndpointPort {
	var out []model.EndpointPort
	for _, p := range ps {
		name := map[string]string{"tcp": "TCP", "udp": "UDP", "sctp": "SCTP"}[p.Proto]
		out = append(out, model.EndpointPort{Name: p.Name, Protocol: numorstring.ProtocolFromString(name), Port: uint16(p.Port)})
	}
	return out
}

func (d *drv) updateEp(id string, r epRec) {
	if r.Labels == nil {
		r.Labels = map[string]string{}
	}
	if r.Parents == nil {
		r.Parents = []string{}
	}
	if r.Nets == nil {
		r.Nets = []cidr{}
	}
	if r.Ports == nil {
		r.Ports = []port{}
	}
	if k, ok := d.kinds[id]; ok && k != r.Kind {
		panic("endpoint id changes kind: " + id)
	}
	d.kinds[id] = r.Kind
	strs := map[string]bool{}
	for _, v := range r.Labels {
		strs[v] = true
	}
	d.log.Emit("update_ep", map[string]any{"id": id, "rec": r, "ct": selgen.CharTable(strs)})
	labels := uniquelabels.Make(r.Labels)
	var value any
	switch r.Kind {
	case "netset":
		ns := &model.NetworkSet{Labels: labels, ProfileIDs: r.Parents}
		for _, c := range r.Nets {
			ns.Nets = append(ns.Nets, calinet.IPNet{IPNet: ipNet(c)})
		}
		value = ns
	case "wep":
		w := &model.WorkloadEndpoint{Labels: labels, ProfileIDs: r.Parents, Ports: modelPorts(r.Ports)}
		for _, c := range r.Nets {
			n := calinet.IPNet{IPNet: ipNet(c)}
			if len(c.A) == 4 {
				w.IPv4Nets = append(w.IPv4Nets, n)
			} else {
				w.IPv6Nets = append(w.IPv6Nets, n)
			}
		}
		value = w
	case "hep":
		h := &model.HostEndpoint{Labels: labels, ProfileIDs: r.Parents, Ports: modelPorts(r.Ports)}
		for _, c := range r.Nets {
			n := ipNet(c)
			if len(c.A) == 4 {
				h.ExpectedIPv4Addrs = append(h.ExpectedIPv4Addrs, calinet.IP{IP: n.IP})
			} else {
				h.ExpectedIPv6Addrs = append(h.ExpectedIPv6Addrs, calinet.IP{IP: n.IP})
			}
		}
		value = h
	}
	d.call(func() {
		d.idx.OnUpdate(api.Update{KVPair: model.KVPair{Key: d.key(id, r.Kind), Value: value}, UpdateType: api.UpdateTypeKVUpdated})
	})
}

func (d *drv) deleteEp(id string) {
	kind, ok := d.kinds[id]
	d.log.Emit("delete_ep", map[string]any{"id": id})
	d.call(func() {
		if ok {
			d.idx.OnUpdate(api.Update{KVPair: model.KVPair{Key: d.key(id, kind)}, UpdateType: api.UpdateTypeKVDeleted})
		} else {
			d.idx.DeleteEndpoint(id) // never seen: any key will do
		}
	})
}

func (d *drv) updateParent(id string, labels map[string]string) {
	strs := map[string]bool{}
	for _, v := range labels {
		strs[v] = true
	}
	d.log.Emit("update_parent", map[string]any{"id": id, "labels": labels, "ct": selgen.CharTable(strs)})
	d.call(func() {
		d.idx.OnUpdate(api.Update{KVPair: model.KVPair{Key: model.ResourceKey{Kind: v3.KindProfile, Name: id},
			Value: &v3.Profile{Spec: v3.ProfileSpec{LabelsToApply: labels}}}, UpdateType: api.UpdateTypeKVUpdated})
	})
}

func (d *drv) deleteParent(id string) {
	d.log.Emit("delete_parent", map[string]any{"id": id})
	d.call(func() {
		d.idx.OnUpdate(api.Update{KVPair: model.KVPair{Key: model.ResourceKey{Kind: v3.KindProfile, Name: id}}, UpdateType: api.UpdateTypeKVDeleted})
	})
}

func (d *drv) updateSet(id string, def setDef) {
	strs := map[string]bool{}
	ast := selgen.Export(def.sel.Root(), strs)
	d.log.Emit("update_set", map[string]any{"id": id, "def": map[string]any{"ast": ast, "proto": def.proto, "port": def.port},
		"text": def.sel.String(), "ct": selgen.CharTable(strs)})
	d.call(func() { d.idx.UpdateIPSet(id, def.sel, protoByName[def.proto], def.port) })
}

func (d *drv) deleteSet(id string) {
	d.log.Emit("delete_set", map[string]any{"id": id})
	d.call(func() { d.idx.DeleteIPSet(id) })
}

func parseAST(ast *selgen.N) *selector.Selector {
	text := selgen.Text(ast)
	sel, err := selector.Parse(text)
	if err != nil {
		fmt.Fprintf(os.Stderr, "harness gap: rendering %q of a generated AST does not parse: %v\n", text, err)
		os.Exit(2)
	}
	return sel
}

// ---- replay of TLC behaviours -------------------------------------------------------------------------

func toRec(v any) epRec {
	m, _ := v.(map[string]any)
	r := epRec{Kind: tracelog.Str(m["kind"]), Labels: map[string]string{}}
	if lm, ok := m["labels"].(map[string]any); ok {
		for k, x := range lm {
			r.Labels[k] = tracelog.Str(x)
		}
	}
	if a, ok := m["parents"].([]any); ok {
		for _, x := range a {
			r.Parents = append(r.Parents, tracelog.Str(x))
		}
	}
	if a, ok := m["nets"].([]any); ok {
		for _, x := range a {
			cm := x.(map[string]any)
			c := cidr{N: tracelog.Int(cm["n"])}
			for _, o := range cm["a"].([]any) {
				c.A = append(c.A, tracelog.Int(o))
			}
			r.Nets = append(r.Nets, c)
		}
	}
	if a, ok := m["ports"].([]any); ok {
		for _, x := range a {
			pm := x.(map[string]any)
			r.Ports = append(r.Ports, port{Name: tracelog.Str(pm["name"]), Proto: tracelog.Str(pm["proto"]), Port: tracelog.Int(pm["port"])})
		}
	}
	return r
}

func (d *drv) step(op map[string]any) {
	if d.dead {
		return
	}
	id := tracelog.Str(op["id"])
	switch tracelog.Str(op["op"]) {
	case "update_ep":
		d.updateEp(id, toRec(op["rec"]))
	case "delete_ep":
		d.deleteEp(id)
	case "update_parent":
		labels := map[string]string{}
		if lm, ok := op["labels"].(map[string]any); ok {
			for k, x := range lm {
				labels[k] = tracelog.Str(x)
			}
		}
		d.updateParent(id, labels)
	case "delete_parent":
		d.deleteParent(id)
	case "update_set":
		def := op["def"].(map[string]any)
		ast, err := selgen.FromJSON(def["ast"])
		if err != nil {
			fmt.Fprintln(os.Stderr, "bad AST in behaviour:", err)
			os.Exit(2)
		}
		d.updateSet(id, setDef{sel: parseAST(ast), proto: tracelog.Str(def["proto"]), port: tracelog.Str(def["port"])})
	case "delete_set":
		d.deleteSet(id)
	case "end":
	default:
		panic("unknown op " + tracelog.Str(op["op"]))
	}
}

// ---- seeded random histories ------------------------------------------------------------------------------

func mustCIDR(s string) cidr {
	_, n, err := net.ParseCIDR(s)
	if err != nil {
		panic(err)
	}
	ipb := n.IP
	if v4 := ipb.To4(); v4 != nil {
		ipb = v4
	}
	ones, _ := n.Mask.Size()
	return cidr{A: octets(ipb), N: ones}
}

var netPools = [][]string{
	{"10.0.0.0/8", "10.0.0.0/16", "10.0.1.0/24", "10.0.1.0/25", "10.0.1.128/25", "10.0.1.5/32", "10.0.1.6/32", "10.0.1.129/32"},
	{"0.0.0.0/0", "0.0.0.0/1", "128.0.0.0/1", "128.0.0.0/2", "192.168.0.0/16", "192.168.7.0/24", "10.0.0.1/32"},
	{"::/0", "::/1", "8000::/1", "fd00::/8", "fd00::/64", "fd00::1/128", "fd00::2/128", "10.0.0.0/8", "10.1.0.0/16"},
	{"10.0.0.0/30", "10.0.0.0/31", "10.0.0.2/31", "10.0.0.0/32", "10.0.0.1/32", "10.0.0.2/32", "10.0.0.3/32"},
}
var addrPools = [][]string{
	{"10.0.1.5/32", "10.0.1.6/32", "10.0.1.129/32", "fd00::1/128"},
	{"10.0.0.1/32", "10.0.0.2/32", "fd00::2/128"},
}

func (d *drv) random(t int, rnd *rand.Rand, suppress bool) {
	d.start(t, suppress)
	keys := []string{"a", "b"}
	vals := [][]string{{"x", "xy", "y"}, {"prod", "production", "dev"}}[rnd.Intn(2)]
	gen := &selgen.Gen{Rnd: rnd, Keys: keys, Vals: vals}
	nets := netPools[rnd.Intn(len(netPools))]
	addrs := addrPools[rnd.Intn(len(addrPools))]
	netsets := []string{"n0", "n1", "n2"}[:1+rnd.Intn(3)]
	weps := []string{"w0", "w1", "w2"}[:1+rnd.Intn(3)]
	heps := []string{"h0"}
	parents := []string{"p0", "p1"}[:1+rnd.Intn(2)]
	setIDs := []string{"s0", "s1", "s2", "s3"}[:1+rnd.Intn(4)]
	labels := func() map[string]string {
		m := map[string]string{}
		for _, k := range keys {
			if rnd.Intn(2) == 0 {
				m[k] = vals[rnd.Intn(len(vals))]
			}
		}
		return m
	}
	// parent lists, sometimes with a repeated profile id (an endpoint listing the same profile twice
	// used to make the index panic when it went away: C04 finding fixed in /repo b6b9694)
	parentList := func() []string {
		out := []string{}
		for i := 0; i < rnd.Intn(len(parents)+2); i++ {
			out = append(out, parents[rnd.Intn(len(parents))])
		}
		return out
	}
	netList := func(pool []string, max int) []cidr {
		out := []cidr{}
		for i := 0; i < rnd.Intn(max+1); i++ {
			out = append(out, mustCIDR(pool[rnd.Intn(len(pool))])) // duplicates allowed
		}
		return out
	}
	portList := func() []port {
		all := []port{{"http", "tcp", 80}, {"http", "udp", 80}, {"http", "tcp", 8080}, {"dns", "udp", 53}, {"dns", "tcp", 53}, {"http", "sctp", 80}, {"http", "tcp", 80}}
		out := []port{}
		for _, p := range all {
			if rnd.Intn(3) == 0 {
				out = append(out, p)
			}
		}
		return out
	}
	setDefOf := func() setDef {
		sel := parseAST(gen.AST(rnd.Intn(3)))
		if rnd.Intn(3) == 0 {
			return setDef{sel: sel, proto: []string{"tcp", "udp", "sctp"}[rnd.Intn(3)], port: []string{"http", "dns"}[rnd.Intn(2)]}
		}
		return setDef{sel: sel, proto: "none", port: ""}
	}
	if rnd.Intn(2) == 0 {
		// endpoints that inherit the selected label through TWO profiles at once and carry no label of their
		// own; the IP set is activated after they exist (parent scan strategy), then they are re-addressed /
		// deleted
		parents = []string{"p0", "p1"}
		k, v := keys[rnd.Intn(len(keys))], vals[rnd.Intn(len(vals))]
		d.updateParent("p0", map[string]string{k: v})
		d.updateParent("p1", map[string]string{k: v})
		d.updateEp("w0", epRec{Kind: "wep", Labels: map[string]string{}, Parents: []string{"p0", "p1"}, Nets: []cidr{mustCIDR(addrs[0])}, Ports: portList()})
		d.updateEp("n0", epRec{Kind: "netset", Labels: map[string]string{}, Parents: []string{"p1", "p0"}, Nets: netList(nets, 3)})
		// bystanders without that label and without parents: they make scanning the two parents' endpoints
		// cheaper than scanning all endpoints, which is when the index picks the parent scan strategy
		for i := 0; i < 4+rnd.Intn(3) && !d.dead; i++ {
			d.updateEp(fmt.Sprintf("f%d", i), epRec{Kind: "netset", Labels: map[string]string{}, Nets: netList(nets, 1)})
		}
		if !d.dead {
			def := setDef{sel: parseAST(&selgen.N{Op: "eq", K: k, V: v}), proto: "none", port: ""}
			if rnd.Intn(3) == 0 {
				def = setDef{sel: parseAST(&selgen.N{Op: "in", K: k, Vs: []string{v, vals[0]}}), proto: "tcp", port: "http"}
			}
			d.updateSet(setIDs[0], def)
		}
		if !d.dead {
			d.updateEp("w0", epRec{Kind: "wep", Labels: map[string]string{}, Parents: []string{"p0", "p1"}, Nets: []cidr{mustCIDR(addrs[1])}, Ports: portList()})
		}
		if !d.dead && rnd.Intn(2) == 0 {
			d.deleteEp("w0")
		}
		if !d.dead && rnd.Intn(2) == 0 {
			d.deleteEp("n0")
		}
	}
	steps := 25 + rnd.Intn(45)
	var last struct {
		id  string
		rec epRec
	}
	for i := 0; i < steps && !d.dead; i++ {
		switch c := rnd.Intn(24); {
		case c < 5:
			last.id, last.rec = netsets[rnd.Intn(len(netsets))], epRec{Kind: "netset", Labels: labels(), Parents: parentList(), Nets: netList(nets, 4)}
			d.updateEp(last.id, last.rec)
		case c < 9:
			last.id, last.rec = weps[rnd.Intn(len(weps))], epRec{Kind: "wep", Labels: labels(), Parents: parentList(), Nets: netList(addrs, 3), Ports: portList()}
			d.updateEp(last.id, last.rec)
		case c < 10:
			last.id, last.rec = heps[0], epRec{Kind: "hep", Labels: labels(), Parents: parentList(), Nets: netList(addrs, 2), Ports: portList()}
			d.updateEp(last.id, last.rec)
		case c < 11 && last.id != "":
			d.updateEp(last.id, last.rec) // identical update
		case c < 14:
			all := append(append(append([]string{}, netsets...), weps...), heps...)
			d.deleteEp(all[rnd.Intn(len(all))])
		case c < 17:
			d.updateParent(parents[rnd.Intn(len(parents))], labels())
		case c < 18:
			d.deleteParent(parents[rnd.Intn(len(parents))])
		case c < 22:
			d.updateSet(setIDs[rnd.Intn(len(setIDs))], setDefOf())
		default:
			d.deleteSet(setIDs[rnd.Intn(len(setIDs))])
		}
	}
}

func main() {
	logrus.SetLevel(logrus.ErrorLevel)
	env := tracelog.GetEnv()
	lg, err := tracelog.Open(env.OutPath)
	if err != nil {
		fmt.Fprintln(os.Stderr, err)
		os.Exit(2)
	}
	d := &drv{log: lg}
	behs, err := tracelog.LoadBehaviours(env.BehPath)
	if err != nil {
		fmt.Fprintln(os.Stderr, err)
		os.Exit(2)
	}
	t := 0
	for _, b := range behs {
		for _, suppress := range []bool{false, true} {
			t++
			d.start(t, suppress)
			for _, op := range b {
				d.step(op)
			}
		}
	}
	for i := 0; i < env.N; i++ {
		t++
		d.random(t, rand.New(rand.NewSource(env.Seed*1000003+int64(i))), i%2 == 1)
	}
	// regression trace of the C04 finding fixed in /repo b6b9694: an endpoint that lists the same profile
	// twice, then drops it
	t++
	d.start(t, false)
	d.updateParent("p0", map[string]string{"a": "x"})
	d.updateSet("s0", setDef{sel: parseAST(&selgen.N{Op: "eq", K: "a", V: "x"}), proto: "none", port: ""})
	d.updateEp("h0", epRec{Kind: "hep", Labels: map[string]string{}, Parents: []string{"p0", "p0"}, Nets: []cidr{mustCIDR("10.0.0.1/32")}})
	if !d.dead {
		d.updateEp("h0", epRec{Kind: "hep", Labels: map[string]string{}, Parents: []string{}, Nets: []cidr{mustCIDR("10.0.0.1/32")}})
	}
	if !d.dead {
		d.updateEp("h0", epRec{Kind: "hep", Labels: map[string]string{}, Parents: []string{"p0", "p0"}, Nets: []cidr{mustCIDR("10.0.0.1/32")}})
	}
	if !d.dead {
		d.deleteEp("h0")
	}
	if err := lg.Close(); err != nil {
		fmt.Fprintln(os.Stderr, err)
		os.Exit(2)
	}
}
