// Driver for C31: runs the real felix/policysync.Processor (its own goroutine, selecting on two channels)
// and makes the order deterministic without sleeps:
//   - both input channels are unbuffered (Processor.JoinUpdates is an exported field and is replaced
//     before Start), so a send returns only when the Processor's loop has taken the message;
//   - after every input a barrier value of a type the Processor ignores is sent on Updates: its send
//     returns only when the loop is back in select, i.e. the previous input has been fully handled;
//   - then every join's output channel (large buffer) is drained without blocking.
// One total-order log results: in, out*, closed*, stepdone.  The driver converts syntax only (proto
// messages <-> flat JSON records); it never computes what a client should hold.
package main

import (
	"fmt"
	"io"
	"math/rand"
	"os"
	"sort"
	"strconv"
	"strings"
	"time"

	"github.com/sirupsen/logrus"

	"github.com/projectcalico/calico/felix/policysync"
	"github.com/projectcalico/calico/felix/proto"
	"github.com/projectcalico/calico/felix/types"

	"verifharness/tracelog"
)

func fatal(f string, a ...any) {
	fmt.Fprintf(os.Stderr, "polsync driver: "+f+"\n", a...)
	os.Exit(2)
}

type barrier struct{}

type joinInfo struct {
	uid    int
	c      chan *proto.ToDataplane
	closed bool
}

type drv struct {
	log     *tracelog.Log
	updates chan any
	joinsCh chan any
	joins   []*joinInfo
	bound   time.Duration
	variant int // varies which rule field / tier direction carries references (syntax only)
}

func wepID(w string) *proto.WorkloadEndpointID {
	return &proto.WorkloadEndpointID{OrchestratorId: "k8s", WorkloadId: w, EndpointId: "eth0"}
}

func tWepID(w string) types.WorkloadEndpointID {
	return types.WorkloadEndpointID{OrchestratorId: "k8s", WorkloadId: w, EndpointId: "eth0"}
}

func polID(id string) *proto.PolicyID {
	return &proto.PolicyID{Name: id, Kind: "GlobalNetworkPolicy"}
}

func member(m string) string { // "m7" -> "10.0.0.7"
	return "10.0.0." + strings.TrimPrefix(m, "m")
}

func unmember(s string) string {
	if !strings.HasPrefix(s, "10.0.0.") {
		fatal("unexpected IP set member %q", s)
	}
	return "m" + strings.TrimPrefix(s, "10.0.0.")
}

func strs(v any) []string {
	out := []string{}
	if a, ok := v.([]any); ok {
		for _, x := range a {
			out = append(out, tracelog.Str(x))
		}
	}
	if a, ok := v.([]string); ok {
		out = append(out, a...)
	}
	sort.Strings(out)
	return out
}

// rules carrying version `ver` and references `refs`; the field used for each reference varies
func (d *drv) rules(ver int, refs []string) (in, out []*proto.Rule) {
	r := &proto.Rule{Action: "allow", RuleId: "v" + strconv.Itoa(ver)}
	in = append(in, r)
	for i, s := range refs {
		switch (i + d.variant) % 5 {
		case 0:
			r.SrcIpSetIds = append(r.SrcIpSetIds, s)
		case 1:
			out = append(out, &proto.Rule{Action: "deny", DstIpSetIds: []string{s}})
		case 2:
			r.NotSrcIpSetIds = append(r.NotSrcIpSetIds, s)
		case 3:
			out = append(out, &proto.Rule{Action: "allow", DstNamedPortIpSetIds: []string{s}})
		case 4:
			in = append(in, &proto.Rule{Action: "allow", NotDstIpSetIds: []string{s}, SrcIpSetIds: []string{s}})
		}
	}
	return
}

func ruleRefs(in, out []*proto.Rule) (int, []string) {
	ver := 0
	set := map[string]bool{}
	for _, rs := range [][]*proto.Rule{in, out} {
		for _, r := range rs {
			if strings.HasPrefix(r.GetRuleId(), "v") {
				ver, _ = strconv.Atoi(r.GetRuleId()[1:])
			}
			for _, l := range [][]string{r.SrcIpSetIds, r.DstIpSetIds, r.DstIpPortSetIds, r.SrcNamedPortIpSetIds,
				r.DstNamedPortIpSetIds, r.NotSrcIpSetIds, r.NotDstIpSetIds, r.NotSrcNamedPortIpSetIds, r.NotDstNamedPortIpSetIds} {
				for _, s := range l {
					set[s] = true
				}
			}
		}
	}
	refs := []string{}
	for s := range set {
		refs = append(refs, s)
	}
	sort.Strings(refs)
	return ver, refs
}

func (d *drv) endpoint(ver int, pols, profs []string) *proto.WorkloadEndpoint {
	ep := &proto.WorkloadEndpoint{State: "active", Name: "v" + strconv.Itoa(ver), ProfileIds: profs}
	// spread the policies over two tiers and the two directions (a policy may be in both directions)
	t1 := &proto.TierInfo{Name: "t1"}
	t2 := &proto.TierInfo{Name: "t2"}
	for i, p := range pols {
		t := t1
		if (i+d.variant)%3 == 2 {
			t = t2
		}
		switch (i + ver + d.variant) % 3 {
		case 0:
			t.IngressPolicies = append(t.IngressPolicies, polID(p))
		case 1:
			t.EgressPolicies = append(t.EgressPolicies, polID(p))
		case 2:
			t.IngressPolicies = append(t.IngressPolicies, polID(p))
			t.EgressPolicies = append(t.EgressPolicies, polID(p))
		}
	}
	ep.Tiers = []*proto.TierInfo{t1, t2}
	return ep
}

func epToRec(ep *proto.WorkloadEndpoint) map[string]any {
	ver := 0
	if strings.HasPrefix(ep.GetName(), "v") {
		ver, _ = strconv.Atoi(ep.GetName()[1:])
	}
	set := map[string]bool{}
	for _, t := range ep.GetTiers() {
		for _, p := range t.GetIngressPolicies() {
			set[p.GetName()] = true
		}
		for _, p := range t.GetEgressPolicies() {
			set[p.GetName()] = true
		}
	}
	pols := []string{}
	for p := range set {
		pols = append(pols, p)
	}
	sort.Strings(pols)
	profs := append([]string{}, ep.GetProfileIds()...)
	sort.Strings(profs)
	return map[string]any{"kind": "wep_update", "ver": ver, "pols": pols, "profs": profs}
}

func labelVer(l map[string]string) int {
	v, _ := strconv.Atoi(l["ver"])
	return v
}

func msgToRec(m *proto.ToDataplane) map[string]any {
	switch p := m.Payload.(type) {
	case *proto.ToDataplane_InSync:
		return map[string]any{"kind": "insync"}
	case *proto.ToDataplane_WorkloadEndpointUpdate:
		return epToRec(p.WorkloadEndpointUpdate.GetEndpoint())
	case *proto.ToDataplane_WorkloadEndpointRemove:
		return map[string]any{"kind": "wep_remove"}
	case *proto.ToDataplane_ActivePolicyUpdate:
		ver, refs := ruleRefs(p.ActivePolicyUpdate.GetPolicy().GetInboundRules(), p.ActivePolicyUpdate.GetPolicy().GetOutboundRules())
		return map[string]any{"kind": "pol_update", "id": p.ActivePolicyUpdate.GetId().GetName(), "ver": ver, "refs": refs}
	case *proto.ToDataplane_ActivePolicyRemove:
		return map[string]any{"kind": "pol_remove", "id": p.ActivePolicyRemove.GetId().GetName()}
	case *proto.ToDataplane_ActiveProfileUpdate:
		ver, refs := ruleRefs(p.ActiveProfileUpdate.GetProfile().GetInboundRules(), p.ActiveProfileUpdate.GetProfile().GetOutboundRules())
		return map[string]any{"kind": "prof_update", "id": p.ActiveProfileUpdate.GetId().GetName(), "ver": ver, "refs": refs}
	case *proto.ToDataplane_ActiveProfileRemove:
		return map[string]any{"kind": "prof_remove", "id": p.ActiveProfileRemove.GetId().GetName()}
	case *proto.ToDataplane_IpsetUpdate:
		ms := []string{}
		for _, x := range p.IpsetUpdate.GetMembers() {
			ms = append(ms, unmember(x))
		}
		sort.Strings(ms)
		return map[string]any{"kind": "set_update", "id": p.IpsetUpdate.GetId(), "m": ms}
	case *proto.ToDataplane_IpsetDeltaUpdate:
		add, rem := []string{}, []string{}
		for _, x := range p.IpsetDeltaUpdate.GetAddedMembers() {
			add = append(add, unmember(x))
		}
		for _, x := range p.IpsetDeltaUpdate.GetRemovedMembers() {
			rem = append(rem, unmember(x))
		}
		sort.Strings(add)
		sort.Strings(rem)
		return map[string]any{"kind": "set_delta", "id": p.IpsetDeltaUpdate.GetId(), "add": add, "rem": rem}
	case *proto.ToDataplane_IpsetRemove:
		return map[string]any{"kind": "set_remove", "id": p.IpsetRemove.GetId()}
	case *proto.ToDataplane_ServiceAccountUpdate:
		return map[string]any{"kind": "sa_update", "id": p.ServiceAccountUpdate.GetId().GetName(), "ver": labelVer(p.ServiceAccountUpdate.GetLabels())}
	case *proto.ToDataplane_ServiceAccountRemove:
		return map[string]any{"kind": "sa_remove", "id": p.ServiceAccountRemove.GetId().GetName()}
	case *proto.ToDataplane_NamespaceUpdate:
		return map[string]any{"kind": "ns_update", "id": p.NamespaceUpdate.GetId().GetName(), "ver": labelVer(p.NamespaceUpdate.GetLabels())}
	case *proto.ToDataplane_NamespaceRemove:
		return map[string]any{"kind": "ns_remove", "id": p.NamespaceRemove.GetId().GetName()}
	}
	fatal("message kind the converter does not know: %T", m.Payload)
	return nil
}

func (d *drv) send(ch chan any, v any) {
	select {
	case ch <- v:
	case <-time.After(d.bound):
		fatal("Processor did not take an input within %v (trace %d)", d.bound, d.log.T)
	}
}

// input -> the real message; returns the channel to use
func (d *drv) toInput(o map[string]any) (chan any, any) {
	id := tracelog.Str(o["id"])
	w := tracelog.Str(o["w"])
	ver := tracelog.Int(o["ver"])
	switch tracelog.Str(o["op"]) {
	case "join":
		ji := &joinInfo{uid: tracelog.Int(o["j"]), c: make(chan *proto.ToDataplane, 8192)}
		d.joins = append(d.joins, ji)
		return d.joinsCh, policysync.JoinRequest{
			JoinMetadata: policysync.JoinMetadata{EndpointID: tWepID(w), JoinUID: uint64(ji.uid)}, C: ji.c}
	case "leave":
		return d.joinsCh, policysync.LeaveRequest{
			JoinMetadata: policysync.JoinMetadata{EndpointID: tWepID(w), JoinUID: uint64(tracelog.Int(o["j"]))}}
	case "ep":
		return d.updates, &proto.WorkloadEndpointUpdate{Id: wepID(w), Endpoint: d.endpoint(ver, strs(o["pols"]), strs(o["profs"]))}
	case "ep_rm":
		return d.updates, &proto.WorkloadEndpointRemove{Id: wepID(w)}
	case "pol":
		in, out := d.rules(ver, strs(o["refs"]))
		return d.updates, &proto.ActivePolicyUpdate{Id: polID(id), Policy: &proto.Policy{InboundRules: in, OutboundRules: out}}
	case "pol_rm":
		return d.updates, &proto.ActivePolicyRemove{Id: polID(id)}
	case "prof":
		in, out := d.rules(ver, strs(o["refs"]))
		return d.updates, &proto.ActiveProfileUpdate{Id: &proto.ProfileID{Name: id}, Profile: &proto.Profile{InboundRules: in, OutboundRules: out}}
	case "prof_rm":
		return d.updates, &proto.ActiveProfileRemove{Id: &proto.ProfileID{Name: id}}
	case "set":
		ms := []string{}
		for _, m := range strs(o["m"]) {
			ms = append(ms, member(m))
		}
		return d.updates, &proto.IPSetUpdate{Id: id, Type: proto.IPSetUpdate_IP, Members: ms}
	case "delta":
		u := &proto.IPSetDeltaUpdate{Id: id}
		for _, m := range strs(o["add"]) {
			u.AddedMembers = append(u.AddedMembers, member(m))
		}
		for _, m := range strs(o["rem"]) {
			u.RemovedMembers = append(u.RemovedMembers, member(m))
		}
		return d.updates, u
	case "set_rm":
		return d.updates, &proto.IPSetRemove{Id: id}
	case "sa":
		return d.updates, &proto.ServiceAccountUpdate{Id: &proto.ServiceAccountID{Namespace: "default", Name: id}, Labels: map[string]string{"ver": strconv.Itoa(ver)}}
	case "sa_rm":
		return d.updates, &proto.ServiceAccountRemove{Id: &proto.ServiceAccountID{Namespace: "default", Name: id}}
	case "ns":
		return d.updates, &proto.NamespaceUpdate{Id: &proto.NamespaceID{Name: id}, Labels: map[string]string{"ver": strconv.Itoa(ver)}}
	case "ns_rm":
		return d.updates, &proto.NamespaceRemove{Id: &proto.NamespaceID{Name: id}}
	case "insync":
		return d.updates, &proto.InSync{}
	}
	fatal("unknown op %v", o["op"])
	return nil, nil
}

func (d *drv) step(o map[string]any) {
	if tracelog.Str(o["op"]) == "end" {
		return
	}
	ch, msg := d.toInput(o)
	d.log.Emit("in", map[string]any{"o": o})
	d.send(ch, msg)
	d.send(d.updates, barrier{}) // returns when the loop is selecting again: the input is fully handled
	for _, ji := range d.joins {
		for !ji.closed {
			select {
			case m, ok := <-ji.c:
				if !ok {
					ji.closed = true
					d.log.Emit("closed", map[string]any{"j": ji.uid})
				} else {
					d.log.Emit("out", map[string]any{"j": ji.uid, "msg": msgToRec(m)})
				}
				continue
			default:
			}
			break
		}
	}
	d.log.Emit("stepdone", nil)
}

type universe struct {
	W, Pol, Prof, Sets, SAs, NSs []string
	NJ                          int
}

func (d *drv) begin(t int, u universe, variant int) {
	d.updates = make(chan any)
	d.joinsCh = make(chan any)
	d.joins = nil
	d.variant = variant
	p := policysync.NewProcessor(d.updates)
	p.JoinUpdates = d.joinsCh
	p.Start() // the goroutine lives until process exit, parked in select once the trace ends
	js := make([]int, u.NJ)
	for i := range js {
		js[i] = i + 1
	}
	d.log.Reset(t, map[string]any{"W": u.W, "pol": u.Pol, "prof": u.Prof, "sets": u.Sets, "sas": u.SAs, "nss": u.NSs, "joins": js})
}

// ---- seeded random leg: larger universe; inputs respect the calculation graph's own guarantees ------------

func names(p string, n int) []string {
	out := make([]string, n)
	for i := range out {
		out[i] = p + strconv.Itoa(i+1)
	}
	return out
}

func subset(rnd *rand.Rand, xs []string, p float64) []string {
	out := []string{}
	for _, x := range xs {
		if rnd.Float64() < p {
			out = append(out, x)
		}
	}
	return out
}

func (d *drv) random(t int, rnd *rand.Rand) {
	u := universe{W: names("w", 2+rnd.Intn(2)), Pol: names("p", 2+rnd.Intn(3)), Prof: names("f", 1+rnd.Intn(2)),
		Sets: names("s", 2+rnd.Intn(3)), SAs: names("a", 2), NSs: names("n", 2), NJ: 40}
	mem := names("m", 2+rnd.Intn(3))
	d.begin(t, u, rnd.Intn(5))
	// what the calc graph has announced (for generating inputs that respect ITS guarantees only)
	pols, profs := map[string][]string{}, map[string][]string{}
	sets := map[string]map[string]bool{}
	eps := map[string][2][]string{}
	sas, nss := map[string]bool{}, map[string]bool{}
	open := map[int]string{} // joins that have not sent their leave yet
	nextJ := 1
	keys := func(m map[string][]string) []string {
		out := []string{}
		for k := range m {
			out = append(out, k)
		}
		sort.Strings(out)
		return out
	}
	setKeys := func() []string {
		out := []string{}
		for k := range sets {
			out = append(out, k)
		}
		sort.Strings(out)
		return out
	}
	pick := func(xs []string) string { return xs[rnd.Intn(len(xs))] }
	steps := 30 + rnd.Intn(40)
	for i := 0; i < steps; i++ {
		switch c := rnd.Intn(100); {
		case c < 12:
			if nextJ <= u.NJ {
				w := pick(u.W)
				d.step(map[string]any{"op": "join", "w": w, "j": nextJ})
				open[nextJ] = w
				nextJ++
			}
		case c < 18:
			if len(open) > 0 {
				js := []int{}
				for j := range open {
					js = append(js, j)
				}
				sort.Ints(js)
				j := js[rnd.Intn(len(js))]
				d.step(map[string]any{"op": "leave", "w": open[j], "j": j})
				delete(open, j)
			}
		case c < 36:
			w := pick(u.W)
			ps, fs := subset(rnd, keys(pols), 0.5), subset(rnd, keys(profs), 0.5)
			d.step(map[string]any{"op": "ep", "w": w, "ver": 1 + rnd.Intn(3), "pols": ps, "profs": fs})
			eps[w] = [2][]string{ps, fs}
		case c < 40:
			w := pick(u.W)
			if _, ok := eps[w]; ok {
				d.step(map[string]any{"op": "ep_rm", "w": w})
				delete(eps, w)
			}
		case c < 55:
			p := pick(u.Pol)
			refs := subset(rnd, setKeys(), 0.4)
			d.step(map[string]any{"op": "pol", "id": p, "ver": 1 + rnd.Intn(3), "refs": refs})
			pols[p] = refs
		case c < 62:
			f := pick(u.Prof)
			refs := subset(rnd, setKeys(), 0.4)
			d.step(map[string]any{"op": "prof", "id": f, "ver": 1 + rnd.Intn(3), "refs": refs})
			profs[f] = refs
		case c < 66:
			// remove an unreferenced policy / profile
			used := map[string]bool{}
			for _, e := range eps {
				for _, p := range e[0] {
					used["p:"+p] = true
				}
				for _, f := range e[1] {
					used["f:"+f] = true
				}
			}
			if rnd.Intn(2) == 0 {
				for _, p := range keys(pols) {
					if !used["p:"+p] {
						d.step(map[string]any{"op": "pol_rm", "id": p})
						delete(pols, p)
						break
					}
				}
			} else {
				for _, f := range keys(profs) {
					if !used["f:"+f] {
						d.step(map[string]any{"op": "prof_rm", "id": f})
						delete(profs, f)
						break
					}
				}
			}
		case c < 76:
			s := pick(u.Sets)
			ms := subset(rnd, mem, 0.5)
			d.step(map[string]any{"op": "set", "id": s, "m": ms})
			sets[s] = map[string]bool{}
			for _, m := range ms {
				sets[s][m] = true
			}
		case c < 86:
			if ks := setKeys(); len(ks) > 0 {
				s := pick(ks)
				add, rem := []string{}, []string{}
				for _, m := range mem {
					if rnd.Intn(2) == 0 {
						if sets[s][m] {
							rem = append(rem, m)
						} else {
							add = append(add, m)
						}
					}
				}
				if len(add)+len(rem) > 0 {
					d.step(map[string]any{"op": "delta", "id": s, "add": add, "rem": rem})
					for _, m := range add {
						sets[s][m] = true
					}
					for _, m := range rem {
						delete(sets[s], m)
					}
				}
			}
		case c < 89:
			used := map[string]bool{}
			for _, r := range pols {
				for _, s := range r {
					used[s] = true
				}
			}
			for _, r := range profs {
				for _, s := range r {
					used[s] = true
				}
			}
			for _, s := range setKeys() {
				if !used[s] {
					d.step(map[string]any{"op": "set_rm", "id": s})
					delete(sets, s)
					break
				}
			}
		case c < 93:
			a := pick(u.SAs)
			if sas[a] && rnd.Intn(3) == 0 {
				d.step(map[string]any{"op": "sa_rm", "id": a})
				delete(sas, a)
			} else {
				d.step(map[string]any{"op": "sa", "id": a, "ver": 1 + rnd.Intn(3)})
				sas[a] = true
			}
		case c < 97:
			n := pick(u.NSs)
			if nss[n] && rnd.Intn(3) == 0 {
				d.step(map[string]any{"op": "ns_rm", "id": n})
				delete(nss, n)
			} else {
				d.step(map[string]any{"op": "ns", "id": n, "ver": 1 + rnd.Intn(3)})
				nss[n] = true
			}
		default:
			d.step(map[string]any{"op": "insync"})
		}
	}
}

func main() {
	logrus.SetOutput(io.Discard)
	logrus.SetLevel(logrus.ErrorLevel)
	env := tracelog.GetEnv()
	lg, err := tracelog.Open(env.OutPath)
	if err != nil {
		fatal("%v", err)
	}
	d := &drv{log: lg, bound: 30 * time.Second}
	behs, err := tracelog.LoadBehaviours(env.BehPath)
	if err != nil {
		fatal("%v", err)
	}
	small := universe{W: []string{"w1", "w2"}, Pol: []string{"p1", "p2"}, Prof: []string{"f1"}, Sets: []string{"s1", "s2"},
		SAs: []string{"a1"}, NSs: []string{"n1"}, NJ: 12}
	t := 0
	for _, b := range behs {
		t++
		d.begin(t, small, t%5)
		for _, op := range b {
			d.step(op)
		}
	}
	for i := 0; i < env.N; i++ {
		t++
		d.random(t, rand.New(rand.NewSource(env.Seed*1000003+int64(i))))
	}
	if err := lg.Close(); err != nil {
		fatal("%v", err)
	}
}
