package main

import (
	"fmt"
	"math/rand"
	"sort"
	"strings"

	"github.com/projectcalico/calico/libcalico-go/lib/backend/model"

	"verifharness/memkv"
	"verifharness/selgen"
	"verifharness/tracelog"
)

// ---- leg A: replay of a TLC behaviour of Gen_IPAM -----------------------------------------------------------
//
// Records:  {op:"cfg", ...}  the constants of the model run (first record)
//           {op:"start", c, call:{...}}      client c begins an API call
//           {op:"step", c, kop, kkind, conf}  client c makes its next store call (conf: injected conflict)
//           {op:"crash", c} {op:"tick"} {op:"capture", ip:[..]} {op:"end"}

func blockCIDR(i, bits int) string {
	return fmt.Sprintf("10.0.0.%d/%d", (i-1)*(1<<bits), 32-bits)
}

func scenarioFromCfg(cfg map[string]any) *scenario {
	bits, nb := tracelog.Int(cfg["blockbits"]), tracelog.Int(cfg["nblocks"])
	sc := &scenario{Mode: "conc", Hosts: map[string]map[string]string{}, NSs: map[string]map[string]string{"ns": {"name": "ns"}},
		Strict: cfg["strict"] == true, MaxB: tracelog.Int(cfg["maxb"]), Cool: tracelog.Int(cfg["cool"]),
		Tick: tracelog.Int(cfg["tick"]), Clients: map[string]string{}}
	for c, h := range cfg["hosts"].(map[string]any) {
		sc.Clients[c] = tracelog.Str(h)
		sc.Hosts[tracelog.Str(h)] = map[string]string{"name": tracelog.Str(h)}
	}
	if len(sc.Hosts) == len(sc.Clients) {
		sc.Mode = "seq" // one client per host: the per-host block cap is guaranteed (P_IPAM checks it in this mode)
	}
	if cfg["twopools"] == true && nb == 2 {
		sc.Pools = []pool{{Name: "p1", CIDR: blockCIDR(1, bits), BlockSz: 32 - bits, Uses: []string{"Workload"}},
			{Name: "p2", CIDR: blockCIDR(2, bits), BlockSz: 32 - bits, Uses: []string{"Workload"}, NodeSel: "name == 'h2'"}}
	} else {
		pb := bits
		switch {
		case nb == 2:
			pb = bits + 1
		case nb > 2:
			pb = bits + 2
		}
		sc.Pools = []pool{{Name: "p1", CIDR: fmt.Sprintf("10.0.0.0/%d", 32-pb), BlockSz: 32 - bits, Uses: []string{"Workload"}}}
	}
	if cfg["rsvlast"] == true {
		sc.Rsv = []string{fmt.Sprintf("10.0.0.%d/32", (1<<bits)-1)}
	}
	return sc
}

func (d *drv) replay(t int, beh []map[string]any) {
	if len(beh) == 0 || tracelog.Str(beh[0]["op"]) != "cfg" {
		must(fmt.Errorf("behaviour %d does not start with a cfg record", t))
	}
	bits := tracelog.Int(beh[0]["blockbits"])
	d.start(t, scenarioFromCfg(beh[0]))
	for _, r := range beh[1:] {
		c := tracelog.Str(r["c"])
		switch tracelog.Str(r["op"]) {
		case "start":
			call := r["call"].(map[string]any)
			if o := tracelog.Str(call["op"]); o == "relaff" || o == "claim" {
				call["cidr"] = blockCIDR(tracelog.Int(call["blk"]), bits)
			}
			d.call(c, call)
		case "step":
			f := memkv.FaultNone
			if r["conf"] == true {
				f = memkv.FaultConflict
			}
			d.step(c, f, tracelog.Str(r["kop"])+":"+tracelog.Str(r["kkind"]))
		case "crash":
			d.crash(c)
		case "tick":
			d.tick()
		case "capture":
			if d.capture(ipString(r["ip"])) == 0 {
				d.ncap++ // keep the schedule's capture numbering; the id stays unknown to the spec (never entitles)
				d.drift++
			}
		case "end":
		default:
			must(fmt.Errorf("unknown schedule record %v", r))
		}
	}
	d.finish()
}

// ---- seeded runs -----------------------------------------------------------------------------------------------

var (
	poolMenu = []pool{
		{Name: "pa", CIDR: "10.0.0.0/28", BlockSz: 30},
		{Name: "pb", CIDR: "10.0.1.0/28", BlockSz: 29},
		{Name: "pc", CIDR: "10.0.2.0/29", BlockSz: 31},
		{Name: "pd", CIDR: "10.0.3.0/28", BlockSz: 28},
	}
	usesMenu  = [][]string{nil, {"Workload"}, {"Tunnel"}, {"Workload", "Tunnel"}, {"Workload", "Tunnel"}}
	nodeSels  = []string{"", "all()", "zone == 'a'", "has(gpu)", "!has(gpu)", "zone in {'b', 'c'}", "zone != 'a' || has(gpu)"}
	nsSels    = []string{"", "", "team == 'x'", "has(team)"}
	handleIDs = []string{"hA", "hB", "hC", "hD", "hE"}
)

func randomScenario(rnd *rand.Rand) *scenario {
	sc := &scenario{Mode: "seq", Tick: 70,
		Hosts: map[string]map[string]string{"h1": {"zone": "a", "name": "h1"}, "h2": {"zone": "b", "gpu": "yes", "name": "h2"}, "h3": {"zone": "a", "gpu": "yes", "name": "h3"}},
		NSs:   map[string]map[string]string{"nsx": {"team": "x"}, "nsy": {"team": "y"}},
		Clients: map[string]string{"c1": "h1", "c2": "h2", "c3": "h3"}}
	perm := rnd.Perm(len(poolMenu))
	np := 1 + rnd.Intn(3)
	for _, i := range perm[:np] {
		p := poolMenu[i]
		p.Disabled = rnd.Intn(7) == 0
		p.Uses = usesMenu[rnd.Intn(len(usesMenu))]
		p.NodeSel = nodeSels[rnd.Intn(len(nodeSels))]
		p.NsSel = nsSels[rnd.Intn(len(nsSels))]
		sc.Pools = append(sc.Pools, p)
	}
	sort.Slice(sc.Pools, func(i, j int) bool { return sc.Pools[i].Name < sc.Pools[j].Name })
	for n := rnd.Intn(4); n > 0; n-- {
		p := sc.Pools[rnd.Intn(len(sc.Pools))]
		base := strings.TrimSuffix(strings.Split(p.CIDR, "/")[0], ".0")
		switch rnd.Intn(4) {
		case 0:
			sc.Rsv = append(sc.Rsv, fmt.Sprintf("%s.%d/32", base, rnd.Intn(8)))
		case 1:
			sc.Rsv = append(sc.Rsv, fmt.Sprintf("%s.%d/31", base, 2*rnd.Intn(4)))
		case 2:
			sc.Rsv = append(sc.Rsv, fmt.Sprintf("%s.%d/30", base, 4*rnd.Intn(2)))
		case 3: // a whole block
			sz := 1 << (32 - p.BlockSz)
			sc.Rsv = append(sc.Rsv, fmt.Sprintf("%s.%d/%d", base, sz*rnd.Intn(2), p.BlockSz))
		}
	}
	sc.Strict = rnd.Intn(2) == 0
	if sc.Strict {
		sc.MaxB = []int{0, 0, 1, 2}[rnd.Intn(4)]
	}
	sc.Cool = []int{0, 100}[rnd.Intn(2)]
	if rnd.Intn(3) == 0 {
		// reservation-centred layout: ONE permissive pool of small blocks, 2-3 reservations that each cover only
		// PART of a different block (single addresses and /31s, first / last / middle of the block), listed in a
		// random order, and (see randomOp) mostly multi-address requests, so that one request examines a partly
		// reserved block and then spills into the next one
		p := poolMenu[[]int{0, 0, 1, 2}[rnd.Intn(4)]]
		p.Uses = []string{"Workload", "Tunnel"}
		sc.Pools, sc.Rsv, sc.MaxB, sc.Cool = []pool{p}, nil, 0, 0
		sc.Strict = rnd.Intn(4) == 0
		base := strings.TrimSuffix(strings.Split(p.CIDR, "/")[0], ".0")
		sz := 1 << (32 - p.BlockSz)
		nblocks := (1 << (32 - 28)) / sz
		if p.CIDR == "10.0.2.0/29" {
			nblocks = 8 / sz
		}
		blocks := rnd.Perm(nblocks)
		for i := 0; i < 2+rnd.Intn(2) && i < nblocks; i++ {
			b := blocks[i] * sz
			switch k := rnd.Intn(4); {
			case k == 0 || sz == 2:
				sc.Rsv = append(sc.Rsv, fmt.Sprintf("%s.%d/32", base, b+rnd.Intn(sz))) // any single address
			case k == 1:
				sc.Rsv = append(sc.Rsv, fmt.Sprintf("%s.%d/32", base, b)) // first address of the block
			case k == 2:
				sc.Rsv = append(sc.Rsv, fmt.Sprintf("%s.%d/32", base, b+sz-1)) // last address of the block
			default:
				sc.Rsv = append(sc.Rsv, fmt.Sprintf("%s.%d/31", base, b+2*rnd.Intn(sz/2))) // half of a /30, a quarter of a /29
			}
		}
		sc.SpillHeavy = true
	}
	return sc
}

type capRec struct {
	id int
	ip string
}

// randomOp builds one API call record; ok=false when nothing sensible is possible.
func (d *drv) randomOp(rnd *rand.Rand, host string, capsSeen *[]capRec) (map[string]any, bool) {
	sc := d.sc
	ips, owner := d.allocated()
	ipJSON := func(ip string) []any {
		parts := strings.Split(ip, ".")
		out := make([]any, len(parts))
		for i, p := range parts {
			out[i] = tracelog.Int(p)
		}
		return out
	}
	x := rnd.Intn(100)
	if sc.ReleaseHeavy { // assign 38, release 40, relh 18, relaff 4
		x = map[bool]int{true: 0, false: 0}[true]
		switch y := rnd.Intn(100); {
		case y < 38:
			x = 0
		case y < 78:
			x = 60
		case y < 96:
			x = 80
		default:
			x = 95
		}
	}
	if sc.ReleaseHeavy && rnd.Intn(12) == 0 {
		// assignment by address (AssignIP): a pool address, free or not (an allocated one is refused)
		p := sc.Pools[rnd.Intn(len(sc.Pools))]
		base := strings.TrimSuffix(strings.Split(p.CIDR, "/")[0], ".0")
		ip := fmt.Sprintf("%s.%d", base, rnd.Intn(8))
		return map[string]any{"op": "assignip", "host": host, "h": handleIDs[rnd.Intn(len(handleIDs))], "ip": ipJSON(ip)}, true
	}
	switch {
	case x < 50:
		op := map[string]any{"op": "assign", "host": host, "h": handleIDs[rnd.Intn(len(handleIDs))],
			"num": map[bool][]int{false: {1, 1, 1, 2, 2, 3, 5}, true: {1, 2, 3, 3, 4, 5, 6}}[sc.SpillHeavy][rnd.Intn(7)], "use": []string{"Workload", "Workload", "Workload", "Workload", "Tunnel"}[rnd.Intn(5)],
			"ns": []string{"", "nsx", "nsy"}[rnd.Intn(3)], "maxb": []int{0, 0, 0, 0, 1, 2}[rnd.Intn(6)], "pools": []any{}}
		if rnd.Intn(20) == 0 {
			op["pools"] = []any{sc.Pools[rnd.Intn(len(sc.Pools))].CIDR}
		}
		return op, true
	case x < 78:
		var ip string
		if len(ips) > 0 && rnd.Intn(5) > 0 {
			ip = ips[rnd.Intn(len(ips))]
		} else {
			p := sc.Pools[rnd.Intn(len(sc.Pools))]
			base := strings.TrimSuffix(strings.Split(p.CIDR, "/")[0], ".0")
			ip = fmt.Sprintf("%s.%d", base, rnd.Intn(8))
		}
		h := ""
		switch rnd.Intn(4) {
		case 0:
			h = owner[ip] // the right handle ("" when unallocated)
		case 1:
			h = handleIDs[rnd.Intn(len(handleIDs))] // probably another handle
		}
		cap := 0
		switch rnd.Intn(4) {
		case 0: // a fresh capture
			cap = d.capture(ip)
			if cap != 0 {
				*capsSeen = append(*capsSeen, capRec{cap, ip})
			}
		case 1: // an old capture of this address (stale if it was re-allocated since: the ABA pattern)
			for _, c := range *capsSeen {
				if c.ip == ip {
					cap = c.id
				}
			}
		}
		return map[string]any{"op": "release", "opts": []any{map[string]any{"ip": ipJSON(ip), "h": h, "cap": cap}}}, true
	case x < 90:
		return map[string]any{"op": "relh", "h": handleIDs[rnd.Intn(len(handleIDs))]}, true
	default:
		// release the affinity of one of the host's blocks (or of some block of a pool)
		var cidrs []string
		for _, it := range d.store.Snapshot("/calico/ipam/v2/host/" + host + "/") {
			if k, ok := it.Key.(model.BlockAffinityKey); ok {
				cidrs = append(cidrs, k.CIDR.String())
			}
		}
		if len(cidrs) == 0 || rnd.Intn(6) == 0 {
			p := sc.Pools[rnd.Intn(len(sc.Pools))]
			base := strings.TrimSuffix(strings.Split(p.CIDR, "/")[0], ".0")
			cidrs = []string{fmt.Sprintf("%s.0/%d", base, p.BlockSz)}
		}
		return map[string]any{"op": "relaff", "host": host, "cidr": cidrs[rnd.Intn(len(cidrs))], "empty": rnd.Intn(2) == 0}, true
	}
}

func (d *drv) seeded(t int, mode string, seed int64) {
	rnd := rand.New(rand.NewSource(seed))
	var capsSeen []capRec
	if mode != "conc" {
		// sequential histories over random pool layouts / reservations / configs (C20, C21)
		sc := randomScenario(rnd)
		tickPct := 8
		if mode == "seq21" {
			// release-centred histories: one permissive pool, cooldown mostly on, more ticks
			p := poolMenu[[]int{0, 2}[rnd.Intn(2)]]
			p.Uses = []string{"Workload", "Tunnel"}
			sc.Pools, sc.Rsv, sc.Strict, sc.MaxB = []pool{p}, nil, false, 0
			sc.Cool = []int{100, 100, 100, 0}[rnd.Intn(4)]
			sc.ReleaseHeavy = true
			tickPct = 16
		}
		d.start(t, sc)
		clients := selgen.SortedKeys(sc.Clients)
		for n := 25 + rnd.Intn(30); n > 0; n-- {
			switch x := rnd.Intn(100); {
			case x < tickPct:
				d.tick()
			case x < tickPct+4:
				if ips, _ := d.allocated(); len(ips) > 0 {
					ip := ips[rnd.Intn(len(ips))]
					if id := d.capture(ip); id != 0 {
						capsSeen = append(capsSeen, capRec{id, ip})
					}
				}
			default:
				c := clients[rnd.Intn(len(clients))]
				if op, ok := d.randomOp(rnd, sc.Clients[c], &capsSeen); ok {
					d.call(c, op)
					f := memkv.FaultNone
					for i := 0; ; i++ {
						if _, busy := d.wait()[c]; !busy {
							break
						}
						f = memkv.FaultNone
						if rnd.Intn(40) == 0 {
							f = memkv.FaultConflict
						}
						d.step(c, f, "")
					}
				}
			}
		}
		d.finish()
		return
	}
	// concurrent long runs: 4 clients on 3 hosts (c4 shares h1), contention on a small pool
	sc := &scenario{Mode: "conc", Tick: 70,
		Hosts:   map[string]map[string]string{"h1": {"name": "h1"}, "h2": {"name": "h2"}, "h3": {"name": "h3"}},
		NSs:     map[string]map[string]string{"nsx": {"team": "x"}},
		Clients: map[string]string{"c1": "h1", "c2": "h2", "c3": "h3", "c4": "h1"},
		Strict:  rnd.Intn(3) == 0, Cool: []int{0, 0, 100}[rnd.Intn(3)]}
	p := poolMenu[[]int{0, 2, 2}[rnd.Intn(3)]]
	p.Uses = []string{"Workload"}
	sc.Pools = []pool{p}
	d.start(t, sc)
	clients := selgen.SortedKeys(sc.Clients)
	crashes, errs := 0, 0
	faulty := rnd.Intn(2) == 0 // half of the runs stay crash- and error-free, so that quiescent points are meaningful
	for n := 150 + rnd.Intn(150); n > 0; n-- {
		if n%45 == 0 {
			// let every call finish: a quiescent point in the middle of the run
			must(d.sched.Drain(func(names []string) string { return names[rnd.Intn(len(names))] }, 100000))
		}
		pend := d.wait()
		var idle, blocked []string
		for _, c := range clients {
			if d.dead[c] {
				continue
			}
			if _, ok := pend[c]; ok {
				blocked = append(blocked, c)
			} else {
				idle = append(idle, c)
			}
		}
		x := rnd.Intn(100)
		switch {
		case x < 3:
			d.tick()
		case x < 5 && len(blocked) == 0:
			// captures only at quiescent points keep the numbering simple
			if ips, _ := d.allocated(); len(ips) > 0 {
				ip := ips[rnd.Intn(len(ips))]
				if id := d.capture(ip); id != 0 {
					capsSeen = append(capsSeen, capRec{id, ip})
				}
			}
		case len(idle) > 0 && (len(blocked) == 0 || x < 30):
			c := idle[rnd.Intn(len(idle))]
			if op, ok := d.randomOp(rnd, sc.Clients[c], &capsSeen); ok {
				if op["op"] == "assign" {
					op["ns"], op["maxb"], op["use"], op["pools"] = "", 0, "Workload", []any{}
				}
				d.call(c, op)
			}
		case len(blocked) > 0:
			c := blocked[rnd.Intn(len(blocked))]
			f := memkv.FaultNone
			switch y := rnd.Intn(100); {
			case y < 6:
				f = memkv.FaultConflict
			case y < 8 && errs < 2 && faulty:
				f = memkv.FaultError
				errs++
			case y < 9 && crashes < 1 && faulty:
				crashes++
				d.crash(c)
				continue
			}
			d.step(c, f, "")
		}
	}
	d.finish()
}
