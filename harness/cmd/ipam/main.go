// Driver for C19-C22: N real IPAM clients (clientv3.NewFromBackend(memkv).IPAM(), i.e. ipam.NewIPAMClient
// with the real pool accessor and reservation client) run in goroutines over one harness/memkv store.
// Every IPAM-kind store call waits at the gate; this driver decides which client proceeds - replaying a
// TLC schedule (VERIF_BEH) or a seeded one - and may inject a conflict / transport error or kill the
// client.  The trace is memkv's call log (in linearization order) plus call / return events.
// The driver never judges: it executes, records and converts syntax (block -> ordinal records etc.).
package main

import (
	"context"
	"errors"
	"fmt"
	"io"
	"net"
	"os"
	"sort"
	"strconv"
	"strings"
	"time"

	v3 "github.com/projectcalico/api/pkg/apis/projectcalico/v3"
	"github.com/sirupsen/logrus"
	corev1 "k8s.io/api/core/v1"
	metav1 "k8s.io/apimachinery/pkg/apis/meta/v1"

	"github.com/projectcalico/calico/libcalico-go/lib/apiconfig"
	"github.com/projectcalico/calico/libcalico-go/lib/apis/internalapi"
	"github.com/projectcalico/calico/libcalico-go/lib/backend/model"
	"github.com/projectcalico/calico/libcalico-go/lib/clientv3"
	cerrors "github.com/projectcalico/calico/libcalico-go/lib/errors"
	"github.com/projectcalico/calico/libcalico-go/lib/ipam"
	cnet "github.com/projectcalico/calico/libcalico-go/lib/net"
	"github.com/projectcalico/calico/libcalico-go/lib/selector/parser"

	"verifharness/memkv"
	"verifharness/selgen"
	"verifharness/tracelog"
)

// ---- scenario ------------------------------------------------------------------------------------------

type pool struct {
	Name     string
	CIDR     string
	BlockSz  int
	Disabled bool
	Uses     []string
	NodeSel  string
	NsSel    string
}

type scenario struct {
	Mode    string                       // "seq" | "conc"
	Hosts   map[string]map[string]string // node name -> labels
	NSs     map[string]map[string]string // namespace -> labels
	Pools   []pool
	Rsv     []string // reserved CIDRs
	Strict  bool
	MaxB    int
	Cool    int
	Clients map[string]string // client -> host (documentation only; calls name their host)
	Tick    int
	ReleaseHeavy bool
	SpillHeavy   bool
}

type drv struct {
	log   *tracelog.Log
	store *memkv.Store
	sched *memkv.Sched
	epoch time.Time
	caps  map[int]uint64
	ncap  int
	dead  map[string]bool
	drift int
	steps int
	sc    *scenario
}

func must(err error) {
	if err != nil {
		fmt.Fprintln(os.Stderr, "ipam driver:", err)
		os.Exit(2)
	}
}

// ---- syntax conversion -----------------------------------------------------------------------------------

func cidrJSON(s string) map[string]any {
	_, n, err := cnet.ParseCIDROrIP(s)
	must(err)
	ones, _ := n.Mask.Size()
	return map[string]any{"a": octets(n.IP), "n": ones}
}

func octets(ip []byte) []int {
	if v4 := net.IP(ip).To4(); v4 != nil {
		ip = v4
	}
	out := make([]int, len(ip))
	for i, b := range ip {
		out[i] = int(b)
	}
	return out
}

func ipString(v any) string {
	a := v.([]any)
	parts := make([]string, len(a))
	for i, x := range a {
		parts[i] = strconv.Itoa(tracelog.Int(x))
	}
	return strings.Join(parts, ".")
}

func selAST(s string, strs map[string]bool) map[string]any {
	if s == "" {
		return map[string]any{"op": "all"}
	}
	sel, err := parser.Parse(s)
	must(err)
	return selgen.Export(sel.Root(), strs)
}

func blockKeyStr(cidr string) string { return "b|" + cidr }

func keyOf(k model.Key) (kind, key string) {
	switch x := k.(type) {
	case model.BlockKey:
		return "block", blockKeyStr(x.CIDR.String())
	case model.BlockAffinityKey:
		t := x.AffinityType
		if t == "" {
			t = "host"
		}
		return "aff", "a|" + t + ":" + x.Host + "|" + x.CIDR.String()
	case model.IPAMHandleKey:
		return "handle", "h|" + x.HandleID
	}
	return "", ""
}

func valOf(k model.Key, v any) map[string]any {
	switch x := k.(type) {
	case model.BlockKey:
		b, ok := v.(*model.AllocationBlock)
		if !ok || b == nil {
			return map[string]any{"kind": "block"}
		}
		ords := make([]any, len(b.Allocations))
		for o, ix := range b.Allocations {
			switch {
			case ix == nil:
				ords[o] = map[string]any{"s": "f"}
			case *ix < 0 || *ix >= len(b.Attributes):
				ords[o] = map[string]any{"s": "a", "h": "?dangling-attribute", "q": "?"}
			case b.Attributes[*ix].ReleasedAt != nil:
				ords[o] = map[string]any{"s": "c"}
			default:
				h := ""
				if b.Attributes[*ix].HandleID != nil {
					h = *b.Attributes[*ix].HandleID
				}
				ords[o] = map[string]any{"s": "a", "h": h, "q": strconv.FormatUint(b.GetSequenceNumberForOrdinal(o), 10)}
			}
		}
		aff := ""
		if b.Affinity != nil {
			aff = *b.Affinity
		}
		uq := append([]int{}, b.Unallocated...)
		return map[string]any{"kind": "block", "cidr": cidrJSON(x.CIDR.String()), "aff": aff, "ords": ords, "uq": uq,
			"bseq": strconv.FormatUint(b.SequenceNumber, 10)}
	case model.BlockAffinityKey:
		a, ok := v.(*model.BlockAffinity)
		if !ok || a == nil {
			return map[string]any{"kind": "aff"}
		}
		t := x.AffinityType
		if t == "" {
			t = "host"
		}
		return map[string]any{"kind": "aff", "owner": t + ":" + x.Host, "bk": blockKeyStr(x.CIDR.String()), "state": string(a.State)}
	case model.IPAMHandleKey:
		h, ok := v.(*model.IPAMHandle)
		if !ok || h == nil {
			return map[string]any{"kind": "handle"}
		}
		bl := []any{}
		for _, c := range selgen.SortedKeys(h.Block) {
			bl = append(bl, map[string]any{"b": blockKeyStr(c), "n": h.Block[c]})
		}
		return map[string]any{"kind": "handle", "id": x.HandleID, "blocks": bl}
	}
	return map[string]any{"kind": "other"}
}

func atoi(s string) int {
	n, _ := strconv.Atoi(s)
	return n
}

func ipamCall(ci *memkv.CallInfo) bool {
	if ci.Key != nil {
		k, _ := keyOf(ci.Key)
		return k != ""
	}
	switch ci.List.(type) {
	case model.BlockListOptions, model.BlockAffinityListOptions, model.IPAMHandleListOptions:
		return true
	}
	return false
}

// record converts one memkv call into a trace event (called under the store mutex: linearization order).
func (d *drv) record(c *memkv.Call) {
	if !ipamCall(&c.CallInfo) {
		return
	}
	ev := map[string]any{"n": int(c.N), "c": c.Client, "op": c.Op, "rev": atoi(c.RevIn), "orev": 0, "nrev": atoi(c.NewRev),
		"err": c.ErrKind, "inj": c.Fault.String(), "now": int((c.At.Sub(d.epoch) + c.Shift) / time.Second)}
	if c.Op == "list" {
		kind, owner := "", ""
		switch l := c.List.(type) {
		case model.BlockListOptions:
			kind = "block"
		case model.IPAMHandleListOptions:
			kind = "handle"
		case model.BlockAffinityListOptions:
			kind = "aff"
			if l.Host != "" {
				t := l.AffinityType
				if t == "" {
					t = "host"
				}
				owner = t + ":" + l.Host
			}
		}
		items := []any{}
		for _, it := range c.Result {
			_, k := keyOf(it.Key)
			items = append(items, map[string]any{"key": k, "rev": atoi(it.Rev), "val": valOf(it.Key, it.Value)})
		}
		ev["kind"], ev["owner"], ev["key"], ev["items"] = kind, owner, "", items
		d.log.Emit("kv", ev)
		return
	}
	kind, key := keyOf(c.Key)
	ev["kind"], ev["key"] = kind, key
	switch {
	case c.Op == "get" && c.OK:
		ev["val"] = valOf(c.Key, c.Result[0].Value)
		ev["orev"] = atoi(c.Result[0].Rev)
	case c.Op == "create" || c.Op == "update" || c.Op == "apply":
		ev["val"] = valOf(c.Key, c.Value)
	default:
		ev["val"] = map[string]any{"kind": kind}
	}
	d.log.Emit("kv", ev)
}

// ---- set-up of one trace --------------------------------------------------------------------------------------

func (d *drv) start(t int, sc *scenario) {
	d.sc = sc
	d.store = memkv.New()
	d.store.KeepLog(false)
	d.sched = memkv.NewSched()
	d.store.Attach(d.sched, ipamCall)
	d.caps, d.ncap, d.dead, d.drift, d.steps = map[int]uint64{}, 0, map[string]bool{}, 0, 0
	strs := map[string]bool{"_": true}
	hosts := map[string]any{}
	for _, h := range selgen.SortedKeys(sc.Hosts) {
		n := internalapi.NewNode()
		n.Name = h
		n.Labels = sc.Hosts[h]
		_, err := d.store.Seed(&model.KVPair{Key: model.ResourceKey{Kind: internalapi.KindNode, Name: h}, Value: n})
		must(err)
		hosts[h] = sc.Hosts[h]
		for _, v := range sc.Hosts[h] {
			strs[v] = true
		}
	}
	nss := map[string]any{}
	for _, n := range selgen.SortedKeys(sc.NSs) {
		nss[n] = sc.NSs[n]
		for _, v := range sc.NSs[n] {
			strs[v] = true
		}
	}
	pools := []any{}
	for _, p := range sc.Pools {
		ip := v3.NewIPPool()
		ip.Name = p.Name
		ip.Spec.CIDR = p.CIDR
		ip.Spec.BlockSize = p.BlockSz
		ip.Spec.Disabled = p.Disabled
		ip.Spec.NodeSelector = p.NodeSel
		ip.Spec.NamespaceSelector = p.NsSel
		for _, u := range p.Uses {
			ip.Spec.AllowedUses = append(ip.Spec.AllowedUses, v3.IPPoolAllowedUse(u))
		}
		_, err := d.store.Seed(&model.KVPair{Key: model.ResourceKey{Kind: v3.KindIPPool, Name: p.Name}, Value: ip})
		must(err)
		uses := p.Uses
		if len(uses) == 0 {
			uses = []string{"Workload", "Tunnel"} // the documented default when the field is empty
		}
		pools = append(pools, map[string]any{"name": p.Name, "cidr": cidrJSON(p.CIDR), "bs": p.BlockSz, "disabled": p.Disabled,
			"uses": uses, "nsel": selAST(p.NodeSel, strs), "ssel": selAST(p.NsSel, strs)})
	}
	rsv := []any{}
	if len(sc.Rsv) > 0 {
		r := v3.NewIPReservation()
		r.Name = "rsv"
		r.Spec.ReservedCIDRs = sc.Rsv
		_, err := d.store.Seed(&model.KVPair{Key: model.ResourceKey{Kind: v3.KindIPReservation, Name: "rsv"}, Value: r})
		must(err)
		for _, c := range sc.Rsv {
			rsv = append(rsv, cidrJSON(c))
		}
	}
	_, err := d.store.Seed(&model.KVPair{Key: model.IPAMConfigKey{}, Value: &model.IPAMConfig{
		StrictAffinity: sc.Strict, AutoAllocateBlocks: true, MaxBlocksPerHost: sc.MaxB, IPCooldownSeconds: sc.Cool}})
	must(err)
	d.epoch = time.Now()
	d.store.SetRecorder(d.record)
	d.log.Reset(t, map[string]any{"mode": sc.Mode, "hosts": hosts, "nss": nss, "pools": pools, "rsv": rsv,
		"cfg": map[string]any{"strict": sc.Strict, "maxb": sc.MaxB, "cool": sc.Cool},
		"ct": selgen.CharTable(strs), "slack": 10, "tick": sc.Tick})
}

func (d *drv) finish() {
	must(d.sched.Drain(nil, 100000))
	if el := time.Since(d.epoch); el > 8*time.Second {
		must(fmt.Errorf("trace took %v of real time: the cooldown margins are no longer strict", el))
	}
	d.log.Emit("note", map[string]any{"drift": d.drift, "steps": d.steps})
}

func (d *drv) client(name string) ipam.Interface {
	return clientv3.NewFromBackend(*apiconfig.NewCalicoAPIConfig(), d.store.Client(name)).IPAM()
}

// ---- API calls ---------------------------------------------------------------------------------------------------

func errClass(err error) string {
	if err == nil {
		return ""
	}
	var conf cerrors.ErrorResourceUpdateConflict
	if errors.As(err, &conf) {
		switch conf.Err.(type) {
		case cerrors.ErrorBadSequenceNumber:
			return "badseq"
		case cerrors.ErrorBadHandle:
			return "badhandle"
		}
		return "conflict"
	}
	var nf cerrors.ErrorResourceDoesNotExist
	if errors.As(err, &nf) {
		return "notfound"
	}
	if errors.Is(err, ipam.ErrBlockLimit) {
		return "blocklimit"
	}
	return "other"
}

// call starts the API call described by op (a JSON-shaped record) as client c; the call event is logged
// before the goroutine starts, the ret event when the real call returns.
func (d *drv) call(c string, op map[string]any) {
	if d.dead[c] {
		return
	}
	if st := d.sched.State(c); st == memkv.StateRunning || st == memkv.StateBlocked {
		// the schedule starts a new call while the real client is still busy: let it finish first (drift)
		d.drift++
		d.runToEnd(c)
	}
	cl := d.client(c)
	ctx := context.Background()
	kind := tracelog.Str(op["op"])
	ev := map[string]any{"c": c, "op": kind}
	var run func() map[string]any
	switch kind {
	case "assign":
		host, h, num := tracelog.Str(op["host"]), tracelog.Str(op["h"]), tracelog.Int(op["num"])
		use, ns, maxb := tracelog.Str(op["use"]), tracelog.Str(op["ns"]), tracelog.Int(op["maxb"])
		args := ipam.AutoAssignArgs{Num4: num, HandleID: &h, Hostname: host, IntendedUse: v3.IPPoolAllowedUse(use),
			MaxBlocksPerHost: maxb, Attrs: map[string]string{"note": "verif"}}
		if ns != "" {
			args.Namespace = &corev1.Namespace{ObjectMeta: metav1.ObjectMeta{Name: ns, Labels: d.sc.NSs[ns]}}
		}
		pj := []any{}
		if ps, ok := op["pools"].([]any); ok {
			for _, p := range ps {
				s := tracelog.Str(p)
				args.IPv4Pools = append(args.IPv4Pools, cnet.MustParseCIDR(s))
				pj = append(pj, cidrJSON(s))
			}
		}
		ev["host"], ev["h"], ev["num"], ev["use"], ev["ns"], ev["maxb"], ev["pools"] = host, h, num, use, ns, maxb, pj
		run = func() map[string]any {
			v4, _, err := cl.AutoAssign(ctx, args)
			ips := []any{}
			if v4 != nil {
				for _, n := range v4.IPs {
					ones, _ := n.Mask.Size()
					ips = append(ips, map[string]any{"a": octets(n.IP), "n": ones})
				}
			}
			return map[string]any{"ips": ips, "err": errClass(err)}
		}
	case "release":
		var opts []ipam.ReleaseOptions
		oj := []any{}
		for _, x := range op["opts"].([]any) {
			o := x.(map[string]any)
			ro := ipam.ReleaseOptions{Address: ipString(o["ip"]), Handle: tracelog.Str(o["h"])}
			cap := tracelog.Int(o["cap"])
			if cap != 0 {
				s := d.caps[cap]
				ro.SequenceNumber = &s
			}
			opts = append(opts, ro)
			oj = append(oj, map[string]any{"ip": o["ip"], "h": ro.Handle, "cap": cap})
		}
		ev["opts"] = oj
		run = func() map[string]any {
			un, rel, err := cl.ReleaseIPs(ctx, opts...)
			uj, rj := []any{}, []any{}
			for _, ip := range un {
				uj = append(uj, octets(ip.IP))
			}
			for _, r := range rel {
				rj = append(rj, octets(cnet.MustParseIP(r.Address).IP))
			}
			return map[string]any{"unalloc": uj, "released": rj, "err": errClass(err)}
		}
	case "assignip":
		// assignment of one named address (ipam.AssignIP)
		host, h := tracelog.Str(op["host"]), tracelog.Str(op["h"])
		ip := ipString(op["ip"])
		ev["host"], ev["h"], ev["ip"] = host, h, op["ip"]
		run = func() map[string]any {
			err := cl.AssignIP(ctx, ipam.AssignIPArgs{IP: cnet.MustParseIP(ip), HandleID: &h, Hostname: host,
				Attrs: map[string]string{"note": "verif"}})
			return map[string]any{"err": errClass(err)}
		}
	case "relh":
		h := tracelog.Str(op["h"])
		ev["h"] = h
		run = func() map[string]any { return map[string]any{"err": errClass(cl.ReleaseByHandle(ctx, h))} }
	case "relaff":
		host, cidr, empty := tracelog.Str(op["host"]), tracelog.Str(op["cidr"]), op["empty"] == true
		ev["host"], ev["cidr"], ev["empty"] = host, cidrJSON(cidr), empty
		run = func() map[string]any {
			return map[string]any{"err": errClass(cl.ReleaseAffinity(ctx, cnet.MustParseCIDR(cidr), host, empty))}
		}
	case "claim":
		host, cidr := tracelog.Str(op["host"]), tracelog.Str(op["cidr"])
		ev["host"], ev["cidr"] = host, cidrJSON(cidr)
		run = func() map[string]any {
			_, _, err := cl.ClaimAffinity(ctx, cnet.MustParseCIDR(cidr), ipam.AffinityConfig{AffinityType: ipam.AffinityTypeHost, Host: host})
			return map[string]any{"err": errClass(err)}
		}
	default:
		must(fmt.Errorf("unknown op %q", kind))
	}
	d.log.Emit("call", ev)
	d.sched.Go(c, func() {
		r := run()
		r["c"], r["op"] = c, kind
		d.log.Emit("ret", r)
	})
	d.wait()
}

func (d *drv) wait() map[string]*memkv.CallInfo {
	p, err := d.sched.WaitQuiescent()
	must(err)
	return p
}

// step lets client c make its next store call (with an optional fault); want = "<op>:<kind>" expected by
// the schedule ("" = no expectation).  A mismatch is drift, never a verdict.
func (d *drv) step(c string, f memkv.Fault, want string) bool {
	p := d.wait()
	ci, ok := p[c]
	if !ok {
		d.drift++
		return false
	}
	d.steps++
	if want != "" {
		k := ""
		if ci.Key != nil {
			k, _ = keyOf(ci.Key)
		} else {
			switch ci.List.(type) {
			case model.BlockListOptions:
				k = "block"
			case model.BlockAffinityListOptions:
				k = "aff"
			case model.IPAMHandleListOptions:
				k = "handle"
			}
		}
		if ci.Op+":"+k != want {
			d.drift++
		}
	}
	if f == memkv.FaultConflict && (ci.Op == "get" || ci.Op == "list" || ci.Op == "create") {
		f = memkv.FaultNone // conflicts are only injected on CAS writes
	}
	must(d.sched.Release(c, f))
	d.wait()
	return true
}

func (d *drv) runToEnd(c string) {
	for i := 0; i < 100000; i++ {
		if _, ok := d.wait()[c]; !ok {
			return
		}
		must(d.sched.Release(c, memkv.FaultNone))
	}
	must(fmt.Errorf("client %s does not terminate", c))
}

func (d *drv) crash(c string) {
	if _, ok := d.wait()[c]; !ok {
		d.drift++
		return
	}
	d.log.Emit("crash", map[string]any{"c": c})
	d.dead[c] = true
	must(d.sched.Release(c, memkv.FaultKill))
	d.wait()
}

func (d *drv) tick() {
	d.wait()
	must(d.store.AdvanceTime(time.Duration(d.sc.Tick) * time.Second))
	d.log.Emit("tick", map[string]any{"d": d.sc.Tick})
}

// capture remembers the sequence number of an allocated address, as a GC scan of the block would.
func (d *drv) capture(ip string) int {
	d.wait()
	for _, it := range d.store.Snapshot("/calico/ipam/v2/assignment/") {
		b, ok := it.Value.(*model.AllocationBlock)
		if !ok {
			continue
		}
		addr := cnet.MustParseIP(ip)
		if !b.CIDR.Contains(addr.IP) {
			continue
		}
		o, err := b.IPToOrdinal(addr)
		if err != nil || b.Allocations[o] == nil || b.Attributes[*b.Allocations[o]].ReleasedAt != nil {
			return 0
		}
		d.ncap++
		d.caps[d.ncap] = b.GetSequenceNumberForOrdinal(o)
		d.log.Emit("capture", map[string]any{"id": d.ncap, "ip": octets(addr.IP)})
		return d.ncap
	}
	return 0
}

// allocated returns the currently allocated addresses with their handles (harness observation for the
// seeded generators: which addresses are worth releasing).
func (d *drv) allocated() (ips []string, handles map[string]string) {
	handles = map[string]string{}
	for _, it := range d.store.Snapshot("/calico/ipam/v2/assignment/") {
		b, ok := it.Value.(*model.AllocationBlock)
		if !ok {
			continue
		}
		for o, ix := range b.Allocations {
			if ix != nil && b.Attributes[*ix].ReleasedAt == nil {
				ip := b.OrdinalToIP(o).String()
				ips = append(ips, ip)
				if h := b.Attributes[*ix].HandleID; h != nil {
					handles[ip] = *h
				}
			}
		}
	}
	sort.Strings(ips)
	return
}

func main() {
	logrus.SetOutput(io.Discard)
	logrus.SetLevel(logrus.PanicLevel)
	env := tracelog.GetEnv()
	lg, err := tracelog.Open(env.OutPath)
	must(err)
	d := &drv{log: lg}
	behs, err := tracelog.LoadBehaviours(env.BehPath)
	must(err)
	t := 0
	for _, b := range behs {
		t++
		d.replay(t, b)
	}
	mode := os.Getenv("VERIF_MODE")
	for i := 0; i < env.N; i++ {
		t++
		d.seeded(t, mode, env.Seed*1000003+int64(i))
	}
	must(lg.Close())
}
