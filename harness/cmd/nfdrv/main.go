// nfdrv: drivers for the "rendered program, executed, equals the reference semantics" checks
// (C08 single rule, C09 endpoint chains, C10 dispatch, C40 whole path, C41 offload rule).
// Each mode generates cases (seeded; C09 also replays TLC-enumerated layouts from VERIF_BEH), renders
// them with the real felix/rules renderer, converts the rendered rules to rule IR with nfparse (pure
// syntax) and writes one ndjson line per case.  All judging happens in TLA+.
package main

import (
	"fmt"
	"os"

	"verifharness/tracelog"
)

func main() {
	env := tracelog.GetEnv()
	mode := os.Getenv("VERIF_NF_MODE")
	log, err := tracelog.Open(env.OutPath)
	if err != nil {
		fmt.Fprintln(os.Stderr, err)
		os.Exit(2)
	}
	switch mode {
	case "c08":
		err = runC08(env, log)
	case "c09":
		err = runC09(env, log)
	case "c10":
		err = runC10(env, log)
	case "c40":
		err = runC40(env, log)
	default:
		err = fmt.Errorf("unknown VERIF_NF_MODE %q", mode)
	}
	if cerr := log.Close(); err == nil {
		err = cerr
	}
	if err != nil {
		fmt.Fprintln(os.Stderr, "nfdrv:", err)
		os.Exit(2)
	}
}
