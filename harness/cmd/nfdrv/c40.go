package main

import (
	"fmt"
	"math/rand"
	"os"

	"github.com/projectcalico/calico/felix/config"
	"github.com/projectcalico/calico/felix/generictables"
	"github.com/projectcalico/calico/felix/nftables"
	"github.com/projectcalico/calico/felix/proto"
	"github.com/projectcalico/calico/felix/rules"
	"github.com/projectcalico/calico/felix/types"

	"verifharness/nfparse"
	"verifharness/polgen"
	"verifharness/tracelog"
)

const wildcardHEP = "any-interface-at-all" // endpointManager's allInterfaces

// world is one generated host: config, workloads and host endpoints with their policies.
type world struct {
	cfg   rules.Config
	ipv   uint8
	sets  []*polgen.IPSet
	weps  []*epSpec
	heps  []*epSpec // named host endpoints and/or the wildcard one
	np    int
	rnd   *rand.Rand
	sg    *polgen.SetGen
	fixed map[string]*polgen.IPSet
}

type epSpec struct {
	Iface     string
	Normal    *layout // tiers + profiles (workload: its policy; host endpoint: normal policy)
	Forward   *layout // host endpoint apply-on-forward tiers
	Untracked *layout // host endpoint untracked (raw) tiers
	PreDNAT   *layout // host endpoint pre-DNAT (mangle) tiers
}

func (w *world) smallLayout(prefix string, maxTiers int, withProfiles bool, heavyDeny bool) *layout {
	l := &layout{Policies: map[string]*polSpec{}}
	nt := w.rnd.Intn(maxTiers + 1)
	for i := 0; i < nt; i++ {
		ts := tierSpec{Name: fmt.Sprintf("%s-t%d", prefix, i), Default: "Deny"}
		if chance(w.rnd, 30) {
			ts.Default = "Pass"
		}
		var names []string
		for j := 0; j <= w.rnd.Intn(2); j++ {
			w.np++
			p := &polSpec{Name: fmt.Sprintf("%s-p%d", prefix, w.np), Staged: chance(w.rnd, 15)}
			if heavyDeny && chance(w.rnd, 55) {
				// a policy that blocks everything: what failsafes must survive
				p.In = []*proto.Rule{{Action: "deny"}}
				p.Out = []*proto.Rule{{Action: "deny"}}
			} else if heavyDeny && chance(w.rnd, 50) {
				// a host policy that allows everything (sets the accept mark early, e.g. pre-DNAT): workload
				// policy must still be enforced afterwards
				p.In = []*proto.Rule{{Action: "allow"}}
				p.Out = []*proto.Rule{{Action: "allow"}}
			} else {
				p.In = randRules(w.rnd, w.ipv, w.sg, policyActions, 2)
				p.Out = randRules(w.rnd, w.ipv, w.sg, policyActions, 2)
			}
			l.Policies[p.Name] = p
			names = append(names, p.Name)
		}
		ts.InGroups = [][]string{names}
		ts.OutGroups = [][]string{names}
		l.Tiers = append(l.Tiers, ts)
	}
	if withProfiles {
		for i := 0; i < w.rnd.Intn(2); i++ {
			l.Profiles = append(l.Profiles, &polSpec{Name: fmt.Sprintf("%s-prof%d", prefix, i),
				In: randRules(w.rnd, w.ipv, w.sg, profileActions, 2), Out: randRules(w.rnd, w.ipv, w.sg, profileActions, 2)})
		}
	}
	return l
}

func (w *world) fixedSet(id string, members ...string) {
	s := &polgen.IPSet{ID: id, Type: "net", Members: []M{}, MemberStrings: []string{}}
	for _, m := range members {
		c, err := nfparse.CIDR(m)
		if err != nil {
			panic(err)
		}
		s.Members = append(s.Members, c)
		s.MemberStrings = append(s.MemberStrings, m)
	}
	w.fixed[id] = s
}

func kernelSetName(cfg *rules.Config, ipv uint8, nft bool, id string) string {
	var name string
	if ipv == 4 {
		name = cfg.IPSetConfigV4.NameForMainIPSet(id)
	} else {
		name = cfg.IPSetConfigV6.NameForMainIPSet(id)
	}
	if nft {
		name = nftables.LegalizeSetName(name)
	}
	return name
}

func newWorld(rnd *rand.Rand, ipv uint8) *world {
	w := &world{ipv: ipv, rnd: rnd, sg: polgen.NewSetGen(rnd, ipv), fixed: map[string]*polgen.IPSet{}}
	cfg := baseConfig()
	cfg.EndpointToHostAction = pick(rnd, []string{"DROP", "ACCEPT", "RETURN", "REJECT", "DROP"})
	cfg.FilterAllowAction = pick(rnd, []string{"ACCEPT", "RETURN"})
	cfg.MangleAllowAction = pick(rnd, []string{"ACCEPT", "RETURN"})
	if chance(rnd, 25) {
		cfg.FilterDenyAction = "REJECT"
	}
	cfg.FlowLogsEnabled = chance(rnd, 30)
	inPool := []config.ProtoPort{{Protocol: "tcp", Port: 22}, {Protocol: "udp", Port: 68}, {Protocol: "tcp", Port: 179},
		{Protocol: "tcp", Port: 6443, Net: v46(ipv, "10.0.0.0/8", "fd00::/8")}, {Protocol: "tcp", Port: 5473, Net: v46(ipv, "fd00::/8", "10.0.0.0/8")}}
	outPool := []config.ProtoPort{{Protocol: "udp", Port: 53}, {Protocol: "tcp", Port: 2379}, {Protocol: "udp", Port: 67},
		{Protocol: "tcp", Port: 443, Net: v46(ipv, "10.96.0.1/32", "fd00:96::1/128")}}
	for _, p := range inPool {
		if chance(rnd, 55) {
			cfg.FailsafeInboundHostPorts = append(cfg.FailsafeInboundHostPorts, p)
		}
	}
	for _, p := range outPool {
		if chance(rnd, 55) {
			cfg.FailsafeOutboundHostPorts = append(cfg.FailsafeOutboundHostPorts, p)
		}
	}
	// the same protocol/port listed several times under different CIDRs ("tcp:10.0.0.0/24:22,tcp:192.168.0.0/16:22"):
	// every network keeps its failsafe
	if chance(rnd, 70) {
		nets := []string{v46(ipv, "10.0.0.0/24", "fd00:a::/64"), v46(ipv, "192.168.0.0/16", "fd00:b::/48"), v46(ipv, "172.31.0.0/16", "fd00:c::/64")}
		rnd.Shuffle(len(nets), func(i, j int) { nets[i], nets[j] = nets[j], nets[i] })
		k := 2 + rnd.Intn(2)
		for _, n := range nets[:k] {
			cfg.FailsafeInboundHostPorts = append(cfg.FailsafeInboundHostPorts, config.ProtoPort{Protocol: "tcp", Port: 2222, Net: n})
		}
		if chance(rnd, 50) {
			// ... also next to an entry of the other family and an unrestricted one for another port
			cfg.FailsafeInboundHostPorts = append(cfg.FailsafeInboundHostPorts, config.ProtoPort{Protocol: "tcp", Port: 2222, Net: v46(ipv, "fd00:d::/64", "10.9.0.0/16")})
		}
	}
	if chance(rnd, 70) {
		nets := []string{v46(ipv, "10.96.0.10/32", "fd00:96::a/128"), v46(ipv, "172.20.0.0/14", "fd00:20::/32"), v46(ipv, "192.0.2.0/24", "2001:db8:1::/48")}
		rnd.Shuffle(len(nets), func(i, j int) { nets[i], nets[j] = nets[j], nets[i] })
		k := 2 + rnd.Intn(2)
		for _, n := range nets[:k] {
			cfg.FailsafeOutboundHostPorts = append(cfg.FailsafeOutboundHostPorts, config.ProtoPort{Protocol: "udp", Port: 5353, Net: n})
		}
	}
	if ipv == 4 {
		cfg.IPIPEnabled = chance(rnd, 50)
		cfg.VXLANEnabled = chance(rnd, 50)
	} else {
		cfg.VXLANEnabledV6 = chance(rnd, 60)
	}
	w.cfg = cfg
	// sets the static chains refer to
	w.fixedSet(rules.IPSetIDAllHostNets, v46(ipv, "10.0.0.1", "fd00::1"), v46(ipv, "10.0.0.2", "fd00::2"), v46(ipv, "172.16.0.0/24", "fd00:16::/64"))
	w.fixedSet(rules.IPSetIDAllVXLANSourceNets, v46(ipv, "10.0.0.2", "fd00::2"), v46(ipv, "10.0.0.3", "fd00::3"))
	w.fixedSet(rules.IPSetIDThisHostIPs, v46(ipv, "10.0.0.9", "fd00::9"))
	w.fixedSet(rules.IPSetIDDSCPEndpoints)
	w.fixedSet(rules.IPSetIDNetworkPools, v46(ipv, "10.1.0.0/16", "fd00:1::/32"))
	w.fixedSet(rules.IPSetIDNoFlowOffload, v46(ipv, "10.1.2.3", "fd00:1::1"), v46(ipv, "10.1.2.4", "fd00:1::2"))
	// workloads
	for i := 0; i <= rnd.Intn(3); i++ {
		name := "cali" + pick(rnd, []string{"a", "b1", "0123456789a", "b", "a1"}) + fmt.Sprint(i)
		w.weps = append(w.weps, &epSpec{Iface: name, Normal: w.smallLayout("w"+fmt.Sprint(i), 2, true, false)})
	}
	// host endpoints
	mk := func(iface string, tag string, untracked bool) *epSpec {
		e := &epSpec{Iface: iface}
		e.Normal = w.smallLayout(tag+"n", 2, true, true)
		e.Forward = w.smallLayout(tag+"f", 1, false, true)
		e.PreDNAT = w.smallLayout(tag+"d", 1, false, true)
		if untracked {
			e.Untracked = w.smallLayout(tag+"u", 1, false, true)
			for _, p := range e.Untracked.Policies {
				_ = p
			}
		} else {
			e.Untracked = &layout{Policies: map[string]*polSpec{}}
		}
		return e
	}
	switch rnd.Intn(5) {
	case 0:
	case 1, 2:
		w.heps = append(w.heps, mk("eth0", "h0", true))
	case 3:
		w.heps = append(w.heps, mk(wildcardHEP, "hw", false))
	case 4:
		w.heps = append(w.heps, mk("eth0", "h0", true), mk(wildcardHEP, "hw", false))
	}
	return w
}

// layouts of an endpoint with the flag "rendered as untracked policy"
func (e *epSpec) layouts() []struct {
	l         *layout
	untracked bool
	preDNAT   bool
} {
	out := []struct {
		l         *layout
		untracked bool
		preDNAT   bool
	}{{e.Normal, false, false}}
	if e.Forward != nil {
		out = append(out, struct {
			l         *layout
			untracked bool
			preDNAT   bool
		}{e.Forward, false, false})
	}
	if e.Untracked != nil {
		out = append(out, struct {
			l         *layout
			untracked bool
			preDNAT   bool
		}{e.Untracked, true, false})
	}
	if e.PreDNAT != nil {
		out = append(out, struct {
			l         *layout
			untracked bool
			preDNAT   bool
		}{e.PreDNAT, false, true})
	}
	return out
}

// render programs all three tables the way setUpIptablesNormal + endpointManager + policyManager do and
// returns table name -> {"prog": IR, "base": hook -> base chain name}.
func (w *world) render(nft bool) (M, []M, error) {
	cfg := w.cfg
	cfg.NFTablesFlowTableOffload = nft && (w.rnd.Intn(2) == 0 || os.Getenv("VERIF_NF_OFFLOAD") == "1")
	rr := rules.NewRenderer(cfg, nft)
	jump := func(t string) []generictables.Rule {
		var a generictables.Action
		if nft {
			a = nftables.Actions().Jump(t)
		} else {
			a = iptActions.Jump(t)
		}
		var m generictables.MatchCriteria
		if nft {
			m = nftables.Match()
		} else {
			m = iptMatch()
		}
		return []generictables.Rule{{Match: m, Action: a}}
	}
	raw, rawRec := tableFor(nft, "raw", w.ipv)
	mangle, mangleRec := tableFor(nft, "mangle", w.ipv)
	filter, filterRec := tableFor(nft, "filter", w.ipv)

	// ---- InternalDataplane.setUpIptablesNormal
	raw.UpdateChains(rr.StaticRawTableChains(w.ipv))
	raw.InsertOrAppendRules("PREROUTING", jump(rules.ChainRawPrerouting))
	raw.InsertOrAppendRules("OUTPUT", jump(rules.ChainRawOutput))
	filter.UpdateChains(rr.StaticFilterTableChains(w.ipv))
	filter.InsertOrAppendRules("FORWARD", jump(rules.ChainFilterForward))
	filter.InsertOrAppendRules("INPUT", jump(rules.ChainFilterInput))
	filter.InsertOrAppendRules("OUTPUT", jump(rules.ChainFilterOutput))
	filter.AppendRules("FORWARD", rr.StaticFilterForwardAppendRules())
	mangle.UpdateChains(rr.StaticMangleTableChains(w.ipv))
	mangle.InsertOrAppendRules("PREROUTING", jump(rules.ChainManglePrerouting))
	mangle.InsertOrAppendRules("POSTROUTING", jump(rules.ChainManglePostrouting))

	// ---- chains other managers own that the static chains jump to (empty here)
	raw.UpdateChain(&generictables.Chain{Name: rules.ChainRpfSkip})
	filter.UpdateChains(rr.BlockedCIDRsToIptablesChains(nil, w.ipv))
	mangle.UpdateChain(rr.EgressDSCPChain(nil))

	// ---- policyManager: policy and profile chains; endpointManager: group chains
	renderLayout := func(l *layout, untracked, preDNAT bool, tables ...generictables.Table) {
		for _, n := range sortedKeys(l.Policies) {
			p := l.Policies[n]
			tier := ""
			for _, ts := range l.Tiers {
				for _, g := range ts.InGroups {
					for _, x := range g {
						if x == n {
							tier = ts.Name
						}
					}
				}
			}
			cs := rr.PolicyToIptablesChains(p.id(), &proto.Policy{InboundRules: p.In, OutboundRules: p.Out, Tier: tier,
				Untracked: untracked, PreDnat: preDNAT}, w.ipv)
			for _, t := range tables {
				t.UpdateChains(cs)
			}
		}
		for _, tier := range l.tierGroups() {
			for _, g := range append(append([]*rules.PolicyGroup{}, tier.IngressPolicies...), tier.EgressPolicies...) {
				if !g.ShouldBeInlined() {
					for _, t := range tables {
						t.UpdateChains(rr.PolicyGroupToIptablesChains(g))
					}
				}
			}
		}
		for _, p := range l.Profiles {
			in, out := rr.ProfileToIptablesChains(&types.ProfileID{Name: p.Name}, &proto.Profile{InboundRules: p.In, OutboundRules: p.Out}, w.ipv)
			for _, t := range tables {
				t.UpdateChains([]*generictables.Chain{in, out})
			}
		}
	}
	profIDs := func(l *layout) []string {
		var out []string
		for _, p := range l.Profiles {
			out = append(out, p.Name)
		}
		return out
	}

	// ---- endpointManager: workloads
	wlInfo := []M{}
	eps := map[types.WorkloadEndpointID]*proto.WorkloadEndpoint{}
	for i, e := range w.weps {
		renderLayout(e.Normal, false, false, filter)
		cs := rr.WorkloadEndpointToIptablesChains(e.Iface, nil, true, e.Normal.tierGroups(), profIDs(e.Normal), nil)
		before := len(filterRec.chains)
		filter.UpdateChains(cs)
		eps[types.WorkloadEndpointID{OrchestratorId: "k8s", WorkloadId: fmt.Sprintf("w%d", i), EndpointId: "eth0"}] = &proto.WorkloadEndpoint{Name: e.Iface}
		wlInfo = append(wlInfo, M{"name": nfparse.Codes(e.Iface), "to": filterRec.chains[before].Name, "from": filterRec.chains[before+1].Name,
			"egressTiers": e.Normal.semTiers(false), "egressProfiles": e.Normal.semProfiles(false),
			"ingressTiers": e.Normal.semTiers(true), "ingressProfiles": e.Normal.semProfiles(true)})
	}
	filter.UpdateChains(rr.WorkloadDispatchChains(eps))
	if nft {
		from, to := rr.DispatchMappings(eps)
		md := filter.(nftables.MapsDataplane)
		md.AddOrReplaceMap(nftables.MapMetadata{Name: rules.NftablesFromWorkloadDispatchMap, Type: nftables.MapTypeInterfaceMatch}, from)
		md.AddOrReplaceMap(nftables.MapMetadata{Name: rules.NftablesToWorkloadDispatchMap, Type: nftables.MapTypeInterfaceMatch}, to)
	}

	// ---- endpointManager: host endpoints
	normalMap := map[string]types.HostEndpointID{}
	preDNATMap := map[string]types.HostEndpointID{}
	untrackedMap := map[string]types.HostEndpointID{}
	for _, e := range w.heps {
		id := types.HostEndpointID{EndpointId: "hep-" + e.Iface}
		renderLayout(e.Normal, false, false, filter, mangle)
		renderLayout(e.Forward, false, false, filter)
		filter.UpdateChains(rr.HostEndpointToFilterChains(e.Iface, e.Normal.tierGroups(), e.Forward.tierGroups(), nil, profIDs(e.Normal)))
		mangle.UpdateChains(rr.HostEndpointToMangleEgressChains(e.Iface, e.Normal.tierGroups(), profIDs(e.Normal)))
		normalMap[e.Iface] = id
		if len(e.PreDNAT.Tiers) > 0 {
			renderLayout(e.PreDNAT, false, true, mangle)
			mangle.UpdateChains(rr.HostEndpointToMangleIngressChains(e.Iface, e.PreDNAT.tierGroups()))
			preDNATMap[e.Iface] = id
		}
		if len(e.Untracked.Tiers) > 0 && e.Iface != wildcardHEP {
			renderLayout(e.Untracked, true, false, raw)
			raw.UpdateChains(rr.HostEndpointToRawChains(e.Iface, e.Untracked.tierGroups()))
			untrackedMap[e.Iface] = id
		}
	}
	split := func(m map[string]types.HostEndpointID) (map[string]types.HostEndpointID, string) {
		def := ""
		out := map[string]types.HostEndpointID{}
		for k, v := range m {
			if k == wildcardHEP {
				def = wildcardHEP
			} else {
				out[k] = v
			}
		}
		return out, def
	}
	raw.UpdateChains(rr.HostDispatchChains(untrackedMap, "", false))
	nm, def := split(normalMap)
	filter.UpdateChains(rr.HostDispatchChains(nm, def, true))
	mangleEgress := rr.ToHostDispatchChains(nm, def)
	pm, pdef := split(preDNATMap)
	mangle.UpdateChains(append(mangleEgress, rr.FromHostDispatchChains(pm, pdef)...))

	tables := M{}
	for name, rec := range map[string]*recTable{"raw": rawRec, "mangle": mangleRec, "filter": filterRec} {
		prog, err := progOf(nft, rec)
		if err != nil {
			return nil, nil, fmt.Errorf("%s table: %v", name, err)
		}
		base := M{}
		for h := range rec.hooks {
			hook := h
			if nft {
				hook = h[len(name)+1:]
			}
			base[hook] = h
		}
		tables[name] = M{"prog": prog, "base": base}
	}
	return tables, wlInfo, nil
}

func protoPorts(pp []config.ProtoPort, ipv uint8) []M {
	out := []M{}
	for _, p := range pp {
		n, err := nfparse.ProtoNum(p.Protocol)
		if err != nil {
			panic(err)
		}
		nets := []M{}
		if p.Net != "" {
			c, err := nfparse.CIDR(p.Net)
			if err != nil {
				panic(err)
			}
			nets = append(nets, c)
		}
		out = append(out, M{"p": n, "port": int(p.Port), "net": nets})
	}
	return out
}

func runC40(env tracelog.Env, log *tracelog.Log) error {
	rnd := rand.New(rand.NewSource(env.Seed*32452843 + 40))
	t := 0
	for i := 0; i < env.N; i++ {
		ipv := uint8(4)
		if i%3 == 2 {
			ipv = 6
		}
		w := newWorld(rnd, ipv)
		flavours := []bool{false, true}
		if os.Getenv("VERIF_NF_OFFLOAD") == "1" {
			flavours = []bool{true} // C41 rule half: only nftables renders the offload rule
		}
		for _, nft := range flavours {
			tables, wlInfo, err := w.render(nft)
			if err != nil {
				return fmt.Errorf("world %d: %v", i, err)
			}
			all := append([]*polgen.IPSet{}, w.sg.Sets()...)
			for _, id := range sortedKeys(w.fixed) {
				all = append(all, w.fixed[id])
			}
			byID, byName := setsJSON(all, &w.cfg, ipv, nft)
			deny := "drop"
			if w.cfg.FilterDenyAction == "REJECT" {
				deny = "reject"
			}
			hepNames := [][]int{}
			wildcard := false
			for _, e := range w.heps {
				if e.Iface == wildcardHEP {
					wildcard = true
				} else {
					hepNames = append(hepNames, nfparse.Codes(e.Iface))
				}
			}
			offload := false
			for _, tn := range []string{"raw", "mangle", "filter"} {
				f := tables[tn].(M)
				for _, rs := range f["prog"].(*nfparse.Program).Chains {
					for _, r := range rs {
						if r.A["k"] == "offload" {
							offload = true
						}
					}
				}
			}
			log.Reset(t, M{
				"kind": "c40", "flavour": flavourName(nft), "ipv": int(ipv), "tables": tables, "ipsets": byID, "ksets": byName,
				"marks": marksJSON(), "deny": deny, "workloads": wlInfo, "hepIfaces": hepNames, "wildcard": wildcard,
				"prefixes": prefixCodes(w.cfg.WorkloadIfacePrefixes),
				"cfg": M{"failsafeIn": protoPorts(w.cfg.FailsafeInboundHostPorts, ipv), "failsafeOut": protoPorts(w.cfg.FailsafeOutboundHostPorts, ipv),
					"epToHost": w.cfg.EndpointToHostAction, "ipip": w.cfg.IPIPEnabled && ipv == 4,
					"vxlan": (w.cfg.VXLANEnabled && ipv == 4) || (w.cfg.VXLANEnabledV6 && ipv == 6), "vxlanPort": w.cfg.VXLANPort,
					"filterAllow": w.cfg.FilterAllowAction, "mangleAllow": w.cfg.MangleAllowAction, "offload": offload},
				"setNames": M{"hosts": kernelSetName(&w.cfg, ipv, nft, rules.IPSetIDAllHostNets),
					"vxlan":     kernelSetName(&w.cfg, ipv, nft, rules.IPSetIDAllVXLANSourceNets),
					"noOffload": kernelSetName(&w.cfg, ipv, nft, rules.IPSetIDNoFlowOffload)},
			})
			t++
		}
	}
	return nil
}
