package main

import (
	"fmt"

	"verifharness/tracelog"
)

func runC10(env tracelog.Env, log *tracelog.Log) error { return fmt.Errorf("not implemented") }
func runC40(env tracelog.Env, log *tracelog.Log) error { return fmt.Errorf("not implemented") }
