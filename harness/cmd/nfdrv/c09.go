package main

import (
	"fmt"
	"math/rand"

	googleproto "google.golang.org/protobuf/proto"

	"github.com/projectcalico/calico/felix/generictables"
	"github.com/projectcalico/calico/felix/proto"
	"github.com/projectcalico/calico/felix/rules"
	"github.com/projectcalico/calico/felix/types"

	"verifharness/nfparse"
	"verifharness/polgen"
	"verifharness/tracelog"
)

// ---- endpoint layouts ---------------------------------------------------------------------------

type polSpec struct {
	Name   string
	Staged bool
	In     []*proto.Rule
	Out    []*proto.Rule
}

type tierSpec struct {
	Name    string
	Default string // "Deny" | "Pass"
	// groups of policy names per direction; a group with more than one enforced policy gets its own chain
	InGroups  [][]string
	OutGroups [][]string
}

type layout struct {
	Tiers    []tierSpec
	Policies map[string]*polSpec
	Profiles []*polSpec // In/Out rules; Name = profile id
	Kind     string     // "wep" | "hep"
}

func cloneRules(in []*proto.Rule) []*proto.Rule {
	var out []*proto.Rule
	for _, r := range in {
		out = append(out, googleproto.Clone(r).(*proto.Rule))
	}
	return out
}

// clone: a deep copy taken before anything is rendered; the reference is exported from it, while the renderer
// gets the original objects (rendering must not depend on, or change, what an earlier render did to them).
func (l *layout) clone() *layout {
	c := &layout{Tiers: l.Tiers, Policies: map[string]*polSpec{}, Kind: l.Kind}
	for n, p := range l.Policies {
		c.Policies[n] = &polSpec{Name: p.Name, Staged: p.Staged, In: cloneRules(p.In), Out: cloneRules(p.Out)}
	}
	for _, p := range l.Profiles {
		c.Profiles = append(c.Profiles, &polSpec{Name: p.Name, In: cloneRules(p.In), Out: cloneRules(p.Out)})
	}
	return c
}

func (p *polSpec) id() *types.PolicyID {
	kind := "GlobalNetworkPolicy"
	if p.Staged {
		kind = "StagedGlobalNetworkPolicy"
	}
	return &types.PolicyID{Name: p.Name, Kind: kind}
}

func (l *layout) groups(names [][]string, dir rules.PolicyDirection) []*rules.PolicyGroup {
	var out []*rules.PolicyGroup
	for gi, g := range names {
		pg := &rules.PolicyGroup{Direction: dir, Selector: fmt.Sprintf("sel-%d-%d", len(out), gi)}
		for _, n := range g {
			pg.Policies = append(pg.Policies, l.Policies[n].id())
		}
		out = append(out, pg)
	}
	return out
}

func (l *layout) tierGroups() []rules.TierPolicyGroups {
	var out []rules.TierPolicyGroups
	for _, t := range l.Tiers {
		out = append(out, rules.TierPolicyGroups{
			Name: t.Name, DefaultAction: t.Default,
			IngressPolicies: l.groups(t.InGroups, rules.PolicyDirectionInbound),
			EgressPolicies:  l.groups(t.OutGroups, rules.PolicyDirectionOutbound),
		})
	}
	return out
}

// semTiers is the PolicySem view of one direction: tiers with their policies (groups flattened, in order).
func (l *layout) semTiers(ingress bool) []M {
	out := []M{}
	for _, t := range l.Tiers {
		gs := t.OutGroups
		if ingress {
			gs = t.InGroups
		}
		pols := []M{}
		for _, g := range gs {
			for _, n := range g {
				p := l.Policies[n]
				rs := p.Out
				if ingress {
					rs = p.In
				}
				pols = append(pols, M{"name": p.Name, "staged": p.Staged, "rules": semRules(rs)})
			}
		}
		out = append(out, M{"name": t.Name, "defaultAction": t.Default, "policies": pols})
	}
	return out
}

func (l *layout) semProfiles(ingress bool) [][]M {
	out := [][]M{}
	for _, p := range l.Profiles {
		if ingress {
			out = append(out, semRules(p.In))
		} else {
			out = append(out, semRules(p.Out))
		}
	}
	return out
}

// renderEndpoint renders everything an endpoint's chains can reach and emits one case per endpoint chain.
func renderEndpoint(log *tracelog.Log, t *int, l *layout, cfg rules.Config, nft bool, ipv uint8, sets []*polgen.IPSet, origin string, dirFilter int, ref *layout) error {
	if ref == nil {
		ref = l.clone()
	}
	rr := rules.NewRenderer(cfg, nft)
	prog := nfparse.NewProgram(flavourName(nft))
	add := func(cs ...*generictables.Chain) error {
		for _, c := range cs {
			if c == nil {
				continue
			}
			if err := renderChain(prog, c, ipv); err != nil {
				return err
			}
		}
		return nil
	}
	for _, n := range sortedKeys(l.Policies) {
		p := l.Policies[n]
		tier := ""
		for _, ts := range l.Tiers {
			for _, g := range append(append([][]string{}, ts.InGroups...), ts.OutGroups...) {
				for _, x := range g {
					if x == n {
						tier = ts.Name
					}
				}
			}
		}
		if err := add(rr.PolicyToIptablesChains(p.id(), &proto.Policy{InboundRules: p.In, OutboundRules: p.Out, Tier: tier}, ipv)...); err != nil {
			return err
		}
	}
	tg := l.tierGroups()
	seenGroup := map[string]bool{}
	for _, tier := range tg {
		for _, g := range append(append([]*rules.PolicyGroup{}, tier.IngressPolicies...), tier.EgressPolicies...) {
			if g.ShouldBeInlined() || seenGroup[g.ChainName()] {
				continue
			}
			seenGroup[g.ChainName()] = true
			if err := add(rr.PolicyGroupToIptablesChains(g)...); err != nil {
				return err
			}
		}
	}
	var profIDs []string
	for _, p := range l.Profiles {
		profIDs = append(profIDs, p.Name)
		in, out := rr.ProfileToIptablesChains(&types.ProfileID{Name: p.Name}, &proto.Profile{InboundRules: p.In, OutboundRules: p.Out}, ipv)
		if err := add(in, out); err != nil {
			return err
		}
	}
	type entry struct {
		chain   string
		ingress bool
		ctype   string
	}
	var entries []entry
	if l.Kind == "wep" {
		cs := rr.WorkloadEndpointToIptablesChains("cali1234", nil, true, tg, profIDs, nil)
		if err := add(cs...); err != nil {
			return err
		}
		entries = []entry{{cs[0].Name, true, "normal"}, {cs[1].Name, false, "normal"}}
	} else {
		cs := rr.HostEndpointToFilterChains("eth0", tg, tg, nil, profIDs)
		if err := add(cs...); err != nil {
			return err
		}
		// the failsafe chains the host endpoint chains jump to (no failsafe ports configured here)
		for _, c := range rr.StaticFilterTableChains(ipv) {
			if c.Name == rules.ChainFailsafeIn || c.Name == rules.ChainFailsafeOut {
				if err := add(c); err != nil {
					return err
				}
			}
		}
		entries = []entry{{cs[0].Name, false, "normal"}, {cs[1].Name, true, "normal"}, {cs[2].Name, false, "forward"}, {cs[3].Name, true, "forward"}}
	}
	byID, byName := setsJSON(sets, &cfg, ipv, nft)
	deny := "drop"
	if cfg.FilterDenyAction == "REJECT" {
		deny = "reject"
	}
	for _, e := range entries {
		if (dirFilter == 1 && !e.ingress) || (dirFilter == 2 && e.ingress) {
			continue
		}
		log.Reset(*t, M{
			"kind": "c09", "origin": origin, "flavour": prog.Flavour, "ipv": int(ipv), "ep": l.Kind, "entry": e.chain,
			"ingress": e.ingress, "ctype": e.ctype, "tiers": ref.semTiers(e.ingress), "profiles": ref.semProfiles(e.ingress),
			"ipsets": byID, "ksets": byName, "prog": prog, "marks": marksJSON(), "deny": deny,
			"flowlogs": cfg.FlowLogsEnabled, "nchains": len(prog.Chains),
		})
		*t++
	}
	return nil
}

// ---- rule alphabet ----------------------------------------------------------------------------------

func v46(ipv uint8, v4, v6 string) string {
	if ipv == 4 {
		return v4
	}
	return v6
}

// letterRule: the three-letter alphabet of the TLC-enumerated layouts (overlapping matches).
func letterRule(letter string, ipv uint8) *proto.Rule {
	switch letter {
	case "A":
		return &proto.Rule{Action: "allow", Protocol: protoByName("tcp"), DstPorts: []*proto.PortRange{{First: 80, Last: 80}}}
	case "D":
		return &proto.Rule{Action: "deny", SrcNet: []string{v46(ipv, "10.0.0.0/8", "fd00::/8")}}
	case "P":
		return &proto.Rule{Action: "pass", Protocol: protoByName("udp")}
	case "L":
		return &proto.Rule{Action: "log"}
	}
	panic("unknown rule letter " + letter)
}

// simpleRule: a slightly larger alphabet for the seeded layouts; actions are drawn separately.
func simpleRule(rnd *rand.Rand, ipv uint8, sg *polgen.SetGen, actions []string) *proto.Rule {
	r := &proto.Rule{Action: pick(rnd, actions)}
	switch rnd.Intn(12) {
	case 0:
		r.Protocol = protoByName("tcp")
		r.DstPorts = []*proto.PortRange{{First: 80, Last: 80}}
	case 1:
		r.Protocol = protoByName("tcp")
		r.DstPorts = []*proto.PortRange{{First: 8000, Last: 8080}, {First: 443, Last: 443}}
	case 2:
		r.Protocol = protoByName("udp")
	case 3:
		r.SrcNet = []string{v46(ipv, "10.0.0.0/8", "fd00::/8")}
	case 4:
		r.NotSrcNet = []string{v46(ipv, "10.1.0.0/16", "fd00:1::/32")}
		r.DstNet = []string{v46(ipv, "10.1.2.0/24", "fd00:1:2::/48")}
	case 5:
		r.SrcIpSetIds = []string{sg.NetSet()}
	case 6:
		r.NotDstIpSetIds = []string{sg.NetSet()}
		r.Protocol = protoByName("tcp")
	case 7:
		r.DstNamedPortIpSetIds = []string{sg.PortSet([]int{6, 17})}
	case 8:
		if ipv == 4 {
			r.Protocol = protoByName("icmp")
		} else {
			r.Protocol = protoByName("icmpv6")
		}
		r.IpVersion = proto.IPVersion(ipv)
		if chance(rnd, 50) {
			r.Icmp = &proto.Rule_IcmpType{IcmpType: 8}
		}
	case 9:
		r.NotProtocol = protoByName("tcp")
	case 10:
		// match everything
	case 11:
		for {
			// fully random rule, minus the shapes of the two known C08 findings
			rr := polgen.StripICMPCode(randRule(rnd, ipv, sg))
			if polgen.PositiveBlocks(rr, ipv) <= 2 {
				return rr
			}
		}
	}
	return r
}

var policyActions = []string{"allow", "allow", "deny", "deny", "pass", "next-tier", "log"}
var profileActions = []string{"allow", "allow", "deny", "log"}

func randRules(rnd *rand.Rand, ipv uint8, sg *polgen.SetGen, actions []string, max int) []*proto.Rule {
	n := rnd.Intn(max + 1)
	var out []*proto.Rule
	for i := 0; i < n; i++ {
		out = append(out, simpleRule(rnd, ipv, sg, actions))
	}
	return out
}

// strideLayout: one tier whose single group holds 6-12 enforced one-rule policies over the overlapping
// letter alphabet, so that a verdict of an early policy meets a contradicting rule in a policy behind a
// return-stride boundary of the group chain.
func strideLayout(rnd *rand.Rand, ipv uint8) *layout {
	l := &layout{Policies: map[string]*polSpec{}, Kind: "wep"}
	var names []string
	n := 6 + rnd.Intn(7)
	early := rnd.Intn(5)
	for i := 0; i < n; i++ {
		p := &polSpec{Name: fmt.Sprintf("s%d", i)}
		// ingress: an early pass/allow, and a contradicting deny right behind every stride boundary
		letter := pick(rnd, []string{"A", "P", "L"})
		if i == early {
			letter = pick(rnd, []string{"A", "P"})
		}
		if i > 0 && i%5 == 0 {
			letter = "D"
		}
		p.In = []*proto.Rule{letterRule(letter, ipv)}
		// egress: free mix
		p.Staged = chance(rnd, 10) && i != early && i%5 != 0
		p.Out = []*proto.Rule{letterRule(pick(rnd, []string{"A", "D", "P", "L"}), ipv)}
		l.Policies[p.Name] = p
		names = append(names, p.Name)
	}
	ts := tierSpec{Name: "tier0", Default: pick(rnd, []string{"Deny", "Pass"}), InGroups: [][]string{names}, OutGroups: [][]string{names}}
	l.Tiers = []tierSpec{ts}
	if chance(rnd, 50) {
		l.Tiers = append(l.Tiers, tierSpec{Name: "tier1", Default: "Deny"})
		p := &polSpec{Name: "last", In: []*proto.Rule{{Action: "allow"}}, Out: []*proto.Rule{{Action: "allow"}}}
		l.Policies[p.Name] = p
		l.Tiers[1].InGroups = [][]string{{"last"}}
		l.Tiers[1].OutGroups = [][]string{{"last"}}
	}
	return l
}

func randLayout(rnd *rand.Rand, ipv uint8, sg *polgen.SetGen, stride bool) *layout {
	if stride {
		return strideLayout(rnd, ipv)
	}
	l := &layout{Policies: map[string]*polSpec{}, Kind: "wep"}
	if chance(rnd, 30) {
		l.Kind = "hep"
	}
	nt := rnd.Intn(4)
	np := 0
	newPol := func(stagedPct int) string {
		np++
		p := &polSpec{Name: fmt.Sprintf("p%d", np), Staged: chance(rnd, stagedPct)}
		p.In = randRules(rnd, ipv, sg, policyActions, 3)
		p.Out = randRules(rnd, ipv, sg, policyActions, 3)
		l.Policies[p.Name] = p
		return p.Name
	}
	mkGroups := func() [][]string {
		var gs [][]string
		ng := rnd.Intn(3)
		if chance(rnd, 10) {
			ng = 0
		}
		for g := 0; g < ng; g++ {
			size := 1
			switch rnd.Intn(8) {
			case 0, 1:
				size = 2 + rnd.Intn(2)
			case 2:
				size = 5 + rnd.Intn(7) // crosses the return stride (5) once or twice
			}
			stagedPct := 25
			if chance(rnd, 10) {
				stagedPct = 100 // an all-staged group / tier
			}
			var names []string
			for i := 0; i < size; i++ {
				names = append(names, newPol(stagedPct))
			}
			gs = append(gs, names)
		}
		return gs
	}
	for i := 0; i < nt; i++ {
		ts := tierSpec{Name: fmt.Sprintf("tier%d", i), Default: "Deny"}
		if chance(rnd, 35) {
			ts.Default = "Pass"
		}
		ts.InGroups = mkGroups()
		if chance(rnd, 50) {
			ts.OutGroups = ts.InGroups // policies that apply in both directions
		} else {
			ts.OutGroups = mkGroups()
		}
		l.Tiers = append(l.Tiers, ts)
	}
	for i := 0; i < rnd.Intn(3); i++ {
		l.Profiles = append(l.Profiles, &polSpec{Name: fmt.Sprintf("prof%d", i),
			In: randRules(rnd, ipv, sg, profileActions, 3), Out: randRules(rnd, ipv, sg, profileActions, 3)})
	}
	return l
}

// layoutFromBeh builds a layout from a TLC-enumerated record:
// {"tiers":[{"def":"Deny","grouped":b,"pols":[{"staged":b,"rules":["A","D"]}]}], "prof":["A"]}
func layoutFromBeh(b map[string]any, ipv uint8) *layout {
	l := &layout{Policies: map[string]*polSpec{}, Kind: "wep"}
	np := 0
	tiers, _ := b["tiers"].([]any)
	for ti, tv := range tiers {
		tm := tv.(map[string]any)
		ts := tierSpec{Name: fmt.Sprintf("tier%d", ti), Default: tracelog.Str(tm["def"])}
		var names []string
		pols, _ := tm["pols"].([]any)
		for _, pv := range pols {
			pm := pv.(map[string]any)
			np++
			p := &polSpec{Name: fmt.Sprintf("p%d", np), Staged: pm["staged"] == true}
			rs, _ := pm["rules"].([]any)
			for _, rv := range rs {
				p.In = append(p.In, letterRule(tracelog.Str(rv), ipv))
				p.Out = append(p.Out, letterRule(tracelog.Str(rv), ipv))
			}
			l.Policies[p.Name] = p
			names = append(names, p.Name)
		}
		if tm["grouped"] == true {
			ts.InGroups = [][]string{names}
		} else {
			for _, n := range names {
				ts.InGroups = append(ts.InGroups, []string{n})
			}
		}
		ts.OutGroups = ts.InGroups
		l.Tiers = append(l.Tiers, ts)
	}
	prof, _ := b["prof"].([]any)
	if len(prof) > 0 {
		p := &polSpec{Name: "prof0"}
		for _, rv := range prof {
			p.In = append(p.In, letterRule(tracelog.Str(rv), ipv))
			p.Out = append(p.Out, letterRule(tracelog.Str(rv), ipv))
		}
		l.Profiles = append(l.Profiles, p)
	}
	return l
}

// mixNets gives up to three rules of the layout a source (or destination) CIDR list that mixes both families.
func mixNets(rnd *rand.Rand, l *layout) {
	n := 0
	for _, name := range sortedKeys(l.Policies) {
		p := l.Policies[name]
		for _, rs := range [][]*proto.Rule{p.In, p.Out} {
			for _, r := range rs {
				if n >= 3 || r.IpVersion != 0 || r.Icmp != nil || r.NotIcmp != nil || len(r.SrcNet)+len(r.DstNet) > 0 || !chance(rnd, 50) {
					continue
				}
				lst := []string{"fd00:1::/32", "10.1.0.0/16"}
				if chance(rnd, 40) {
					lst = []string{"10.1.0.0/16", "fd00:1::/32"}
				}
				if chance(rnd, 50) {
					r.SrcNet = lst
				} else {
					r.DstNet = lst
				}
				n++
			}
		}
	}
}

func runC09(env tracelog.Env, log *tracelog.Log) error {
	t := 0
	behs, err := tracelog.LoadBehaviours(env.BehPath)
	if err != nil {
		return err
	}
	// TLC-enumerated small layouts: behaviour i = one layout record; flavour / IP version / flow logs
	// alternate so that every combination is met many times
	for i, beh := range behs {
		if len(beh) != 1 {
			return fmt.Errorf("layout behaviour %d: expected one record", i)
		}
		ipv := uint8(4)
		if i%4 == 3 {
			ipv = 6
		}
		cfg := baseConfig()
		cfg.FlowLogsEnabled = i%2 == 1
		l := layoutFromBeh(beh[0], ipv)
		if err := renderEndpoint(log, &t, l, cfg, (i/2)%2 == 1, ipv, nil, "tlc", 1+(i/8)%2, nil); err != nil {
			return fmt.Errorf("layout %d: %v", i, err)
		}
	}
	rnd := rand.New(rand.NewSource(env.Seed*104729 + 9))
	for i := 0; i < env.N; i++ {
		ipv := uint8(4)
		if i%3 == 2 {
			ipv = 6
		}
		sg := polgen.NewSetGen(rnd, ipv)
		l := randLayout(rnd, ipv, sg, i%5 == 4)
		cfg := baseConfig()
		cfg.FlowLogsEnabled = chance(rnd, 50)
		if chance(rnd, 25) {
			cfg.FilterDenyAction = "REJECT"
		}
		if chance(rnd, 30) {
			cfg.FilterAllowAction = "RETURN"
		}
		// every 4th layout: some rules get CIDR lists mixing both families, and the SAME policy objects are rendered
		// for the IPv4 table and then for the IPv6 table (the order of Felix's policy managers)
		passes := []uint8{ipv}
		if i%4 == 1 {
			mixNets(rnd, l)
			passes = []uint8{4, 6}
		}
		ref := l.clone()
		for _, v := range passes {
			fam := setsForFamily(sg.Sets(), v)
			for _, nft := range []bool{false, true} {
				if err := renderEndpoint(log, &t, l, cfg, nft, v, fam, "seeded", 0, ref); err != nil {
					return fmt.Errorf("seeded layout %d: %v", i, err)
				}
			}
		}
	}
	return nil
}
