package main

import (
	"fmt"
	"math/rand"

	"github.com/projectcalico/calico/felix/generictables"
	"github.com/projectcalico/calico/felix/proto"
	"github.com/projectcalico/calico/felix/rules"
	"github.com/projectcalico/calico/felix/types"

	"verifharness/nfparse"
	"verifharness/polgen"
	"verifharness/tracelog"
)

// renderOneRule runs the real ProtoRuleToIptablesRules; a panic of the renderer is recorded (the spec
// never accepts a case without a rendered program), not propagated.
func renderOneRule(rr rules.RuleRenderer, r *proto.Rule, ipv uint8, owner rules.RuleOwnerType, dir rules.RuleDir,
	untracked bool) (out []generictables.Rule, panicked string) {
	defer func() {
		if e := recover(); e != nil {
			panicked = fmt.Sprint(e)
			if panicked == "" {
				panicked = "panic"
			}
		}
	}()
	var id types.IDMaker = &types.PolicyID{Name: "pol", Kind: "GlobalNetworkPolicy"}
	tier := "default"
	if owner == rules.RuleOwnerTypeProfile {
		id = &types.ProfileID{Name: "prof"}
		tier = ""
	}
	out = rr.ProtoRuleToIptablesRules(r, ipv, owner, dir, 0, id, tier, untracked)
	return
}

func runC08(env tracelog.Env, log *tracelog.Log) error {
	rnd := rand.New(rand.NewSource(env.Seed*7919 + 8))
	for t := 0; t < env.N; t++ {
		ipv := uint8(4)
		if t%3 == 2 {
			ipv = 6
		}
		sg := polgen.NewSetGen(rnd, ipv)
		r := randRule(rnd, ipv, sg)
		cfg := baseConfig()
		cfg.FlowLogsEnabled = chance(rnd, 40)
		if chance(rnd, 25) {
			cfg.FilterDenyAction = "REJECT"
		}
		owner := rules.RuleOwnerTypePolicy
		if chance(rnd, 20) {
			owner = rules.RuleOwnerTypeProfile
		}
		dir := rules.RuleDirIngress
		if chance(rnd, 50) {
			dir = rules.RuleDirEgress
		}
		untracked := chance(rnd, 10)
		// the same rule goes through both factories: two cases
		for _, nft := range []bool{false, true} {
			rr := rules.NewRenderer(cfg, nft)
			rendered, pan := renderOneRule(rr, r, ipv, owner, dir, untracked)
			prog := nfparse.NewProgram(flavourName(nft))
			if pan == "" {
				ch := &generictables.Chain{Name: "rule", Rules: rendered}
				if err := renderChain(prog, ch, ipv); err != nil {
					return fmt.Errorf("case %d: %v", t, err)
				}
			} else {
				prog.Chains["rule"] = []nfparse.Rule{}
			}
			byID, byName := setsJSON(sg.Sets(), &cfg, ipv, nft)
			deny := "drop"
			if cfg.FilterDenyAction == "REJECT" {
				deny = "reject"
			}
			log.Reset(2*t+b2i(nft), M{
				"kind": "c08", "flavour": prog.Flavour, "ipv": int(ipv), "rule": semRule(r),
				"ipsets": byID, "ksets": byName, "prog": prog, "marks": marksJSON(), "deny": deny,
				"panic": pan, "nrules": len(rendered),
			})
		}
	}
	return nil
}

func b2i(b bool) int {
	if b {
		return 1
	}
	return 0
}
