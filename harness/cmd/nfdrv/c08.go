package main

import (
	"fmt"
	"math/rand"
	"strings"

	googleproto "google.golang.org/protobuf/proto"

	"github.com/projectcalico/calico/felix/generictables"
	"github.com/projectcalico/calico/felix/proto"
	"github.com/projectcalico/calico/felix/rules"
	"github.com/projectcalico/calico/felix/types"

	"verifharness/nfparse"
	"verifharness/polgen"
	"verifharness/tracelog"
)

// renderOneRule runs the real ProtoRuleToIptablesRules; a panic of the renderer is recorded (the spec
// never accepts a case without a rendered program), not propagated.
func renderOneRule(rr rules.RuleRenderer, r *proto.Rule, ipv uint8, owner rules.RuleOwnerType, dir rules.RuleDir,
	untracked bool) (out []generictables.Rule, panicked string) {
	defer func() {
		if e := recover(); e != nil {
			panicked = fmt.Sprint(e)
			if panicked == "" {
				panicked = "panic"
			}
		}
	}()
	var id types.IDMaker = &types.PolicyID{Name: "pol", Kind: "GlobalNetworkPolicy"}
	tier := "default"
	if owner == rules.RuleOwnerTypeProfile {
		id = &types.ProfileID{Name: "prof"}
		tier = ""
	}
	out = rr.ProtoRuleToIptablesRules(r, ipv, owner, dir, 0, id, tier, untracked)
	return
}

// setsForFamily: Felix's IP sets are per IP version - the v4 set of an id holds its v4 members, the v6 set its v6 ones.
func setsForFamily(sets []*polgen.IPSet, ipv uint8) []*polgen.IPSet {
	var out []*polgen.IPSet
	want := 4
	if ipv == 6 {
		want = 16
	}
	for _, s := range sets {
		c := &polgen.IPSet{ID: s.ID, Type: s.Type, Members: []M{}, MemberStrings: []string{}}
		for k, m := range s.Members {
			if a, ok := m["a"].([]int); ok && len(a) == want {
				c.Members = append(c.Members, m)
				c.MemberStrings = append(c.MemberStrings, s.MemberStrings[k])
			}
		}
		out = append(out, c)
	}
	return out
}

func hasMixedNets(r *proto.Rule) bool {
	for _, nets := range [][]string{r.SrcNet, r.NotSrcNet, r.DstNet, r.NotDstNet} {
		v4, v6 := false, false
		for _, n := range nets {
			if strings.Contains(n, ":") {
				v6 = true
			} else {
				v4 = true
			}
		}
		if v4 && v6 {
			return true
		}
	}
	return false
}

// mixedRule: a rule without ipVersion whose CIDR match fields mix both families (either family first), so that it is a
// meaningful rule in the IPv4 table AND in the IPv6 table.
func mixedRule(rnd *rand.Rand, ipv uint8, sg *polgen.SetGen) *proto.Rule {
	var r *proto.Rule
	for {
		r = randRule(rnd, ipv, sg)
		if r.IpVersion == 0 && r.Icmp == nil && r.NotIcmp == nil {
			break
		}
	}
	r.SrcNet, r.NotSrcNet, r.DstNet, r.NotDstNet = nil, nil, nil, nil
	// IP sets of the rule hold members of one family only; drop them so that both tables can match
	r.SrcIpSetIds, r.DstIpSetIds, r.SrcNamedPortIpSetIds, r.DstNamedPortIpSetIds, r.DstIpPortSetIds = nil, nil, nil, nil, nil
	mix := func(neg bool) []string {
		a := pick(rnd, []string{"10.1.0.0/16", "10.1.2.0/24", "192.168.0.0/30", "172.16.0.0/12"})
		b := pick(rnd, []string{"fd00:1::/32", "fd00:1:2::/48", "fe80::/10", "2001:db8::/33"})
		out := []string{a, b}
		if chance(rnd, 60) {
			out = []string{b, a} // IPv6 entry first
		}
		if chance(rnd, 30) {
			out = append(out, pick(rnd, []string{"11.0.0.0/8", "fc00::/7"}))
		}
		return out
	}
	n := 0
	for n == 0 {
		if chance(rnd, 45) {
			r.SrcNet = mix(false)
			n++
		}
		if chance(rnd, 35) {
			r.DstNet = mix(false)
			n++
		}
		if chance(rnd, 25) {
			r.NotSrcNet = mix(true)
			n++
		}
		if chance(rnd, 20) {
			r.NotDstNet = mix(true)
			n++
		}
	}
	return r
}

func runC08(env tracelog.Env, log *tracelog.Log) error {
	rnd := rand.New(rand.NewSource(env.Seed*7919 + 8))
	caseNo := 0
	for t := 0; t < env.N; t++ {
		home := uint8(4)
		if t%3 == 2 {
			home = 6
		}
		sg := polgen.NewSetGen(rnd, home)
		var r *proto.Rule
		if t%8 == 5 {
			r = mixedRule(rnd, home, sg)
		} else {
			r = randRule(rnd, home, sg)
		}
		// the reference keeps a pristine copy: the ONE rule object below is handed to every render, as Felix hands
		// the same *proto.Policy to the IPv4 and then the IPv6 policy manager
		pristine := googleproto.Clone(r).(*proto.Rule)
		cfg := baseConfig()
		cfg.FlowLogsEnabled = chance(rnd, 40)
		if chance(rnd, 25) {
			cfg.FilterDenyAction = "REJECT"
		}
		owner := rules.RuleOwnerTypePolicy
		if chance(rnd, 20) {
			owner = rules.RuleOwnerTypeProfile
		}
		dir := rules.RuleDirIngress
		if chance(rnd, 50) {
			dir = rules.RuleDirEgress
		}
		untracked := chance(rnd, 10)
		// dataplane order: IPv4 table, then IPv6 table; rules with mixed-family lists are rendered for IPv4 once more
		// (a later re-render of the same object, e.g. after an unrelated update)
		passes := []uint8{4, 6}
		if hasMixedNets(pristine) {
			passes = append(passes, 4)
		}
		for pi, ipv := range passes {
			fam := setsForFamily(sg.Sets(), ipv)
			for _, nft := range []bool{false, true} {
				rr := rules.NewRenderer(cfg, nft)
				rendered, pan := renderOneRule(rr, r, ipv, owner, dir, untracked)
				prog := nfparse.NewProgram(flavourName(nft))
				if pan == "" {
					ch := &generictables.Chain{Name: "rule", Rules: rendered}
					if err := renderChain(prog, ch, ipv); err != nil {
						return fmt.Errorf("case %d: %v", t, err)
					}
				} else {
					prog.Chains["rule"] = []nfparse.Rule{}
				}
				byID, byName := setsJSON(fam, &cfg, ipv, nft)
				deny := "drop"
				if cfg.FilterDenyAction == "REJECT" {
					deny = "reject"
				}
				log.Reset(caseNo, M{
					"kind": "c08", "flavour": prog.Flavour, "ipv": int(ipv), "rule": semRule(pristine), "ruleNo": t, "pass": pi,
					"ipsets": byID, "ksets": byName, "prog": prog, "marks": marksJSON(), "deny": deny,
					"panic": pan, "nrules": len(rendered), "objectChanged": !googleproto.Equal(pristine, r),
				})
				caseNo++
			}
		}
	}
	return nil
}

func b2i(b bool) int {
	if b {
		return 1
	}
	return 0
}
