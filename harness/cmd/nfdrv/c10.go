package main

import (
	"context"
	"fmt"
	"math/rand"
	"sort"
	"time"

	"github.com/projectcalico/calico/felix/generictables"
	"github.com/projectcalico/calico/felix/nftables"
	"github.com/projectcalico/calico/felix/proto"
	"github.com/projectcalico/calico/felix/rules"
	"github.com/projectcalico/calico/felix/types"

	"verifharness/nfparse"
	"verifharness/tracelog"
)

// recTable records what a dataplane manager hands to a table.  For nftables it sits under the real
// nftables.NewTableLayer, so the real chain / jump target / map namespacing ("filter-...") is executed.
type recTable struct {
	ipv    uint8
	chains []*generictables.Chain
	hooks  map[string][]generictables.Rule // base chain name -> inserted then appended rules
	maps   map[string]map[string][]string
}

func newRecTable(ipv uint8) *recTable {
	return &recTable{ipv: ipv, hooks: map[string][]generictables.Rule{}, maps: map[string]map[string][]string{}}
}

func (t *recTable) Name() string     { return "rec" }
func (t *recTable) IPVersion() uint8 { return t.ipv }
func (t *recTable) InsertOrAppendRules(chainName string, rs []generictables.Rule) {
	t.hooks[chainName] = append(append([]generictables.Rule{}, rs...), t.hooks[chainName]...)
}
func (t *recTable) AppendRules(chainName string, rs []generictables.Rule) {
	t.hooks[chainName] = append(t.hooks[chainName], rs...)
}
func (t *recTable) UpdateChain(c *generictables.Chain) {
	cp := *c
	t.chains = append(t.chains, &cp)
}
func (t *recTable) UpdateChains(cs []*generictables.Chain) {
	for _, c := range cs {
		t.UpdateChain(c)
	}
}
func (t *recTable) RemoveChains([]*generictables.Chain)                                 {}
func (t *recTable) RemoveChainByName(string)                                            {}
func (t *recTable) InvalidateDataplaneCache(string)                                     {}
func (t *recTable) Apply() time.Duration                                                { return 0 }
func (t *recTable) InsertRulesNow(string, []generictables.Rule) error                   { return nil }
func (t *recTable) CheckRulesPresent(string, []generictables.Rule) []generictables.Rule { return nil }
func (t *recTable) AddOrReplaceMap(meta nftables.MapMetadata, members map[string][]string) {
	cp := map[string][]string{}
	for k, v := range members {
		cp[k] = v
	}
	t.maps[meta.Name] = cp
}
func (t *recTable) RemoveMap(string)                                   {}
func (t *recTable) MapUpdates() *nftables.MapUpdates                   { return nil }
func (t *recTable) FinishMapUpdates(*nftables.MapUpdates)              {}
func (t *recTable) LoadDataplaneState(context.Context, []string) error { return nil }
func (t *recTable) InvalidateMapsCache()                               {}

// tableFor returns the table a manager would write to (for nft: the real layer over the recorder).
func tableFor(nft bool, layer string, ipv uint8) (generictables.Table, *recTable) {
	rec := newRecTable(ipv)
	if nft {
		return nftables.NewTableLayer(layer, rec), rec
	}
	return rec, rec
}

// progOf converts everything recorded into one IR program (chains, base chains, verdict maps).
func progOf(nft bool, rec *recTable) (*nfparse.Program, error) {
	prog := nfparse.NewProgram(flavourName(nft))
	for _, c := range rec.chains {
		if err := renderChain(prog, c, rec.ipv); err != nil {
			return nil, err
		}
	}
	for _, name := range sortedKeys(rec.hooks) {
		if err := renderChain(prog, &generictables.Chain{Name: name, Rules: rec.hooks[name]}, rec.ipv); err != nil {
			return nil, err
		}
	}
	for _, name := range sortedKeys(rec.maps) {
		es := []nfparse.MapEntry{}
		for _, k := range sortedKeys(rec.maps[name]) {
			a, err := nfparse.ParseNftVerdict(rec.maps[name][k])
			if err != nil {
				return nil, err
			}
			es = append(es, nfparse.MapEntry{Key: nfparse.Codes(k), A: a})
		}
		prog.Maps[name] = es
	}
	return prog, nil
}

// ---- interface name sets ----------------------------------------------------------------------------

func randNames(rnd *rand.Rand, prefixes []string) []string {
	n := 0
	switch rnd.Intn(8) {
	case 0:
		n = 0
	case 1:
		n = 1
	case 2, 3, 4:
		n = 2 + rnd.Intn(5)
	case 5, 6:
		n = 6 + rnd.Intn(12)
	default:
		n = 20 + rnd.Intn(21)
	}
	alpha := "0123456789abcdef"
	if chance(rnd, 30) {
		alpha = "01a" // many shared prefixes
	}
	var out []string
	for i := 0; i < n; i++ {
		pfx := pick(rnd, prefixes)
		var name string
		switch {
		case len(out) > 0 && chance(rnd, 25):
			// extend an existing name by one or two characters: a name that is a prefix of another
			name = pick(rnd, out) + string(alpha[rnd.Intn(len(alpha))])
			if chance(rnd, 30) {
				name += string(alpha[rnd.Intn(len(alpha))])
			}
		case len(out) > 0 && chance(rnd, 10):
			name = pick(rnd, out) // duplicate interface name (two endpoints)
		case chance(rnd, 6):
			name = pfx // the bare prefix
		case chance(rnd, 15):
			name = pfx + string(alpha[rnd.Intn(len(alpha))]) // single-character suffix
		default:
			l := 1 + rnd.Intn(4)
			if chance(rnd, 30) {
				l = 11 // cali + 11 = the usual 15 characters
			}
			name = pfx
			for j := 0; j < l; j++ {
				name += string(alpha[rnd.Intn(len(alpha))])
			}
		}
		if len(name) > 15 {
			name = name[:15]
		}
		out = append(out, name)
	}
	return out
}

func uniqSorted(in []string) []string {
	m := map[string]bool{}
	for _, s := range in {
		m[s] = true
	}
	out := make([]string, 0, len(m))
	for s := range m {
		out = append(out, s)
	}
	sort.Strings(out)
	return out
}

func prefixCodes(ps []string) [][]int {
	out := [][]int{}
	for _, p := range ps {
		out = append(out, nfparse.Codes(p))
	}
	return out
}

func runC10(env tracelog.Env, log *tracelog.Log) error {
	rnd := rand.New(rand.NewSource(env.Seed*15485863 + 10))
	t := 0
	for i := 0; i < env.N; i++ {
		ipv := uint8(4)
		if i%4 == 3 {
			ipv = 6
		}
		cfg := baseConfig()
		if chance(rnd, 30) {
			cfg.WorkloadIfacePrefixes = []string{"cali", "tap"}
		}
		if chance(rnd, 25) {
			cfg.FilterDenyAction = "REJECT"
		}
		deny := "drop"
		if cfg.FilterDenyAction == "REJECT" {
			deny = "reject"
		}
		wlNames := randNames(rnd, cfg.WorkloadIfacePrefixes)
		hepNames := uniqSorted(randNames(rnd, []string{"eth", "ens", "bond", "e"}))
		wildcard := chance(rnd, 50)
		applyOnForward := chance(rnd, 50)
		for _, nft := range []bool{false, true} {
			rr := rules.NewRenderer(cfg, nft)
			// ---- workload dispatch (what endpointManager.resolveWorkloadEndpoints programs)
			tbl, rec := tableFor(nft, "filter", ipv)
			eps := map[types.WorkloadEndpointID]*proto.WorkloadEndpoint{}
			for j, n := range wlNames {
				eps[types.WorkloadEndpointID{OrchestratorId: "k8s", WorkloadId: fmt.Sprintf("w%d", j), EndpointId: "eth0"}] = &proto.WorkloadEndpoint{Name: n}
			}
			tbl.UpdateChains(rr.WorkloadDispatchChains(eps))
			if nft {
				from, to := rr.DispatchMappings(eps)
				md := tbl.(nftables.MapsDataplane)
				md.AddOrReplaceMap(nftables.MapMetadata{Name: rules.NftablesFromWorkloadDispatchMap, Type: nftables.MapTypeInterfaceMatch}, from)
				md.AddOrReplaceMap(nftables.MapMetadata{Name: rules.NftablesToWorkloadDispatchMap, Type: nftables.MapTypeInterfaceMatch}, to)
			}
			prog, err := progOf(nft, rec)
			if err != nil {
				return fmt.Errorf("case %d: %v", i, err)
			}
			// every endpoint's own chains: the names of the chains the real renderer produces for it
			own := []M{}
			for _, n := range uniqSorted(wlNames) {
				otbl, orec := tableFor(nft, "filter", ipv)
				otbl.UpdateChains(rr.WorkloadEndpointToIptablesChains(n, nil, true, nil, nil, nil))
				own = append(own, M{"name": nfparse.Codes(n), "to": orec.chains[0].Name, "from": orec.chains[1].Name})
			}
			root := func(n string) string {
				if nft {
					return "filter-" + n
				}
				return n
			}
			log.Reset(t, M{"kind": "c10", "sub": "workload", "flavour": prog.Flavour, "ipv": int(ipv), "prog": prog,
				"own": own, "prefixes": prefixCodes(cfg.WorkloadIfacePrefixes), "deny": deny,
				"fromRoot": root(rules.ChainFromWorkloadDispatch), "toRoot": root(rules.ChainToWorkloadDispatch),
				"nnames": len(own)})
			t++

			// ---- host endpoint dispatch
			for _, variant := range []string{"both", "from", "to"} {
				if variant != "both" && !chance(rnd, 35) {
					continue
				}
				tbl, rec := tableFor(nft, "filter", ipv)
				hm := map[string]types.HostEndpointID{}
				for _, n := range hepNames {
					hm[n] = types.HostEndpointID{EndpointId: "hep-" + n}
				}
				def := ""
				if wildcard {
					def = "any-interface-at-all"
				}
				fwd := false
				switch variant {
				case "both":
					fwd = applyOnForward
					tbl.UpdateChains(rr.HostDispatchChains(hm, def, applyOnForward))
				case "from":
					tbl.UpdateChains(rr.FromHostDispatchChains(hm, def))
				case "to":
					tbl.UpdateChains(rr.ToHostDispatchChains(hm, def))
				}
				prog, err := progOf(nft, rec)
				if err != nil {
					return fmt.Errorf("case %d: %v", i, err)
				}
				ownOf := func(n string) M {
					otbl, orec := tableFor(nft, "filter", ipv)
					otbl.UpdateChains(rr.HostEndpointToFilterChains(n, nil, nil, nil, nil))
					return M{"name": nfparse.Codes(n), "to": orec.chains[0].Name, "from": orec.chains[1].Name,
						"toFwd": orec.chains[2].Name, "fromFwd": orec.chains[3].Name}
				}
				hown := []M{}
				for _, n := range hepNames {
					hown = append(hown, ownOf(n))
				}
				wild := []M{}
				if wildcard {
					wild = append(wild, ownOf(def))
				}
				roots := M{"from": "", "to": "", "fromFwd": "", "toFwd": ""}
				if variant == "both" || variant == "from" {
					roots["from"] = root(rules.ChainDispatchFromHostEndpoint)
				}
				if variant == "both" || variant == "to" {
					roots["to"] = root(rules.ChainDispatchToHostEndpoint)
				}
				if variant == "both" && fwd {
					roots["fromFwd"] = root(rules.ChainDispatchFromHostEndPointForward)
					roots["toFwd"] = root(rules.ChainDispatchToHostEndpointForward)
				}
				log.Reset(t, M{"kind": "c10", "sub": "host", "variant": variant, "flavour": prog.Flavour, "ipv": int(ipv), "prog": prog,
					"own": hown, "wild": wild, "prefixes": prefixCodes(cfg.WorkloadIfacePrefixes), "deny": deny, "roots": roots,
					"skipWl": !(variant == "both" && fwd), "nnames": len(hown)})
				t++
			}
		}
	}
	return nil
}
