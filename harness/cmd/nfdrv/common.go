package main

import (
	"fmt"
	"math/rand"

	"github.com/sirupsen/logrus"

	"github.com/projectcalico/calico/felix/environment"
	"github.com/projectcalico/calico/felix/generictables"
	"github.com/projectcalico/calico/felix/ipsets"
	"github.com/projectcalico/calico/felix/iptables"
	"github.com/projectcalico/calico/felix/nftables"
	"github.com/projectcalico/calico/felix/proto"
	"github.com/projectcalico/calico/felix/rules"

	"verifharness/nfparse"
	"verifharness/polgen"
)

type M = polgen.M

// Mark bits used by every case.  Low bits so that they fit TLC's 32-bit integers if ever printed;
// the IR carries bit positions, not values.
const (
	markAccept   = 0x1
	markPass     = 0x2
	markDrop     = 0x4
	markScratch0 = 0x8
	markScratch1 = 0x10
	markEndpoint = 0xff00
	markNonCali  = 0x0100
)

var features = &environment.Features{NFLogSize: true}

func marksJSON() M {
	return M{
		"accept": nfparse.Bits(markAccept), "pass": nfparse.Bits(markPass), "drop": nfparse.Bits(markDrop),
		"s0": nfparse.Bits(markScratch0), "s1": nfparse.Bits(markScratch1), "endpoint": nfparse.Bits(markEndpoint),
	}
}

func baseConfig() rules.Config {
	return rules.Config{
		IPSetConfigV4:                  ipsets.NewIPVersionConfig(ipsets.IPFamilyV4, "cali", nil, nil),
		IPSetConfigV6:                  ipsets.NewIPVersionConfig(ipsets.IPFamilyV6, "cali", nil, nil),
		WorkloadIfacePrefixes:          []string{"cali"},
		MarkAccept:                     markAccept,
		MarkPass:                       markPass,
		MarkDrop:                       markDrop,
		MarkScratch0:                   markScratch0,
		MarkScratch1:                   markScratch1,
		MarkEndpoint:                   markEndpoint,
		MarkNonCaliEndpoint:            markNonCali,
		VXLANPort:                      4789,
		WireguardInterfaceName:         "wireguard.cali",
		WireguardInterfaceNameV6:       "wg-v6.cali",
		WireguardMark:                  0x100000,
		AllowVXLANPacketsFromWorkloads: true,
		AllowIPIPPacketsFromWorkloads:  true,
	}
}

func init() {
	logrus.SetLevel(logrus.PanicLevel)
}

// renderChain converts one rendered chain to IR using the real per-flavour rule renderer for the text.
func renderChain(prog *nfparse.Program, c *generictables.Chain, ipv uint8) error {
	out := []nfparse.Rule{}
	if prog.Flavour == "ipt" {
		rr := iptables.NewIptablesRenderer("")
		for i := range c.Rules {
			line := rr.RenderAppend(&c.Rules[i], c.Name, "", features)
			ch, r, err := nfparse.ParseIptables(line)
			if err != nil {
				return err
			}
			if ch != c.Name {
				return fmt.Errorf("chain name mismatch %q vs %q", ch, c.Name)
			}
			out = append(out, r)
		}
	} else {
		rr := nftables.NewNFTRenderer("", ipv)
		for i := range c.Rules {
			kr := rr.Render(c.Name, "", c.Rules[i], features)
			r, err := nfparse.ParseNft(kr.Rule)
			if err != nil {
				return err
			}
			out = append(out, r)
		}
	}
	if _, dup := prog.Chains[c.Name]; dup {
		return fmt.Errorf("chain %q rendered twice", c.Name)
	}
	prog.Chains[c.Name] = out
	return nil
}

func flavourName(nft bool) string {
	if nft {
		return "nft"
	}
	return "ipt"
}

// ---------------------------------------------------------------------------------------------
// IP sets of a case: id -> contents (reference side) and rendered kernel name -> contents (IR side).
// The kernel name is computed by the code the real dataplane uses to name the set it programs.

func setsJSON(sets []*polgen.IPSet, cfg *rules.Config, ipv uint8, nft bool) (byID M, byName M) {
	byID = M{"_none": M{"type": "net", "members": []M{}}}
	byName = M{"_none": M{"type": "net", "members": []M{}}}
	for _, s := range sets {
		v := M{"type": s.Type, "members": s.Members}
		byID[s.ID] = v
		var name string
		if ipv == 4 {
			name = cfg.IPSetConfigV4.NameForMainIPSet(s.ID)
		} else {
			name = cfg.IPSetConfigV6.NameForMainIPSet(s.ID)
		}
		if nft {
			name = nftables.LegalizeSetName(name)
		}
		byName[name] = v
	}
	return
}

// generator / exporter live in verifharness/polgen (shared with the BPF and app-policy checks)
var (
	semRule  = polgen.SemRule
	semRules = polgen.SemRules
	randRule = polgen.RandRule
)

func chance(rnd *rand.Rand, pct int) bool       { return polgen.Chance(rnd, pct) }
func pick[T any](rnd *rand.Rand, xs []T) T      { return polgen.Pick(rnd, xs) }
func protoByName(n string) *proto.Protocol      { return polgen.ProtoByName(n) }
func protoByNum(n int32) *proto.Protocol        { return polgen.ProtoByNum(n) }
func sortedKeys[V any](m map[string]V) []string { return polgen.SortedKeys(m) }

var iptActions = iptables.Actions()

func iptMatch() generictables.MatchCriteria { return iptables.Match() }
