package main

import (
	"fmt"
	"math/rand"
	"net"
	"sort"

	"github.com/sirupsen/logrus"

	"github.com/projectcalico/calico/felix/environment"
	"github.com/projectcalico/calico/felix/generictables"
	"github.com/projectcalico/calico/felix/ipsets"
	"github.com/projectcalico/calico/felix/iptables"
	"github.com/projectcalico/calico/felix/nftables"
	"github.com/projectcalico/calico/felix/proto"
	"github.com/projectcalico/calico/felix/rules"

	"verifharness/nfparse"
)

type M = map[string]any

// Mark bits used by every case.  Low bits so that they fit TLC's 32-bit integers if ever printed;
// the IR carries bit positions, not values.
const (
	markAccept   = 0x1
	markPass     = 0x2
	markDrop     = 0x4
	markScratch0 = 0x8
	markScratch1 = 0x10
	markEndpoint = 0xff00
	markNonCali  = 0x0100
)

var features = &environment.Features{NFLogSize: true}

func marksJSON() M {
	return M{
		"accept": nfparse.Bits(markAccept), "pass": nfparse.Bits(markPass), "drop": nfparse.Bits(markDrop),
		"s0": nfparse.Bits(markScratch0), "s1": nfparse.Bits(markScratch1), "endpoint": nfparse.Bits(markEndpoint),
	}
}

func baseConfig() rules.Config {
	return rules.Config{
		IPSetConfigV4:                  ipsets.NewIPVersionConfig(ipsets.IPFamilyV4, "cali", nil, nil),
		IPSetConfigV6:                  ipsets.NewIPVersionConfig(ipsets.IPFamilyV6, "cali", nil, nil),
		WorkloadIfacePrefixes:          []string{"cali"},
		MarkAccept:                     markAccept,
		MarkPass:                       markPass,
		MarkDrop:                       markDrop,
		MarkScratch0:                   markScratch0,
		MarkScratch1:                   markScratch1,
		MarkEndpoint:                   markEndpoint,
		MarkNonCaliEndpoint:            markNonCali,
		VXLANPort:                      4789,
		AllowVXLANPacketsFromWorkloads: true,
		AllowIPIPPacketsFromWorkloads:  true,
	}
}

func init() {
	logrus.SetLevel(logrus.PanicLevel)
}

// renderChain converts one rendered chain to IR using the real per-flavour rule renderer for the text.
func renderChain(prog *nfparse.Program, c *generictables.Chain, ipv uint8) error {
	out := []nfparse.Rule{}
	if prog.Flavour == "ipt" {
		rr := iptables.NewIptablesRenderer("")
		for i := range c.Rules {
			line := rr.RenderAppend(&c.Rules[i], c.Name, "", features)
			ch, r, err := nfparse.ParseIptables(line)
			if err != nil {
				return err
			}
			if ch != c.Name {
				return fmt.Errorf("chain name mismatch %q vs %q", ch, c.Name)
			}
			out = append(out, r)
		}
	} else {
		rr := nftables.NewNFTRenderer("", ipv)
		for i := range c.Rules {
			kr := rr.Render(c.Name, "", c.Rules[i], features)
			r, err := nfparse.ParseNft(kr.Rule)
			if err != nil {
				return err
			}
			out = append(out, r)
		}
	}
	if _, dup := prog.Chains[c.Name]; dup {
		return fmt.Errorf("chain %q rendered twice", c.Name)
	}
	prog.Chains[c.Name] = out
	return nil
}

func flavourName(nft bool) string {
	if nft {
		return "nft"
	}
	return "ipt"
}

// ---------------------------------------------------------------------------------------------
// IP sets of a case: id -> contents (reference side) and rendered kernel name -> contents (IR side).
// The kernel name is computed by the code the real dataplane uses to name the set it programs.

type ipset struct {
	ID      string
	Type    string // "net" | "ipport"
	Members []M
}

func setsJSON(sets []*ipset, cfg *rules.Config, ipv uint8, nft bool) (byID M, byName M) {
	byID = M{"_none": M{"type": "net", "members": []M{}}}
	byName = M{"_none": M{"type": "net", "members": []M{}}}
	for _, s := range sets {
		v := M{"type": s.Type, "members": s.Members}
		byID[s.ID] = v
		var name string
		if ipv == 4 {
			name = cfg.IPSetConfigV4.NameForMainIPSet(s.ID)
		} else {
			name = cfg.IPSetConfigV6.NameForMainIPSet(s.ID)
		}
		if nft {
			name = nftables.LegalizeSetName(name)
		}
		byName[name] = v
	}
	return
}

// ---------------------------------------------------------------------------------------------
// proto.Rule -> PolicySem JSON (field-by-field copy; CIDR strings to octets, protocol names to numbers)

func semProto(p *proto.Protocol) int {
	if p == nil {
		return 0
	}
	switch v := p.NumberOrName.(type) {
	case *proto.Protocol_Name:
		n, err := nfparse.ProtoNum(v.Name)
		if err != nil {
			panic(err)
		}
		return n
	case *proto.Protocol_Number:
		return int(v.Number)
	}
	return 0
}

func semNets(in []string) []M {
	out := []M{}
	for _, s := range in {
		c, err := nfparse.CIDR(s)
		if err != nil {
			panic(err)
		}
		out = append(out, c)
	}
	return out
}

func semPorts(in []*proto.PortRange) [][]int {
	out := [][]int{}
	for _, p := range in {
		out = append(out, []int{int(p.First), int(p.Last)})
	}
	return out
}

func strs(in []string) []string {
	if in == nil {
		return []string{}
	}
	return in
}

func semRule(r *proto.Rule) M {
	icmp := []int{}
	switch v := r.Icmp.(type) {
	case *proto.Rule_IcmpType:
		icmp = []int{int(v.IcmpType)}
	case *proto.Rule_IcmpTypeCode:
		icmp = []int{int(v.IcmpTypeCode.Type), int(v.IcmpTypeCode.Code)}
	}
	notIcmp := []int{}
	switch v := r.NotIcmp.(type) {
	case *proto.Rule_NotIcmpType:
		notIcmp = []int{int(v.NotIcmpType)}
	case *proto.Rule_NotIcmpTypeCode:
		notIcmp = []int{int(v.NotIcmpTypeCode.Type), int(v.NotIcmpTypeCode.Code)}
	}
	return M{
		"action": r.Action, "ipv": int(r.IpVersion),
		"proto": semProto(r.Protocol), "notProto": semProto(r.NotProtocol),
		"srcNets": semNets(r.SrcNet), "notSrcNets": semNets(r.NotSrcNet),
		"dstNets": semNets(r.DstNet), "notDstNets": semNets(r.NotDstNet),
		"srcPorts": semPorts(r.SrcPorts), "notSrcPorts": semPorts(r.NotSrcPorts),
		"dstPorts": semPorts(r.DstPorts), "notDstPorts": semPorts(r.NotDstPorts),
		"srcNamed": strs(r.SrcNamedPortIpSetIds), "notSrcNamed": strs(r.NotSrcNamedPortIpSetIds),
		"dstNamed": strs(r.DstNamedPortIpSetIds), "notDstNamed": strs(r.NotDstNamedPortIpSetIds),
		"srcSets": strs(r.SrcIpSetIds), "notSrcSets": strs(r.NotSrcIpSetIds),
		"dstSets": strs(r.DstIpSetIds), "notDstSets": strs(r.NotDstIpSetIds),
		"dstIpPortSets": strs(r.DstIpPortSetIds),
		"icmp":          icmp, "notIcmp": notIcmp,
	}
}

func semRules(in []*proto.Rule) []M {
	out := []M{}
	for _, r := range in {
		out = append(out, semRule(r))
	}
	return out
}

// ---------------------------------------------------------------------------------------------
// random material

var cidrPool = map[uint8][]string{
	4: {"10.0.0.0/8", "10.1.0.0/16", "10.1.2.0/24", "10.1.2.3/32", "10.1.2.4/30", "192.168.0.0/30", "128.0.0.0/1",
		"0.0.0.0/1", "255.255.255.255/32", "0.0.0.0/32", "172.16.0.0/12", "10.255.255.0/24", "10.1.3.0/24", "11.0.0.0/8"},
	6: {"fd00::/8", "fd00:1::/32", "fd00:1::1/128", "fd00:1::/126", "fe80::/10", "8000::/1", "::/1",
		"ffff:ffff:ffff:ffff:ffff:ffff:ffff:ffff/128", "::/128", "fd00:1:2::/48", "fd00:1:0:ffff::/64", "fc00::/7", "2001:db8::/33"},
}

var addrPool = map[uint8][]string{
	4: {"10.1.2.3", "10.1.2.4", "10.0.0.1", "10.255.255.255", "192.168.0.1", "172.16.0.9", "11.0.0.0", "9.255.255.255", "0.0.0.0", "255.255.255.255"},
	6: {"fd00:1::1", "fd00:1::2", "fd00::1", "fe80::1", "2001:db8::1", "fdff:ffff:ffff:ffff:ffff:ffff:ffff:ffff", "::", "ffff:ffff:ffff:ffff:ffff:ffff:ffff:ffff"},
}

func catchAll(ipv uint8) string {
	if ipv == 4 {
		return "0.0.0.0/0"
	}
	return "::/0"
}

func pick[T any](rnd *rand.Rand, xs []T) T { return xs[rnd.Intn(len(xs))] }

func chance(rnd *rand.Rand, pct int) bool { return rnd.Intn(100) < pct }

func otherV(ipv uint8) uint8 {
	if ipv == 4 {
		return 6
	}
	return 4
}

func randNets(rnd *rand.Rand, ipv uint8, max int, negated bool) []string {
	n := 0
	if chance(rnd, 45) {
		n = 1 + rnd.Intn(max)
	}
	var out []string
	seen := map[string]bool{}
	for i := 0; i < n; i++ {
		fam := ipv
		if chance(rnd, 6) {
			fam = otherV(ipv) // mixed-family list: filterNets must drop the foreign entries
		}
		c := pick(rnd, cidrPool[fam])
		if chance(rnd, 5) {
			c = catchAll(fam) // incl. the negated catch-all that filterNets turns into "rule never matches"
		}
		if !seen[c] {
			seen[c] = true
			out = append(out, c)
		}
	}
	return out
}

func randPorts(rnd *rand.Rand) []*proto.PortRange {
	var n int
	switch rnd.Intn(10) {
	case 0, 1, 2, 3:
		n = 1 + rnd.Intn(3)
	case 4, 5:
		n = 6 + rnd.Intn(6) // crosses 15 slots only with ranges
	case 6:
		n = 14 + rnd.Intn(4) // around the 15-slot boundary
	case 7:
		n = 28 + rnd.Intn(13) // two or three splits
	default:
		n = 1
	}
	var out []*proto.PortRange
	for i := 0; i < n; i++ {
		base := int32(pick(rnd, []int{0, 1, 22, 53, 80, 443, 1000, 8080, 30000, 65534, 65535}))
		if chance(rnd, 60) {
			base = int32(rnd.Intn(65536))
		}
		last := base
		if chance(rnd, 35) {
			last = base + int32(rnd.Intn(40))
			if chance(rnd, 10) {
				last = base + int32(rnd.Intn(30000))
			}
			if last > 65535 {
				last = 65535
			}
		}
		out = append(out, &proto.PortRange{First: base, Last: last})
	}
	return out
}

type setGen struct {
	rnd  *rand.Rand
	ipv  uint8
	sets []*ipset
	n    int
}

func (g *setGen) netSet() string {
	g.n++
	id := fmt.Sprintf("s:%dset%c", g.n, 'a'+rune(g.rnd.Intn(26)))
	s := &ipset{ID: id, Type: "net"}
	k := g.rnd.Intn(4)
	for i := 0; i < k; i++ {
		var c string
		if chance(g.rnd, 60) {
			c = pick(g.rnd, addrPool[g.ipv])
		} else {
			c = pick(g.rnd, cidrPool[g.ipv])
		}
		m, _ := nfparse.CIDR(c)
		s.Members = append(s.Members, m)
	}
	if s.Members == nil {
		s.Members = []M{}
	}
	g.sets = append(g.sets, s)
	return id
}

func (g *setGen) portSet(protos []int) string {
	g.n++
	id := fmt.Sprintf("n:%dnp%c", g.n, 'a'+rune(g.rnd.Intn(26)))
	s := &ipset{ID: id, Type: "ipport", Members: []M{}}
	k := g.rnd.Intn(4)
	for i := 0; i < k; i++ {
		a, _ := nfparse.Addr(pick(g.rnd, addrPool[g.ipv]))
		s.Members = append(s.Members, M{"a": a, "p": pick(g.rnd, protos), "port": pick(g.rnd, []int{1, 53, 80, 8080, 65535, g.rnd.Intn(65536)})})
	}
	g.sets = append(g.sets, s)
	return id
}

func protoByName(n string) *proto.Protocol {
	return &proto.Protocol{NumberOrName: &proto.Protocol_Name{Name: n}}
}
func protoByNum(n int32) *proto.Protocol {
	return &proto.Protocol{NumberOrName: &proto.Protocol_Number{Number: n}}
}

// randRule generates a rule that passes the API validation (ports only with a port protocol, ICMP
// fields only with the ICMP protocol of the right family, ...) but is otherwise arbitrary, including
// the shapes DESIGN lists: mixed-family CIDR lists, negated catch-all, >15 port slots, named ports,
// positive/negated IP sets, ICMP type / type+code / negated, every action, ipVersion 0/4/6.
func randRule(rnd *rand.Rand, ipv uint8, sg *setGen) *proto.Rule {
	r := &proto.Rule{}
	r.Action = pick(rnd, []string{"allow", "allow", "deny", "deny", "pass", "next-tier", "log", ""})
	switch rnd.Intn(10) {
	case 0:
		r.IpVersion = proto.IPVersion(otherV(ipv))
	case 1, 2, 3:
		r.IpVersion = proto.IPVersion(ipv)
	}
	portProto := false
	icmpProto := false
	switch rnd.Intn(12) {
	case 0, 1, 2:
		r.Protocol = protoByName(pick(rnd, []string{"tcp", "udp", "sctp"}))
		portProto = true
	case 3:
		r.Protocol = protoByNum(int32(pick(rnd, []int{6, 17, 132})))
		portProto = true
	case 4:
		if ipv == 4 {
			r.Protocol = protoByName("icmp")
		} else {
			r.Protocol = protoByName("icmpv6")
		}
		// the calculation graph derives the IP version from the ICMP protocol name
		r.IpVersion = proto.IPVersion(ipv)
		icmpProto = true
	case 5:
		if ipv == 4 {
			r.Protocol = protoByNum(1)
		} else {
			r.Protocol = protoByNum(58)
		}
		r.IpVersion = proto.IPVersion(ipv)
		icmpProto = true
	case 6:
		r.Protocol = protoByName("udplite")
	case 7:
		r.Protocol = protoByNum(int32(pick(rnd, []int{4, 47, 50, 255, 2})))
	}
	if chance(rnd, 12) {
		if chance(rnd, 50) {
			r.NotProtocol = protoByName(pick(rnd, []string{"tcp", "udp", "sctp", "udplite"}))
		} else {
			r.NotProtocol = protoByNum(int32(pick(rnd, []int{6, 17, 1, 58, 47})))
		}
	}
	r.SrcNet = randNets(rnd, ipv, 3, false)
	r.DstNet = randNets(rnd, ipv, 3, false)
	if chance(rnd, 40) {
		r.NotSrcNet = randNets(rnd, ipv, 3, true)
	}
	if chance(rnd, 40) {
		r.NotDstNet = randNets(rnd, ipv, 3, true)
	}
	if portProto {
		if chance(rnd, 35) {
			r.SrcPorts = randPorts(rnd)
		}
		if chance(rnd, 60) {
			r.DstPorts = randPorts(rnd)
		}
		if chance(rnd, 15) {
			r.NotSrcPorts = randPorts(rnd)
		}
		if chance(rnd, 20) {
			r.NotDstPorts = randPorts(rnd)
		}
	}
	// named ports: with a port protocol, or with no protocol at all (the validator allows both)
	if portProto || r.Protocol == nil {
		protos := []int{6, 17, 132}
		if portProto {
			protos = []int{semProto(r.Protocol), semProto(r.Protocol), pick(rnd, protos)}
		}
		if chance(rnd, 20) {
			for i := 0; i <= rnd.Intn(2); i++ {
				r.DstNamedPortIpSetIds = append(r.DstNamedPortIpSetIds, sg.portSet(protos))
			}
		}
		if chance(rnd, 8) {
			r.SrcNamedPortIpSetIds = append(r.SrcNamedPortIpSetIds, sg.portSet(protos))
		}
		if chance(rnd, 8) {
			r.NotDstNamedPortIpSetIds = append(r.NotDstNamedPortIpSetIds, sg.portSet(protos))
		}
		if chance(rnd, 5) {
			r.NotSrcNamedPortIpSetIds = append(r.NotSrcNamedPortIpSetIds, sg.portSet(protos))
		}
		if chance(rnd, 6) && len(r.DstPorts) == 0 && len(r.DstNamedPortIpSetIds) == 0 {
			r.DstIpPortSetIds = append(r.DstIpPortSetIds, sg.portSet(protos))
		}
	}
	if chance(rnd, 25) {
		for i := 0; i <= rnd.Intn(2); i++ {
			r.SrcIpSetIds = append(r.SrcIpSetIds, sg.netSet())
		}
	}
	if chance(rnd, 25) {
		r.DstIpSetIds = append(r.DstIpSetIds, sg.netSet())
	}
	if chance(rnd, 15) {
		r.NotSrcIpSetIds = append(r.NotSrcIpSetIds, sg.netSet())
	}
	if chance(rnd, 15) {
		for i := 0; i <= rnd.Intn(2); i++ {
			r.NotDstIpSetIds = append(r.NotDstIpSetIds, sg.netSet())
		}
	}
	if icmpProto {
		ty := int32(pick(rnd, []int{0, 3, 8, 128, 135, 254, rnd.Intn(255)}))
		co := int32(pick(rnd, []int{0, 1, 4, 255, rnd.Intn(256)}))
		switch rnd.Intn(4) {
		case 0:
			r.Icmp = &proto.Rule_IcmpType{IcmpType: ty}
		case 1:
			r.Icmp = &proto.Rule_IcmpTypeCode{IcmpTypeCode: &proto.IcmpTypeAndCode{Type: ty, Code: co}}
		}
		ty2 := int32(pick(rnd, []int{0, 3, 8, 128, 254, int(ty)}))
		switch rnd.Intn(5) {
		case 0:
			r.NotIcmp = &proto.Rule_NotIcmpType{NotIcmpType: ty2}
		case 1:
			r.NotIcmp = &proto.Rule_NotIcmpTypeCode{NotIcmpTypeCode: &proto.IcmpTypeAndCode{Type: ty2, Code: co}}
		}
	}
	return r
}

func ipOctets(s string) []int {
	ip := net.ParseIP(s)
	var out []int
	if v4 := ip.To4(); v4 != nil {
		for _, b := range v4 {
			out = append(out, int(b))
		}
		return out
	}
	for _, b := range ip.To16() {
		out = append(out, int(b))
	}
	return out
}

func sortedKeys[V any](m map[string]V) []string {
	ks := make([]string, 0, len(m))
	for k := range m {
		ks = append(ks, k)
	}
	sort.Strings(ks)
	return ks
}
