// Driver for C36: replays TLC-generated behaviours and seeded random operation sequences on the real
// felix/ip.CIDRTrie and felix/calc.IpTrie and records, after every mutation, the answers of every query
// method for a list of query prefixes.  The driver never computes an expected answer: all prefix
// arithmetic used to judge the answers is in specs/trie/Trie.tla (via specs/lib/Nets.tla).
package main

import (
	"fmt"
	"math/rand"
	"net"
	"os"
	"strings"

	"github.com/projectcalico/calico/felix/calc"
	"github.com/projectcalico/calico/felix/ip"
	"github.com/projectcalico/calico/libcalico-go/lib/backend/model"

	"verifharness/tracelog"
)

type jc = map[string]any

// ---- syntax conversion -------------------------------------------------------------------------

func cidrOf(v any) ip.CIDR {
	m := v.(map[string]any)
	oct := m["a"].([]any)
	b := make(net.IP, len(oct))
	for i, o := range oct {
		b[i] = byte(tracelog.Int(o))
	}
	return mk(b, tracelog.Int(m["n"]))
}

func mk(b net.IP, n int) ip.CIDR {
	var a ip.Addr
	if len(b) == 4 {
		var x ip.V4Addr
		copy(x[:], b)
		a = x
	} else {
		var x ip.V6Addr
		copy(x[:], b)
		a = x
	}
	return ip.CIDRFromAddrAndPrefix(a, n)
}

func octets(c ip.CIDR) []int {
	b := c.Addr().AsNetIP()
	out := make([]int, len(b))
	for i := range b {
		out[i] = int(b[i])
	}
	return out
}

func cj(c ip.CIDR) jc { return jc{"a": octets(c), "n": int(c.Prefix())} }

func val(d any) int {
	if d == nil {
		return 0
	}
	return d.(int)
}

type key struct{ ns, nm int }

func keyOf(v any) key {
	m := v.(map[string]any)
	return key{tracelog.Int(m["ns"]), tracelog.Int(m["nm"])}
}

func nsName(ns int) string {
	if ns == 0 {
		return ""
	}
	return fmt.Sprintf("ns%d", ns)
}

func (k key) model() model.Key {
	if k.ns == 0 {
		return model.NetworkSetKey{Name: fmt.Sprintf("n%d", k.nm)}
	}
	return model.NetworkSetKey{Name: fmt.Sprintf("ns%d/n%d", k.ns, k.nm)}
}

func keyFromModel(mk model.Key) key {
	name := mk.(model.NetworkSetKey).Name
	var k key
	if i := strings.Index(name, "/"); i >= 0 {
		fmt.Sscanf(name[:i], "ns%d", &k.ns)
		name = name[i+1:]
	}
	fmt.Sscanf(name, "n%d", &k.nm)
	return k
}

func (k key) json() jc { return jc{"ns": k.ns, "nm": k.nm} }

// ---- the driver --------------------------------------------------------------------------------

type drv struct {
	log     *tracelog.Log
	trie    *ip.CIDRTrie
	ipt     *calc.IpTrie
	q       []ip.CIDR
	prefs   []int
	lpmCIDR bool
}

func (d *drv) start(t int, q []ip.CIDR, prefs []int) {
	d.trie = ip.NewCIDRTrie()
	d.ipt = calc.NewIpTrie()
	d.q = q
	d.prefs = prefs
	qs := make([]jc, len(q))
	for i, c := range q {
		qs[i] = cj(c)
	}
	d.log.Reset(t, jc{"q": qs, "prefs": prefs})
}

func entries(es []ip.CIDRTrieEntry) []jc {
	out := []jc{}
	for _, e := range es {
		out = append(out, jc{"c": cj(e.CIDR), "v": val(e.Data)})
	}
	return out
}

func (d *drv) obs() {
	n := len(d.q)
	get, lpm, cov, isect, cby := make([]int, n), make([]jc, n), make([]bool, n), make([]bool, n), make([]int, n)
	cd, path := make([][]jc, n), make([][]jc, n)
	vis := []jc{}
	d.trie.Visit(func(c ip.CIDR, data any) bool {
		vis = append(vis, jc{"c": cj(c), "v": val(data)})
		return true
	})
	for i, q := range d.q {
		get[i] = val(d.trie.Get(q))
		if int(q.Prefix()) == len(q.Addr().AsNetIP())*8 || d.lpmCIDR {
			c, v := d.trie.LPM(q)
			lpm[i] = jc{"c": cj(c), "v": val(v)}
		} else {
			lpm[i] = jc{"c": cj(q), "v": -1} // not asked
		}
		cov[i] = d.trie.Covers(q)
		isect[i] = d.trie.Intersects(q)
		cby[i] = func() (r int) {
			defer func() {
				if recover() != nil {
					r = 2 // CoveredBy dereferences the nil root of an empty trie
				}
			}()
			if d.trie.CoveredBy(q) {
				return 1
			}
			return 0
		}()
		cd[i] = []jc{}
		for _, c := range d.trie.ClosestDescendants(nil, q) {
			cd[i] = append(cd[i], cj(c))
		}
		path[i] = entries(d.trie.LookupPath(nil, q))
	}
	d.log.Emit("obs", jc{"all": entries(d.trie.ToSlice()), "vis": vis, "get": get, "lpm": lpm, "cov": cov,
		"isect": isect, "cby": cby, "cd": cd, "path": path})
}

func res(k model.Key, ok bool) jc {
	if !ok || k == nil {
		return jc{"f": false, "ns": -1, "nm": -1}
	}
	kk := keyFromModel(k)
	return jc{"f": true, "ns": kk.ns, "nm": kk.nm}
}

func (d *drv) kobs() {
	n := len(d.q)
	keys, lpm, lpmns := make([][]jc, n), make([]jc, n), make([][]jc, n)
	for i, q := range d.q {
		keys[i] = []jc{}
		ks, _ := d.ipt.GetKeys(q)
		for _, k := range ks {
			keys[i] = append(keys[i], keyFromModel(k).json())
		}
		lpmns[i] = []jc{}
		if int(q.Prefix()) == len(q.Addr().AsNetIP())*8 {
			lpm[i] = res(d.ipt.GetLongestPrefixCidr(q.Addr()))
			for _, p := range d.prefs {
				lpmns[i] = append(lpmns[i], res(d.ipt.GetLongestPrefixCidrWithNamespaceIsolation(q.Addr(), nsName(p))))
			}
		} else {
			lpm[i] = res(nil, false)
		}
	}
	d.log.Emit("kobs", jc{"keys": keys, "lpm": lpm, "lpmns": lpmns})
}

func (d *drv) upd(c ip.CIDR, v int) {
	d.trie.Update(c, v)
	d.log.Emit("upd", jc{"c": cj(c), "v": v})
	d.obs()
}

func (d *drv) del(c ip.CIDR) {
	d.trie.Delete(c)
	d.log.Emit("del", jc{"c": cj(c)})
	d.obs()
}

func (d *drv) kins(c ip.CIDR, k key) {
	d.ipt.InsertKey(c, k.model())
	d.log.Emit("kins", jc{"c": cj(c), "k": k.json()})
	d.kobs()
}

func (d *drv) kdel(c ip.CIDR, k key) {
	d.ipt.DeleteKey(c, k.model())
	d.log.Emit("kdel", jc{"c": cj(c), "k": k.json()})
	d.kobs()
}

// guard runs one trace; a panic of the real code ends the trace with a "panic" event, which the trace
// specification never accepts (an operation of the property's domain must give an answer)
func (d *drv) guard(f func()) {
	defer func() {
		if r := recover(); r != nil {
			msg := fmt.Sprint(r)
			if len(msg) > 120 {
				msg = msg[:120]
			}
			d.log.Emit("panic", jc{"what": msg})
		}
	}()
	f()
}

func (d *drv) replay(t int, beh []map[string]any) {
	for _, op := range beh {
		switch tracelog.Str(op["op"]) {
		case "init":
			var q []ip.CIDR
			for _, x := range op["q"].([]any) {
				q = append(q, cidrOf(x))
			}
			d.start(t, q, []int{0, 1, 2})
			d.obs()
			d.kobs()
		case "upd":
			d.upd(cidrOf(op["c"]), tracelog.Int(op["v"]))
		case "del":
			d.del(cidrOf(op["c"]))
		case "kins":
			d.kins(cidrOf(op["c"]), keyOf(op["k"]))
		case "kdel":
			d.kdel(cidrOf(op["c"]), keyOf(op["k"]))
		case "end":
		default:
			panic("unknown op " + tracelog.Str(op["op"]))
		}
	}
}

// ---- random leg: prefixes concentrated in a small range of one of several regions ----------------

type region struct {
	base   net.IP // all-zero bits outside [lo, hi)
	lo, hi int    // prefix lengths used; bits lo..hi-1 are varied
}

var regions = []region{
	{net.IP{10, 0, 0, 0}, 26, 32},
	{net.IP{10, 0, 0, 0}, 13, 19}, // crosses an octet boundary
	{net.IP{0, 0, 0, 0}, 0, 5},    // includes 0.0.0.0/0 and the top bit
	{net.IP{192, 168, 255, 0}, 22, 27},
	{net.ParseIP("2001:db8::"), 122, 128},
	{net.ParseIP("2001:db8:0:0::"), 60, 68}, // crosses the 64-bit halves of V6CommonPrefix
	{net.ParseIP("::"), 0, 5},
	{net.ParseIP("2001:db8::"), 29, 35}, // crosses a 32-bit word
	{net.ParseIP("fd00:0:0:1::"), 62, 66},
}

func setBits(b net.IP, from, to int, v uint64) {
	// writes the (to-from) low bits of v into bit positions from..to-1 (0 = most significant bit)
	for i := from; i < to; i++ {
		bit := (v >> uint(to-1-i)) & 1
		if bit == 1 {
			b[i/8] |= 1 << uint(7-i%8)
		} else {
			b[i/8] &^= 1 << uint(7-i%8)
		}
	}
}

func (r region) bytes() net.IP {
	if v4 := r.base.To4(); v4 != nil {
		return append(net.IP{}, v4...)
	}
	return append(net.IP{}, r.base.To16()...)
}

func (r region) randPrefix(rnd *rand.Rand) ip.CIDR {
	n := r.lo + rnd.Intn(r.hi-r.lo+1)
	b := r.bytes()
	setBits(b, r.lo, r.hi, rnd.Uint64())
	return mk(b, n) // CIDRFromAddrAndPrefix clears the host bits
}

func (r region) randHost(rnd *rand.Rand, under ip.CIDR) ip.CIDR {
	b := r.bytes()
	w := len(b) * 8
	if under != nil {
		copy(b, under.Addr().AsNetIP())
		// random bits below the prefix, but only inside the region's varied range plus the very last bit
		setBits(b, max(int(under.Prefix()), r.lo), max(r.hi, int(under.Prefix())), rnd.Uint64())
	} else {
		setBits(b, r.lo, r.hi, rnd.Uint64())
	}
	if rnd.Intn(3) == 0 {
		setBits(b, w-1, w, 1)
	}
	return mk(b, w)
}

func (d *drv) random(t int, rnd *rand.Rand, tier string) {
	r := regions[rnd.Intn(len(regions))]
	nu := 4 + rnd.Intn(9)
	var u []ip.CIDR
	seen := map[ip.CIDR]bool{}
	for len(u) < nu {
		c := r.randPrefix(rnd)
		if !seen[c] {
			seen[c] = true
			u = append(u, c)
		}
		if len(seen) >= 1<<uint(r.hi-r.lo) { // tiny regions
			break
		}
	}
	q := append([]ip.CIDR{}, u...)
	for _, c := range u {
		if rnd.Intn(2) == 0 {
			h := r.randHost(rnd, c)
			if !seen[h] {
				seen[h] = true
				q = append(q, h)
			}
		}
	}
	for i := 0; i < 3; i++ {
		var c ip.CIDR
		if i == 0 {
			c = r.randHost(rnd, nil)
		} else {
			c = r.randPrefix(rnd)
		}
		if !seen[c] {
			seen[c] = true
			q = append(q, c)
		}
	}
	d.start(t, q, []int{0, 1, 2})
	d.obs()
	d.kobs()
	steps := 12 + rnd.Intn(30)
	if tier == "thorough" {
		steps += rnd.Intn(40)
	}
	nv := 1 + rnd.Intn(3)
	type ck struct {
		c ip.CIDR
		k key
	}
	present := []ck{}
	pDel := 0.2 + 0.4*rnd.Float64()
	for i := 0; i < steps; i++ {
		c := u[rnd.Intn(len(u))]
		switch x := rnd.Float64(); {
		case x < 0.65:
			if rnd.Float64() < pDel {
				d.del(c)
			} else {
				d.upd(c, 1+rnd.Intn(nv))
			}
		default:
			if len(present) > 0 && rnd.Float64() < pDel {
				j := rnd.Intn(len(present))
				p := present[j]
				present = append(present[:j], present[j+1:]...)
				d.kdel(p.c, p.k)
			} else {
				k := key{rnd.Intn(4), 1 + rnd.Intn(3)}
				dup := false
				for _, p := range present {
					if p.c == c && p.k == k {
						dup = true
					}
				}
				if !dup {
					present = append(present, ck{c, k})
				}
				d.kins(c, k)
			}
		}
	}
}

func main() {
	env := tracelog.GetEnv()
	lg, err := tracelog.Open(env.OutPath)
	if err != nil {
		fmt.Fprintln(os.Stderr, err)
		os.Exit(2)
	}
	d := &drv{log: lg, lpmCIDR: os.Getenv("VERIF_C36_LPM_CIDR") == "1"}
	behs, err := tracelog.LoadBehaviours(env.BehPath)
	if err != nil {
		fmt.Fprintln(os.Stderr, err)
		os.Exit(2)
	}
	t := 0
	for _, b := range behs {
		t++
		d.guard(func() { d.replay(t, b) })
	}
	for i := 0; i < env.N; i++ {
		t++
		d.guard(func() { d.random(t, rand.New(rand.NewSource(env.Seed*1000003+int64(i))), env.Tier) })
	}
	if err := lg.Close(); err != nil {
		fmt.Fprintln(os.Stderr, err)
		os.Exit(2)
	}
}
