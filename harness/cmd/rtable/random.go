package main

import (
	"math/rand"
	"sort"
)

// randomBehaviour builds a seeded random history in the same op vocabulary as Gen_RTable.tla over a
// larger universe (3 Felix chains, 2 kernel chains, longer chains, more edits).  It is an environment
// generator only: it keeps the desired state consistent at Apply time (every jump target defined), as
// table.go requires of its callers.
func randomBehaviour(rnd *rand.Rand) []map[string]any {
	fchains := []string{"cali-a", "cali-b", "cali-c"}
	kch := []string{"K1", "K2"}
	m := func(kv ...any) map[string]any {
		out := map[string]any{}
		for i := 0; i+1 < len(kv); i += 2 {
			out[kv[i].(string)] = kv[i+1]
		}
		return out
	}
	rl := func(h string, id int, tgt string) any { return m("h", h, "id", id, "tgt", tgt) }
	foreign := func() any { return rl("", 7+rnd.Intn(3), []string{"", "", "other"}[rnd.Intn(3)]) }
	stale := func() any { return rl("STALE", 1+rnd.Intn(6), []string{"", "", "cali-a", "cali-old"}[rnd.Intn(4)]) }
	oldHook := func() any { return rl("", 1+rnd.Intn(9), []string{"cali-old", "felix-old", "cali-a", "califw-x"}[rnd.Intn(4)]) }
	junk := func() any {
		switch rnd.Intn(4) {
		case 0:
			return stale()
		case 1:
			return oldHook()
		}
		return foreign()
	}
	junkSeq := func(max int) []any {
		out := []any{}
		for n := rnd.Intn(max + 1); n > 0; n-- {
			out = append(out, junk())
		}
		return out
	}
	// start kernel
	k := map[string]any{}
	for _, c := range kch {
		k[c] = junkSeq(4)
	}
	for _, c := range []string{"cali-a", "cali-b", "cali-old", "felix-old", "califw-x", "other", "other2"} {
		if rnd.Intn(3) == 0 {
			k[c] = junkSeq(3)
		}
	}
	if rnd.Intn(8) == 0 {
		k = map[string]any{}
	}
	beh := []map[string]any{m("op", "start", "mode", []string{"insert", "append"}[rnd.Intn(2)], "kernel", k)}

	// desired tracking (for consistency only)
	des := map[string][]any{}
	hooks := map[string][]any{}
	level := map[string]int{"cali-a": 0, "cali-b": 1, "cali-c": 2}
	bodySeq := func(minLevel int, max int) []any {
		out := []any{}
		for n := rnd.Intn(max + 1); n > 0; n-- {
			tgt := ""
			if rnd.Intn(3) == 0 {
				cands := []string{}
				for _, c := range fchains {
					if level[c] > minLevel {
						cands = append(cands, c)
					}
				}
				if len(cands) > 0 {
					tgt = cands[rnd.Intn(len(cands))]
				}
			}
			out = append(out, m("id", 1+rnd.Intn(6), "tgt", tgt))
		}
		return out
	}
	// nftables verdict map (ignored by the iptables backends)
	const fwMap = "filter-cali-fw"
	var mapMembers []any
	mapDefined := false
	randMembers := func() []any {
		out := []any{}
		for _, k := range []string{"e1", "e2", "e3"} {
			if rnd.Intn(2) == 0 {
				out = append(out, m("k", k, "tgt", fchains[rnd.Intn(3)]))
			}
		}
		return out
	}
	fixup := func() {
		// a rule that looks up the verdict map needs the map
		usesMap := false
		for _, rs := range hooks {
			for _, r := range rs {
				usesMap = usesMap || r.(map[string]any)["tgt"] == "@"+fwMap
			}
		}
		if usesMap && !mapDefined {
			mapMembers, mapDefined = randMembers(), true
			beh = append(beh, m("op", "set_map", "name", fwMap, "members", mapMembers))
		}
		// define every chain that is mentioned anywhere
		for changed := true; changed; {
			changed = false
			need := map[string]bool{}
			if mapDefined {
				for _, r := range mapMembers {
					need[r.(map[string]any)["tgt"].(string)] = true
				}
			}
			for _, rs := range hooks {
				for _, r := range rs {
					need[r.(map[string]any)["tgt"].(string)] = true
				}
			}
			for _, rs := range des {
				for _, r := range rs {
					need[r.(map[string]any)["tgt"].(string)] = true
				}
			}
			for _, c := range fchains {
				if _, ok := des[c]; need[c] && !ok {
					rs := bodySeq(level[c], 3)
					des[c] = rs
					beh = append(beh, m("op", "set_chain", "name", c, "rules", rs))
					changed = true
				}
			}
		}
	}
	randEdit := func() map[string]any {
		all := []string{"K1", "K2", "cali-a", "cali-b", "cali-c", "other", "K1", "cali-a", "cali-a", "cali-b"}
		c := all[rnd.Intn(len(all))]
		switch rnd.Intn(13) {
		case 11:
			return []map[string]any{m("kind", "deltable"), m("kind", "delmap", "map", fwMap),
				m("kind", "delmember", "map", fwMap, "k", []string{"e1", "e2", "e3"}[rnd.Intn(3)])}[rnd.Intn(3)]
		case 12:
			if rnd.Intn(2) == 0 {
				return m("kind", "addmember", "map", fwMap, "k", "e9", "tgt", fchains[rnd.Intn(3)])
			}
			return m("kind", "addmap", "map", "filter-cali-old", "members", randMembers())
		case 9, 10:
			return m("kind", "replace", "chain", c, "pos", []int{1, 2, 9, 9}[rnd.Intn(4)], "rule", junk())
		case 0, 1:
			return m("kind", "ins", "chain", c, "pos", []int{0, 1, 2, 9}[rnd.Intn(4)], "rule", junk())
		case 2:
			return m("kind", "del", "chain", c, "pos", 1+rnd.Intn(3))
		case 3:
			return m("kind", "swap", "chain", c)
		case 4:
			return m("kind", "restamp", "chain", c, "pos", []int{1, 9}[rnd.Intn(2)])
		case 5:
			return m("kind", "flush", "chain", fchains[rnd.Intn(3)])
		case 6:
			return m("kind", "delchain", "chain", fchains[rnd.Intn(3)])
		case 7:
			return m("kind", "addchain", "chain", []string{"cali-old", "felix-old", "califw-x", "cali-c", "other2"}[rnd.Intn(5)], "rules", junkSeq(3))
		}
		return m("kind", "ins", "chain", kch[rnd.Intn(2)], "pos", []int{0, 9}[rnd.Intn(2)], "rule", foreign())
	}
	if rnd.Intn(6) == 0 {
		// a force-programmed parent that only references a child, later removed
		rb := bodySeq(9, 2)
		ra := append(bodySeq(9, 1), m("id", 1+rnd.Intn(6), "tgt", "cali-b"))
		des["cali-b"], des["cali-a"] = rb, ra
		beh = append(beh, m("op", "set_chain", "name", "cali-b", "rules", rb), m("op", "set_chain", "name", "cali-a", "rules", ra, "force", true),
			m("op", "apply", "fw", 0, "fr", 0, "pre", "none", "prefail", false))
		if rnd.Intn(2) == 0 {
			beh = append(beh, m("op", "tick"))
		}
		delete(des, "cali-a")
		beh = append(beh, m("op", "remove_chain", "name", "cali-a"), m("op", "apply", "fw", 0, "fr", 0, "pre", "none", "prefail", false))
	} else if rnd.Intn(5) < 3 {
		// scenario mode: first bring a referenced chain structure into the kernel, so that the rest of the
		// history (edits, tweaks, failures) acts on a converged table
		rb := bodySeq(9, 3)
		ra := append(bodySeq(9, 2), m("id", 1+rnd.Intn(6), "tgt", []string{"", "cali-b"}[rnd.Intn(2)]))
		ri := append(bodySeq(9, 1), m("id", 1+rnd.Intn(6), "tgt", "cali-a"))
		rapp := bodySeq(9, 1)
		des["cali-b"], des["cali-a"] = rb, ra
		hooks["iK1"], hooks["aK1"] = ri, rapp
		beh = append(beh, m("op", "set_chain", "name", "cali-b", "rules", rb), m("op", "set_chain", "name", "cali-a", "rules", ra),
			m("op", "set_ins", "chain", "K1", "rules", ri), m("op", "set_app", "chain", "K1", "rules", rapp),
			m("op", "apply", "fw", 0, "fr", 0, "pre", "none", "prefail", false))
	}
	steps := 8 + rnd.Intn(18)
	for i := 0; i < steps; i++ {
		switch c := rnd.Intn(20); {
		case c < 4:
			name := fchains[rnd.Intn(3)]
			rs := bodySeq(level[name], 4)
			des[name] = rs
			beh = append(beh, m("op", "set_chain", "name", name, "rules", rs, "force", rnd.Intn(6) == 0))
		case c < 5:
			name := fchains[rnd.Intn(3)]
			if _, ok := des[name]; ok {
				delete(des, name)
				beh = append(beh, m("op", "remove_chain", "name", name))
			}
		case c < 6 && rnd.Intn(3) == 0:
			if mapDefined && rnd.Intn(4) == 0 {
				// the hook rule goes first, then the map (as callers do)
				hooks["iK1"] = bodySeq(-1, 2)
				beh = append(beh, m("op", "set_ins", "chain", "K1", "rules", hooks["iK1"]), m("op", "remove_map", "name", fwMap))
				mapDefined, mapMembers = false, nil
			} else {
				mapMembers, mapDefined = randMembers(), true
				beh = append(beh, m("op", "set_map", "name", fwMap, "members", mapMembers))
				if rnd.Intn(2) == 0 {
					hooks["iK1"] = append(bodySeq(-1, 1), m("id", 6, "tgt", "@"+fwMap))
					beh = append(beh, m("op", "set_ins", "chain", "K1", "rules", hooks["iK1"]))
				}
			}
		case c < 7:
			kc := kch[rnd.Intn(2)]
			rs := bodySeq(-1, 3)
			hooks["i"+kc] = rs
			beh = append(beh, m("op", "set_ins", "chain", kc, "rules", rs))
		case c < 8:
			kc := kch[rnd.Intn(2)]
			rs := bodySeq(-1, 2)
			hooks["a"+kc] = rs
			beh = append(beh, m("op", "set_app", "chain", kc, "rules", rs))
		case c < 11:
			beh = append(beh, m("op", "edit", "edit", randEdit()))
		case c < 12:
			beh = append(beh, m("op", "tick"))
		case c < 13:
			des = map[string][]any{}
			hooks = map[string][]any{}
			mapDefined, mapMembers = false, nil
			beh = append(beh, m("op", "restart"))
		default:
			fixup()
			op := m("op", "apply", "fw", 0, "fr", 0, "pre", "none", "prefail", false)
			switch rnd.Intn(10) {
			case 0:
				op["fw"] = []int{1, 1, 6, 99}[rnd.Intn(4)]
			case 1:
				op["fr"] = []int{1, 1, 99}[rnd.Intn(3)]
			case 2, 3:
				op["pre"] = "write"
				op["edit"] = randEdit()
				op["prefail"] = rnd.Intn(3) > 0
			case 4:
				op["pre"] = "read"
				op["edit"] = randEdit()
			}
			beh = append(beh, op)
			if op["fw"] == 99 || op["fr"] == 99 {
				// (iptables: the Apply fails and the driver restarts; keep the tracking in step by
				// re-sending everything)
				for _, c := range fchains {
					if rs, ok := des[c]; ok {
						beh = append(beh, m("op", "set_chain", "name", c, "rules", rs))
					}
				}
				keys := []string{}
				for key := range hooks {
					keys = append(keys, key)
				}
				sort.Strings(keys)
				for _, key := range keys {
					rs := hooks[key]
					opn := "set_ins"
					if key[0] == 'a' {
						opn = "set_app"
					}
					beh = append(beh, m("op", opn, "chain", key[1:], "rules", rs))
				}
				if mapDefined {
					beh = append(beh, m("op", "set_map", "name", fwMap, "members", mapMembers))
				}
			}
		}
	}
	fixup()
	return beh
}
