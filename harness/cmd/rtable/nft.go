package main

import (
	"context"
	"errors"
	"fmt"
	"regexp"
	"sort"
	"strconv"
	"strings"
	"time"

	"sigs.k8s.io/knftables"

	"github.com/projectcalico/calico/felix/environment"
	"github.com/projectcalico/calico/felix/generictables"
	"github.com/projectcalico/calico/felix/iptables/testutils"
	"github.com/projectcalico/calico/felix/nftables"
	"github.com/projectcalico/calico/felix/rules/rulesdefs"
	"github.com/projectcalico/calico/lib/logrusr"
)

var nftBaseChains = []string{
	"filter-INPUT", "filter-FORWARD", "filter-OUTPUT",
	"nat-PREROUTING", "nat-INPUT", "nat-OUTPUT", "nat-POSTROUTING",
	"mangle-PREROUTING", "mangle-INPUT", "mangle-FORWARD", "mangle-OUTPUT", "mangle-POSTROUTING",
	"raw-PREROUTING", "raw-OUTPUT",
}

// nftBackend: felix/nftables.NftablesTable over knftables.Fake, wrapped (like the package's own
// fake_test.go wrapper, which is not importable) to inject failures and observe commands.
type nftBackend struct {
	d     *drv
	fake  *knftables.Fake
	table *nftables.NftablesTable
	now   time.Time
	nextH int

	runErrors, listErrors int
	readPending           bool
	preRead, preWrite     func()
}

func newNftBackend(d *drv) *nftBackend { return &nftBackend{d: d} }

func (b *nftBackend) name() string      { return "nftables" }
func (b *nftBackend) owns() bool        { return true }
func (b *nftBackend) kchains() []string { return nftBaseChains }
func (b *nftBackend) realChain(a string) string {
	switch a {
	case "K1":
		return "filter-FORWARD"
	case "K2":
		return "filter-INPUT"
	}
	return a
}

// ---- syntax conversion -----------------------------------------------------------------------------

func nftRender(chain string, r rule) *knftables.Rule {
	s := fmt.Sprintf("meta l4proto %d counter", r.ID)
	if strings.HasPrefix(r.Tgt, "@") {
		s = fmt.Sprintf("meta l4proto %d iifname vmap %s", r.ID, r.Tgt)
	} else if r.Tgt != "" {
		s += " jump " + r.Tgt
	} else {
		s += " accept"
	}
	out := &knftables.Rule{Chain: chain, Rule: s}
	if r.H != "" {
		c := "cali:" + r.H + ";"
		out.Comment = &c
	}
	return out
}

var (
	nftIDRe   = regexp.MustCompile(`l4proto (\d+)`)
	nftJumpRe = regexp.MustCompile(`(?:jump|goto) (\S+)`)
	nftVmapRe = regexp.MustCompile(`vmap (@\S+)`)
)

func nftParse(r *knftables.Rule) rule {
	var out rule
	if r.Comment != nil {
		c := strings.Split(*r.Comment, ";")[0]
		if strings.HasPrefix(c, "cali:") {
			out.H = strings.TrimPrefix(c, "cali:")
		}
	}
	if m := nftIDRe.FindStringSubmatch(r.Rule); m != nil {
		out.ID, _ = strconv.Atoi(m[1])
	}
	if m := nftJumpRe.FindStringSubmatch(r.Rule); m != nil {
		out.Tgt = m[1]
	}
	if m := nftVmapRe.FindStringSubmatch(r.Rule); m != nil {
		out.Tgt = m[1]
	}
	return out
}

func nftRules(bs []body) []generictables.Rule {
	out := []generictables.Rule{}
	for _, x := range bs {
		var a generictables.Action = nftables.AcceptAction{}
		m := nftables.Match().ProtocolNum(uint8(x.ID))
		if strings.HasPrefix(x.Tgt, "@") {
			// "@<layer>-<name>": a verdict-map lookup, as the workload dispatch chains do
			parts := strings.SplitN(x.Tgt[1:], "-", 2)
			m = m.(nftables.NFTMatchCriteria).SetLayer(parts[0]).InInterfaceVMAP(parts[1])
			a = nil
		} else if x.Tgt != "" {
			a = nftables.JumpAction{Target: x.Tgt}
		}
		out = append(out, generictables.Rule{Match: m, Action: a})
	}
	return out
}

// ---- backend -----------------------------------------------------------------------------------------

func (b *nftBackend) start(k kernelT, mode string) {
	b.fake = knftables.NewFake(knftables.IPv4Family, "calico")
	b.now = time.Unix(1000000, 0)
	b.nextH = 1000000
	names := []string{}
	for c := range k {
		names = append(names, c)
	}
	sort.Strings(names)
	for _, c := range names {
		b.setKernelChain(c, k[c], true)
	}
	b.restart()
}

func (b *nftBackend) restart() {
	fd := environment.NewFeatureDetector(nil)
	// no real "iptables --version" / /proc/version: feature detection talks to the repository's mock
	fdp := testutils.NewMockDataplane("filter", map[string][]string{}, "nft")
	fd.NewCmd = fdp.NewCmd
	fd.GetKernelVersionReader = fdp.GetKernelVersionReader
	b.table = nftables.NewTable("calico", 4, rulesdefs.RuleHashPrefix, fd, nftables.TableOptions{
		NewDataplane: func(fam knftables.Family, name string, _ ...knftables.Option) (knftables.Interface, error) {
			return &nftWrap{b: b}, nil
		},
		RefreshInterval: refreshInterval,
		SleepOverride:   func(d time.Duration) { b.now = b.now.Add(d) },
		NowOverride:     func() time.Time { return b.now },
		OpRecorder:      logrusr.NewSummarizer("verif"),
	}, true)
}

func (b *nftBackend) setChain(name string, rules []body, force bool) {
	b.table.UpdateChain(&generictables.Chain{Name: name, Rules: nftRules(rules), ForceProgramming: force})
}
func (b *nftBackend) removeChain(name string)            { b.table.RemoveChainByName(name) }
func (b *nftBackend) setIns(chain string, rules []body)  { b.table.InsertOrAppendRules(chain, nftRules(rules)) }
func (b *nftBackend) setApp(chain string, rules []body)  { b.table.AppendRules(chain, nftRules(rules)) }
func (b *nftBackend) tick()                              { b.now = b.now.Add(refreshInterval + time.Second) }
func (b *nftBackend) setHooks(preRead, preWrite func()) { b.preRead, b.preWrite = preRead, preWrite }
func (b *nftBackend) failWrites(n int)                   { b.runErrors = n }

// ---- verdict maps ---------------------------------------------------------------------------------------

func (b *nftBackend) setMap(name string, members []mapMember) {
	ms := map[string][]string{}
	for _, m := range members {
		ms[m.K] = []string{"goto " + m.Tgt} // the form rules.DispatchMappings produces
	}
	b.table.AddOrReplaceMap(nftables.MapMetadata{Name: name, Type: nftables.MapTypeInterfaceMatch}, ms)
}

func (b *nftBackend) removeMap(name string) { b.table.RemoveMap(name) }

func (b *nftBackend) kmaps() kmapsT {
	out := kmapsT{}
	b.fake.RLock()
	defer b.fake.RUnlock()
	if b.fake.Table == nil {
		return out
	}
	for name, m := range b.fake.Table.Maps {
		ms := []mapMember{}
		for _, e := range m.Elements {
			mm := mapMember{}
			if len(e.Key) > 0 {
				mm.K = e.Key[0]
			}
			if len(e.Value) > 0 {
				mm.Tgt = strings.TrimPrefix(strings.TrimPrefix(e.Value[0], "goto "), "jump ")
			}
			ms = append(ms, mm)
		}
		sort.Slice(ms, func(i, j int) bool { return ms[i].K < ms[j].K })
		out[name] = ms
	}
	return out
}

func (b *nftBackend) setKernelMap(name string, members []mapMember, present bool) {
	b.ensureTable()
	b.fake.Lock()
	defer b.fake.Unlock()
	t := b.fake.Table
	if !present {
		delete(t.Maps, name)
		return
	}
	fm := &knftables.FakeMap{Map: knftables.Map{Name: name, Type: "ifname : verdict"}}
	if old := t.Maps[name]; old != nil {
		fm.Map = old.Map
	}
	for _, m := range members {
		fm.Elements = append(fm.Elements, &knftables.Element{Map: name, Key: []string{m.K}, Value: []string{"goto " + m.Tgt}})
	}
	t.Maps[name] = fm
}

// delTable: `nft delete table ip calico` by somebody else
func (b *nftBackend) delTable() {
	if b.fake.Table == nil {
		return
	}
	tx := b.fake.NewTransaction()
	tx.Delete(&knftables.Table{})
	if err := b.fake.Run(context.Background(), tx); err != nil {
		panic(err)
	}
}

func (b *nftBackend) ensureTable() {
	if b.fake.Table == nil {
		tx := b.fake.NewTransaction()
		tx.Add(&knftables.Table{})
		if err := b.fake.Run(context.Background(), tx); err != nil {
			panic(err)
		}
	}
}
func (b *nftBackend) failReads(n int)                    { b.listErrors = n }
func (b *nftBackend) clearFailures()                     { b.runErrors, b.listErrors = 0, 0 }

func (b *nftBackend) apply() (ok bool) {
	defer func() {
		if r := recover(); r != nil {
			ok = false
		}
	}()
	b.table.Apply()
	return true
}

func (b *nftBackend) kernel() kernelT {
	k := kernelT{}
	b.fake.RLock()
	defer b.fake.RUnlock()
	if b.fake.Table == nil {
		return k
	}
	for name, ch := range b.fake.Table.Chains {
		k[name] = []rule{}
		for _, r := range ch.Rules {
			k[name] = append(k[name], nftParse(r))
		}
	}
	return k
}

// setKernelChain edits the fake's table directly (other software writing to the kernel).
func (b *nftBackend) setKernelChain(chain string, rules []rule, present bool) {
	b.ensureTable()
	b.fake.Lock()
	defer b.fake.Unlock()
	t := b.fake.Table
	if !present {
		delete(t.Chains, chain)
		return
	}
	fc := &knftables.FakeChain{Chain: knftables.Chain{Name: chain}}
	if old := t.Chains[chain]; old != nil {
		fc.Chain = old.Chain
	}
	for _, r := range rules {
		kr := nftRender(chain, r)
		b.nextH++
		h := b.nextH
		kr.Handle = &h
		fc.Rules = append(fc.Rules, kr)
	}
	t.Chains[chain] = fc
}

// ---- knftables.Interface wrapper ------------------------------------------------------------------------

type nftWrap struct{ b *nftBackend }

func (w *nftWrap) NewTransaction() *knftables.Transaction { return w.b.fake.NewTransaction() }

// nftTouched: syntax of the transaction -> chains whose rules it flushes, adds, deletes or which it deletes.
func (b *nftBackend) nftTouched(tx *knftables.Transaction) []string {
	out := []string{}
	for _, line := range strings.Split(tx.String(), "\n") {
		f := strings.Fields(line)
		if len(f) < 4 {
			continue
		}
		verb, typ := f[0], f[1]
		switch typ {
		case "table":
			if verb == "delete" || verb == "destroy" || verb == "flush" {
				for c := range b.kernel() {
					out = append(out, c)
				}
			}
		case "chain":
			if verb != "add" && verb != "create" && len(f) >= 5 {
				out = append(out, f[4])
			}
		case "rule":
			if len(f) >= 5 {
				out = append(out, f[4])
			}
		}
	}
	return out
}

func (w *nftWrap) Run(ctx context.Context, tx *knftables.Transaction) error {
	b := w.b
	if b.preWrite != nil {
		f := b.preWrite
		b.preWrite = nil
		f()
	}
	touched := b.nftTouched(tx)
	if b.runErrors > 0 {
		if b.runErrors < 99 {
			b.runErrors--
		}
		b.d.onWrite(false, true, touched, "")
		return errors.New("injected nft failure")
	}
	err := b.fake.Run(ctx, tx)
	why := ""
	if err != nil {
		why = err.Error()
	}
	b.d.onWrite(err == nil, false, touched, why)
	return err
}

func (w *nftWrap) Check(ctx context.Context, tx *knftables.Transaction) error {
	return w.b.fake.Check(ctx, tx)
}

func (w *nftWrap) ListAll(ctx context.Context) (map[string][]string, error) {
	b := w.b
	if b.preRead != nil {
		f := b.preRead
		b.preRead = nil
		f()
	}
	if b.listErrors > 0 {
		if b.listErrors < 99 {
			b.listErrors--
		}
		b.readPending = false
		b.d.onRead(false)
		return nil, errors.New("injected nft list failure")
	}
	b.readPending = true
	return b.fake.ListAll(ctx)
}

func (w *nftWrap) List(ctx context.Context, objectType string) ([]string, error) {
	out, err := w.b.fake.List(ctx, objectType)
	if err != nil && knftables.IsNotFound(err) && objectType == "chain" && w.b.readPending {
		// no table: Felix has learnt that the table is empty
		w.b.readPending = false
		w.b.d.onRead(true)
	}
	return out, err
}

func (w *nftWrap) ListRules(ctx context.Context, chain string) ([]*knftables.Rule, error) {
	out, err := w.b.fake.ListRules(ctx, chain)
	if w.b.readPending && chain == "" {
		w.b.readPending = false
		w.b.d.onRead(err == nil || knftables.IsNotFound(err))
	}
	return out, err
}

func (w *nftWrap) ListElements(ctx context.Context, objectType, name string) ([]*knftables.Element, error) {
	return w.b.fake.ListElements(ctx, objectType, name)
}

func (w *nftWrap) ListCounters(ctx context.Context) ([]*knftables.Counter, error) {
	return w.b.fake.ListCounters(ctx)
}
