// Driver for C15: replays TLC-generated behaviours and seeded random histories (start kernel, desired
// updates, out-of-band edits, injected failures, restarts) on the real felix/iptables.Table over the
// repository's testutils.MockDataplane (legacy and nft backend modes) and on the real
// felix/nftables.NftablesTable over the knftables fake.  The whole content of the kernel mock is logged
// after every kernel command and every edit; nothing is judged here (see specs/reconcile_table).
package main

import (
	"fmt"
	"io"
	"math/rand"
	"os"
	"sort"
	"strings"

	"github.com/sirupsen/logrus"

	"verifharness/tracelog"
)

type rule struct {
	H   string `json:"h"`
	ID  int    `json:"id"`
	Tgt string `json:"tgt"`
}

type body struct {
	ID  int    `json:"id"`
	Tgt string `json:"tgt"`
}

type kernelT map[string][]rule

// member of an nftables verdict map: interface -> goto chain
type mapMember struct {
	K   string `json:"k"`
	Tgt string `json:"tgt"`
}

type kmapsT map[string][]mapMember

type edit struct {
	Kind  string
	Chain string
	Pos   int
	Rule  rule
	Rules []rule
	// verdict-map edits (nftables only)
	Map     string
	K       string
	Tgt     string
	Members []mapMember
}

// backend = one table implementation over its kernel mock.
type backend interface {
	name() string
	owns() bool
	kchains() []string
	realChain(abstract string) string
	start(k kernelT, mode string)
	restart()
	setChain(name string, rules []body, force bool)
	removeChain(name string)
	setIns(chain string, rules []body)
	setApp(chain string, rules []body)
	apply() bool
	kernel() kernelT
	setKernelChain(chain string, rules []rule, present bool)
	// nftables verdict maps (no-ops / empty for the iptables backends)
	setMap(name string, members []mapMember)
	removeMap(name string)
	kmaps() kmapsT
	setKernelMap(name string, members []mapMember, present bool)
	delTable()
	failWrites(n int)
	failReads(n int)
	clearFailures()
	setHooks(preRead, preWrite func())
	tick()
}

type drv struct {
	log *tracelog.Log
	be  backend
	// names of the verdict maps currently asked for (bookkeeping for the composite "program" op)
	desiredMaps map[string]bool
}

func (d *drv) onRead(ok bool) { d.log.Emit("read", map[string]any{"ok": ok}) }
func (d *drv) onWrite(ok, injected bool, touched []string, why string) {
	sort.Strings(touched)
	if touched == nil {
		touched = []string{}
	}
	d.log.Emit("write", map[string]any{"ok": ok, "injected": injected, "touched": dedup(touched), "kernel": d.be.kernel(), "maps": d.be.kmaps(), "why": why})
}

func dedup(s []string) []string {
	out := []string{}
	for i, x := range s {
		if i == 0 || x != s[i-1] {
			out = append(out, x)
		}
	}
	return out
}

// ---- op decoding -------------------------------------------------------------------------------

func toRule(v any) rule {
	m, _ := v.(map[string]any)
	return rule{H: tracelog.Str(m["h"]), ID: tracelog.Int(m["id"]), Tgt: tracelog.Str(m["tgt"])}
}

func toRules(v any) []rule {
	out := []rule{}
	if a, ok := v.([]any); ok {
		for _, x := range a {
			out = append(out, toRule(x))
		}
	}
	return out
}

func toBodies(v any) []body {
	out := []body{}
	for _, r := range toRules(v) {
		out = append(out, body{ID: r.ID, Tgt: r.Tgt})
	}
	return out
}

// bodiesFor: the iptables backends have no verdict maps; rules that look one up ("@map") are left out there.
func (d *drv) bodiesFor(v any) []body {
	out := []body{}
	for _, b := range toBodies(v) {
		if strings.HasPrefix(b.Tgt, "@") && !d.be.owns() {
			continue
		}
		out = append(out, b)
	}
	return out
}

func toMembers(v any) []mapMember {
	out := []mapMember{}
	if a, ok := v.([]any); ok {
		for _, x := range a {
			m, _ := x.(map[string]any)
			out = append(out, mapMember{K: tracelog.Str(m["k"]), Tgt: tracelog.Str(m["tgt"])})
		}
	}
	sort.Slice(out, func(i, j int) bool { return out[i].K < out[j].K })
	return out
}

func (d *drv) toEdit(v any) edit {
	m, _ := v.(map[string]any)
	e := edit{Kind: tracelog.Str(m["kind"]), Chain: d.be.realChain(tracelog.Str(m["chain"])), Pos: tracelog.Int(m["pos"])}
	if r, ok := m["rule"]; ok {
		e.Rule = toRule(r)
	}
	if r, ok := m["rules"]; ok {
		e.Rules = toRules(r)
	}
	e.Map, e.K, e.Tgt = tracelog.Str(m["map"]), tracelog.Str(m["k"]), tracelog.Str(m["tgt"])
	if ms, ok := m["members"]; ok {
		e.Members = toMembers(ms)
	}
	return e
}

// uniq drops repeated identical rules of a chain.  (Environment restriction: the iptables mock's
// delete-by-value removes every identical rule at once where the real iptables removes one, so a
// chain holding the same Felix-marked rule twice cannot be cleaned up against the mock.)
func uniq(rs []rule) []rule {
	out := []rule{}
	seen := map[rule]bool{}
	for _, r := range rs {
		if !seen[r] {
			seen[r] = true
			out = append(out, r)
		}
	}
	return out
}

// applyEdit performs an out-of-band edit on the kernel mock (same meaning as EditFn in RTableEnv.tla);
// returns false when it changes nothing.
func (d *drv) applyEdit(e edit) bool {
	switch e.Kind {
	case "deltable", "delmap", "addmap", "delmember", "addmember":
		return d.applyMapEdit(e)
	}
	k := d.be.kernel()
	cur, present := k[e.Chain]
	switch e.Kind {
	case "ins":
		if !present {
			return false
		}
		p := e.Pos
		if p > len(cur) {
			p = len(cur)
		}
		n := append([]rule{}, cur[:p]...)
		n = append(n, e.Rule)
		n = append(n, cur[p:]...)
		if len(uniq(n)) != len(n) {
			return false
		}
		d.be.setKernelChain(e.Chain, n, true)
	case "del":
		if !present || e.Pos < 1 || e.Pos > len(cur) {
			return false
		}
		n := append([]rule{}, cur[:e.Pos-1]...)
		n = append(n, cur[e.Pos:]...)
		d.be.setKernelChain(e.Chain, n, true)
	case "swap":
		if !present || len(cur) < 2 || cur[0] == cur[1] {
			return false
		}
		n := append([]rule{cur[1], cur[0]}, cur[2:]...)
		d.be.setKernelChain(e.Chain, n, true)
	case "restamp", "replace":
		p := e.Pos
		if p == 9 {
			p = len(cur)
		}
		if !present || p < 1 || p > len(cur) {
			return false
		}
		n := append([]rule{}, cur...)
		if e.Kind == "restamp" {
			if cur[p-1].H == "" || cur[p-1].H == staleHash {
				return false
			}
			n[p-1].H = staleHash
		} else {
			n[p-1] = e.Rule
		}
		if len(uniq(n)) != len(n) {
			return false
		}
		d.be.setKernelChain(e.Chain, n, true)
	case "flush":
		if !present || len(cur) == 0 {
			return false
		}
		d.be.setKernelChain(e.Chain, []rule{}, true)
	case "delchain":
		if !present {
			return false
		}
		// the kernel refuses to delete a chain that a verdict-map element points to
		for _, ms := range d.be.kmaps() {
			for _, m := range ms {
				if m.Tgt == e.Chain {
					return false
				}
			}
		}
		d.be.setKernelChain(e.Chain, nil, false)
	case "addchain":
		d.be.setKernelChain(e.Chain, uniq(e.Rules), true)
	default:
		panic("unknown edit " + e.Kind)
	}
	d.log.Emit("edit", map[string]any{"kernel": d.be.kernel(), "maps": d.be.kmaps(), "kind": e.Kind, "chain": e.Chain})
	return true
}

// applyMapEdit: out-of-band edits of the nftables table's verdict maps / of the whole table.
func (d *drv) applyMapEdit(e edit) bool {
	if !d.be.owns() {
		return false
	}
	km := d.be.kmaps()
	cur, present := km[e.Map]
	// the kernel only accepts map elements whose verdict names an existing chain
	chains := d.be.kernel()
	for _, m := range e.Members {
		if _, ok := chains[m.Tgt]; !ok && e.Kind == "addmap" {
			return false
		}
	}
	if _, ok := chains[e.Tgt]; !ok && e.Kind == "addmember" {
		return false
	}
	switch e.Kind {
	case "deltable":
		if len(km) == 0 && len(d.be.kernel()) == 0 {
			return false
		}
		d.be.delTable()
	case "delmap":
		if !present {
			return false
		}
		d.be.setKernelMap(e.Map, nil, false)
	case "addmap":
		if present {
			return false
		}
		d.be.setKernelMap(e.Map, e.Members, true)
	case "delmember":
		n := []mapMember{}
		for _, m := range cur {
			if m.K != e.K {
				n = append(n, m)
			}
		}
		if !present || len(n) == len(cur) {
			return false
		}
		d.be.setKernelMap(e.Map, n, true)
	case "addmember":
		if !present {
			return false
		}
		for _, m := range cur {
			if m.K == e.K {
				return false
			}
		}
		d.be.setKernelMap(e.Map, append(cur, mapMember{K: e.K, Tgt: e.Tgt}), true)
	}
	d.log.Emit("edit", map[string]any{"kernel": d.be.kernel(), "maps": d.be.kmaps(), "kind": e.Kind, "chain": e.Map})
	return true
}

func (d *drv) doApply(fw, fr int, pre string, e edit, prefail bool) {
	d.be.clearFailures()
	d.log.Emit("apply_begin", nil)
	var preRead, preWrite func()
	switch pre {
	case "read":
		preRead = func() { d.applyEdit(e) }
	case "write":
		preWrite = func() {
			if d.applyEdit(e) && prefail {
				d.be.failWrites(1)
			}
		}
	}
	d.be.setHooks(preRead, preWrite)
	if fw > 0 {
		d.be.failWrites(fw)
	}
	if fr > 0 {
		d.be.failReads(fr)
	}
	ok := d.be.apply()
	d.be.setHooks(nil, nil)
	d.be.clearFailures()
	d.log.Emit("apply_end", map[string]any{"ok": ok})
	if !ok {
		// a failed Apply takes Felix down; the next thing that exists is a new process
		d.doRestart()
	}
}

func (d *drv) doRestart() {
	d.desiredMaps = map[string]bool{}
	d.be.restart()
	d.log.Emit("restart", nil)
}

func (d *drv) step(op map[string]any) {
	switch tracelog.Str(op["op"]) {
	case "set_chain":
		rules := d.bodiesFor(op["rules"])
		name := tracelog.Str(op["name"])
		force, _ := op["force"].(bool)
		d.be.setChain(name, rules, force)
		d.log.Emit("set_chain", map[string]any{"name": name, "rules": rules, "force": force})
	case "remove_chain":
		name := tracelog.Str(op["name"])
		d.be.removeChain(name)
		d.log.Emit("remove_chain", map[string]any{"name": name})
	case "set_map":
		if d.be.owns() {
			name, ms := tracelog.Str(op["name"]), toMembers(op["members"])
			d.desiredMaps[name] = true
			d.be.setMap(name, ms)
			d.log.Emit("set_map", map[string]any{"name": name, "members": ms})
		}
	case "remove_map":
		// (Maps.RemoveMap of a map that this Table was never given dereferences nil: caller contract)
		if d.be.owns() && d.desiredMaps[tracelog.Str(op["name"])] {
			name := tracelog.Str(op["name"])
			delete(d.desiredMaps, name)
			d.be.removeMap(name)
			d.log.Emit("remove_map", map[string]any{"name": name})
		}
	case "set_ins":
		rules := d.bodiesFor(op["rules"])
		c := d.be.realChain(tracelog.Str(op["chain"]))
		d.be.setIns(c, rules)
		d.log.Emit("set_ins", map[string]any{"chain": c, "rules": rules})
	case "set_app":
		rules := d.bodiesFor(op["rules"])
		c := d.be.realChain(tracelog.Str(op["chain"]))
		d.be.setApp(c, rules)
		d.log.Emit("set_app", map[string]any{"chain": c, "rules": rules})
	case "program":
		// a complete desired state: remove what is no longer wanted, (re)send the rest
		want, _ := op["chains"].(map[string]any)
		for _, c := range []string{"cali-a", "cali-b", "cali-c"} {
			if _, ok := want[c]; !ok {
				d.step(map[string]any{"op": "remove_chain", "name": c})
			}
		}
		names := []string{}
		for c := range want {
			names = append(names, c)
		}
		sort.Strings(names)
		forced := map[string]bool{}
		if fs, ok := op["force"].([]any); ok {
			for _, f := range fs {
				forced[tracelog.Str(f)] = true
			}
		}
		for _, c := range names {
			d.step(map[string]any{"op": "set_chain", "name": c, "rules": want[c], "force": forced[c]})
		}
		// verdict maps before the rules that look them up (and removed after)
		wantMaps, _ := op["maps"].(map[string]any)
		mnames := []string{}
		for n := range wantMaps {
			mnames = append(mnames, n)
		}
		sort.Strings(mnames)
		for _, n := range mnames {
			d.step(map[string]any{"op": "set_map", "name": n, "members": wantMaps[n]})
		}
		d.step(map[string]any{"op": "set_ins", "chain": "K1", "rules": op["ins"]})
		d.step(map[string]any{"op": "set_app", "chain": "K1", "rules": op["app"]})
		for n := range d.desiredMaps {
			if _, ok := wantMaps[n]; !ok {
				d.step(map[string]any{"op": "remove_map", "name": n})
			}
		}
	case "edit":
		d.applyEdit(d.toEdit(op["edit"]))
	case "tick":
		d.be.tick()
		d.log.Emit("tick", nil)
	case "restart":
		d.doRestart()
	case "apply":
		var e edit
		pre := tracelog.Str(op["pre"])
		if pre == "read" || pre == "write" {
			e = d.toEdit(op["edit"])
		}
		pf, _ := op["prefail"].(bool)
		d.doApply(tracelog.Int(op["fw"]), tracelog.Int(op["fr"]), pre, e, pf)
	case "end", "start":
	default:
		panic("unknown op " + tracelog.Str(op["op"]))
	}
}

func (d *drv) run(t int, be backend, beh []map[string]any) {
	d.be = be
	d.desiredMaps = map[string]bool{}
	mode := "insert"
	k := kernelT{}
	if len(beh) > 0 && tracelog.Str(beh[0]["op"]) == "start" {
		mode = tracelog.Str(beh[0]["mode"])
		if km, ok := beh[0]["kernel"].(map[string]any); ok {
			for c, rs := range km {
				k[be.realChain(c)] = uniq(toRules(rs))
			}
		}
	}
	if be.owns() {
		mode = "insert"
	}
	be.start(k, mode)
	d.log.Reset(t, map[string]any{
		"cfg":     map[string]any{"mode": mode, "ownsAll": be.owns(), "kchains": be.kchains()},
		"backend": be.name(), "kernel": be.kernel(), "maps": be.kmaps(),
	})
	for _, op := range beh {
		d.step(op)
	}
	// closing obligation: once the refresh interval has elapsed, a plain Apply must converge
	d.step(map[string]any{"op": "tick"})
	d.step(map[string]any{"op": "apply", "pre": "none"})
}

func main() {
	logrus.SetOutput(io.Discard)
	// nftables.Table shells out to the real "nft list table" for diagnostics after every failed
	// transaction (not overridable); make that lookup fail fast instead of forking
	os.Setenv("PATH", "/nonexistent")
	logrus.SetLevel(logrus.ErrorLevel)
	env := tracelog.GetEnv()
	lg, err := tracelog.Open(env.OutPath)
	if err != nil {
		fmt.Fprintln(os.Stderr, err)
		os.Exit(2)
	}
	behs, err := tracelog.LoadBehaviours(env.BehPath)
	if err != nil {
		fmt.Fprintln(os.Stderr, err)
		os.Exit(2)
	}
	d := &drv{log: lg}
	backends := func() []backend {
		return []backend{newIptBackend(d, "legacy"), newIptBackend(d, "nft"), newNftBackend(d)}
	}
	only := os.Getenv("VERIF_BACKEND")
	t := 0
	runAll := func(beh []map[string]any) {
		for _, be := range backends() {
			if only != "" && be.name() != only {
				continue
			}
			t++
			d.run(t, be, beh)
		}
	}
	for _, b := range behs {
		runAll(b)
	}
	for i := 0; i < env.N; i++ {
		runAll(randomBehaviour(rand.New(rand.NewSource(env.Seed*1000003 + int64(i)))))
	}
	if err := lg.Close(); err != nil {
		fmt.Fprintln(os.Stderr, err)
		os.Exit(2)
	}
}
