package main

import (
	"bytes"
	"errors"
	"fmt"
	"io"
	"regexp"
	"strconv"
	"strings"
	"time"

	"github.com/onsi/gomega"

	"github.com/projectcalico/calico/felix/environment"
	"github.com/projectcalico/calico/felix/generictables"
	"github.com/projectcalico/calico/felix/iptables"
	"github.com/projectcalico/calico/felix/iptables/cmdshim"
	"github.com/projectcalico/calico/felix/iptables/testutils"
	"github.com/projectcalico/calico/felix/rules/rulesdefs"
	"github.com/projectcalico/calico/lib/logrusr"
)

const staleHash = "STALE"

const refreshInterval = 60 * time.Second

// mockAssert is what a failed expectation inside the repository's mock turns into: the mock models
// "the kernel rejects this command" with gomega assertions.
type mockAssert string

func init() {
	gomega.RegisterFailHandler(func(message string, callerSkip ...int) { panic(mockAssert(message)) })
}

type iptBackend struct {
	d      *drv
	mode   string // "legacy" | "nft": backend mode of the mock / table
	insert string
	dp     *testutils.MockDataplane
	table  *iptables.Table

	preRead, preWrite func()
}

func newIptBackend(d *drv, mode string) *iptBackend { return &iptBackend{d: d, mode: mode} }

func (b *iptBackend) name() string       { return "iptables-" + b.mode }
func (b *iptBackend) owns() bool         { return false }
func (b *iptBackend) kchains() []string  { return []string{"FORWARD", "INPUT", "OUTPUT"} }
func (b *iptBackend) realChain(a string) string {
	switch a {
	case "K1":
		return "FORWARD"
	case "K2":
		return "INPUT"
	}
	return a
}

// ---- syntax conversion -----------------------------------------------------------------------------

func iptRender(r rule) string {
	parts := []string{}
	if r.H != "" {
		parts = append(parts, fmt.Sprintf(`-m comment --comment "cali:%s"`, r.H))
	}
	parts = append(parts, fmt.Sprintf("-p %d", r.ID))
	if r.Tgt != "" {
		parts = append(parts, "--jump "+r.Tgt)
	} else {
		parts = append(parts, "--jump ACCEPT")
	}
	return strings.Join(parts, " ")
}

var (
	iptHashRe = regexp.MustCompile(`--comment "?cali:([a-zA-Z0-9_-]+)"?`)
	iptIDRe   = regexp.MustCompile(`(?:^| )-p (\d+)`)
	iptJumpRe = regexp.MustCompile(`(?:-j|--jump) (\S+)`)
)

func iptParse(s string) rule {
	var r rule
	if m := iptHashRe.FindStringSubmatch(s); m != nil {
		r.H = m[1]
	}
	if m := iptIDRe.FindStringSubmatch(s); m != nil {
		r.ID, _ = strconv.Atoi(m[1])
	}
	if m := iptJumpRe.FindStringSubmatch(s); m != nil && m[1] != "ACCEPT" {
		r.Tgt = m[1]
	}
	return r
}

func iptRules(bs []body) []generictables.Rule {
	out := []generictables.Rule{}
	for _, x := range bs {
		var a generictables.Action = iptables.AcceptAction{}
		if x.Tgt != "" {
			a = iptables.JumpAction{Target: x.Tgt}
		}
		out = append(out, generictables.Rule{Match: iptables.Match().ProtocolNum(uint8(x.ID)), Action: a})
	}
	return out
}

// ---- backend -----------------------------------------------------------------------------------------

func (b *iptBackend) start(k kernelT, mode string) {
	chains := map[string][]string{}
	for _, c := range b.kchains() {
		chains[c] = []string{}
	}
	for c, rs := range k {
		chains[c] = []string{}
		for _, r := range rs {
			chains[c] = append(chains[c], iptRender(r))
		}
	}
	b.insert = mode
	b.dp = testutils.NewMockDataplane("filter", chains, b.mode)
	b.dp.Time = time.Unix(1000000, 0)
	b.restart()
}

func (b *iptBackend) restart() {
	fd := environment.NewFeatureDetector(nil)
	fd.NewCmd = b.dp.NewCmd
	fd.GetKernelVersionReader = b.dp.GetKernelVersionReader
	b.table = iptables.NewTable("filter", 4, rulesdefs.RuleHashPrefix, fd, iptables.TableOptions{
		HistoricChainPrefixes: rulesdefs.AllHistoricChainNamePrefixes,
		InsertMode:            b.insert,
		RefreshInterval:       refreshInterval,
		NewCmdOverride:        b.newCmd,
		SleepOverride:         b.dp.Sleep,
		NowOverride:           b.dp.Now,
		BackendMode:           b.mode,
		LookPathOverride:      testutils.LookPathNoLegacy,
		OpRecorder:            logrusr.NewSummarizer("verif"),
	})
}

func (b *iptBackend) setChain(name string, rules []body, force bool) {
	b.table.UpdateChain(&generictables.Chain{Name: name, Rules: iptRules(rules), ForceProgramming: force})
}
func (b *iptBackend) removeChain(name string)            { b.table.RemoveChainByName(name) }
func (b *iptBackend) setIns(chain string, rules []body)  { b.table.InsertOrAppendRules(chain, iptRules(rules)) }
func (b *iptBackend) setApp(chain string, rules []body)  { b.table.AppendRules(chain, iptRules(rules)) }
func (b *iptBackend) tick()                              { b.dp.AdvanceTimeBy(refreshInterval + time.Second) }
func (b *iptBackend) setHooks(preRead, preWrite func()) { b.preRead, b.preWrite = preRead, preWrite }

func (b *iptBackend) apply() (ok bool) {
	defer func() {
		if r := recover(); r != nil {
			ok = false
		}
	}()
	b.table.Apply()
	return true
}

func (b *iptBackend) kernel() kernelT {
	k := kernelT{}
	for c, rs := range b.dp.Chains {
		k[c] = []rule{}
		for _, s := range rs {
			k[c] = append(k[c], iptParse(s))
		}
	}
	return k
}

func (b *iptBackend) setKernelChain(chain string, rules []rule, present bool) {
	if !present {
		delete(b.dp.Chains, chain)
		return
	}
	out := []string{}
	for _, r := range rules {
		out = append(out, iptRender(r))
	}
	b.dp.Chains[chain] = out
}

func (b *iptBackend) setMap(string, []mapMember)             {}
func (b *iptBackend) removeMap(string)                         {}
func (b *iptBackend) kmaps() kmapsT                            { return kmapsT{} }
func (b *iptBackend) setKernelMap(string, []mapMember, bool) {}
func (b *iptBackend) delTable()                                {}

func (b *iptBackend) failWrites(n int) {
	if n >= 99 {
		b.dp.FailAllRestores = true
	} else if n > 0 {
		b.dp.FailNextRestore = true
	}
}

func (b *iptBackend) failReads(n int) {
	if n >= 99 {
		b.dp.FailAllSaves = true
	} else if n > 0 {
		b.dp.FailNextSaveRead = true
	}
}

func (b *iptBackend) clearFailures() {
	b.dp.FailAllRestores, b.dp.FailNextRestore = false, false
	b.dp.FailAllSaves, b.dp.FailNextSaveRead = false, false
}

// ---- command wrapper: observes the commands the mock kernel sees -------------------------------------

func (b *iptBackend) newCmd(name string, arg ...string) cmdshim.CmdIface {
	inner := b.dp.NewCmd(name, arg...)
	switch {
	case strings.HasSuffix(name, "-restore"):
		return &iptRestore{CmdIface: inner, b: b}
	case strings.HasSuffix(name, "-save"):
		return &iptSave{CmdIface: inner, b: b}
	}
	return inner
}

type iptRestore struct {
	cmdshim.CmdIface
	b     *iptBackend
	input string
}

func (c *iptRestore) SetStdin(r io.Reader) {
	buf, _ := io.ReadAll(r)
	c.input = string(buf)
	c.CmdIface.SetStdin(bytes.NewReader(buf))
}

// touchedChains: syntax of the restore input -> names of the chains it has a line for.
func touchedChains(input string) []string {
	out := []string{}
	for _, line := range strings.Split(input, "\n") {
		f := strings.Fields(line)
		switch {
		case len(f) == 0, strings.HasPrefix(line, "#"), strings.HasPrefix(line, "*"), line == "COMMIT":
		case strings.HasPrefix(line, ":"):
			out = append(out, f[0][1:])
		case len(f) >= 2 && strings.HasPrefix(f[0], "-"):
			out = append(out, f[1])
		}
	}
	return out
}

func (c *iptRestore) Run() (err error) {
	b := c.b
	if b.preWrite != nil {
		f := b.preWrite
		b.preWrite = nil
		f()
	}
	injected := b.dp.FailNextRestore || b.dp.FailAllRestores
	// the real iptables-restore is atomic per COMMIT; the mock applies line by line and reports an
	// impossible line by a failed assertion: make that an atomic rejection
	snap := map[string][]string{}
	for k, v := range b.dp.Chains {
		snap[k] = append([]string{}, v...)
	}
	why := ""
	func() {
		defer func() {
			if r := recover(); r != nil {
				b.dp.Chains = snap
				why = fmt.Sprint(r)
				if len(why) > 200 {
					why = why[:200]
				}
				err = errors.New("kernel rejected the restore input: " + why)
			}
		}()
		err = c.CmdIface.Run()
	}()
	b.d.onWrite(err == nil, injected && why == "", touchedChains(c.input), why)
	return err
}

type iptSave struct {
	cmdshim.CmdIface
	b      *iptBackend
	failed bool
	piped  bool
}

type watchReader struct {
	io.ReadCloser
	c *iptSave
}

func (w watchReader) Read(p []byte) (int, error) {
	n, err := w.ReadCloser.Read(p)
	if err != nil && err != io.EOF {
		w.c.failed = true
	}
	return n, err
}

func (c *iptSave) StdoutPipe() (io.ReadCloser, error) {
	b := c.b
	if b.preRead != nil {
		f := b.preRead
		b.preRead = nil
		f()
	}
	c.piped = true
	r, err := c.CmdIface.StdoutPipe() // the mock takes its snapshot of the table here
	if err != nil {
		b.d.onRead(false)
		c.piped = false
		return nil, err
	}
	return watchReader{r, c}, nil
}

func (c *iptSave) Start() error {
	err := c.CmdIface.Start()
	if err != nil && c.piped {
		c.b.d.onRead(false)
		c.piped = false
	}
	return err
}

func (c *iptSave) Wait() error {
	err := c.CmdIface.Wait()
	if c.piped {
		c.b.d.onRead(err == nil && !c.failed)
		c.piped = false
	}
	return err
}
