// placeholder while the dependency packages compile (replaced by the real driver)
package main

import (
	"fmt"

	"github.com/projectcalico/calico/felix/bpf/conntrack"
	"github.com/projectcalico/calico/felix/bpf/conntrack/timeouts"
	"github.com/projectcalico/calico/felix/bpf/mock"
	"github.com/projectcalico/calico/felix/timeshim"
)

var _ timeshim.Interface

func main() {
	m := mock.NewMockMap(conntrack.MapParams)
	fmt.Println(m.GetName(), timeouts.DefaultTimeouts())
}
