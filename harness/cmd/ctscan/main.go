// Driver for C14: the real felix/bpf/conntrack Scanner + LivenessScanner run over felix/bpf/mock maps
// that are wrapped with a GATE at every map operation (iteration start, every iteration callback, Get,
// Update, Delete on the conntrack map and on the cleanup-queue map).  The scanner runs in its own
// goroutine but only ever moves when the scheduler (main goroutine) grants its pending operation, so
// the whole run is serialised and deterministic: between two granted operations the scheduler injects
// packets (entry.last_seen := now, or re-creation of a removed entry) and clock ticks exactly where the
// behaviour (TLC-generated schedule or seeded random schedule) says.
//
// The kernel-side cleaner (bpf-gpl/conntrack_cleanup.c) cannot be executed here.  The `Cleaner` handed
// to the Scanner is a Go transcription of process_ccq_entry that works on the same wrapped maps, step by
// step under the gate.  It is harness code: the kernel cleaner is bound by transcription only.
//
// Go only executes, records and converts syntax: whether an entry "was expired" is never decided here;
// every event carries the raw fields (type, protocol, TCP flag bits of both legs, last_seen, clock) and
// the TLA+ trace spec judges.
package main

import (
	"encoding/binary"
	"fmt"
	"math/rand"
	"net"
	"os"
	"runtime"
	"sort"
	"time"

	"github.com/sirupsen/logrus"

	"github.com/projectcalico/calico/felix/bpf/conntrack"
	"github.com/projectcalico/calico/felix/bpf/conntrack/timeouts"
	v4 "github.com/projectcalico/calico/felix/bpf/conntrack/v4"
	"github.com/projectcalico/calico/felix/bpf/maps"
	"github.com/projectcalico/calico/felix/bpf/mock"
	"github.com/projectcalico/calico/felix/timeshim"

	"verifharness/tracelog"
)

const nsPerSec = int64(time.Second)

// ---------------------------------------------------------------------------------------------
// logical clock (timeshim.Interface): whole seconds
// ---------------------------------------------------------------------------------------------

type clock struct{ sec int64 }

var goEpoch = time.Date(2020, 1, 1, 0, 0, 0, 0, time.UTC)

func (c *clock) Now() time.Time                         { return goEpoch.Add(time.Duration(c.sec) * time.Second) }
func (c *clock) Since(t time.Time) time.Duration        { return c.Now().Sub(t) }
func (c *clock) Until(t time.Time) time.Duration        { return t.Sub(c.Now()) }
func (c *clock) After(d time.Duration) <-chan time.Time { panic("clock.After not expected") }
func (c *clock) NewTimer(d timeshim.Duration) timeshim.Timer {
	panic("clock.NewTimer not expected")
}
func (c *clock) KTimeNanos() int64 { return c.sec * nsPerSec }

var _ timeshim.Interface = (*clock)(nil)

// ---------------------------------------------------------------------------------------------
// entries
// ---------------------------------------------------------------------------------------------

// ent is the syntactic description of one conntrack entry (what the behaviour gives / what is logged).
type ent struct {
	Ty  int    // 0 normal, 1 NAT forward, 2 NAT reverse
	Pr  int    // IP protocol
	A   int    // leg A->B flag bits: syn=1 ack=2 fin=4 rst=8
	B   int    // leg B->A
	Dsr bool   // FlagNATFwdDsr
	Rr  bool   // value.RSTSeen() != 0
	Ls  int    // last_seen, seconds
	Rev string // NAT forward: name of the reverse key
	Ex  bool
}

func legOf(bits int) conntrack.Leg {
	return conntrack.Leg{SynSeen: bits&1 != 0, AckSeen: bits&2 != 0, FinSeen: bits&4 != 0, RstSeen: bits&8 != 0}
}

func bitsOf(l v4.Leg) int {
	b := 0
	if l.SynSeen {
		b |= 1
	}
	if l.AckSeen {
		b |= 2
	}
	if l.FinSeen {
		b |= 4
	}
	if l.RstSeen {
		b |= 8
	}
	return b
}

type drv struct {
	log   *tracelog.Log
	clk   *clock
	ct    *mock.Map
	ccq   *mock.Map
	names map[conntrack.Key]string
	keys  map[string]conntrack.Key
	order []string       // all key names, sorted
	tmpl  map[string]ent // template (type/proto/state) used when a packet re-creates an entry
	rnd   *rand.Rand     // non-nil: random choice of iteration order
	split bool           // cleaner: gate at every lookup / compare / delete
	clMut string         // harness-side cleaner mutant (selftest demonstration only)
	race  bool           // allow reverse-direction packets on pairs with equal timestamps (finding F1)

	arrive  chan gateOp
	grantc  chan grant
	pending gateOp
	scans   int // completed scans
}

type gateOp struct {
	kind string
	done bool // the thread has terminated
}
type grant struct {
	k    string
	exp  string
	exit bool
}

func (d *drv) keyName(k []byte) string {
	var kk conntrack.Key
	copy(kk[:], k)
	if n, ok := d.names[kk]; ok {
		return n
	}
	if kk == (conntrack.Key{}) {
		return ""
	}
	return fmt.Sprintf("?%x", k)
}

func secOf(ns int64) int {
	if ns%nsPerSec != 0 || ns < 0 || ns/nsPerSec > 1<<30 {
		return -1 // not a value the harness ever writes; never equal to a real last_seen
	}
	return int(ns / nsPerSec)
}

func (d *drv) mkKey(i int, proto int) conntrack.Key {
	return conntrack.NewKey(uint8(proto), net.IPv4(10, 0, byte(i/200), byte(i%200+1)), uint16(1000+i), net.IPv4(10, 1, 0, 1), 80)
}

func (d *drv) mkValue(e ent) conntrack.Value {
	ls := time.Duration(int64(e.Ls) * nsPerSec)
	var flags uint32
	if e.Dsr {
		flags |= v4.FlagNATFwdDsr
	}
	var v conntrack.Value
	switch e.Ty {
	case 0:
		v = conntrack.NewValueNormal(ls, flags, legOf(e.A), legOf(e.B))
	case 1:
		v = conntrack.NewValueNATForward(ls, flags, d.keys[e.Rev])
	default:
		v = conntrack.NewValueNATReverse(ls, flags, legOf(e.A), legOf(e.B), net.IPv4(0, 0, 0, 0), net.IPv4(10, 96, 0, 1), 80)
	}
	if e.Rr {
		binary.LittleEndian.PutUint64(v[v4.VoRSTSeen:v4.VoRSTSeen+8], uint64(ls))
	}
	return v
}

// rec converts a stored value into the logged record (pure syntax: field extraction).
func (d *drv) rec(k, vb []byte) map[string]any {
	kk := conntrack.KeyFromBytes(k)
	v := conntrack.ValueFromBytes(vb)
	r := map[string]any{"ex": true, "ty": int(v.Type()), "pr": int(kk.Proto()), "ls": secOf(v.LastSeen()),
		"dsr": v.Flags()&v4.FlagNATFwdDsr != 0, "rr": v.RSTSeen() != 0, "a": 0, "b": 0, "rev": ""}
	if v.Type() == conntrack.TypeNATForward {
		r["rev"] = d.keyName(v.ReverseNATKey().AsBytes())
	} else {
		data := v.Data()
		r["a"] = bitsOf(data.A2B)
		r["b"] = bitsOf(data.B2A)
	}
	return r
}

func (d *drv) ctContents() map[string]any {
	out := map[string]any{}
	for ks, vs := range d.ct.Contents {
		out[d.keyName([]byte(ks))] = d.rec([]byte(ks), []byte(vs))
	}
	return out
}

// ---------------------------------------------------------------------------------------------
// the gate
// ---------------------------------------------------------------------------------------------

// gate is called by the scanner thread immediately before a map operation.
func (d *drv) gate(kind string) grant {
	d.arrive <- gateOp{kind: kind}
	g := <-d.grantc
	if g.exit {
		runtime.Goexit()
	}
	return g
}

// emitOp logs an event of the scanner thread; `exp` is the operation kind the schedule expected
// (empty when the schedule does not say), so that drift between I_CT and the real code is measurable.
func (d *drv) emitOp(ev string, g grant, f map[string]any) {
	if f == nil {
		f = map[string]any{}
	}
	if g.exp != "" {
		f["exp"] = g.exp
	}
	d.log.Emit(ev, f)
}

// advance grants the pending operation and waits until the thread is blocked at its next one.
func (d *drv) advance(k, exp string) {
	if d.pending.done {
		return
	}
	d.grantc <- grant{k: k, exp: exp}
	d.pending = <-d.arrive
}

func (d *drv) stopThread() {
	if d.pending.done {
		return
	}
	d.grantc <- grant{exit: true}
	d.pending = <-d.arrive
}

func (d *drv) pick(remaining []string, want string) int {
	for i, n := range remaining {
		if n == want {
			return i
		}
	}
	if d.rnd != nil {
		return d.rnd.Intn(len(remaining))
	}
	return 0
}

// ---------------------------------------------------------------------------------------------
// gated maps
// ---------------------------------------------------------------------------------------------

type gmap struct {
	*mock.Map
	d    *drv
	isCT bool
}

func (m *gmap) snapshot() (names []string, ks, vs map[string][]byte) {
	ks, vs = map[string][]byte{}, map[string][]byte{}
	for k, v := range m.Map.Contents {
		n := m.d.keyName([]byte(k))
		names = append(names, n)
		ks[n] = []byte(k)
		vs[n] = []byte(v)
	}
	sort.Strings(names)
	return
}

// Iter has the semantics of mock.Map.Iter (callbacks over a copy taken at the start; IterDelete removes
// the key) with a deterministic, schedule-chosen order instead of Go's random map order.
func (m *gmap) Iter(f maps.IterCallback) error {
	d := m.d
	if m.isCT {
		g := d.gate("iter_begin")
		names, ks, vs := m.snapshot()
		d.emitOp("ct_iter_begin", g, map[string]any{"ents": d.ctContents()})
		for len(names) > 0 {
			g = d.gate("visit")
			i := d.pick(names, g.k)
			n := names[i]
			names = append(names[:i:i], names[i+1:]...)
			d.emitOp("ct_visit", g, map[string]any{"k": n, "v": d.rec(ks[n], vs[n])})
			if f(ks[n], vs[n]) == maps.IterDelete {
				g = d.gate("delete")
				m.del(ks[n], "scanner", g)
			}
		}
		return nil
	}
	g := d.gate("ccq_load")
	names, ks, vs := m.snapshot()
	d.emitOp("ccq_load", g, map[string]any{"n": len(names)})
	for _, n := range names {
		g = d.gate("ccq_visit")
		d.emitOp("ccq_visit", g, map[string]any{"k": n})
		if f(ks[n], vs[n]) == maps.IterDelete {
			delete(m.Map.Contents, string(ks[n]))
		}
	}
	return nil
}

func (m *gmap) Get(k []byte) ([]byte, error) {
	d := m.d
	g := d.gate("get")
	v, err := m.Map.Get(k)
	ev := "ccq_get"
	if m.isCT {
		ev = "ct_get"
	}
	f := map[string]any{"k": d.keyName(k), "found": err == nil}
	if err == nil && m.isCT {
		f["v"] = d.rec(k, v)
	}
	d.emitOp(ev, g, f)
	return v, err
}

func (d *drv) qrec(k, v []byte) map[string]any {
	cv := conntrack.CleanupValueFromBytes(v)
	return map[string]any{"k": d.keyName(k), "rev": d.keyName(cv.OtherNATKey().AsBytes()),
		"ts": secOf(int64(cv.Timestamp())), "rts": secOf(int64(cv.RevTimestamp()))}
}

func (m *gmap) Update(k, v []byte) error {
	d := m.d
	if m.isCT {
		g := d.gate("update")
		err := m.Map.Update(k, v)
		d.emitOp("ct_update", g, map[string]any{"k": d.keyName(k), "v": d.rec(k, v)})
		return err
	}
	g := d.gate("ccq_update")
	err := m.Map.Update(k, v)
	d.emitOp("ccq_update", g, d.qrec(k, v))
	return err
}

func (m *gmap) BatchUpdate(ks, vs [][]byte, flags uint64) (int, error) {
	for i := range ks {
		if err := m.Update(ks[i], vs[i]); err != nil {
			return i, err
		}
	}
	return len(ks), nil
}

// del removes k from the conntrack map and logs the entry's last_seen at the moment of deletion.
func (m *gmap) del(k []byte, by string, g grant) bool {
	d := m.d
	old, ok := m.Map.Contents[string(k)]
	f := map[string]any{"k": d.keyName(k), "existed": ok, "ls": 0, "by": by}
	if ok {
		f["ls"] = secOf(conntrack.ValueFromBytes([]byte(old)).LastSeen())
	}
	_ = m.Map.Delete(k)
	d.emitOp("ct_delete", g, f)
	return ok
}

func (m *gmap) Delete(k []byte) error {
	d := m.d
	if m.isCT {
		g := d.gate("delete")
		m.del(k, "scanner", g)
		return nil
	}
	g := d.gate("ccq_delete")
	err := m.Map.Delete(k)
	d.emitOp("ccq_delete", g, map[string]any{"k": d.keyName(k), "by": "scanner"})
	return err
}

func (m *gmap) DeleteIfExists(k []byte) error { return m.Delete(k) }

// ---------------------------------------------------------------------------------------------
// the transcribed kernel cleaner (bpf-gpl/conntrack_cleanup.c)
// ---------------------------------------------------------------------------------------------

type cleaner struct {
	d   *drv
	ct  *gmap
	ccq *gmap
}

func (c *cleaner) Close() error { return nil }

// step is a gate point inside process_ccq_entry; in the default (atomic) mode only the first step of an
// entry and the final queue delete are gate points.
func (c *cleaner) step(kind string, g *grant) {
	if c.d.split {
		*g = c.d.gate(kind)
	}
}

func (c *cleaner) lookup(k []byte, g grant) (conntrack.ValueInterface, bool) {
	vb, ok := c.ct.Map.Contents[string(k)]
	c.d.emitOp("ct_lookup", g, map[string]any{"k": c.d.keyName(k), "found": ok})
	if !ok {
		return nil, false
	}
	return conntrack.ValueFromBytes([]byte(vb)), true
}

// liveLastSeen reads last_seen through the pointer obtained by an earlier lookup: the live value if the
// element is still there, otherwise the value it had when it was looked up.
func (c *cleaner) liveLastSeen(k []byte, looked conntrack.ValueInterface) int64 {
	if vb, ok := c.ct.Map.Contents[string(k)]; ok {
		return conntrack.ValueFromBytes([]byte(vb)).LastSeen()
	}
	return looked.LastSeen()
}

// processCCQEntry transcribes process_ccq_entry() line by line.
func (c *cleaner) processCCQEntry(key, value []byte, g grant, cleaned *uint64) {
	d := c.d
	val := conntrack.CleanupValueFromBytes(value)
	revKey := val.OtherNATKey()
	if revKey.Proto() == 0 { // if (!value->rev_key.protocol)
		// actual_ct_value = cali_ct_lookup_elem(key);
		actual, ok := c.lookup(key, g)
		if ok {
			c.step("cq_cmp", &g)
			// if (actual_ct_value && (actual_ct_value->last_seen == value->last_seen))
			same := uint64(c.liveLastSeen(key, actual)) == val.Timestamp()
			d.emitOp("cq_compare", g, map[string]any{"k": d.keyName(key), "same": same})
			if same || d.clMut == "nocmp" {
				c.step("cq_delk", &g)
				// if (!cali_ct_delete_elem(key)) ictx->num_cleaned++;
				if c.ct.del(key, "cleaner", g) {
					*cleaned++
				}
			}
		}
	} else {
		// struct calico_ct_value *nat_fwd_value = cali_ct_lookup_elem(key);
		fwd, ok := c.lookup(key, g)
		if ok {
			// if (__builtin_memcmp(nat_rev_key, rev_key, sizeof(struct calico_ct_key))) goto delete;
			if fwd.ReverseNATKey() != revKey {
				goto del
			}
		}
		c.step("cq_cmpr", &g)
		// struct calico_ct_value *rev_ct_value = cali_ct_lookup_elem(rev_key);
		rev, rok := c.lookup(revKey.AsBytes(), g)
		// if (rev_ct_value && (rev_ct_value->last_seen == value->rev_last_seen))
		if rok {
			same := uint64(rev.LastSeen()) == val.RevTimestamp()
			d.emitOp("cq_compare", g, map[string]any{"k": d.keyName(revKey.AsBytes()), "same": same})
			if same || d.clMut == "nocmp" {
				c.step("cq_delr", &g)
				if c.ct.del(revKey.AsBytes(), "cleaner", g) {
					*cleaned++
				}
				c.step("cq_delf", &g)
				if c.ct.del(key, "cleaner", g) {
					*cleaned++
				}
			}
		}
	}
del:
	// cali_ccq_delete_elem(key);
	g = d.gate("cq_del")
	delete(c.ccq.Map.Contents, string(key))
	d.emitOp("ccq_delete", g, map[string]any{"k": d.keyName(key), "by": "cleaner"})
}

// Run is bpf_for_each_map_elem(&CCQ_MAP_V, process_ccq_entry, &ictx, 0).
func (c *cleaner) Run(opts ...conntrack.RunOpt) (*conntrack.CleanupContext, error) {
	d := c.d
	cr := &conntrack.CleanupContext{}
	for _, o := range opts {
		o(cr)
	}
	g := d.gate("cq_begin")
	names, ks, vs := c.ccq.snapshot()
	d.emitOp("cq_begin", g, map[string]any{"keys": append([]string{}, names...)})
	for len(names) > 0 {
		g = d.gate("cq_proc")
		i := d.pick(names, g.k)
		n := names[i]
		names = append(names[:i:i], names[i+1:]...)
		q := d.qrec(ks[n], vs[n])
		d.emitOp("cq_visit", g, q)
		c.processCCQEntry(ks[n], vs[n], g, &cr.NumKVsCleaned)
	}
	return cr, nil
}

// ---------------------------------------------------------------------------------------------
// environment: packets, ticks
// ---------------------------------------------------------------------------------------------

func (d *drv) lastSeen(name string) (int64, bool) {
	k := d.keys[name]
	vb, ok := d.ct.Contents[string(k[:])]
	if !ok {
		return 0, false
	}
	return conntrack.ValueFromBytes([]byte(vb)).LastSeen(), true
}

// fresh: timestamps are strictly increasing per entry (see I_CT.Fresh)
func (d *drv) fresh(name string) bool {
	ls, ok := d.lastSeen(name)
	return !ok || ls < d.clk.KTimeNanos()
}

// touch sets last_seen := now on an existing entry, or re-creates it from its template.
func (d *drv) touch(name string, out map[string]any) {
	k := d.keys[name]
	now := d.clk.KTimeNanos()
	if vb, ok := d.ct.Contents[string(k[:])]; ok {
		b := []byte(vb)
		binary.LittleEndian.PutUint64(b[v4.VoLastSeen:v4.VoLastSeen+8], uint64(now))
		d.ct.Contents[string(k[:])] = string(b)
	} else {
		e := d.tmpl[name]
		e.Ls = int(now / nsPerSec)
		v := d.mkValue(e)
		d.ct.Contents[string(k[:])] = string(v[:])
	}
	out[name] = d.rec(k[:], []byte(d.ct.Contents[string(k[:])]))
}

func (d *drv) packet(kind, name string, st map[string]any) {
	t, ok := d.tmpl[name]
	if !ok {
		return
	}
	out := map[string]any{}
	switch kind {
	case "plain":
		if t.Ty != 0 || !d.fresh(name) {
			return
		}
		if st != nil { // a packet that also changes the connection state (random leg)
			k := d.keys[name]
			delete(d.ct.Contents, string(k[:]))
			t.A, t.B = tracelog.Int(st["a"]), tracelog.Int(st["b"])
			d.tmpl[name] = t
		}
		d.touch(name, out)
	case "fwd":
		if t.Ty != 1 || !d.fresh(name) || !d.fresh(t.Rev) {
			return
		}
		d.touch(t.Rev, out)
		d.touch(name, out)
	case "rev":
		if t.Ty != 2 || !d.fresh(name) {
			return
		}
		rls, ok := d.lastSeen(name)
		if !ok {
			return
		}
		if !d.race {
			for f, ft := range d.tmpl {
				if ft.Ty == 1 && ft.Rev == name {
					if fls, fok := d.lastSeen(f); fok && fls == rls {
						return
					}
				}
			}
		}
		d.touch(name, out)
	default:
		return
	}
	d.log.Emit("pkt", map[string]any{"kind": kind, "k": name, "ents": out})
}

func (d *drv) tick(sec int) {
	d.clk.sec += int64(sec)
	d.log.Emit("tick", map[string]any{"d": sec, "now": int(d.clk.sec)})
}

// ---------------------------------------------------------------------------------------------
// one trace
// ---------------------------------------------------------------------------------------------

type initSpec struct {
	now  int
	to   map[string]int // syn est fin rst udp icmp gen (seconds)
	ents map[string]ent
}

func (d *drv) start(t int, in initSpec) {
	d.clk = &clock{sec: int64(in.now)}
	d.ct = mock.NewMockMap(conntrack.MapParams)
	d.ccq = mock.NewMockMap(conntrack.MapParamsCleanup)
	d.names = map[conntrack.Key]string{}
	d.keys = map[string]conntrack.Key{}
	d.tmpl = map[string]ent{}
	d.order = nil
	for n := range in.ents {
		d.order = append(d.order, n)
	}
	sort.Strings(d.order)
	for i, n := range d.order {
		k := d.mkKey(i, in.ents[n].Pr)
		d.keys[n] = k
		d.names[k] = n
	}
	for _, n := range d.order {
		e := in.ents[n]
		d.tmpl[n] = e
		if e.Ex {
			v := d.mkValue(e)
			k := d.keys[n]
			d.ct.Contents[string(k[:])] = string(v[:])
		}
	}
	sec := func(n string) time.Duration { return time.Duration(in.to[n]) * time.Second }
	tmo := timeouts.Timeouts{
		CreationGracePeriod: 10 * time.Second,
		TCPSynSent:          sec("syn"), TCPEstablished: sec("est"), TCPFinsSeen: sec("fin"), TCPResetSeen: sec("rst"),
		UDPTimeout: sec("udp"), GenericTimeout: sec("gen"), ICMPTimeout: sec("icmp"),
	}
	to := map[string]any{"resid": 120} // the hard-coded 2 minutes of entryDone
	for k, v := range in.to {
		to[k] = v
	}
	d.log.Reset(t, map[string]any{"keys": d.order, "to": to, "now": in.now, "ents": d.ctContents()})

	gct := &gmap{Map: d.ct, d: d, isCT: true}
	gccq := &gmap{Map: d.ccq, d: d}
	ls := conntrack.NewLivenessScanner(tmo, false, conntrack.WithTimeShim(d.clk))
	sc := conntrack.NewScanner(gct, conntrack.KeyFromBytes, conntrack.ValueFromBytes, nil, "Disabled",
		gccq, 4, &cleaner{d: d, ct: gct, ccq: gccq}, ls)
	d.arrive = make(chan gateOp)
	d.grantc = make(chan grant)
	d.scans = 0
	arrive := d.arrive
	go func() {
		defer func() { arrive <- gateOp{done: true} }()
		for n := 1; ; n++ {
			sc.Scan()
			d.scans = n
			d.log.Emit("scan_end", map[string]any{"n": n})
		}
	}()
	d.pending = <-d.arrive
}

func (d *drv) step(op map[string]any) {
	switch tracelog.Str(op["op"]) {
	case "sc", "cl":
		d.advance(tracelog.Str(op["k"]), tracelog.Str(op["x"]))
	case "pkt":
		var st map[string]any
		if m, ok := op["st"].(map[string]any); ok {
			st = m
		}
		d.packet(tracelog.Str(op["kind"]), tracelog.Str(op["k"]), st)
	case "tick":
		d.tick(tracelog.Int(op["d"]))
	case "init", "end":
	default:
		panic("unknown op " + tracelog.Str(op["op"]))
	}
}

// finish: the schedule is exhausted.  Complete the scan in progress, freeze the environment, let the
// clock pass the scanner's 1 s time cache, run two full scans, report the final map, stop the thread.
func (d *drv) finish() {
	for d.pending.kind != "iter_begin" && !d.pending.done {
		d.advance("", "")
	}
	d.tick(2)
	target := d.scans + 2
	for d.scans < target && !d.pending.done {
		d.advance("", "")
	}
	d.log.Emit("final", map[string]any{"ents": d.ctContents(), "now": int(d.clk.sec), "scans": d.scans})
	d.stopThread()
}

func entOf(m map[string]any) ent {
	e := ent{Ty: tracelog.Int(m["ty"]), Pr: tracelog.Int(m["pr"]), A: tracelog.Int(m["a"]), B: tracelog.Int(m["b"]),
		Ls: tracelog.Int(m["ls"]), Rev: tracelog.Str(m["rev"]), Ex: true}
	if b, ok := m["dsr"].(bool); ok {
		e.Dsr = b
	}
	if b, ok := m["rr"].(bool); ok {
		e.Rr = b
	}
	if b, ok := m["ex"].(bool); ok {
		e.Ex = b
	}
	return e
}

// behaviour: first record {op:"init", now, unit, to:{...}, ents:{name:{...}}}, then schedule steps.
// `unit` scales all times of the behaviour (I_CT's abstract time unit -> seconds).
func (d *drv) behaviour(t int, b []map[string]any) {
	if len(b) == 0 || tracelog.Str(b[0]["op"]) != "init" {
		panic("behaviour without init record")
	}
	unit := tracelog.Int(b[0]["unit"])
	if unit == 0 {
		unit = 1
	}
	in := initSpec{now: tracelog.Int(b[0]["now"]) * unit, to: map[string]int{}, ents: map[string]ent{}}
	for k, v := range b[0]["to"].(map[string]any) {
		if k != "resid" {
			in.to[k] = tracelog.Int(v) * unit
		}
	}
	for n, v := range b[0]["ents"].(map[string]any) {
		e := entOf(v.(map[string]any))
		e.Ls *= unit
		in.ents[n] = e
	}
	d.rnd = nil
	d.start(t, in)
	for _, op := range b[1:] {
		if tracelog.Str(op["op"]) == "tick" {
			op = map[string]any{"op": "tick", "d": tracelog.Int(op["d"]) * unit}
		}
		d.step(op)
	}
	d.finish()
}

// ---------------------------------------------------------------------------------------------
// seeded random traces over larger universes
// ---------------------------------------------------------------------------------------------

type class struct {
	pr, a, b int
	dsr, rr  bool
	to       string // which timeout governs (only used to place initial ages near the boundary)
}

var plainClasses = []class{
	{17, 0, 0, false, false, "udp"}, {1, 0, 0, false, false, "icmp"}, {47, 0, 0, false, false, "gen"},
	{6, 1, 0, false, false, "syn"}, {6, 3, 1, false, false, "syn"}, {6, 3, 3, false, false, "est"},
	{6, 7, 7, false, false, "fin"}, {6, 7, 3, false, false, "est"}, {6, 11, 3, false, false, "rst"},
	{6, 3, 3, false, true, "est"}, {6, 1, 8, false, false, "rst"},
}
var revClasses = []class{
	{6, 3, 3, false, false, "est"}, {17, 0, 0, false, false, "udp"}, {6, 1, 0, false, false, "syn"},
	{6, 7, 7, false, false, "fin"}, {6, 7, 3, true, false, "fin"}, {6, 1, 0, true, false, "est"},
	{6, 3, 3, false, true, "est"},
}

func (d *drv) random(t int, rnd *rand.Rand) {
	to := map[string]int{"syn": 20, "est": 3600, "fin": 30, "rst": 40, "udp": 60, "gen": 600, "icmp": 5}
	if rnd.Intn(3) > 0 {
		for _, k := range []string{"syn", "est", "fin", "rst", "udp", "gen", "icmp"} { // fixed order: map order is random
			to[k] = 1 + rnd.Intn(6)
		}
		if rnd.Intn(2) == 0 {
			to["est"] = 100 + rnd.Intn(100) // so that the 120 s residual-RST rule can matter
		}
	}
	now := rnd.Intn(5000)
	if rnd.Intn(4) == 0 {
		now = rnd.Intn(4)
	}
	in := initSpec{now: now, to: to, ents: map[string]ent{}}
	age := func(c class) int {
		base := to[c.to]
		if c.rr && rnd.Intn(2) == 0 {
			base = 120
		}
		a := base + rnd.Intn(5) - 2
		if rnd.Intn(4) == 0 {
			a = rnd.Intn(base + 3)
		}
		if a < 0 {
			a = 0
		}
		if a > now {
			a = now
		}
		return a
	}
	np := 1 + rnd.Intn(5)
	nn := rnd.Intn(4)
	if os.Getenv("VERIF_CT_BIG") == "1" {
		np, nn = 8+rnd.Intn(8), 3+rnd.Intn(4)
	}
	var plains, fwds, revs []string
	for i := 0; i < np; i++ {
		c := plainClasses[rnd.Intn(len(plainClasses))]
		n := fmt.Sprintf("p%d", i+1)
		in.ents[n] = ent{Ty: 0, Pr: c.pr, A: c.a, B: c.b, Dsr: c.dsr, Rr: c.rr, Ls: now - age(c), Ex: rnd.Intn(8) > 0}
		plains = append(plains, n)
	}
	for i := 0; i < nn; i++ {
		c := revClasses[rnd.Intn(len(revClasses))]
		f, r := fmt.Sprintf("f%d", i+1), fmt.Sprintf("r%d", i+1)
		rls := now - age(c)
		fls := rls
		switch rnd.Intn(4) {
		case 0: // last packet in reverse direction
			fls = rls - rnd.Intn(4)
			if fls < 0 {
				fls = 0
			}
		case 1:
			fls = rnd.Intn(rls + 1)
		}
		ex := rnd.Intn(10)
		in.ents[r] = ent{Ty: 2, Pr: c.pr, A: c.a, B: c.b, Dsr: c.dsr, Rr: c.rr, Ls: rls, Ex: ex != 0}
		in.ents[f] = ent{Ty: 1, Pr: c.pr, Ls: fls, Rev: r, Ex: ex != 1}
		fwds = append(fwds, f)
		revs = append(revs, r)
	}
	d.rnd = rnd
	d.start(t, in)
	steps := 15 + rnd.Intn(60)
	if os.Getenv("VERIF_CT_BIG") == "1" {
		steps *= 4
	}
	bias := rnd.Intn(3) // 0: scanner-heavy, 1: balanced, 2: environment-heavy
	for i := 0; i < steps; i++ {
		c := rnd.Intn(20)
		lim := []int{15, 11, 7}[bias]
		switch {
		case c < lim:
			d.advance("", "")
		case c < lim+2:
			ds := []int{1, 1, 2, 3, 5, 20, 40, 120, 3600}
			n := len(ds)
			if to["est"] < 3600 {
				n = 5
			}
			d.tick(ds[rnd.Intn(n)])
		default:
			switch k := rnd.Intn(3); {
			case k == 1 && len(fwds) > 0:
				d.packet("fwd", fwds[rnd.Intn(len(fwds))], nil)
			case k == 2 && len(revs) > 0:
				d.packet("rev", revs[rnd.Intn(len(revs))], nil)
			default:
				n := plains[rnd.Intn(len(plains))]
				var st map[string]any
				if rnd.Intn(4) == 0 && d.tmpl[n].Pr == 6 {
					c := plainClasses[3+rnd.Intn(8)]
					st = map[string]any{"a": c.a, "b": c.b}
				}
				d.packet("plain", n, st)
			}
		}
	}
	d.finish()
}

func main() {
	logrus.SetLevel(logrus.ErrorLevel)
	env := tracelog.GetEnv()
	lg, err := tracelog.Open(env.OutPath)
	if err != nil {
		fmt.Fprintln(os.Stderr, err)
		os.Exit(2)
	}
	d := &drv{log: lg, split: os.Getenv("VERIF_CT_SPLIT") == "1", clMut: os.Getenv("VERIF_CT_CLEANER"),
		race: os.Getenv("VERIF_CT_REVRACE") == "1"}
	behs, err := tracelog.LoadBehaviours(env.BehPath)
	if err != nil {
		fmt.Fprintln(os.Stderr, err)
		os.Exit(2)
	}
	t := 0
	for _, b := range behs {
		t++
		d.behaviour(t, b)
	}
	for i := 0; i < env.N; i++ {
		t++
		d.random(t, rand.New(rand.NewSource(env.Seed*1000003+int64(i))))
	}
	if err := lg.Close(); err != nil {
		fmt.Fprintln(os.Stderr, err)
		os.Exit(2)
	}
}
