// Driver for C12 "all dataplanes agree on the policy verdict".  One generated endpoint policy state (IP sets,
// ActivePolicyUpdate / ActiveProfileUpdate messages, a WorkloadEndpoint with tiers incl. staged policies and tier
// default actions; only rule shapes all four implementations support) is observed through four implementations:
//
//	ipt, nft : real felix/rules renderer -> nfparse rule IR of the endpoint chain + everything it reaches (judged in TLA+)
//	bpf      : real bpfEndpointManager.extractRules (in-package overlay test, dumped to VERIF_C12_RULES) -> real
//	           polprog.Builder -> harness/ebpfvm, one run per probe packet
//	chk      : real app-policy policystore.ProcessUpdate + checker.Evaluate, one call per probe packet
//
// VERIF_MODE=gen : write the cases (VERIF_OUT, what TLC needs to choose probes) and the proto messages (VERIF_C12_PROTOS)
// VERIF_MODE=run : VERIF_BEH = probes chosen by TLC per case and direction, VERIF_C12_RULES = extractRules dump;
//
//	write the cases again with the rule IR and the recorded bpf / chk verdict per probe.
//
// The driver computes no expected value; verdicts are syntactic readings (pol_rc + tail-call slot; action of the
// last element of the checker's rule trace).
package main

import (
	"bufio"
	"encoding/binary"
	"encoding/json"
	"fmt"
	"math/rand"
	"net"
	"os"
	"sort"
	"strings"

	"github.com/sirupsen/logrus"
	"google.golang.org/protobuf/encoding/protojson"
	googleproto "google.golang.org/protobuf/proto"

	"github.com/projectcalico/calico/app-policy/checker"
	"github.com/projectcalico/calico/app-policy/policystore"
	bpfipsets "github.com/projectcalico/calico/felix/bpf/ipsets"
	"github.com/projectcalico/calico/felix/bpf/polprog"
	"github.com/projectcalico/calico/felix/bpf/state"
	"github.com/projectcalico/calico/felix/environment"
	"github.com/projectcalico/calico/felix/generictables"
	"github.com/projectcalico/calico/felix/ipsets"
	"github.com/projectcalico/calico/felix/iptables"
	"github.com/projectcalico/calico/felix/nftables"
	"github.com/projectcalico/calico/felix/proto"
	"github.com/projectcalico/calico/felix/rules"
	"github.com/projectcalico/calico/felix/types"

	"verifharness/ebpfvm"
	"verifharness/nfparse"
	"verifharness/polgen"
	"verifharness/tracelog"
)

type M = map[string]any

const (
	markAccept, markPass, markDrop, markScratch0, markScratch1 = 0x1, 0x2, 0x4, 0x8, 0x10
	fdIPSet, fdState, fdStatic, fdPolicy                       = 1, 2, 3, 4
	allowIdx, denyIdx                                          = 666, 777
	polMapIndex, polMapStride                                  = 15, 1000
	ifaceName                                                  = "cali1234"
)

var features = &environment.Features{NFLogSize: true}

func chance(rnd *rand.Rand, pct int) bool { return polgen.Chance(rnd, pct) }

// ---- the endpoint policy state ---------------------------------------------------------------------------

type polSpec struct {
	Name   string
	Staged bool
	In     []*proto.Rule
	Out    []*proto.Rule
}

func (p *polSpec) kind() string {
	if p.Staged {
		return "StagedGlobalNetworkPolicy"
	}
	return "GlobalNetworkPolicy"
}
func (p *polSpec) protoID() *proto.PolicyID { return &proto.PolicyID{Name: p.Name, Kind: p.kind()} }
func (p *polSpec) id() *types.PolicyID      { return &types.PolicyID{Name: p.Name, Kind: p.kind()} }

type tierSpec struct {
	Name    string
	Default string
	In      []string // policy names, in order
	Out     []string
}

type acase struct {
	n        int
	ipv      uint8
	tiers    []tierSpec
	pols     map[string]*polSpec
	profiles []*polSpec
	sets     []*polgen.IPSet
	flowLogs bool
	reject   bool
	retAllow bool
	grouped  bool
}

// commonRule: a rule inside the subset all four implementations support (notes/C12.md): explicit action; ipVersion
// unset or that of the endpoint; protocol by name or number; CIDRs of the endpoint's family only, no negated
// catch-all, at most two positive match blocks; numeric ports with a port protocol; IP sets; named-port and service
// ip+port sets; no ICMP type/code, no HTTP / service-account matches.
func commonRule(rnd *rand.Rand, ipv uint8, sg *polgen.SetGen, actions []string) *proto.Rule {
	for {
		r := polgen.RandRule(rnd, ipv, sg)
		r.Action = polgen.Pick(rnd, actions)
		r.Icmp, r.NotIcmp = nil, nil
		if r.IpVersion != 0 && r.IpVersion != proto.IPVersion(ipv) {
			r.IpVersion = 0
		}
		ok := polgen.PositiveBlocks(r, ipv) <= 2
		for _, nets := range [][]string{r.SrcNet, r.DstNet, r.NotSrcNet, r.NotDstNet} {
			for _, c := range nets {
				if strings.Contains(c, ":") != (ipv == 6) || strings.HasSuffix(c, "/0") {
					ok = false
				}
			}
		}
		if !ok {
			continue
		}
		// most fully random rules match almost nothing: thin out half of them
		if rnd.Intn(2) == 0 {
			drop := func() bool { return rnd.Intn(3) > 0 }
			if drop() {
				r.SrcNet, r.NotSrcNet = nil, nil
			}
			if drop() {
				r.DstNet, r.NotDstNet = nil, nil
			}
			if drop() {
				r.SrcIpSetIds, r.NotSrcIpSetIds = nil, nil
			}
			if drop() {
				r.DstIpSetIds, r.NotDstIpSetIds = nil, nil
			}
			if drop() {
				r.SrcPorts, r.NotSrcPorts, r.SrcNamedPortIpSetIds, r.NotSrcNamedPortIpSetIds = nil, nil, nil, nil
			}
			if drop() {
				r.NotDstPorts, r.NotDstNamedPortIpSetIds, r.DstIpPortSetIds = nil, nil, nil
			}
			if drop() {
				r.NotProtocol = nil
			}
		}
		return r
	}
}

var policyActions = []string{"allow", "allow", "deny", "deny", "pass", "next-tier", "log"}
var profileActions = []string{"allow", "allow", "deny", "log"}

func genRules(rnd *rand.Rand, ipv uint8, sg *polgen.SetGen, actions []string, max int) []*proto.Rule {
	var out []*proto.Rule
	for i, n := 0, rnd.Intn(max+1); i < n; i++ {
		if chance(rnd, 25) {
			// a rule that matches everything / a whole protocol: verdicts other than default deny are reached often
			r := &proto.Rule{Action: polgen.Pick(rnd, actions)}
			if chance(rnd, 50) {
				r.Protocol = polgen.ProtoByName(polgen.Pick(rnd, []string{"tcp", "udp"}))
			}
			out = append(out, r)
			continue
		}
		if chance(rnd, 14) {
			// source-side named ports (positive or negated) in an otherwise wide rule, so that the verdict hinges on
			// (source ip, protocol, SOURCE port) membership
			pr := polgen.Pick(rnd, []string{"tcp", "udp"})
			num := 6
			if pr == "udp" {
				num = 17
			}
			r := &proto.Rule{Action: polgen.Pick(rnd, actions), Protocol: polgen.ProtoByName(pr)}
			switch rnd.Intn(3) {
			case 0:
				r.SrcNamedPortIpSetIds = []string{sg.PortSet([]int{num})}
			case 1:
				r.NotSrcNamedPortIpSetIds = []string{sg.PortSet([]int{num})}
			default:
				r.SrcNamedPortIpSetIds = []string{sg.PortSet([]int{num})}
				r.DstPorts = []*proto.PortRange{{First: 80, Last: 80}, {First: 8000, Last: 8100}}
			}
			out = append(out, r)
			continue
		}
		out = append(out, commonRule(rnd, ipv, sg, actions))
	}
	return out
}

func genCase(seed int64, n int) *acase {
	rnd := rand.New(rand.NewSource(seed))
	c := &acase{n: n, ipv: 4, pols: map[string]*polSpec{}}
	if rnd.Intn(4) == 0 {
		c.ipv = 6
	}
	sg := polgen.NewSetGen(rnd, c.ipv)
	np := 0
	for i, nt := 0, rnd.Intn(4); i < nt; i++ {
		ts := tierSpec{Name: fmt.Sprintf("tier%d", i), Default: "Deny"}
		if chance(rnd, 35) {
			ts.Default = "Pass"
		}
		stagedPct := 25
		if chance(rnd, 12) {
			stagedPct = 100 // a tier with staged policies only
		}
		mk := func() []string {
			var names []string
			for j, k := 0, rnd.Intn(4); j < k; j++ {
				np++
				p := &polSpec{Name: fmt.Sprintf("p%d", np), Staged: chance(rnd, stagedPct)}
				p.In = genRules(rnd, c.ipv, sg, policyActions, 3)
				p.Out = genRules(rnd, c.ipv, sg, policyActions, 3)
				c.pols[p.Name] = p
				names = append(names, p.Name)
			}
			return names
		}
		ts.In = mk()
		if chance(rnd, 50) {
			ts.Out = ts.In
		} else {
			ts.Out = mk()
		}
		c.tiers = append(c.tiers, ts)
	}
	for i, k := 0, rnd.Intn(3); i < k; i++ {
		c.profiles = append(c.profiles, &polSpec{Name: fmt.Sprintf("prof%d", i),
			In: genRules(rnd, c.ipv, sg, profileActions, 3), Out: genRules(rnd, c.ipv, sg, profileActions, 3)})
	}
	c.sets = sg.Sets()
	c.flowLogs = chance(rnd, 40)
	c.reject = chance(rnd, 25)
	c.retAllow = chance(rnd, 30)
	c.grouped = chance(rnd, 50)
	return c
}

// ---- proto messages (what Felix's calculation graph would send) -------------------------------------------

func (c *acase) endpoint() *proto.WorkloadEndpoint {
	ep := &proto.WorkloadEndpoint{State: "active", Name: ifaceName}
	for _, t := range c.tiers {
		ti := &proto.TierInfo{Name: t.Name, DefaultAction: t.Default}
		for _, n := range t.In {
			ti.IngressPolicies = append(ti.IngressPolicies, c.pols[n].protoID())
		}
		for _, n := range t.Out {
			ti.EgressPolicies = append(ti.EgressPolicies, c.pols[n].protoID())
		}
		ep.Tiers = append(ep.Tiers, ti)
	}
	for _, p := range c.profiles {
		ep.ProfileIds = append(ep.ProfileIds, p.Name)
	}
	return ep
}

func (c *acase) tierOf(name string) string {
	for _, t := range c.tiers {
		for _, n := range append(append([]string{}, t.In...), t.Out...) {
			if n == name {
				return t.Name
			}
		}
	}
	return ""
}

func (c *acase) policyUpdates() []*proto.ActivePolicyUpdate {
	var out []*proto.ActivePolicyUpdate
	for _, n := range polgen.SortedKeys(c.pols) {
		p := c.pols[n]
		out = append(out, &proto.ActivePolicyUpdate{Id: p.protoID(),
			Policy: &proto.Policy{InboundRules: p.In, OutboundRules: p.Out, Tier: c.tierOf(n)}})
	}
	return out
}

func (c *acase) profileUpdates() []*proto.ActiveProfileUpdate {
	var out []*proto.ActiveProfileUpdate
	for _, p := range c.profiles {
		out = append(out, &proto.ActiveProfileUpdate{Id: &proto.ProfileID{Name: p.Name},
			Profile: &proto.Profile{InboundRules: p.In, OutboundRules: p.Out}})
	}
	return out
}

// canonical member strings as the calculation graph emits them: CIDR form for NET sets
func memberStrings(s *polgen.IPSet) []string {
	out := []string{}
	for _, m := range s.MemberStrings {
		if s.Type == "net" && !strings.Contains(m, "/") {
			if strings.Contains(m, ":") {
				m += "/128"
			} else {
				m += "/32"
			}
		}
		out = append(out, m)
	}
	return out
}

func (c *acase) ipsetUpdates() []*proto.IPSetUpdate {
	var out []*proto.IPSetUpdate
	for _, s := range c.sets {
		t := proto.IPSetUpdate_NET
		if s.Type == "ipport" {
			t = proto.IPSetUpdate_IP_AND_PORT
		}
		out = append(out, &proto.IPSetUpdate{Id: s.ID, Type: t, Members: memberStrings(s)})
	}
	return out
}

// ---- PolicySem view ---------------------------------------------------------------------------------------

func (c *acase) semTiers(ingress bool) []M {
	out := []M{}
	for _, t := range c.tiers {
		names := t.Out
		if ingress {
			names = t.In
		}
		pols := []M{}
		for _, n := range names {
			p := c.pols[n]
			rs := p.Out
			if ingress {
				rs = p.In
			}
			pols = append(pols, M{"name": p.Name, "staged": p.Staged, "rules": polgen.SemRules(rs)})
		}
		out = append(out, M{"name": t.Name, "defaultAction": t.Default, "policies": pols})
	}
	return out
}

func (c *acase) semProfiles(ingress bool) [][]M {
	out := [][]M{}
	for _, p := range c.profiles {
		if ingress {
			out = append(out, polgen.SemRules(p.In))
		} else {
			out = append(out, polgen.SemRules(p.Out))
		}
	}
	return out
}

// svcIDs: the service ip+port sets (dstIpPortSetIds) of the case
func (c *acase) svcIDs() []string {
	seen := map[string]bool{}
	out := []string{}
	all := [][]*proto.Rule{}
	for _, p := range c.pols {
		all = append(all, p.In, p.Out)
	}
	for _, p := range c.profiles {
		all = append(all, p.In, p.Out)
	}
	for _, rs := range all {
		for _, r := range rs {
			for _, id := range r.DstIpPortSetIds {
				if !seen[id] {
					seen[id] = true
					out = append(out, id)
				}
			}
		}
	}
	sort.Strings(out)
	return out
}

func (c *acase) namedIDs() []string {
	seen := map[string]bool{}
	out := []string{}
	add := func(ids []string) {
		for _, id := range ids {
			if !seen[id] {
				seen[id] = true
				out = append(out, id)
			}
		}
	}
	all := [][]*proto.Rule{}
	for _, p := range c.pols {
		all = append(all, p.In, p.Out)
	}
	for _, p := range c.profiles {
		all = append(all, p.In, p.Out)
	}
	for _, rs := range all {
		for _, r := range rs {
			add(r.SrcNamedPortIpSetIds)
			add(r.NotSrcNamedPortIpSetIds)
			add(r.DstNamedPortIpSetIds)
			add(r.NotDstNamedPortIpSetIds)
		}
	}
	sort.Strings(out)
	return out
}

// ---- iptables / nftables: real renderer -> IR -------------------------------------------------------------

func (c *acase) config() rules.Config {
	cfg := rules.Config{
		IPSetConfigV4:         ipsets.NewIPVersionConfig(ipsets.IPFamilyV4, "cali", nil, nil),
		IPSetConfigV6:         ipsets.NewIPVersionConfig(ipsets.IPFamilyV6, "cali", nil, nil),
		WorkloadIfacePrefixes: []string{"cali"},
		MarkAccept:            markAccept, MarkPass: markPass, MarkDrop: markDrop, MarkScratch0: markScratch0, MarkScratch1: markScratch1,
		MarkEndpoint: 0xff00, MarkNonCaliEndpoint: 0x0100,
		VXLANPort: 4789, AllowVXLANPacketsFromWorkloads: true, AllowIPIPPacketsFromWorkloads: true,
		FlowLogsEnabled: c.flowLogs,
	}
	if c.reject {
		cfg.FilterDenyAction = "REJECT"
	}
	if c.retAllow {
		cfg.FilterAllowAction = "RETURN"
	}
	return cfg
}

func renderChain(prog *nfparse.Program, ch *generictables.Chain, ipv uint8) error {
	out := []nfparse.Rule{}
	if prog.Flavour == "ipt" {
		rr := iptables.NewIptablesRenderer("")
		for i := range ch.Rules {
			_, r, err := nfparse.ParseIptables(rr.RenderAppend(&ch.Rules[i], ch.Name, "", features))
			if err != nil {
				return err
			}
			out = append(out, r)
		}
	} else {
		rr := nftables.NewNFTRenderer("", ipv)
		for i := range ch.Rules {
			r, err := nfparse.ParseNft(rr.Render(ch.Name, "", ch.Rules[i], features).Rule)
			if err != nil {
				return err
			}
			out = append(out, r)
		}
	}
	if _, dup := prog.Chains[ch.Name]; dup {
		return fmt.Errorf("chain %q rendered twice", ch.Name)
	}
	prog.Chains[ch.Name] = out
	return nil
}

// netfilter renders the endpoint with the real renderer (policyManager + endpointManager calls) for one flavour.
func (c *acase) netfilter(nft bool) (M, error) {
	cfg := c.config()
	rr := rules.NewRenderer(cfg, nft)
	flavour := "ipt"
	if nft {
		flavour = "nft"
	}
	prog := nfparse.NewProgram(flavour)
	add := func(cs ...*generictables.Chain) error {
		for _, ch := range cs {
			if ch == nil {
				continue
			}
			if err := renderChain(prog, ch, c.ipv); err != nil {
				return err
			}
		}
		return nil
	}
	for _, n := range polgen.SortedKeys(c.pols) {
		p := c.pols[n]
		if err := add(rr.PolicyToIptablesChains(p.id(), &proto.Policy{InboundRules: p.In, OutboundRules: p.Out, Tier: c.tierOf(n)}, c.ipv)...); err != nil {
			return nil, err
		}
	}
	var tg []rules.TierPolicyGroups
	seen := map[string]bool{}
	for _, t := range c.tiers {
		mk := func(names []string, dir rules.PolicyDirection) []*rules.PolicyGroup {
			var out []*rules.PolicyGroup
			if len(names) == 0 {
				return nil
			}
			if c.grouped {
				g := &rules.PolicyGroup{Direction: dir, Selector: "all()"}
				for _, n := range names {
					g.Policies = append(g.Policies, c.pols[n].id())
				}
				return []*rules.PolicyGroup{g}
			}
			for i, n := range names {
				out = append(out, &rules.PolicyGroup{Direction: dir, Selector: fmt.Sprintf("s%d", i), Policies: []*types.PolicyID{c.pols[n].id()}})
			}
			return out
		}
		g := rules.TierPolicyGroups{Name: t.Name, DefaultAction: t.Default,
			IngressPolicies: mk(t.In, rules.PolicyDirectionInbound), EgressPolicies: mk(t.Out, rules.PolicyDirectionOutbound)}
		for _, pg := range append(append([]*rules.PolicyGroup{}, g.IngressPolicies...), g.EgressPolicies...) {
			if !pg.ShouldBeInlined() && !seen[pg.ChainName()] {
				seen[pg.ChainName()] = true
				if err := add(rr.PolicyGroupToIptablesChains(pg)...); err != nil {
					return nil, err
				}
			}
		}
		tg = append(tg, g)
	}
	var profIDs []string
	for _, p := range c.profiles {
		profIDs = append(profIDs, p.Name)
		in, out := rr.ProfileToIptablesChains(&types.ProfileID{Name: p.Name}, &proto.Profile{InboundRules: p.In, OutboundRules: p.Out}, c.ipv)
		if err := add(in, out); err != nil {
			return nil, err
		}
	}
	cs := rr.WorkloadEndpointToIptablesChains(ifaceName, nil, true, tg, profIDs, nil)
	if err := add(cs...); err != nil {
		return nil, err
	}
	ksets := M{"_none": M{"type": "net", "members": []M{}}}
	for _, s := range c.sets {
		name := cfg.IPSetConfigV4.NameForMainIPSet(s.ID)
		if c.ipv == 6 {
			name = cfg.IPSetConfigV6.NameForMainIPSet(s.ID)
		}
		if nft {
			name = nftables.LegalizeSetName(name)
		}
		ksets[name] = M{"type": s.Type, "members": s.Members}
	}
	// cs[0] = traffic to the endpoint (ingress policy), cs[1] = from the endpoint (egress policy)
	return M{"prog": prog, "ksets": ksets, "ingress": cs[0].Name, "egress": cs[1].Name}, nil
}

// ---- BPF: extractRules dump -> real builder -> ebpfvm ------------------------------------------------------

type dumpRule struct {
	Rule    json.RawMessage `json:"rule"`
	MatchID uint64          `json:"matchID"`
}
type dumpPolicy struct {
	Name, Namespace, Kind string
	Rules                 []dumpRule
}
type dumpTier struct {
	Name      string
	EndAction string
	EndRuleID uint64
	Policies  []dumpPolicy
}
type dumpRules struct {
	Tiers    []dumpTier
	Profiles []dumpPolicy
	Panic    string
}
type dumpCase struct {
	Case    int
	Ingress dumpRules
	Egress  dumpRules
}

func toPolicies(ps []dumpPolicy) ([]polprog.Policy, error) {
	var out []polprog.Policy
	for _, p := range ps {
		q := polprog.Policy{Name: p.Name, Namespace: p.Namespace, Kind: p.Kind}
		for _, r := range p.Rules {
			var pr proto.Rule
			if err := protojson.Unmarshal(r.Rule, &pr); err != nil {
				return nil, err
			}
			q.Rules = append(q.Rules, polprog.Rule{Rule: &pr, MatchID: r.MatchID})
		}
		out = append(out, q)
	}
	return out, nil
}

// toRules rebuilds the polprog.Rules value extractRules returned; the remaining fields are set as wepApplyPolicy
// sets them for a workload interface without a wildcard host endpoint.
func toRules(d dumpRules) (polprog.Rules, error) {
	var r polprog.Rules
	for _, t := range d.Tiers {
		ps, err := toPolicies(t.Policies)
		if err != nil {
			return r, err
		}
		r.Tiers = append(r.Tiers, polprog.Tier{Name: t.Name, EndAction: polprog.TierEndAction(t.EndAction), EndRuleID: t.EndRuleID, Policies: ps})
	}
	ps, err := toPolicies(d.Profiles)
	if err != nil {
		return r, err
	}
	r.Profiles = ps
	r.SuppressNormalHostPolicy = true
	return r, nil
}

type idProvider map[string]uint64

func (p idProvider) GetNoAlloc(id string) uint64 { return p[id] }

type lpmSet struct{ entries [][]byte }

func (c *acase) buildIPSets() (idProvider, *lpmSet) {
	ids := idProvider{}
	m := &lpmSet{}
	for i, s := range c.sets {
		id := uint64(0x1000 + i)
		ids[s.ID] = id
		for _, mem := range memberStrings(s) {
			var e bpfipsets.IPSetEntryInterface
			if c.ipv == 6 {
				e = bpfipsets.ProtoIPSetMemberToBPFEntryV6(id, mem)
			} else {
				e = bpfipsets.ProtoIPSetMemberToBPFEntry(id, mem)
			}
			if e == nil {
				continue
			}
			m.entries = append(m.entries, e.AsBytes())
		}
	}
	return ids, m
}

// BPF LPM-trie lookup (as in harness/cmd/bpfpol): prefix length <= key's, first prefixlen bits agree.
func (m *lpmSet) lookup(key []byte) bool {
	kp := binary.LittleEndian.Uint32(key[0:4])
	for _, e := range m.entries {
		if len(e) != len(key) {
			continue
		}
		ep := binary.LittleEndian.Uint32(e[0:4])
		if ep > kp {
			continue
		}
		ok := true
		full, rem := int(ep/8), ep%8
		for i := 0; i < full; i++ {
			if e[4+i] != key[4+i] {
				ok = false
				break
			}
		}
		if ok && rem > 0 {
			mask := byte(0xff) << (8 - rem)
			ok = e[4+full]&mask == key[4+full]&mask
		}
		if ok {
			return true
		}
	}
	return false
}

type compiled struct {
	progs [][]ebpfvm.Insn
	err   string
}

func (c *acase) compile(r polprog.Rules, ids idProvider) (out compiled) {
	defer func() {
		if e := recover(); e != nil {
			out.err = fmt.Sprintf("panic: %v", e)
		}
	}()
	opts := []polprog.Option{polprog.WithPolicyMapIndexAndStride(polMapIndex, polMapStride), polprog.WithAllowDenyJumps(allowIdx, denyIdx)}
	if c.ipv == 6 {
		opts = append(opts, polprog.WithIPv6())
	}
	if c.flowLogs {
		opts = append(opts, polprog.WithFlowLogs())
	}
	b := polprog.NewBuilder(ids, fdIPSet, fdState, fdStatic, fdPolicy, opts...)
	progs, err := b.Instructions(r)
	if err != nil {
		out.err = err.Error()
		return
	}
	for _, p := range progs {
		raw := make([][8]byte, len(p))
		for i, in := range p {
			raw[i] = in.Instruction
		}
		out.progs = append(out.progs, ebpfvm.Decode(raw))
	}
	return
}

func octets(v any) []byte {
	a, _ := v.([]any)
	out := make([]byte, len(a))
	for i, x := range a {
		out[i] = byte(tracelog.Int(x))
	}
	return out
}

func put16(dst []uint32, ip []byte) {
	var b [16]byte
	copy(b[:], ip)
	for i := 0; i < 4; i++ {
		dst[i] = binary.LittleEndian.Uint32(b[4*i : 4*i+4])
	}
}

func makeState(p M) []byte {
	var s state.State
	var a [4]uint32
	put16(a[:], octets(p["src"]))
	s.SrcAddr, s.SrcAddr1, s.SrcAddr2, s.SrcAddr3 = a[0], a[1], a[2], a[3]
	put16(a[:], octets(p["dst"]))
	s.DstAddr, s.DstAddr1, s.DstAddr2, s.DstAddr3 = a[0], a[1], a[2], a[3]
	s.PostNATDstAddr, s.PostNATDstAddr1, s.PostNATDstAddr2, s.PostNATDstAddr3 = a[0], a[1], a[2], a[3]
	s.PreNATDstAddr, s.PreNATDstAddr1, s.PreNATDstAddr2, s.PreNATDstAddr3 = a[0], a[1], a[2], a[3]
	s.IPProto = uint8(tracelog.Int(p["proto"]))
	s.SrcPort = uint16(tracelog.Int(p["sport"]))
	s.DstPort = uint16(tracelog.Int(p["dport"]))
	s.PostNATDstPort = s.DstPort
	s.PreNATDstPort = s.DstPort
	if s.IPProto == 1 || s.IPProto == 58 {
		s.DstPort = uint16(tracelog.Int(p["icmpType"])) | uint16(tracelog.Int(p["icmpCode"]))<<8
	}
	out := make([]byte, 512)
	copy(out, s.AsBytes())
	return out
}

func (c *acase) runBPF(cp compiled, sets *lpmSet, p M) string {
	st := makeState(p)
	ctx := make([]byte, ebpfvm.CtxSize)
	binary.LittleEndian.PutUint32(ctx[48:], allowIdx)
	binary.LittleEndian.PutUint32(ctx[52:], denyIdx)
	keySize := bpfipsets.IPSetEntrySize
	if c.ipv == 6 {
		keySize = bpfipsets.IPSetEntryV6Size
	}
	env := &ebpfvm.Env{State: st, Ctx: ctx, StateMapFD: fdState, IPSetMapFD: fdIPSet, StaticJumpMapFD: fdStatic,
		PolicyJumpMapFD: fdPolicy, IPSetLookup: sets.lookup, IPSetKeySize: keySize, PolicyProgs: map[int32][]ebpfvm.Insn{}}
	for k := 1; k < len(cp.progs); k++ {
		env.PolicyProgs[int32(polprog.SubProgramJumpIdx(polMapIndex, k, polMapStride))] = cp.progs[k]
	}
	res := ebpfvm.Run(env, cp.progs[0])
	rc := int32(state.StateFromBytes(st[:496]).PolicyRC)
	switch {
	case res.Err != nil:
		return "error:" + res.Err.Error()
	case res.TailStatic && res.TailIndex == allowIdx && rc == int32(state.PolicyAllow):
		return "allow"
	case res.TailStatic && res.TailIndex == denyIdx && rc == int32(state.PolicyDeny):
		return "deny"
	}
	return fmt.Sprintf("error:unexpected end tail=%v idx=%d rc=%d exit=%d", res.TailStatic, res.TailIndex, rc, res.Exit)
}

// ---- application-layer policy checker ---------------------------------------------------------------------

type flow struct {
	src, dst     net.IP
	sport, dport int
	proto        int
}

func (f *flow) GetSourceIP() net.IP                { return f.src }
func (f *flow) GetDestIP() net.IP                  { return f.dst }
func (f *flow) GetSourcePort() int                 { return f.sport }
func (f *flow) GetDestPort() int                   { return f.dport }
func (f *flow) GetProtocol() int                   { return f.proto }
func (f *flow) GetHttpMethod() *string             { return nil }
func (f *flow) GetHttpPath() *string               { return nil }
func (f *flow) GetSourcePrincipal() *string        { return nil }
func (f *flow) GetDestPrincipal() *string          { return nil }
func (f *flow) GetSourceLabels() map[string]string { return nil }
func (f *flow) GetDestLabels() map[string]string   { return nil }

func (c *acase) store() *policystore.PolicyStore {
	st := policystore.NewPolicyStore()
	for _, u := range c.ipsetUpdates() {
		st.ProcessUpdate("per-pod-policies", &proto.ToDataplane{Payload: &proto.ToDataplane_IpsetUpdate{IpsetUpdate: u}})
	}
	for _, u := range c.profileUpdates() {
		st.ProcessUpdate("per-pod-policies", &proto.ToDataplane{Payload: &proto.ToDataplane_ActiveProfileUpdate{ActiveProfileUpdate: u}})
	}
	for _, u := range c.policyUpdates() {
		st.ProcessUpdate("per-pod-policies", &proto.ToDataplane{Payload: &proto.ToDataplane_ActivePolicyUpdate{ActivePolicyUpdate: u}})
	}
	st.ProcessUpdate("per-pod-policies", &proto.ToDataplane{Payload: &proto.ToDataplane_WorkloadEndpointUpdate{
		WorkloadEndpointUpdate: &proto.WorkloadEndpointUpdate{Id: &proto.WorkloadEndpointID{OrchestratorId: "k8s", WorkloadId: "w", EndpointId: "eth0"}, Endpoint: c.endpoint()}}})
	st.ProcessUpdate("per-pod-policies", &proto.ToDataplane{Payload: &proto.ToDataplane_InSync{InSync: &proto.InSync{}}})
	return st
}

func runChecker(st *policystore.PolicyStore, ingress bool, p M) (verdict string) {
	defer func() {
		if e := recover(); e != nil {
			verdict = fmt.Sprintf("error:panic: %v", e)
		}
	}()
	f := &flow{src: net.IP(octets(p["src"])), dst: net.IP(octets(p["dst"])), sport: tracelog.Int(p["sport"]), dport: tracelog.Int(p["dport"]),
		proto: tracelog.Int(p["proto"])}
	dir := rules.RuleDirEgress
	if ingress {
		dir = rules.RuleDirIngress
	}
	trace, err := checker.Evaluate(checker.EnforcedOnly, dir, st, st.Endpoint, f)
	if err != nil {
		return "error:" + err.Error()
	}
	// the verdict is the action of the last rule of the trace: Allow = allowed; anything else (deny rule, end-of-tier
	// deny, no matching profile after a pass) = denied, the evaluation's initial status
	if len(trace) > 0 && trace[len(trace)-1] != nil && trace[len(trace)-1].Action == rules.RuleActionAllow {
		return "allow"
	}
	return "deny"
}

// ---- main ---------------------------------------------------------------------------------------------------

func fatal(err error) {
	fmt.Fprintln(os.Stderr, "agree:", err)
	os.Exit(2)
}

func pj(m googleproto.Message) json.RawMessage {
	b, err := protojson.Marshal(m)
	if err != nil {
		fatal(err)
	}
	return b
}

func main() {
	logrus.SetLevel(logrus.PanicLevel)
	env := tracelog.GetEnv()
	mode := os.Getenv("VERIF_MODE")
	lg, err := tracelog.Open(env.OutPath)
	if err != nil {
		fatal(err)
	}
	probes := map[int][][]M{}
	dumps := map[int]dumpCase{}
	if mode == "run" {
		b, err := os.ReadFile(env.BehPath)
		if err != nil {
			fatal(err)
		}
		var raw []struct {
			Case int   `json:"case"`
			Pkts [][]M `json:"pkts"`
		}
		if err := json.Unmarshal(b, &raw); err != nil {
			fatal(err)
		}
		for _, r := range raw {
			probes[r.Case] = r.Pkts
		}
		f, err := os.Open(os.Getenv("VERIF_C12_RULES"))
		if err != nil {
			fatal(err)
		}
		sc := bufio.NewScanner(f)
		sc.Buffer(make([]byte, 1<<20), 1<<28)
		for sc.Scan() {
			var d dumpCase
			if err := json.Unmarshal(sc.Bytes(), &d); err != nil {
				fatal(err)
			}
			dumps[d.Case] = d
		}
		f.Close()
	}
	var protos []M
	for i := 1; i <= env.N; i++ {
		c := genCase(env.Seed*1_000_003+int64(i), i)
		lg.T = i
		fields := M{"case": i, "ipv": int(c.ipv), "ipsets": polgen.SemIPSets(c.sets), "named": c.namedIDs(), "svc": c.svcIDs(),
			"dirs": []M{{"dir": "ingress", "tiers": c.semTiers(true), "profiles": c.semProfiles(true)},
				{"dir": "egress", "tiers": c.semTiers(false), "profiles": c.semProfiles(false)}}}
		if mode != "run" {
			pols, profs := []json.RawMessage{}, []json.RawMessage{}
			for _, u := range c.policyUpdates() {
				pols = append(pols, pj(u))
			}
			for _, u := range c.profileUpdates() {
				profs = append(profs, pj(u))
			}
			protos = append(protos, M{"case": i, "policies": pols, "profiles": profs, "endpoint": pj(c.endpoint())})
			lg.Emit("case", fields)
			continue
		}
		// netfilter
		deny := "drop"
		if c.reject {
			deny = "reject"
		}
		fields["deny"] = deny
		fields["marks"] = M{"accept": nfparse.Bits(markAccept), "pass": nfparse.Bits(markPass), "drop": nfparse.Bits(markDrop),
			"s0": nfparse.Bits(markScratch0), "s1": nfparse.Bits(markScratch1)}
		for _, nft := range []bool{false, true} {
			nfm, err := c.netfilter(nft)
			if err != nil {
				fatal(fmt.Errorf("case %d: %v", i, err))
			}
			if nft {
				fields["nft"] = nfm
			} else {
				fields["ipt"] = nfm
			}
		}
		// BPF
		d, ok := dumps[i]
		if !ok {
			fatal(fmt.Errorf("case %d: no extractRules dump", i))
		}
		ids, sets := c.buildIPSets()
		st := c.store()
		results := [][]M{}
		built := []string{}
		for di, dr := range []dumpRules{d.Ingress, d.Egress} {
			cp := compiled{err: dr.Panic}
			if dr.Panic == "" {
				r, err := toRules(dr)
				if err != nil {
					fatal(err)
				}
				cp = c.compile(r, ids)
			}
			built = append(built, cp.err)
			rs := []M{}
			var pk []M
			if di < len(probes[i]) {
				pk = probes[i][di]
			}
			for _, p := range pk {
				bv := "error:not built: " + cp.err
				if cp.err == "" {
					bv = c.runBPF(cp, sets, p)
				}
				rs = append(rs, M{"pkt": p, "bpf": bv, "chk": runChecker(st, di == 0, p)})
			}
			results = append(results, rs)
		}
		fields["bpfErr"] = built
		fields["results"] = results
		lg.Emit("case", fields)
	}
	if mode != "run" {
		b, err := json.Marshal(protos)
		if err != nil {
			fatal(err)
		}
		if err := os.WriteFile(os.Getenv("VERIF_C12_PROTOS"), b, 0o644); err != nil {
			fatal(err)
		}
	}
	if err := lg.Close(); err != nil {
		fatal(err)
	}
}
