// Driver for C45: replays TLC-generated behaviours and seeded random histories on real
// lib/datastructures/hashring rings (one per "node") and records every call and every Lookup answer.
// Members and lookup keys are integers in the trace; id 7 is spelled "s007" for the ring, so that the
// order of the ids is the order of the strings.  With a table-driven hash (supplied by the behaviour or
// drawn from the seed) the value table[id][salt] in 0..q-1 is scaled to the 64-bit ring by 2^64/q
// (q a power of two).  Nothing is judged here: owners are checked by specs/ring/T_Ring.tla.
package main

import (
	"encoding/binary"
	"fmt"
	"math/bits"
	"math/rand"
	"os"
	"sort"
	"strconv"

	"github.com/projectcalico/calico/lib/datastructures/hashring"

	"verifharness/tracelog"
)

type jc = map[string]any

type val struct{ M, Ver int }

type drv struct {
	log   *tracelog.Log
	rings map[int]*hashring.Ring[val]
	opts  []hashring.Option
	keys  []int
	live  map[int]map[int]bool // the driver's own bookkeeping of what it inserted (input generation only)
}

func name(id int) string { return fmt.Sprintf("s%03d", id) } // ids above 999 are only used with the default hash

func tableHash(htab [][]int, q int) hashring.Hash {
	shift := uint(64 - (bits.Len(uint(q)) - 1))
	return func(b []byte) uint64 {
		s := string(b[:len(b)-5])
		salt := int(binary.LittleEndian.Uint32(b[len(b)-4:]))
		id, err := strconv.Atoi(s[1:])
		if err != nil {
			panic(err)
		}
		v := uint64(htab[id-1][salt])
		if q == 1 {
			return 0
		}
		return v << shift
	}
}

func (d *drv) start(t, r, p, q int, htab [][]int, keys []int) {
	d.rings = map[int]*hashring.Ring[val]{}
	d.live = map[int]map[int]bool{}
	d.keys = keys
	d.opts = []hashring.Option{hashring.WithReplicas(r), hashring.WithProbes(p)}
	exact := htab != nil
	if exact {
		d.opts = append(d.opts, hashring.WithHash(tableHash(htab, q)))
	} else {
		htab = [][]int{{0}}
	}
	d.log.Reset(t, jc{"r": r, "p": p, "q": q, "exact": exact, "htab": htab})
}

func (d *drv) ring(n int) *hashring.Ring[val] {
	if d.rings[n] == nil {
		d.rings[n] = hashring.New[val](d.opts...)
		d.live[n] = map[int]bool{}
	}
	return d.rings[n]
}

func (d *drv) ins(n, m, ver int) {
	d.ring(n).Insert(name(m), val{m, ver})
	d.live[n][m] = true
	d.log.Emit("ins", jc{"n": n, "m": m, "ver": ver})
	d.log.Emit("len", jc{"n": n, "len": d.ring(n).Len()})
}

func (d *drv) rem(n, m int) {
	d.ring(n).Remove(name(m))
	delete(d.live[n], m)
	d.log.Emit("rem", jc{"n": n, "m": m})
	d.log.Emit("len", jc{"n": n, "len": d.ring(n).Len()})
}

func (d *drv) lookup(n, k int) {
	v, ok := d.ring(n).Lookup(name(k))
	d.log.Emit("lookup", jc{"n": n, "k": k, "f": ok, "m": v.M, "ver": v.Ver})
}

func (d *drv) lookupAll(n int) {
	for _, k := range d.keys {
		d.lookup(n, k)
	}
	d.log.Emit("len", jc{"n": n, "len": d.ring(n).Len()})
}

func (d *drv) fresh(n int, ms []int) {
	for _, m := range ms {
		d.ins(n, m, 1000+m)
	}
	d.ring(n)
}

// lookupBatch looks up many keys with no mutation in between and records them as one compact event
func (d *drv) lookupBatch(n int, ks []int) {
	fs, ms, vers := make([]bool, len(ks)), make([]int, len(ks)), make([]int, len(ks))
	for i, k := range ks {
		v, ok := d.ring(n).Lookup(name(k))
		fs[i], ms[i], vers[i] = ok, v.M, v.Ver
	}
	d.log.Emit("lookups", jc{"n": n, "ks": ks, "fs": fs, "ms": ms, "vers": vers})
}

// big: large member sets with the default hash (thousands of virtual nodes), removals and several
// insertions between lookups so that the lazy sweep and the re-sort interleave; after every step hundreds
// of keys are looked up on the history-ful ring and on a ring built fresh from the current member set
func (d *drv) big(t int, rnd *rand.Rand, tier string) {
	r, p := 100, 1 // Felix's proxy-neighbour manager uses WithReplicas(100) and the default single probe
	switch rnd.Intn(5) {
	case 0:
		r, p = 64, 3
	case 1:
		r, p = 150, 1
	}
	n0 := 40 + rnd.Intn(81)
	d.start(t, r, p, 1, nil, nil)
	next := 1
	ver := 0
	var removed []int
	for i := 0; i < n0; i++ {
		ver++
		d.ins(1, next, ver)
		next++
	}
	nkeys := 200 + rnd.Intn(200)
	steps := 6 + rnd.Intn(6)
	if tier == "thorough" {
		steps += rnd.Intn(8)
	}
	for s := 0; s <= steps; s++ {
		if s > 0 {
			var todo []func()
			live := sortedLive(d.live[1])
			for i, nr := 0, rnd.Intn(4); i < nr && len(live) > 2; i++ {
				j := rnd.Intn(len(live))
				m := live[j]
				live = append(live[:j], live[j+1:]...)
				removed = append(removed, m)
				todo = append(todo, func() { d.rem(1, m) })
			}
			for i, ni := 0, rnd.Intn(5); i < ni; i++ {
				var m int
				if len(removed) > 0 && rnd.Intn(3) == 0 { // a member that was removed earlier (maybe not swept yet)
					m = removed[rnd.Intn(len(removed))]
				} else {
					m = next
					next++
				}
				todo = append(todo, func() { ver++; d.ins(1, m, ver) })
			}
			rnd.Shuffle(len(todo), func(i, j int) { todo[i], todo[j] = todo[j], todo[i] })
			for i, f := range todo {
				f()
				if i+1 < len(todo) && rnd.Intn(6) == 0 {
					d.lookup(1, 5000+rnd.Intn(nkeys))
				}
			}
		}
		ks := make([]int, nkeys)
		for i := range ks {
			ks[i] = 5000 + i
		}
		d.lookupBatch(1, ks)
		fresh := sortedLive(d.live[1])
		if rnd.Intn(2) == 0 {
			rnd.Shuffle(len(fresh), func(i, j int) { fresh[i], fresh[j] = fresh[j], fresh[i] })
		}
		d.fresh(100+s, fresh)
		d.lookupBatch(100+s, ks)
	}
}

func ints(v any) []int {
	out := []int{}
	if a, ok := v.([]any); ok {
		for _, x := range a {
			out = append(out, tracelog.Int(x))
		}
	}
	return out
}

func (d *drv) replay(t int, beh []map[string]any) {
	for _, op := range beh {
		n, m, k := tracelog.Int(op["n"]), tracelog.Int(op["m"]), tracelog.Int(op["k"])
		switch tracelog.Str(op["op"]) {
		case "init":
			var htab [][]int
			for _, row := range op["htab"].([]any) {
				htab = append(htab, ints(row))
			}
			d.start(t, tracelog.Int(op["r"]), tracelog.Int(op["p"]), tracelog.Int(op["q"]), htab, ints(op["keys"]))
		case "ins":
			d.ins(n, m, tracelog.Int(op["ver"]))
		case "rem":
			d.rem(n, m)
		case "lookup":
			d.lookup(n, k)
		case "lookupall":
			d.lookupAll(n)
		case "fresh":
			d.fresh(n, ints(op["ms"]))
		case "end":
		default:
			panic("unknown op " + tracelog.Str(op["op"]))
		}
	}
}

func sortedLive(m map[int]bool) []int {
	out := []int{}
	for k := range m {
		out = append(out, k)
	}
	sort.Ints(out)
	return out
}

// random leg: several nodes, lazy removals, re-insert before the sweep, convergence to a common member
// set in different orders, fresh rings; table-driven hash with collisions or the default XXH3 hash
func (d *drv) random(t int, rnd *rand.Rand, tier string) {
	var htab [][]int
	var r, p, q, nid int
	if rnd.Intn(3) > 0 {
		q = []int{2, 4, 4, 8, 16, 64, 1024}[rnd.Intn(7)]
		r, p = 1+rnd.Intn(4), 1+rnd.Intn(4)
		nid = 4 + rnd.Intn(7)
		for i := 0; i < nid; i++ {
			row := make([]int, 4)
			for j := range row {
				row[j] = rnd.Intn(q)
			}
			htab = append(htab, row)
		}
	} else {
		q = 1
		r = []int{1, 3, 100}[rnd.Intn(3)]
		p = []int{1, 2, 5}[rnd.Intn(3)]
		nid = 6 + rnd.Intn(30)
	}
	nmem := 2 + rnd.Intn(nid-2)
	keys := []int{}
	for i := 0; i < 2+rnd.Intn(5); i++ {
		keys = append(keys, 1+rnd.Intn(nid))
	}
	d.start(t, r, p, q, htab, keys)
	nodes := 2 + rnd.Intn(3)
	steps := 15 + rnd.Intn(40)
	if tier == "thorough" {
		steps += rnd.Intn(60)
	}
	ver := 0
	for i := 0; i < steps; i++ {
		n := 1 + rnd.Intn(nodes)
		m := 1 + rnd.Intn(nmem)
		switch x := rnd.Intn(10); {
		case x < 4:
			ver++
			d.ins(n, m, ver)
		case x < 7:
			d.rem(n, m)
		case x < 9:
			d.lookup(n, keys[rnd.Intn(len(keys))])
		default:
			d.lookupAll(n)
		}
	}
	// converge every node to node 1's member set, each in its own order, without intermediate lookups
	target := sortedLive(d.live[1])
	d.ring(1)
	for n := 2; n <= nodes; n++ {
		d.ring(n)
		var todo []func()
		for _, m := range sortedLive(d.live[n]) {
			if !d.live[1][m] {
				m := m
				todo = append(todo, func() { d.rem(n, m) })
			}
		}
		for _, m := range target {
			if !d.live[n][m] {
				m := m
				todo = append(todo, func() { ver++; d.ins(n, m, ver) })
			}
		}
		rnd.Shuffle(len(todo), func(i, j int) { todo[i], todo[j] = todo[j], todo[i] })
		for _, f := range todo {
			f()
		}
	}
	for n := 1; n <= nodes; n++ {
		d.lookupAll(n)
	}
	// a ring built fresh from the final set, in ascending and in shuffled order
	d.fresh(100, target)
	d.lookupAll(100)
	sh := append([]int{}, target...)
	rnd.Shuffle(len(sh), func(i, j int) { sh[i], sh[j] = sh[j], sh[i] })
	d.fresh(101, sh)
	d.lookupAll(101)
}

// guard runs one trace; a panic of the real code ends the trace with a "panic" event, which the trace
// specification never accepts
func (d *drv) guard(f func()) {
	defer func() {
		if r := recover(); r != nil {
			msg := fmt.Sprint(r)
			if len(msg) > 120 {
				msg = msg[:120]
			}
			d.log.Emit("panic", jc{"what": msg})
		}
	}()
	f()
}

func main() {
	env := tracelog.GetEnv()
	lg, err := tracelog.Open(env.OutPath)
	if err != nil {
		fmt.Fprintln(os.Stderr, err)
		os.Exit(2)
	}
	d := &drv{log: lg}
	behs, err := tracelog.LoadBehaviours(env.BehPath)
	if err != nil {
		fmt.Fprintln(os.Stderr, err)
		os.Exit(2)
	}
	t := 0
	for _, b := range behs {
		t++
		d.guard(func() { d.replay(t, b) })
	}
	for i := 0; i < env.N; i++ {
		t++
		d.guard(func() { d.random(t, rand.New(rand.NewSource(env.Seed*1000003+int64(i))), env.Tier) })
	}
	if nb, _ := strconv.Atoi(os.Getenv("VERIF_RING_BIG")); nb > 0 {
		for i := 0; i < nb; i++ {
			t++
			d.guard(func() { d.big(t, rand.New(rand.NewSource(env.Seed*7919+int64(i))), env.Tier) })
		}
	}
	if err := lg.Close(); err != nil {
		fmt.Fprintln(os.Stderr, err)
		os.Exit(2)
	}
}
