// Driver for C34: calls the real AuthorizeTierOperation against a scripted stub k8s authorizer whose
// Authorize blocks on a gate; the three blocked checks are released in the completion order chosen by
// TLC (the next one only after the previous checker goroutine has exited), the result is recorded, and
// - the binary being built with -race - every data-race report of the race detector that appears
// during a call is recorded as a `race` event of that call.  No expectation is computed here.
package main

import (
	"context"
	"encoding/json"
	"errors"
	"fmt"
	"io"
	"math/rand"
	"os"
	"regexp"
	"runtime"
	"sort"
	"strings"
	"syscall"
	"time"

	"github.com/sirupsen/logrus"
	k8serrors "k8s.io/apimachinery/pkg/api/errors"
	"k8s.io/apiserver/pkg/authentication/user"
	k8sauth "k8s.io/apiserver/pkg/authorization/authorizer"
	genericapirequest "k8s.io/apiserver/pkg/endpoints/request"

	"github.com/projectcalico/calico/apiserver/pkg/registry/projectcalico/authorizer"

	"verifharness/tracelog"
)

type answer struct {
	D string
	E bool
}

type pending struct {
	check    string
	q        map[string]any
	release  chan struct{}
	answered chan given // what the stub really answered (sent just before Authorize returns)
}

type given struct {
	answer
	cancelled bool
}

type stub struct {
	tier     string
	table    map[string]answer
	arrivals chan *pending
}

func (s *stub) Authorize(ctx context.Context, a k8sauth.Attributes) (k8sauth.Decision, string, error) {
	check := "policy"
	if a.GetResource() == "tiers" {
		check = "getTier"
	} else if a.GetName() == s.tier+".*" {
		check = "wildcard"
	}
	p := &pending{check: check, release: make(chan struct{}), answered: make(chan given, 1),
		q: map[string]any{"verb": a.GetVerb(), "resource": a.GetResource(), "ns": a.GetNamespace(), "name": a.GetName()}}
	s.arrivals <- p
	<-p.release
	if cerr := ctx.Err(); cerr != nil {
		// like a webhook authorizer: a question whose context was cancelled by the caller is not answered
		p.answered <- given{answer{"NoOpinion", true}, true}
		return k8sauth.DecisionNoOpinion, "context cancelled", cerr
	}
	ans := s.table[check]
	p.answered <- given{ans, false}
	var err error
	if ans.E {
		err = errors.New("scripted authorizer error for " + check)
	}
	switch ans.D {
	case "Allow":
		return k8sauth.DecisionAllow, "scripted", err
	case "Deny":
		return k8sauth.DecisionDeny, "scripted", err
	}
	return k8sauth.DecisionNoOpinion, "scripted", err
}

func (s *stub) ConditionsAwareAuthorize(ctx context.Context, a k8sauth.Attributes) k8sauth.ConditionsAwareDecision {
	return k8sauth.ConditionsAwareDecisionFromParts(s.Authorize(ctx, a))
}

func (s *stub) EvaluateConditions(ctx context.Context, decision k8sauth.ConditionsAwareDecision, data k8sauth.ConditionsData) (k8sauth.Decision, string, error) {
	return k8sauth.DecisionDeny, "", k8sauth.ErrorConditionEvaluationNotSupported
}

type reqT struct{ verb, resource, ns, name, tier string }

var requests = []reqT{
	{"create", "networkpolicies", "ns1", "t1.pol", "t1"},
	{"get", "globalnetworkpolicies", "", "pol", "t1"},
	{"delete", "networkpolicies", "ns2", "pol", "default"},
	{"list", "networkpolicies", "ns1", "", "t1"},
	{"update", "stagedglobalnetworkpolicies", "", "default.pol", "default"},
	{"watch", "globalnetworkpolicies", "", "", "t2"},
	{"patch", "stagednetworkpolicies", "ns3", "t2.p-1", "t2"},
}

var testUser = &user.DefaultInfo{Name: "verif-user", UID: "u1", Groups: []string{"g1"}}

// ---- race detector output -------------------------------------------------------------------

type raceLog struct {
	path string
	off  int64
}

var accessRe = regexp.MustCompile(`(?m)^(Read|Write|Previous read|Previous write|Atomic read|Atomic write|Previous atomic read|Previous atomic write) at 0x[0-9a-f]+ by (?:goroutine \d+|main goroutine):\n\s+(\S+)\(.*\)\n\s+(\S+):(\d+)`)
var identRe = regexp.MustCompile(`[A-Za-z_][A-Za-z0-9_]*`)
var closureRe = regexp.MustCompile(`(\.func\d+|\.gowrap\d+|\.\d+)+$`)

func idents(text string) map[string]bool {
	out := map[string]bool{}
	for _, t := range identRe.FindAllString(text, -1) {
		switch t {
		case "if", "nil", "var", "return", "func", "go", "defer", "_", "for", "range", "else":
		default:
			out[t] = true
		}
	}
	return out
}

func sourceLine(file string, line int) string {
	b, err := os.ReadFile(file)
	if err != nil {
		return ""
	}
	ls := strings.Split(string(b), "\n")
	if line < 1 || line > len(ls) {
		return ""
	}
	return ls[line-1]
}

// lhs returns the text left of the first assignment operator of a source line ("" if none).
func lhs(text string) string {
	for i := 0; i < len(text); i++ {
		if text[i] != '=' {
			continue
		}
		if i+1 < len(text) && text[i+1] == '=' {
			i++
			continue
		}
		if i > 0 && strings.ContainsRune("!<>=", rune(text[i-1])) {
			continue
		}
		end := i
		if i > 0 && text[i-1] == ':' {
			end = i - 1
		}
		return text[:end]
	}
	return ""
}

// parse returns, for every new race report, a description: the functions of the two conflicting
// accesses (closure suffixes removed) and the identifiers common to the two source lines.
func (r *raceLog) poll() []map[string]any {
	b, err := os.ReadFile(r.path)
	if err != nil || int64(len(b)) <= r.off {
		return nil
	}
	fresh := string(b[r.off:])
	r.off = int64(len(b))
	var out []map[string]any
	for _, rep := range strings.Split(fresh, "WARNING: DATA RACE")[1:] {
		ms := accessRe.FindAllStringSubmatch(rep, -1)
		fns := map[string]bool{}
		var common map[string]bool
		var lines []string
		for _, m := range ms {
			fn := m[2]
			if i := strings.LastIndex(fn, "/"); i >= 0 {
				fn = fn[i+1:]
			}
			fns[closureRe.ReplaceAllString(fn, "")] = true
			var ln int
			fmt.Sscanf(m[4], "%d", &ln)
			text := sourceLine(m[3], ln)
			lines = append(lines, fmt.Sprintf("%s %s:%s %s", m[1], m[3][strings.LastIndex(m[3], "/")+1:], m[4], strings.TrimSpace(text)))
			var ids map[string]bool
			if strings.Contains(strings.ToLower(m[1]), "write") && lhs(text) != "" {
				ids = idents(lhs(text))
			} else {
				ids = idents(text)
			}
			if common == nil {
				common = ids
			} else {
				for k := range common {
					if !ids[k] {
						delete(common, k)
					}
				}
			}
		}
		out = append(out, map[string]any{"sig": "race:" + joinKeys(fns, "+") + ":" + joinKeys(common, "|"), "accesses": lines})
	}
	return out
}

func joinKeys(m map[string]bool, sep string) string {
	var ks []string
	for k := range m {
		ks = append(ks, k)
	}
	sort.Strings(ks)
	if len(ks) == 0 {
		return "?"
	}
	return strings.Join(ks, sep)
}

// ---- one call ---------------------------------------------------------------------------------

var slowMode bool // set when the implementation does not issue the three checks concurrently

func waitFor(cond func() bool, d time.Duration) bool {
	deadline := time.Now().Add(d)
	for !cond() {
		if time.Now().After(deadline) {
			return false
		}
		runtime.Gosched()
		time.Sleep(20 * time.Microsecond)
	}
	return true
}

func runCase(lg *tracelog.Log, rl *raceLog, t int, c map[string]any, rq reqT) {
	table := map[string]answer{}
	rows, _ := c["table"].([]any)
	for _, r := range rows {
		m := r.(map[string]any)
		e, _ := m["e"].(bool)
		table[tracelog.Str(m["check"])] = answer{tracelog.Str(m["d"]), e}
	}
	var order []string
	for _, o := range c["order"].([]any) {
		order = append(order, tracelog.Str(o))
	}
	lg.Reset(t, map[string]any{"table": c["table"], "order": order})
	st := &stub{tier: rq.tier, table: table, arrivals: make(chan *pending, 16)}
	ta := authorizer.NewTierAuthorizer(st)

	path := "/apis/projectcalico.org/v3/"
	if rq.ns != "" {
		path += "namespaces/" + rq.ns + "/"
	}
	path += rq.resource
	if rq.name != "" {
		path += "/" + rq.name
	}
	ctx := genericapirequest.WithUser(context.Background(), testUser)
	ctx = genericapirequest.WithRequestInfo(ctx, &genericapirequest.RequestInfo{
		IsResourceRequest: true, Path: path, Verb: rq.verb, APIGroup: "projectcalico.org", APIVersion: "v3",
		Resource: rq.resource, Namespace: rq.ns, Name: rq.name,
	})
	lg.Emit("call", map[string]any{"verb": rq.verb, "resource": rq.resource, "ns": rq.ns, "name": rq.name, "tier": rq.tier})

	resCh := make(chan error, 1)
	go func() { resCh <- ta.AuthorizeTierOperation(ctx, rq.name, rq.tier) }()

	pend := map[string]*pending{}
	var result error
	done := false
	gather := func() {
		for {
			select {
			case p := <-st.arrivals:
				pend[p.check+fmt.Sprint(len(pend))] = p
			case result = <-resCh:
				done = true
			default:
				return
			}
		}
	}
	find := func(check string) (string, *pending) {
		keys := make([]string, 0, len(pend))
		for k := range pend {
			keys = append(keys, k)
		}
		sort.Strings(keys)
		for _, k := range keys {
			if check == "" || pend[k].check == check {
				return k, pend[k]
			}
		}
		return "", nil
	}
	arrivalWait := 20 * time.Second
	if slowMode {
		arrivalWait = 30 * time.Millisecond
	}
	// all three checks are expected to be in flight before the first release
	if !waitFor(func() bool { gather(); return done || len(pend) == 3 }, arrivalWait) {
		slowMode, arrivalWait = true, 30*time.Millisecond
	}
	remaining := append([]string{}, order...)
	for !done {
		var k string
		var p *pending
		if len(remaining) > 0 {
			want := remaining[0]
			if waitFor(func() bool { gather(); _, q := find(want); return done || q != nil }, arrivalWait) && !done {
				k, p = find(want)
			}
		}
		if done {
			break
		}
		if p == nil {
			// the wanted check is not in flight (an implementation that asks sequentially or not at all),
			// or everything scripted has been released: release whatever arrives, in arrival order
			if len(remaining) > 0 {
				slowMode, arrivalWait = true, 30*time.Millisecond
			}
			if !waitFor(func() bool { gather(); return done || len(pend) > 0 }, 180*time.Second) {
				fmt.Println("tierauth: call neither returned nor asked anything for 180s")
				os.Exit(2)
			}
			if done {
				break
			}
			k, p = find("")
		}
		for i, c := range remaining {
			if c == p.check {
				remaining = append(remaining[:i:i], remaining[i+1:]...)
				break
			}
		}
		delete(pend, k)
		g := runtime.NumGoroutine()
		close(p.release)
		ans := <-p.answered
		ev := map[string]any{"check": p.check, "d": ans.D, "e": ans.E, "cancelled": ans.cancelled}
		for kk, v := range p.q {
			ev[kk] = v
		}
		lg.Emit("ask", ev)
		// next release only after this checker goroutine has finished (or the call has returned)
		waitFor(func() bool { gather(); return done || runtime.NumGoroutine() < g }, arrivalWait)
	}
	lg.Emit("result", map[string]any{"allowed": result == nil, "forbidden": result != nil && k8serrors.IsForbidden(result)})
	for _, r := range rl.poll() {
		lg.Emit("race", r)
	}
}

func main() {
	env := tracelog.GetEnv()
	// the race detector writes its reports to fd 2: point it at a file we can read back
	rl := &raceLog{path: env.OutPath + ".racelog"}
	f, err := os.Create(rl.path)
	if err != nil {
		fmt.Println(err)
		os.Exit(2)
	}
	if err := syscall.Dup3(int(f.Fd()), 2, 0); err != nil {
		fmt.Println("dup3:", err)
		os.Exit(2)
	}
	logrus.SetOutput(io.Discard)
	logrus.SetLevel(logrus.PanicLevel)

	lg, err := tracelog.Open(env.OutPath)
	if err != nil {
		fmt.Println(err)
		os.Exit(2)
	}
	behs, err := tracelog.LoadBehaviours(env.BehPath)
	if err != nil {
		fmt.Println(err)
		os.Exit(2)
	}
	t := 0
	for _, b := range behs {
		for _, c := range b {
			if tracelog.Str(c["op"]) != "case" {
				continue
			}
			t++
			runCase(lg, rl, t, c, requests[(t+int(env.Seed))%len(requests)])
		}
	}
	// seeded extra calls (VERIF_N): random tables/orders over all request shapes
	rnd := rand.New(rand.NewSource(env.Seed))
	checks := []string{"getTier", "policy", "wildcard"}
	ds := []string{"Allow", "Deny", "NoOpinion"}
	for i := 0; i < env.N; i++ {
		t++
		var rows []any
		for _, c := range checks {
			rows = append(rows, map[string]any{"check": c, "d": ds[rnd.Intn(3)], "e": rnd.Intn(3) == 0})
		}
		ord := []any{"getTier", "policy", "wildcard"}
		rnd.Shuffle(3, func(a, b int) { ord[a], ord[b] = ord[b], ord[a] })
		runCase(lg, rl, t, map[string]any{"table": rows, "order": ord}, requests[rnd.Intn(len(requests))])
	}
	if err := lg.Close(); err != nil {
		fmt.Println(err)
		os.Exit(2)
	}
	j, _ := json.Marshal(map[string]any{"calls": t, "slow_mode": slowMode})
	fmt.Println("C34SUMMARY " + string(j))
}
