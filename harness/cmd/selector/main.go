// Driver for C06 (and the restriction-soundness leg of C07): feeds selector expressions to the real
// libcalico-go/lib/selector/parser and records, per expression, what Parse / Validate / String /
// UniqueID / Evaluate / LabelRestrictions answered.  Expressions come from
//   - TLC-generated ASTs (VERIF_BEH), rendered to text here in several spellings,
//   - a seeded grammar-directed generator over a larger vocabulary,
//   - token-level mutations of valid renderings (mostly rejected inputs).
//
// The driver never judges: the node tree of the real parser is exported purely syntactically to the AST
// JSON of specs/lib/Selectors.tla and every answer of the real code is logged for TLC.
package main

import (
	"fmt"
	"math/rand"
	"os"
	"sort"
	"strings"

	"github.com/projectcalico/calico/libcalico-go/lib/selector/parser"

	"verifharness/selgen"
	"verifharness/tracelog"
)

type drv struct {
	log   *tracelog.Log
	maps  []map[string]string
	restr bool // also log LabelRestrictions (C07 leg)
	seen  map[string]bool
}

// one expression -> one "expr" event
func (d *drv) expr(text string, src string) {
	if d.seen[text] {
		return
	}
	d.seen[text] = true
	ev := map[string]any{"text": text, "src": src}
	if d.restr {
		// restriction-soundness leg of C07: only the tree and its LabelRestrictions() are needed
		sel, perr := safeParse(text)
		ev["parse_ok"] = perr == nil
		if perr == nil {
			strs := map[string]bool{}
			ev["ast"] = selgen.Export(sel.Root(), strs)
			ev["restr"] = selgen.ExportRestrictions(sel.LabelRestrictions(), strs)
			ev["ct"] = selgen.CharTable(strs)
		}
		d.log.Emit("expr", ev)
		return
	}
	sel, perr := safeParse(text)
	verr := safeValidate(text)
	ev["parse_ok"] = perr == nil
	ev["validate_ok"] = verr == nil
	if perr == errPanic || verr == errPanic {
		// a panic is recorded as "not accepted" (plus this informational flag)
		ev["panicked"] = true
	}
	if perr == nil {
		strs := map[string]bool{}
		ast := selgen.Export(sel.Root(), strs)
		ev["ast"] = ast
		canon := sel.String()
		ev["canon"] = canon
		ev["uid"] = sel.UniqueID()
		ev["evals"] = d.evals(sel)
		sel2, err2 := safeParse(canon)
		ev["re_ok"] = err2 == nil
		ev["re_validate_ok"] = safeValidate(canon) == nil
		if err2 == nil {
			ev["re_ast"] = selgen.Export(sel2.Root(), strs)
			ev["re_canon"] = sel2.String()
			ev["re_uid"] = sel2.UniqueID()
			ev["re_evals"] = d.evals(sel2)
		} else {
			ev["re_ast"] = map[string]any{"op": "all"}
			ev["re_canon"] = ""
			ev["re_uid"] = ""
			ev["re_evals"] = []bool{}
		}
		ev["ct"] = selgen.CharTable(strs)
	}
	d.log.Emit("expr", ev)
}

var errPanic = fmt.Errorf("panic in the parser")

func safeParse(text string) (sel *parser.Selector, err error) {
	defer func() {
		if r := recover(); r != nil {
			sel, err = nil, errPanic
		}
	}()
	// the package-level entry point (shared parser with its re-used token buffer; its mutex is
	// released by a deferred Unlock, so recovering from a panic is safe)
	return parser.Parse(text)
}

func safeValidate(text string) (err error) {
	defer func() {
		if r := recover(); r != nil {
			err = errPanic
		}
	}()
	return parser.Validate(text)
}

func (d *drv) evals(sel *parser.Selector) []bool {
	out := make([]bool, len(d.maps))
	for i, m := range d.maps {
		out[i] = sel.Evaluate(m)
	}
	return out
}

func (d *drv) start(t int, keys, vals []string) {
	d.maps = selgen.AllMaps(keys, vals)
	d.seen = map[string]bool{}
	strs := map[string]bool{}
	for _, v := range vals {
		strs[v] = true
	}
	maps := make([]any, len(d.maps))
	for i, m := range d.maps {
		maps[i] = m
	}
	d.log.Reset(t, map[string]any{"keys": keys, "vals": vals, "maps": maps, "ct": selgen.CharTable(strs)})
}

var keyPool = []string{"a", "b", "role", "k8s.io/name", "a-b_c.d", "in", "has", "not", "all", "global",
	"contains", "starts", "with", "ends", "A", "0", "projectcalico.org/namespace"}

var valFamilies = [][]string{
	{"x", "xy", "yxy"},
	{"", "s", "it's"},
	{`q"`, `say "hi"`, "hi"},
	{"a b", " ", "b"},
	{"&&", "||", "&&||"},
	{"(", "()", ")"},
	{"{", "}", ","},
	{"!", "!=", "=="},
	{"prod", "production", "duct"},
	{"é", "café", "caf"},
	{"x\ty", "\t", "y"},
	{"has(a)", "a", "all()"},
}

func (d *drv) random(t int, rnd *rand.Rand, perTrace int) {
	nk := 2 + rnd.Intn(2)
	keys := pick(rnd, keyPool, nk)
	fam := valFamilies[rnd.Intn(len(valFamilies))]
	nv := 2 + rnd.Intn(2)
	if nk == 3 {
		nv = 2
	}
	vals := pick(rnd, fam, nv)
	sort.Strings(keys)
	sort.Strings(vals)
	d.start(t, keys, vals)
	// expressions may also mention one key and one value outside the vocabulary of the label maps
	exKeys := append(append([]string{}, keys...), keyPool[rnd.Intn(len(keyPool))])
	exVals := append(append([]string{}, vals...), fam[rnd.Intn(len(fam))], valFamilies[rnd.Intn(len(valFamilies))][0])
	g := &selgen.Gen{Rnd: rnd, Keys: exKeys, Vals: exVals}
	for i := 0; i < perTrace; i++ {
		ast := g.AST(rnd.Intn(4))
		st := selgen.RandomStyle(rnd)
		toks := selgen.Tokens(ast, st)
		d.expr(selgen.Join(toks, st), "gen")
		// token-level mutations of the same rendering
		nm := 1 + rnd.Intn(3)
		if d.restr {
			continue
		}
		for j := 0; j < nm; j++ {
			mt := selgen.Mutate(rnd, toks)
			d.expr(selgen.Join(mt, st), "mut")
		}
		if rnd.Intn(4) == 0 {
			d.expr(selgen.CharMutate(rnd, selgen.Join(toks, st)), "cmut")
		}
	}
	for i := 0; i < 6; i++ {
		st := selgen.PlainStyle()
		d.expr(selgen.Join(selgen.Tokens(g.SameLabelShape(), st), st), "shape")
	}
	for _, s := range []string{"", " ", "\t", "()", "(", ")", "!", "&&", "a", "a ==", `a == "`, `a == 'x`, "has()", "has(", "all(", "global(",
		"all( )", "global(\t)", "has( a )", "a in {}", "a not in {}", "a notin {}", `a in {"x",}`, `a in {,}`, `a in {"x" "y"}`, "\n",
		`tier in {"bronze","gold","silver"} && (tier == 'silver' || tier == 'gold')`, `(a == "xy" || a == "x") && a in {"x","xy"}`,
		`a in {"x","xy"} && (a == "xy" || a == "x")`, `has(a) has(b)`, `all() )`, `a == "b")`, `a in {"x"} }`, `a == "b" "c"`, `a not in {"a","a","b","b","c"}`, `a in {"c","b","b","a"}`,
		`a not in {"b","a"}`, `!(!has(a))`, `!(!(!has(a)))`, `!((!has(a)))`, `!( !a == "x" )`, `!(!(a == "x" && has(b)))`, `!(!(!(!all())))`, `!!(!has(a))`, `!(!!has(a))`,
		`a == "x"` + "\n", strings.Repeat("a", 512) + ` == "x"`, strings.Repeat("a", 513) + ` == "x"`, "has(" + strings.Repeat("b", 513) + ")"} {
		d.expr(s, "fixed")
	}
}

func pick(rnd *rand.Rand, pool []string, n int) []string {
	idx := rnd.Perm(len(pool))
	if n > len(pool) {
		n = len(pool)
	}
	out := make([]string, n)
	for i := 0; i < n; i++ {
		out[i] = pool[idx[i]]
	}
	return out
}

func main() {
	env := tracelog.GetEnv()
	lg, err := tracelog.Open(env.OutPath)
	if err != nil {
		fmt.Fprintln(os.Stderr, err)
		os.Exit(2)
	}
	d := &drv{log: lg, restr: os.Getenv("VERIF_RESTR") == "1"}
	behs, err := tracelog.LoadBehaviours(env.BehPath)
	if err != nil {
		fmt.Fprintln(os.Stderr, err)
		os.Exit(2)
	}
	t := 0
	for bi, b := range behs {
		t++
		d.start(t, []string{"a", "b"}, []string{"x", "xy"})
		rnd := rand.New(rand.NewSource(env.Seed*7919 + int64(bi)))
		for ai, op := range b {
			if tracelog.Str(op["op"]) != "ast" {
				continue
			}
			ast, err := selgen.FromJSON(op["ast"])
			if err != nil {
				fmt.Fprintln(os.Stderr, "bad generated AST:", err)
				os.Exit(2)
			}
			for i, st := range []*selgen.Style{selgen.PlainStyle(), selgen.DenseStyle(), selgen.RandomStyle(rnd)} {
				if d.restr && i > 0 {
					break
				}
				d.expr(selgen.Join(selgen.Tokens(ast, st), st), "tlc")
			}
			// systematic token-level damage of the plain rendering: every proper prefix and every
			// single dropped token (mostly rejected texts, for the Validate == Parse clause)
			pst := selgen.PlainStyle()
			toks := selgen.Tokens(ast, pst)
			if !d.restr {
				// a complete expression followed by one more token (all of them for the leaves, two per
				// other tree, rotating through the list)
				if ast.Op != "not" && ast.Op != "and" && ast.Op != "or" {
					for _, tr := range selgen.Trailers {
						d.expr(selgen.Join(append(append([]string{}, toks...), tr), pst), "tlc-trail")
					}
				} else {
					for k := 0; k < 2; k++ {
						tr := selgen.Trailers[(ai*2+k)%len(selgen.Trailers)]
						d.expr(selgen.Join(append(append([]string{}, toks...), tr), pst), "tlc-trail")
					}
				}
			}
			for i := 0; i < len(toks) && !d.restr; i++ {
				d.expr(selgen.Join(toks[:i], pst), "tlc-prefix")
				drop := append(append([]string{}, toks[:i]...), toks[i+1:]...)
				d.expr(selgen.Join(drop, pst), "tlc-drop")
			}
		}
	}
	per := 40
	for i := 0; i < env.N; i++ {
		t++
		d.random(t, rand.New(rand.NewSource(env.Seed*1000003+int64(i))), per)
	}
	if d.restr {
		if err := lg.Close(); err != nil {
			fmt.Fprintln(os.Stderr, err)
			os.Exit(2)
		}
		return
	}
	// regression cases of the C06 finding fixed in /repo 88cb2cf (negations separated by parentheses:
	// the canonical text "!!has(a)" used to re-parse to "has(a)"), in a trace of their own
	t++
	d.start(t, []string{"a"}, []string{"x"})
	for _, s := range []string{"!(!has(a))", "!(!(!has(a)))", "!((!has(a)))", `!( !a == "x" )`, `!(!(a == "x" || has(a)))`} {
		d.expr(s, "fixed")
	}
	if err := lg.Close(); err != nil {
		fmt.Fprintln(os.Stderr, err)
		os.Exit(2)
	}
}
