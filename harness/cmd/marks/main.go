// Driver for C35: replays TLC-generated allocation sequences and seeded random ones on a real
// felix/markbits.MarkBitsManager and records every answer.  uint32 marks/masks and numbers are re-spelled
// as lists of bit positions (0 = least significant); nothing is judged here (specs/marks/T_Marks.tla).
package main

import (
	"fmt"
	"math/rand"
	"os"

	"github.com/sirupsen/logrus"

	"github.com/projectcalico/calico/felix/markbits"

	"verifharness/tracelog"
)

type jc = map[string]any

func bits(v uint64) []int {
	out := []int{}
	for i := 0; i < 64; i++ {
		if v&(1<<uint(i)) != 0 {
			out = append(out, i)
		}
	}
	return out
}

func fromBits(v any) uint32 {
	var m uint32
	if a, ok := v.([]any); ok {
		for _, x := range a {
			m |= 1 << uint(tracelog.Int(x))
		}
	}
	return m
}

type drv struct {
	log *tracelog.Log
	mgr *markbits.MarkBitsManager
}

func (d *drv) mapNum(n uint64) {
	mark, err := d.mgr.MapNumberToMark(int(n))
	d.log.Emit("map_num", jc{"n": bits(n), "ok": err == nil, "mark": bits(uint64(mark))})
	if err == nil {
		d.mapMark(mark)
	}
}

func (d *drv) mapMark(mark uint32) {
	n, err := d.mgr.MapMarkToNumber(mark)
	if n < 0 {
		panic("negative number from MapMarkToNumber")
	}
	d.log.Emit("map_mark", jc{"mark": bits(uint64(mark)), "ok": err == nil, "n": bits(uint64(n))})
}

func popcount(m uint32) int {
	c := 0
	for ; m != 0; m &= m - 1 {
		c++
	}
	return c
}

// full = ask the whole block of mapping questions (every sixth TLC behaviour and every random trace; the
// masks repeat across behaviours), otherwise only the boundary numbers
func (d *drv) start(t int, mask uint32, rnd *rand.Rand, full bool) {
	d.mgr = markbits.NewMarkBitsManager(mask, "verif")
	d.log.Reset(t, jc{"mask": bits(uint64(d.mgr.GetMask()))})
	d.log.Emit("avail", jc{"n": d.mgr.AvailableMarkBitCount()})
	pop := popcount(mask)
	limit := uint64(1) << uint(pop) // first number that does not fit
	// numbers: all small ones, the boundary, a few large ones
	if !full {
		for _, n := range []uint64{0, 1, limit - 1, limit, limit / 2} {
			if n < 1<<32 {
				d.mapNum(n)
			}
		}
		d.mapMark(mask)
		d.mapMark(mask | 1<<uint(rnd.Intn(32)))
		return
	}
	for n := uint64(0); n < min(limit+2, 40); n++ {
		d.mapNum(n)
	}
	for _, n := range []uint64{limit - 1, limit, limit + 1, limit / 2, 1<<32 - 1, 1 << 31, uint64(rnd.Uint32()), uint64(rnd.Uint32()) % (limit + 1)} {
		if n < 1<<32 {
			d.mapNum(n)
		}
	}
	// marks: sub-masks and marks with a stray bit
	d.mapMark(0)
	d.mapMark(mask)
	for i := 0; i < 6; i++ {
		d.mapMark(mask & rnd.Uint32())
	}
	d.mapMark(mask | 1<<uint(rnd.Intn(32)))
	d.mapMark(rnd.Uint32())
}

func (d *drv) next() {
	m, err := d.mgr.NextSingleBitMark()
	d.log.Emit("next", jc{"ok": err == nil, "bits": bits(uint64(m))})
	d.log.Emit("avail", jc{"n": d.mgr.AvailableMarkBitCount()})
}

func (d *drv) block(size int) {
	m, alloc := d.mgr.NextBlockBitsMark(size)
	d.log.Emit("block", jc{"size": size, "bits": bits(uint64(m)), "alloc": alloc})
	d.log.Emit("avail", jc{"n": d.mgr.AvailableMarkBitCount()})
}

func (d *drv) replay(t int, beh []map[string]any, rnd *rand.Rand) {
	for _, op := range beh {
		switch tracelog.Str(op["op"]) {
		case "init":
			d.start(t, fromBits(op["mask"]), rnd, t%6 == 1)
		case "next":
			d.next()
		case "block":
			d.block(tracelog.Int(op["size"]))
		case "end":
		default:
			panic("unknown op " + tracelog.Str(op["op"]))
		}
	}
}

func (d *drv) random(t int, rnd *rand.Rand) {
	mask := rnd.Uint32()
	switch rnd.Intn(6) {
	case 0:
		mask &= rnd.Uint32() & rnd.Uint32() // sparse
	case 1:
		mask |= rnd.Uint32() | rnd.Uint32() // dense
	case 2:
		mask = ^uint32(0) << uint(rnd.Intn(32)) // a run of high bits
	case 3:
		mask = 0xffff0000 >> uint(rnd.Intn(17)) // the shapes Felix is configured with
	}
	d.start(t, mask, rnd, true)
	steps := 3 + rnd.Intn(40)
	for i := 0; i < steps; i++ {
		if rnd.Intn(4) == 0 {
			d.block(rnd.Intn(6))
		} else {
			d.next()
		}
	}
	if rnd.Intn(2) == 0 { // run into exhaustion and beyond
		d.block(33)
		d.next()
		d.block(1)
	}
}

func (d *drv) guard(f func()) {
	defer func() {
		if r := recover(); r != nil {
			msg := fmt.Sprint(r)
			if len(msg) > 120 {
				msg = msg[:120]
			}
			d.log.Emit("panic", jc{"what": msg})
		}
	}()
	f()
}

func main() {
	logrus.SetLevel(logrus.PanicLevel)
	env := tracelog.GetEnv()
	lg, err := tracelog.Open(env.OutPath)
	if err != nil {
		fmt.Fprintln(os.Stderr, err)
		os.Exit(2)
	}
	d := &drv{log: lg}
	behs, err := tracelog.LoadBehaviours(env.BehPath)
	if err != nil {
		fmt.Fprintln(os.Stderr, err)
		os.Exit(2)
	}
	t := 0
	for _, b := range behs {
		t++
		rnd := rand.New(rand.NewSource(env.Seed*7 + int64(t)))
		d.guard(func() { d.replay(t, b, rnd) })
	}
	for i := 0; i < env.N; i++ {
		t++
		d.guard(func() { d.random(t, rand.New(rand.NewSource(env.Seed*1000003+int64(i)))) })
	}
	if err := lg.Close(); err != nil {
		fmt.Fprintln(os.Stderr, err)
		os.Exit(2)
	}
}
