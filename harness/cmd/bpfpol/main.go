// Driver for C11 (and the BPF leg of C12): generates polprog.Rules configurations, compiles them with
// the real felix/bpf/polprog.Builder and executes the result on probe packet states with
// harness/ebpfvm.  Two modes (VERIF_MODE):
//
//	gen  - write one {"ev":"case"} line per configuration (PolicySem/BPFSem JSON), no results
//	run  - VERIF_BEH holds, per case, the probe packet states chosen by TLC (specs/bpfpol/BPFProbe);
//	       regenerate the same cases, compile, run every probe, write case lines with results
//
// The driver computes no expected value: "verdict" is a syntactic reading of what the program did
// (pol_rc value and which static jump-map slot it tail-called).
package main

import (
	"encoding/binary"
	"encoding/json"
	"fmt"
	"math/rand"
	"os"

	"github.com/projectcalico/calico/felix/bpf/asm"
	"github.com/projectcalico/calico/felix/bpf/ipsets"
	"github.com/projectcalico/calico/felix/bpf/polprog"
	"github.com/projectcalico/calico/felix/bpf/state"
	"github.com/projectcalico/calico/felix/proto"

	"verifharness/ebpfvm"
	"verifharness/polgen"
	"verifharness/tracelog"
)

type M = map[string]any

const (
	fdIPSet, fdState, fdStatic, fdPolicy = 1, 2, 3, 4
	allowIdx, denyIdx                     = 666, 777
	polMapIndex, polMapStride             = 15, 1000
)

type idProvider map[string]uint64

func (p idProvider) GetNoAlloc(id string) uint64 { return p[id] }

type bcase struct {
	ipv      uint8
	rules    polprog.Rules
	sets     []*polgen.IPSet
	flowLogs bool
	debug    bool
	tramp    int
	useJmps  bool
}

func genRules(rnd *rand.Rand, ipv uint8, sg *polgen.SetGen, max int) []polprog.Rule {
	n := rnd.Intn(max + 1)
	out := make([]polprog.Rule, 0, n)
	for i := 0; i < n; i++ {
		out = append(out, polprog.Rule{Rule: bpfRule(rnd, ipv, sg), MatchID: rnd.Uint64()})
	}
	return out
}

// bpfRule: a generated rule as the calculation graph hands it to the BPF dataplane: the action is always
// spelled out (felix/calc/rule_convert.go never emits the legacy empty action).
func bpfRule(rnd *rand.Rand, ipv uint8, sg *polgen.SetGen) *proto.Rule {
	r := polgen.RandRule(rnd, ipv, sg)
	if r.Action == "" {
		r.Action = "allow"
	}
	// Most fully random rules match almost nothing; thin out the criteria of half of them so that
	// verdicts other than the default deny are reached often.
	if rnd.Intn(2) == 0 {
		drop := func() bool { return rnd.Intn(3) > 0 }
		if drop() {
			r.SrcNet, r.NotSrcNet = nil, nil
		}
		if drop() {
			r.DstNet, r.NotDstNet = nil, nil
		}
		if drop() {
			r.SrcIpSetIds, r.NotSrcIpSetIds = nil, nil
		}
		if drop() {
			r.DstIpSetIds, r.NotDstIpSetIds = nil, nil
		}
		if drop() {
			r.SrcPorts, r.NotSrcPorts, r.SrcNamedPortIpSetIds, r.NotSrcNamedPortIpSetIds = nil, nil, nil, nil
		}
		if drop() {
			r.NotDstPorts, r.NotDstNamedPortIpSetIds, r.DstIpPortSetIds = nil, nil, nil
		}
		if drop() {
			r.NotProtocol = nil
		}
		if drop() {
			r.NotIcmp = nil
		}
	}
	return r
}

func genTiers(rnd *rand.Rand, ipv uint8, sg *polgen.SetGen, maxTiers int) []polprog.Tier {
	n := rnd.Intn(maxTiers + 1)
	var out []polprog.Tier
	for i := 0; i < n; i++ {
		t := polprog.Tier{Name: fmt.Sprintf("tier%d", i), EndRuleID: rnd.Uint64()}
		switch rnd.Intn(3) {
		case 0:
			t.EndAction = polprog.TierEndPass
		case 1:
			t.EndAction = polprog.TierEndDeny
		default:
			t.EndAction = polprog.TierEndUndef // documented default: deny
		}
		for j, np := 0, rnd.Intn(3); j < np; j++ {
			t.Policies = append(t.Policies, polprog.Policy{Kind: "GlobalNetworkPolicy", Name: fmt.Sprintf("p%d-%d", i, j),
				Rules: genRules(rnd, ipv, sg, 3)})
		}
		out = append(out, t)
	}
	return out
}

func genProfiles(rnd *rand.Rand, ipv uint8, sg *polgen.SetGen, max int) []polprog.Profile {
	var out []polprog.Profile
	for i, n := 0, rnd.Intn(max+1); i < n; i++ {
		out = append(out, polprog.Profile{Name: fmt.Sprintf("prof%d", i), Rules: genRules(rnd, ipv, sg, 3)})
	}
	return out
}

// big: many copies of a few distinct small rules so that the program exceeds the per-program jump
// limit and is split into chained sub-programs, while the set of distinct rules (and so the probe set)
// stays small.
func bigTier(rnd *rand.Rand, ipv uint8, sg *polgen.SetGen) polprog.Tier {
	t := polprog.Tier{Name: "big", EndAction: polprog.TierEndPass, EndRuleID: 1}
	var pool []*proto.Rule
	for len(pool) < 3 {
		r := bpfRule(rnd, ipv, sg)
		if len(r.SrcPorts)+len(r.DstPorts)+len(r.NotSrcPorts)+len(r.NotDstPorts) > 6 {
			continue
		}
		pool = append(pool, r)
	}
	copies := 2500 + rnd.Intn(1500)
	p := polprog.Policy{Kind: "GlobalNetworkPolicy", Name: "bigpol"}
	for i := 0; i < copies; i++ {
		p.Rules = append(p.Rules, polprog.Rule{Rule: pool[rnd.Intn(len(pool))], MatchID: uint64(i)})
	}
	t.Policies = []polprog.Policy{p}
	return t
}

// bigListTier: one rule whose numeric port list (or CIDR list) alone exceeds the per-program jump limit, so
// that the builder has to split the program in the MIDDLE of the list; entries before and after the split
// point must all still match.  kind 0: destination ports, 1: source ports, 2: destination CIDRs.
func bigListTier(rnd *rand.Rand, ipv uint8, kind int) polprog.Tier {
	t := polprog.Tier{Name: "biglist", EndAction: polprog.TierEndPass, EndRuleID: 2}
	r := &proto.Rule{Action: "allow", Protocol: polgen.ProtoByName("tcp")}
	n := 8200 + rnd.Intn(1500)
	switch kind {
	case 0, 1:
		var prs []*proto.PortRange
		base := 1000 + rnd.Intn(2000)
		for i := 0; i < n; i++ {
			p := int32(base + 5*i) // spaced single ports: one jump each
			prs = append(prs, &proto.PortRange{First: p, Last: p})
		}
		if kind == 0 {
			r.DstPorts = prs
		} else {
			r.SrcPorts = prs
		}
	default:
		for i := 0; i < n; i++ {
			if ipv == 4 {
				r.DstNet = append(r.DstNet, fmt.Sprintf("10.%d.%d.%d/32", 100+i/65536, (i/256)%256, i%256))
			} else {
				r.DstNet = append(r.DstNet, fmt.Sprintf("fd00::%x:%x/128", i/65536+1, i%65536))
			}
		}
	}
	t.Policies = []polprog.Policy{{Kind: "GlobalNetworkPolicy", Name: "biglist", Rules: []polprog.Rule{{Rule: r, MatchID: 7}}}}
	return t
}

func genCase(seed int64, big bool) *bcase {
	rnd := rand.New(rand.NewSource(seed))
	c := &bcase{ipv: 4}
	if rnd.Intn(3) == 0 {
		c.ipv = 6
	}
	sg := polgen.NewSetGen(rnd, c.ipv)
	r := &c.rules
	r.ForHostInterface = rnd.Intn(3) == 0
	r.SuppressNormalHostPolicy = rnd.Intn(4) == 0
	r.ForXDP = rnd.Intn(8) == 0
	r.NoProfileMatchID = rnd.Uint64()
	if r.ForXDP {
		r.ForHostInterface = true
		r.SuppressNormalHostPolicy = false
		r.HostNormalTiers = genTiers(rnd, c.ipv, sg, 2)
	} else {
		r.Tiers = genTiers(rnd, c.ipv, sg, 3)
		r.Profiles = genProfiles(rnd, c.ipv, sg, 2)
		if rnd.Intn(2) == 0 {
			r.HostPreDnatTiers = genTiers(rnd, c.ipv, sg, 2)
		}
		if rnd.Intn(2) == 0 {
			r.HostForwardTiers = genTiers(rnd, c.ipv, sg, 2)
		}
		if rnd.Intn(2) == 0 {
			r.HostNormalTiers = genTiers(rnd, c.ipv, sg, 2)
			r.HostProfiles = genProfiles(rnd, c.ipv, sg, 2)
		}
		if big {
			// place the oversized tier where it is actually compiled for this kind of interface
			var bt polprog.Tier
			if seed%2 == 0 {
				bt = bigListTier(rnd, c.ipv, int(seed/2)%3)
			} else {
				bt = bigTier(rnd, c.ipv, sg)
			}
			switch {
			case r.ForHostInterface && rnd.Intn(2) == 0:
				r.HostPreDnatTiers = append([]polprog.Tier{bt}, r.HostPreDnatTiers...)
			case r.ForHostInterface:
				r.HostForwardTiers = append([]polprog.Tier{bt}, r.HostForwardTiers...)
			case rnd.Intn(3) == 0:
				r.HostPreDnatTiers = append([]polprog.Tier{bt}, r.HostPreDnatTiers...)
			case rnd.Intn(2) == 0:
				r.Tiers = append([]polprog.Tier{bt}, r.Tiers...)
			default:
				// after a tier that passes everything on, so the big tier is reachable
				r.Tiers = append([]polprog.Tier{{Name: "passall", EndAction: polprog.TierEndPass, EndRuleID: 3}, bt}, r.Tiers...)
			}
		}
	}
	c.sets = sg.Sets()
	c.flowLogs = rnd.Intn(2) == 0
	c.debug = rnd.Intn(4) == 0
	c.tramp = []int{0, 0, 40, 200}[rnd.Intn(4)]
	c.useJmps = rnd.Intn(2) == 0
	return c
}

// ---- export to BPFSem JSON (field-by-field) -------------------------------------------------------

func semPRules(rs []polprog.Rule) []M {
	in := make([]*proto.Rule, len(rs))
	for i := range rs {
		in[i] = rs[i].Rule
	}
	return polgen.SemRules(in)
}

func semTiers(ts []polprog.Tier) []M {
	out := []M{}
	for _, t := range ts {
		end := "deny"
		if t.EndAction == polprog.TierEndPass {
			end = "pass"
		}
		pols := [][]M{}
		for _, p := range t.Policies {
			pols = append(pols, semPRules(p.Rules))
		}
		out = append(out, M{"end": end, "policies": pols})
	}
	return out
}

func semProfiles(ps []polprog.Profile) [][]M {
	out := [][]M{}
	for _, p := range ps {
		out = append(out, semPRules(p.Rules))
	}
	return out
}

func (c *bcase) sem() M {
	r := c.rules
	return M{"forHost": r.ForHostInterface, "suppress": r.SuppressNormalHostPolicy, "xdp": r.ForXDP, "ipv": int(c.ipv),
		"tiers": semTiers(r.Tiers), "preDnat": semTiers(r.HostPreDnatTiers), "forward": semTiers(r.HostForwardTiers),
		"hostNormal": semTiers(r.HostNormalTiers), "profiles": semProfiles(r.Profiles), "hostProfiles": semProfiles(r.HostProfiles)}
}

// ---- compile with the real builder ----------------------------------------------------------------

type compiled struct {
	progs [][]ebpfvm.Insn
	insns int
	err   string
}

func (c *bcase) compile(ids idProvider) (out compiled) {
	defer func() {
		if r := recover(); r != nil {
			out.err = fmt.Sprintf("panic: %v", r)
		}
	}()
	opts := []polprog.Option{polprog.WithPolicyMapIndexAndStride(polMapIndex, polMapStride)}
	if c.useJmps {
		opts = append(opts, polprog.WithAllowDenyJumps(allowIdx, denyIdx))
	}
	if c.ipv == 6 {
		opts = append(opts, polprog.WithIPv6())
	}
	if c.flowLogs {
		opts = append(opts, polprog.WithFlowLogs())
	}
	if c.debug {
		opts = append(opts, polprog.WithPolicyDebugEnabled())
	}
	if c.tramp > 0 {
		opts = append(opts, polprog.WithTrampolineStride(c.tramp))
	}
	b := polprog.NewBuilder(ids, fdIPSet, fdState, fdStatic, fdPolicy, opts...)
	progs, err := b.Instructions(c.rules)
	if err != nil {
		out.err = err.Error()
		return
	}
	for _, p := range progs {
		raw := make([][8]byte, len(p))
		for i, in := range p {
			raw[i] = in.Instruction
		}
		out.insns += len(p)
		out.progs = append(out.progs, ebpfvm.Decode(raw))
	}
	return
}

var _ = asm.R0

// ---- the IP sets map: real key/entry encoders, LPM semantics ---------------------------------------

type lpmSet struct{ entries [][]byte }

func (c *bcase) buildIPSets() (idProvider, *lpmSet) {
	ids := idProvider{}
	m := &lpmSet{}
	for i, s := range c.sets {
		id := uint64(0x1000 + i)
		ids[s.ID] = id
		for _, mem := range s.MemberStrings {
			var e ipsets.IPSetEntryInterface
			if c.ipv == 6 {
				e = ipsets.ProtoIPSetMemberToBPFEntryV6(id, mem)
			} else {
				e = ipsets.ProtoIPSetMemberToBPFEntry(id, mem)
			}
			if e == nil { // member of the other family, or a protocol the BPF encoder does not know
				continue
			}
			m.entries = append(m.entries, e.AsBytes())
		}
	}
	return ids, m
}

// BPF LPM-trie lookup: an entry matches when its prefix length does not exceed the key's and the first
// prefixlen bits of the data (everything after the 4-byte prefix length) agree.
func (m *lpmSet) lookup(key []byte) bool {
	kp := binary.LittleEndian.Uint32(key[0:4])
	for _, e := range m.entries {
		if len(e) != len(key) {
			continue
		}
		ep := binary.LittleEndian.Uint32(e[0:4])
		if ep > kp {
			continue
		}
		ok := true
		full, rem := int(ep/8), ep%8
		for i := 0; i < full; i++ {
			if e[4+i] != key[4+i] {
				ok = false
				break
			}
		}
		if ok && rem > 0 {
			mask := byte(0xff) << (8 - rem)
			ok = e[4+full]&mask == key[4+full]&mask
		}
		if ok {
			return true
		}
	}
	return false
}

// ---- packet state -------------------------------------------------------------------------------------

func octets(v any) []byte {
	a, _ := v.([]any)
	out := make([]byte, len(a))
	for i, x := range a {
		out[i] = byte(tracelog.Int(x))
	}
	return out
}

func put16(dst []uint32, ip []byte) {
	var b [16]byte
	copy(b[:], ip)
	for i := 0; i < 4; i++ {
		dst[i] = binary.LittleEndian.Uint32(b[4*i : 4*i+4])
	}
}

func makeState(p M) []byte {
	var s state.State
	var a [4]uint32
	put16(a[:], octets(p["src"]))
	s.SrcAddr, s.SrcAddr1, s.SrcAddr2, s.SrcAddr3 = a[0], a[1], a[2], a[3]
	put16(a[:], octets(p["dst"]))
	s.DstAddr, s.DstAddr1, s.DstAddr2, s.DstAddr3 = a[0], a[1], a[2], a[3]
	s.PostNATDstAddr, s.PostNATDstAddr1, s.PostNATDstAddr2, s.PostNATDstAddr3 = a[0], a[1], a[2], a[3]
	put16(a[:], octets(p["preDst"]))
	s.PreNATDstAddr, s.PreNATDstAddr1, s.PreNATDstAddr2, s.PreNATDstAddr3 = a[0], a[1], a[2], a[3]
	s.IPProto = uint8(tracelog.Int(p["proto"]))
	s.SrcPort = uint16(tracelog.Int(p["sport"]))
	s.DstPort = uint16(tracelog.Int(p["dport"]))
	s.PostNATDstPort = s.DstPort
	s.PreNATDstPort = uint16(tracelog.Int(p["preDport"]))
	if s.IPProto == 1 || s.IPProto == 58 {
		// struct cali_tc_state: icmp_type / icmp_code share storage with dport
		s.DstPort = uint16(tracelog.Int(p["icmpType"])) | uint16(tracelog.Int(p["icmpCode"]))<<8
	}
	if b, _ := p["toHost"].(bool); b {
		s.Flags |= polprog.FlagDestIsHost
	}
	if b, _ := p["fromHost"].(bool); b {
		s.Flags |= polprog.FlagSrcIsHost
	}
	out := make([]byte, 512)
	copy(out, s.AsBytes())
	return out
}

func runProbe(c *bcase, cp compiled, sets *lpmSet, p M) M {
	st := makeState(p)
	ctx := make([]byte, ebpfvm.CtxSize)
	binary.LittleEndian.PutUint32(ctx[48:], allowIdx) // skb->cb[0]
	binary.LittleEndian.PutUint32(ctx[52:], denyIdx)  // skb->cb[1]
	keySize := ipsets.IPSetEntrySize
	if c.ipv == 6 {
		keySize = ipsets.IPSetEntryV6Size
	}
	env := &ebpfvm.Env{State: st, Ctx: ctx, StateMapFD: fdState, IPSetMapFD: fdIPSet, StaticJumpMapFD: fdStatic,
		PolicyJumpMapFD: fdPolicy, IPSetLookup: sets.lookup, IPSetKeySize: keySize, PolicyProgs: map[int32][]ebpfvm.Insn{}}
	for k := 1; k < len(cp.progs); k++ {
		env.PolicyProgs[int32(polprog.SubProgramJumpIdx(polMapIndex, k, polMapStride))] = cp.progs[k]
	}
	res := ebpfvm.Run(env, cp.progs[0])
	after := state.StateFromBytes(st[:496])
	rc := int32(after.PolicyRC)
	verdict := ""
	switch {
	case res.Err != nil:
		verdict = "error:" + res.Err.Error()
	case res.TailStatic && res.TailIndex == allowIdx && rc == int32(state.PolicyAllow):
		verdict = "allow"
	case res.TailStatic && res.TailIndex == denyIdx && rc == int32(state.PolicyDeny):
		verdict = "deny"
	case !res.TailStatic && c.rules.ForXDP && res.Exit == 2 && rc == int32(state.PolicyNoMatch):
		verdict = "xdp_pass"
	default:
		verdict = fmt.Sprintf("error:unexpected end tail=%v idx=%d rc=%d exit=%d", res.TailStatic, res.TailIndex, rc, res.Exit)
	}
	return M{"pkt": p, "verdict": verdict, "log": after.Flags&polprog.FlagLogPacket != 0, "subprogs": res.SubPrograms,
		"hits": int(after.RulesHit & 0xff)}
}

func main() {
	env := tracelog.GetEnv()
	mode := os.Getenv("VERIF_MODE")
	lg, err := tracelog.Open(env.OutPath)
	if err != nil {
		fmt.Fprintln(os.Stderr, err)
		os.Exit(2)
	}
	nbig := tracelog.Int(os.Getenv("VERIF_NBIG"))
	probes := map[int][]M{}
	if mode == "run" {
		b, err := os.ReadFile(env.BehPath)
		if err != nil {
			fmt.Fprintln(os.Stderr, err)
			os.Exit(2)
		}
		var raw []struct {
			Case int `json:"case"`
			Pkts []M `json:"pkts"`
		}
		if err := json.Unmarshal(b, &raw); err != nil {
			fmt.Fprintln(os.Stderr, err)
			os.Exit(2)
		}
		for _, r := range raw {
			probes[r.Case] = r.Pkts
		}
	}
	for i := 0; i < env.N; i++ {
		c := genCase(env.Seed*1_000_003+int64(i), i < nbig)
		lg.T = i + 1
		fields := M{"case": i + 1, "cfg": c.sem(), "sets": polgen.SemIPSets(c.sets)}
		if mode != "run" {
			lg.Emit("case", fields)
			continue
		}
		ids, sets := c.buildIPSets()
		cp := c.compile(ids)
		fields["built"] = cp.err == ""
		fields["builderr"] = cp.err
		fields["nprogs"] = len(cp.progs)
		fields["insns"] = cp.insns
		results := []M{}
		if cp.err == "" {
			for _, p := range probes[i+1] {
				results = append(results, runProbe(c, cp, sets, p))
			}
		}
		fields["results"] = results
		lg.Emit("case", fields)
	}
	if err := lg.Close(); err != nil {
		fmt.Fprintln(os.Stderr, err)
		os.Exit(2)
	}
}
