// Driver for C33: builds real felix/bpf/consistenthash tables and records them.
//   - TLC behaviours {m, os}: table-driven hash.Hash fakes make backend b (named "b00b:80", so that the
//     order of names is the order of ids) hash to chosen raw values whose residues are (offset, skip) = os[b];
//   - seeded random sets with table-driven hashes and with the real FNV-32 hashes the BPF proxy uses;
//   - VERIF_MAGLEV_SIZES: every size config.BPFLUTSizeMaglev() can return (BPFMaglevMaxEndpointsPerService
//     in its whole configurable range 1..3000), tables for a sample (or all) of them.
//
// Large tables are recorded as histogram + digest (pure summaries); nothing is judged here.
package main

import (
	"crypto/sha256"
	"encoding/binary"
	"encoding/hex"
	"fmt"
	"hash"
	"hash/fnv"
	"math/rand"
	"os"
	"sort"
	"strconv"

	"github.com/sirupsen/logrus"
	k8sp "k8s.io/kubernetes/pkg/proxy"

	"github.com/projectcalico/calico/felix/bpf/consistenthash"
	chtest "github.com/projectcalico/calico/felix/bpf/consistenthash/test"
	"github.com/projectcalico/calico/felix/config"

	"verifharness/tracelog"
)

type jc = map[string]any

// fakeHash is a table-driven hash.Hash: the sum of (seed byte ++ name) is table[name], written in the
// CPU's byte order, which is how hashFromString reads it back (the byte-order clause is out of scope).
type fakeHash struct {
	buf []byte
	tab map[string]uint32
}

func (f *fakeHash) Write(p []byte) (int, error) { f.buf = append(f.buf, p...); return len(p), nil }
func (f *fakeHash) Reset()                      { f.buf = f.buf[:0] }
func (f *fakeHash) Size() int                   { return 4 }
func (f *fakeHash) BlockSize() int              { return 1 }
func (f *fakeHash) Sum(b []byte) []byte {
	v, ok := f.tab[string(f.buf[1:])]
	if !ok {
		panic("fakeHash: unknown name " + string(f.buf[1:]))
	}
	return binary.NativeEndian.AppendUint32(b, v)
}

type drv struct {
	log   *tracelog.Log
	names map[int]string // backend id -> endpoint IP string
	ports map[int]uint16
	ids   map[string]int // endpoint String() -> id
	mk    func() (hash.Hash, hash.Hash)
}

func (d *drv) ep(id int) k8sp.Endpoint {
	return chtest.MockEndpoint{Ip: d.names[id], Prt: d.ports[id]}
}

// gen builds a table of size m adding the backends in the given order and records it
func (d *drv) gen(m int, order []int) {
	h1, h2 := d.mk()
	ch := consistenthash.New(m, h1, h2)
	for _, id := range order {
		ch.AddBackend(d.ep(id))
	}
	lut := ch.Generate()
	ids := make([]int, len(lut))
	cnt := map[int]int{}
	nils := 0
	dig := sha256.New()
	for i, e := range lut {
		if e == nil {
			nils++
		} else {
			ids[i] = d.ids[e.String()]
			cnt[ids[i]]++
		}
		dig.Write([]byte(strconv.Itoa(ids[i]) + ","))
	}
	hist := [][]int{}
	for id, c := range cnt {
		hist = append(hist, []int{id, c})
	}
	sort.Slice(hist, func(i, j int) bool { return hist[i][0] < hist[j][0] })
	full := m <= 101
	ev := jc{"m": m, "backends": order, "len": len(lut), "nils": nils, "hist": hist,
		"dig": hex.EncodeToString(dig.Sum(nil))[:16], "full": full, "lut": []int{}}
	if full {
		ev["lut"] = ids
	}
	d.log.Emit("gen", ev)
}

func (d *drv) setNames(n int, name func(id int) (string, uint16)) {
	d.names, d.ports, d.ids = map[int]string{}, map[int]uint16{}, map[string]int{}
	for id := 1; id <= n; id++ {
		ip, port := name(id)
		d.names[id], d.ports[id] = ip, port
		d.ids[d.ep(id).String()] = id
	}
}

func seq(n int) []int {
	out := make([]int, n)
	for i := range out {
		out[i] = i + 1
	}
	return out
}

func (d *drv) orders(m, n int, rnd *rand.Rand) {
	asc := seq(n)
	d.gen(m, asc)
	desc := make([]int, n)
	for i := range desc {
		desc[i] = n - i
	}
	d.gen(m, desc)
	rot := append(append([]int{}, asc[n/2:]...), asc[:n/2]...)
	rot = append(rot, asc[0]) // a backend added twice
	d.gen(m, rot)
	if rnd != nil {
		sh := append([]int{}, asc...)
		rnd.Shuffle(n, func(i, j int) { sh[i], sh[j] = sh[j], sh[i] })
		d.gen(m, sh)
		if n > 1 { // a strict subset, twice
			k := 1 + rnd.Intn(n-1)
			d.gen(m, sh[:k])
			sub := append([]int{}, sh[:k]...)
			sort.Ints(sub)
			d.gen(m, sub)
		}
	}
}

// table-driven: backend b hashes to raw values os[b] (h1) / os[b] (h2)
func (d *drv) tableDriven(t, m int, raw [][]int, rnd *rand.Rand) {
	n := len(raw)
	d.setNames(n, func(id int) (string, uint16) { return fmt.Sprintf("b%03d", id), 80 })
	t1, t2 := map[string]uint32{}, map[string]uint32{}
	for id := 1; id <= n; id++ {
		t1[d.ep(id).String()] = uint32(raw[id-1][0])
		t2[d.ep(id).String()] = uint32(raw[id-1][1])
	}
	d.mk = func() (hash.Hash, hash.Hash) { return &fakeHash{tab: t1}, &fakeHash{tab: t2} }
	d.log.Reset(t, jc{"exact": true, "os": raw})
	d.gen(m, []int{}) // no backends: no table
	d.orders(m, n, rnd)
}

func (d *drv) replay(t int, beh []map[string]any) {
	for _, op := range beh {
		switch tracelog.Str(op["op"]) {
		case "gen":
			m := tracelog.Int(op["m"])
			var raw [][]int
			for i, x := range op["os"].([]any) {
				p := x.([]any)
				o, s := tracelog.Int(p[0]), tracelog.Int(p[1])
				// raw hash values with the wanted residues: offset = raw1 % m, skip = raw2 % (m-1) + 1
				raw = append(raw, []int{o + ((i*7+3)%50)*m, (s - 1) + ((i*5+1)%60)*(m-1)})
			}
			d.tableDriven(t, m, raw, nil)
		case "end":
		default:
			panic("unknown op " + tracelog.Str(op["op"]))
		}
	}
}

var smallPrimes = []int{5, 7, 11, 13, 17, 31, 61, 101}

func (d *drv) realNames(n int, rnd *rand.Rand) {
	base := rnd.Intn(200)
	used := map[string]bool{}
	d.setNames(n, func(id int) (string, uint16) {
		for {
			ip := fmt.Sprintf("10.%d.%d.%d", base, rnd.Intn(4), rnd.Intn(256))
			port := []uint16{80, 443, 8080, uint16(1024 + rnd.Intn(60000))}[rnd.Intn(4)]
			k := fmt.Sprintf("%s:%d", ip, port)
			if !used[k] {
				used[k] = true
				return ip, port
			}
		}
	})
	d.mk = func() (hash.Hash, hash.Hash) { return fnv.New32(), fnv.New32() }
}

func (d *drv) random(t int, rnd *rand.Rand) {
	m := smallPrimes[rnd.Intn(len(smallPrimes))]
	if rnd.Intn(6) == 0 {
		// more backends than table entries (a service that outgrew BPFMaglevMaxEndpointsPerService): some
		// backends get no entry, but which ones must still not depend on the order they were learned in
		m = []int{5, 7, 11}[rnd.Intn(3)]
		n := m + 1 + rnd.Intn(m)
		if rnd.Intn(2) == 0 {
			var raw [][]int
			for i := 0; i < n; i++ {
				raw = append(raw, []int{rnd.Intn(1 << 30), rnd.Intn(1 << 30)})
			}
			d.tableDriven(t, m, raw, rnd)
			return
		}
		d.realNames(n, rnd)
		d.log.Reset(t, jc{"exact": false, "os": [][]int{{0, 0}}})
		d.orders(m, n, rnd)
		return
	}
	if rnd.Intn(2) == 0 {
		n := 1 + rnd.Intn(min(m, 8))
		var raw [][]int
		for i := 0; i < n; i++ {
			raw = append(raw, []int{rnd.Intn(1 << 30), rnd.Intn(1 << 30)})
		}
		if rnd.Intn(3) == 0 { // all backends share one preference list: maximal contention
			for i := range raw {
				raw[i] = raw[0]
			}
		}
		d.tableDriven(t, m, raw, rnd)
		return
	}
	n := 1 + rnd.Intn(min(m, 64))
	d.realNames(n, rnd)
	d.log.Reset(t, jc{"exact": false, "os": [][]int{{0, 0}}})
	d.orders(m, n, rnd)
}

// sizes: every size Felix can configure; tables for `sample` of them (0 = all) with the real hashes
func (d *drv) sizes(t int, sample int, rnd *rand.Rand) int {
	d.log.Reset(t, jc{"exact": false, "os": [][]int{{0, 0}}})
	cfg := config.New()
	var distinct []int
	maxN := map[int]int{}
	for n := 1; n <= 3000; n++ {
		cfg.BPFMaglevMaxEndpointsPerService = n
		m := cfg.BPFLUTSizeMaglev()
		d.log.Emit("size", jc{"n": n, "m": m})
		if maxN[m] == 0 {
			distinct = append(distinct, m)
		}
		maxN[m] = n
	}
	pick := distinct
	if sample > 0 && sample < len(distinct) {
		pick = []int{distinct[0], distinct[len(distinct)-1]}
		for _, i := range rnd.Perm(len(distinct))[:sample] {
			pick = append(pick, distinct[i])
		}
	}
	for _, m := range pick {
		t++
		// up to the number of endpoints the size is configured for (and a few sets beyond it)
		n := 1 + rnd.Intn(min(maxN[m], 64))
		if rnd.Intn(8) == 0 {
			n = min(maxN[m]+1+rnd.Intn(3), m)
		}
		d.realNames(n, rnd)
		d.log.Reset(t, jc{"exact": false, "os": [][]int{{0, 0}}})
		asc := seq(n)
		sh := append([]int{}, asc...)
		rnd.Shuffle(n, func(i, j int) { sh[i], sh[j] = sh[j], sh[i] })
		d.guard(func() {
			d.gen(m, asc)
			d.gen(m, append(sh, sh[0]))
		})
	}
	// Input selection only (nothing here is a verdict): a configured size with a divisor p gives a backend
	// whose skip is a multiple of p a preference list that visits only m/p entries, so such sizes are always
	// exercised, with many single-backend tables (one of ~p names has such a skip).
	for _, m := range distinct {
		p := 0
		for q := 2; q*q <= m; q++ {
			if m%q == 0 {
				p = q
				break
			}
		}
		if p == 0 {
			continue
		}
		t++
		n := min(8*p, 400)
		d.realNames(n, rnd)
		d.log.Reset(t, jc{"exact": false, "os": [][]int{{0, 0}}})
		d.guard(func() {
			for id := 1; id <= n; id++ {
				d.gen(m, []int{id})
			}
		})
	}
	return t
}

// guard runs one trace; a panic of the real code ends the trace with a "panic" event, which the trace
// specification never accepts
func (d *drv) guard(f func()) {
	defer func() {
		if r := recover(); r != nil {
			msg := fmt.Sprint(r)
			if len(msg) > 120 {
				msg = msg[:120]
			}
			d.log.Emit("panic", jc{"what": msg})
		}
	}()
	f()
}

func main() {
	logrus.SetLevel(logrus.PanicLevel)
	env := tracelog.GetEnv()
	lg, err := tracelog.Open(env.OutPath)
	if err != nil {
		fmt.Fprintln(os.Stderr, err)
		os.Exit(2)
	}
	d := &drv{log: lg}
	behs, err := tracelog.LoadBehaviours(env.BehPath)
	if err != nil {
		fmt.Fprintln(os.Stderr, err)
		os.Exit(2)
	}
	t := 0
	for _, b := range behs {
		t++
		d.guard(func() { d.replay(t, b) })
	}
	for i := 0; i < env.N; i++ {
		t++
		d.guard(func() { d.random(t, rand.New(rand.NewSource(env.Seed*1000003+int64(i)))) })
	}
	if s := os.Getenv("VERIF_MAGLEV_SIZES"); s != "" {
		k, _ := strconv.Atoi(s)
		t = d.sizes(t+1, k, rand.New(rand.NewSource(env.Seed*7919)))
	}
	if err := lg.Close(); err != nil {
		fmt.Fprintln(os.Stderr, err)
		os.Exit(2)
	}
}
