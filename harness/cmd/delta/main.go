// Driver for C18: replays TLC-generated behaviours and seeded random op sequences on the real
// felix/deltatracker.DeltaTracker, recording every call and an observation of the four views after
// every call (and around every iteration callback).
package main

import (
	"errors"
	"fmt"
	"math/rand"
	"os"
	"sort"

	"github.com/projectcalico/calico/felix/deltatracker"

	"verifharness/tracelog"
)

type DT = deltatracker.DeltaTracker[string, int]

type drv struct {
	log  *tracelog.Log
	dt   *DT
	keys []string
}

func (d *drv) obs() {
	des := map[string]int{}
	d.dt.Desired().Iter(func(k string, v int) {
		if _, dup := des[k]; dup {
			des[k] = -1 // a key reported twice is never a valid view
		} else {
			des[k] = v
		}
	})
	dp := map[string]int{}
	d.dt.Dataplane().Iter(func(k string, v int) {
		if _, dup := dp[k]; dup {
			dp[k] = -1
		} else {
			dp[k] = v
		}
	})
	pu := map[string]int{}
	d.dt.PendingUpdates().Iter(func(k string, v int) deltatracker.IterAction {
		if _, dup := pu[k]; dup {
			pu[k] = -1
		} else {
			pu[k] = v
		}
		return deltatracker.IterActionNoOp
	})
	pd := []string{}
	d.dt.PendingDeletions().Iter(func(k string) deltatracker.IterAction {
		pd = append(pd, k)
		return deltatracker.IterActionNoOp
	})
	sort.Strings(pd)
	getd, getdp, getpu, getpd := map[string]int{}, map[string]int{}, map[string]int{}, map[string]int{}
	for _, k := range d.keys {
		if v, ok := d.dt.Desired().Get(k); ok {
			getd[k] = v
		}
		if v, ok := d.dt.Dataplane().Get(k); ok {
			getdp[k] = v
		}
		if v, ok := d.dt.PendingUpdates().Get(k); ok {
			getpu[k] = v
		}
		if v, ok := d.dt.PendingDeletions().Get(k); ok {
			getpd[k] = v
		}
	}
	d.log.Emit("obs", map[string]any{
		"desired": des, "dataplane": dp, "pu": pu, "pd": pd,
		"lens":   []int{d.dt.Desired().Len(), d.dt.Dataplane().Len(), d.dt.PendingUpdates().Len(), d.dt.PendingDeletions().Len()},
		"insync": d.dt.InSync(),
		"getd":   getd, "getdp": getdp, "getpu": getpu, "getpd": getpd,
	})
}

func toMap(v any) map[string]int {
	out := map[string]int{}
	if m, ok := v.(map[string]any); ok {
		for k, x := range m {
			if n := tracelog.Int(x); n != 0 {
				out[k] = n
			}
		}
	}
	return out
}

func toStrs(v any) []string {
	var out []string
	if a, ok := v.([]any); ok {
		for _, x := range a {
			out = append(out, tracelog.Str(x))
		}
	}
	return out
}

func has(ss []string, s string) bool {
	for _, x := range ss {
		if x == s {
			return true
		}
	}
	return false
}

// nested: optional mutation executed inside the n-th callback of an iteration (random leg only).
type nested struct {
	at int
	fn func()
}

func (d *drv) iterUpd(apply func(k string) bool, nst *nested) {
	n := 0
	d.dt.PendingUpdates().Iter(func(k string, v int) deltatracker.IterAction {
		if nst != nil && n == nst.at {
			nst.fn()
		}
		n++
		a := apply(k)
		d.log.Emit("cb_upd", map[string]any{"k": k, "v": v, "apply": a})
		if a {
			return deltatracker.IterActionUpdateDataplane
		}
		return deltatracker.IterActionNoOp
	})
}

func (d *drv) iterDel(apply func(k string) bool, nst *nested) {
	n := 0
	d.dt.PendingDeletions().Iter(func(k string) deltatracker.IterAction {
		if nst != nil && n == nst.at {
			nst.fn()
		}
		n++
		a := apply(k)
		d.log.Emit("cb_del", map[string]any{"k": k, "apply": a})
		if a {
			return deltatracker.IterActionUpdateDataplane
		}
		return deltatracker.IterActionNoOp
	})
}

func (d *drv) replace(m map[string]int, seen []string, fail bool) {
	if !fail {
		d.dt.Dataplane().ReplaceAllMap(m)
		d.log.Emit("dp_replace", map[string]any{"m": m})
		return
	}
	delivered := []string{}
	_ = d.dt.Dataplane().ReplaceAllIter(func(f func(k string, v int)) error {
		for _, k := range seen {
			if v, ok := m[k]; ok {
				f(k, v)
				delivered = append(delivered, k)
			}
		}
		return errors.New("injected iterator failure")
	})
	d.log.Emit("dp_replace_err", map[string]any{"m": m, "seen": delivered})
}

func (d *drv) step(op map[string]any) {
	k, v := tracelog.Str(op["k"]), tracelog.Int(op["v"])
	switch tracelog.Str(op["op"]) {
	case "des_set":
		d.dt.Desired().Set(k, v)
		d.log.Emit("des_set", map[string]any{"k": k, "v": v})
	case "des_del":
		d.dt.Desired().Delete(k)
		d.log.Emit("des_del", map[string]any{"k": k})
	case "des_delall":
		d.dt.Desired().DeleteAll()
		d.log.Emit("des_delall", nil)
	case "dp_set":
		d.dt.Dataplane().Set(k, v)
		d.log.Emit("dp_set", map[string]any{"k": k, "v": v})
	case "dp_del":
		d.dt.Dataplane().Delete(k)
		d.log.Emit("dp_del", map[string]any{"k": k})
	case "dp_delall":
		d.dt.Dataplane().DeleteAll()
		d.log.Emit("dp_delall", nil)
	case "dp_replace":
		d.replace(toMap(op["m"]), nil, false)
	case "dp_replace_err":
		d.replace(toMap(op["m"]), toStrs(op["seen"]), true)
	case "iter_upd":
		ap := toStrs(op["apply"])
		d.iterUpd(func(k string) bool { return has(ap, k) }, nil)
	case "iter_del":
		ap := toStrs(op["apply"])
		d.iterDel(func(k string) bool { return has(ap, k) }, nil)
	case "end":
		return
	default:
		panic("unknown op " + tracelog.Str(op["op"]))
	}
	d.obs()
}

func (d *drv) start(t int, keys []string) {
	d.keys = keys
	d.dt = deltatracker.New[string, int]()
	d.log.Reset(t, map[string]any{"keys": keys})
	d.obs()
}

// random leg: larger key sets, nested mutation of *other* keys during iteration, batched iteration
// (batch size 128 is crossed with 300 keys), stop-iteration answers.
func (d *drv) random(t int, rnd *rand.Rand) {
	nk := []int{2, 3, 5, 8}[rnd.Intn(4)]
	big := os.Getenv("VERIF_BIG") == "1"
	if big {
		nk = 140
	}
	keys := make([]string, nk)
	for i := range keys {
		keys[i] = fmt.Sprintf("k%03d", i)
	}
	d.start(t, keys)
	nv := 1 + rnd.Intn(3)
	steps := 20 + rnd.Intn(30)
	if big {
		steps = 6
	}
	rk := func() string { return keys[rnd.Intn(len(keys))] }
	rv := func() int { return 1 + rnd.Intn(nv) }
	rmap := func() map[string]int {
		m := map[string]int{}
		p := rnd.Float64()
		for _, k := range keys {
			if rnd.Float64() < p {
				m[k] = rv()
			}
		}
		return m
	}
	simple := func(except string) func() {
		// a mutation of a key other than `except`, logged like a top-level call (no obs inside callbacks)
		return func() {
			k := rk()
			for k == except && len(keys) > 1 {
				k = rk()
			}
			switch rnd.Intn(4) {
			case 0:
				v := rv()
				d.dt.Desired().Set(k, v)
				d.log.Emit("des_set", map[string]any{"k": k, "v": v})
			case 1:
				d.dt.Desired().Delete(k)
				d.log.Emit("des_del", map[string]any{"k": k})
			case 2:
				v := rv()
				d.dt.Dataplane().Set(k, v)
				d.log.Emit("dp_set", map[string]any{"k": k, "v": v})
			case 3:
				d.dt.Dataplane().Delete(k)
				d.log.Emit("dp_del", map[string]any{"k": k})
			}
		}
	}
	for i := 0; i < steps; i++ {
		if big && i == 0 {
			for _, k := range keys {
				if rnd.Intn(3) > 0 {
					d.dt.Desired().Set(k, 1)
					d.log.Emit("des_set", map[string]any{"k": k, "v": 1})
				}
				if rnd.Intn(3) == 0 {
					v := rv()
					d.dt.Dataplane().Set(k, v)
					d.log.Emit("dp_set", map[string]any{"k": k, "v": v})
				}
			}
			d.obs()
			continue
		}
		switch c := rnd.Intn(16); c {
		case 0, 1, 2:
			d.step(map[string]any{"op": "des_set", "k": rk(), "v": rv()})
		case 3, 4:
			d.step(map[string]any{"op": "des_del", "k": rk()})
		case 5, 6:
			d.step(map[string]any{"op": "dp_set", "k": rk(), "v": rv()})
		case 7:
			d.step(map[string]any{"op": "dp_del", "k": rk()})
		case 8:
			if rnd.Intn(3) == 0 {
				d.step(map[string]any{"op": []string{"des_delall", "dp_delall"}[rnd.Intn(2)]})
			} else {
				d.replace(rmap(), nil, false)
				d.obs()
			}
		case 9:
			m := rmap()
			seen := []string{}
			for k := range m {
				if rnd.Intn(2) == 0 {
					seen = append(seen, k)
				}
			}
			sort.Strings(seen)
			rnd.Shuffle(len(seen), func(i, j int) { seen[i], seen[j] = seen[j], seen[i] })
			d.replace(m, seen, true)
			d.obs()
		case 10, 11:
			p := rnd.Float64()
			var nst *nested
			if rnd.Intn(2) == 0 {
				nst = &nested{at: rnd.Intn(3)}
			}
			cur := ""
			if nst != nil {
				nst.fn = func() { simple(cur)() }
			}
			if c == 10 {
				n := 0
				d.dt.PendingUpdates().Iter(func(k string, v int) deltatracker.IterAction {
					cur = k
					if nst != nil && n == nst.at {
						nst.fn()
					}
					n++
					a := rnd.Float64() < p
					d.log.Emit("cb_upd", map[string]any{"k": k, "v": v, "apply": a})
					if a {
						return deltatracker.IterActionUpdateDataplane
					}
					if rnd.Intn(8) == 0 {
						return deltatracker.IterActionNoOpStopIteration
					}
					return deltatracker.IterActionNoOp
				})
			} else {
				n := 0
				d.dt.PendingDeletions().Iter(func(k string) deltatracker.IterAction {
					cur = k
					if nst != nil && n == nst.at {
						nst.fn()
					}
					n++
					a := rnd.Float64() < p
					d.log.Emit("cb_del", map[string]any{"k": k, "apply": a})
					if a {
						return deltatracker.IterActionUpdateDataplane
					}
					return deltatracker.IterActionNoOp
				})
			}
			d.obs()
		case 12, 13:
			// batched updates: apply a prefix of each batch, sometimes with an error
			d.dt.PendingUpdates().IterBatched(func(ks []string, vs []int) (int, error) {
				n := rnd.Intn(len(ks) + 1)
				var err error
				if n < len(ks) && rnd.Intn(2) == 0 {
					err = errors.New("injected")
				}
				if rnd.Intn(3) == 0 {
					n = len(ks)
					err = nil
				}
				for i := range ks {
					d.log.Emit("cb_upd", map[string]any{"k": ks[i], "v": vs[i], "apply": i < n})
				}
				return n, err
			})
			d.obs()
		case 14, 15:
			d.dt.PendingDeletions().IterBatched(func(ks []string) (int, error) {
				n := rnd.Intn(len(ks) + 1)
				var err error
				if n < len(ks) && rnd.Intn(2) == 0 {
					err = errors.New("injected")
				}
				if rnd.Intn(3) == 0 {
					n = len(ks)
					err = nil
				}
				for i := range ks {
					d.log.Emit("cb_del", map[string]any{"k": ks[i], "apply": i < n})
				}
				return n, err
			})
			d.obs()
		}
	}
}

func main() {
	env := tracelog.GetEnv()
	lg, err := tracelog.Open(env.OutPath)
	if err != nil {
		fmt.Fprintln(os.Stderr, err)
		os.Exit(2)
	}
	d := &drv{log: lg}
	behs, err := tracelog.LoadBehaviours(env.BehPath)
	if err != nil {
		fmt.Fprintln(os.Stderr, err)
		os.Exit(2)
	}
	t := 0
	for _, b := range behs {
		t++
		d.start(t, []string{"a", "b", "c"})
		for _, op := range b {
			d.step(op)
		}
	}
	for i := 0; i < env.N; i++ {
		t++
		d.random(t, rand.New(rand.NewSource(env.Seed*1000003+int64(i))))
	}
	if err := lg.Close(); err != nil {
		fmt.Fprintln(os.Stderr, err)
		os.Exit(2)
	}
}
