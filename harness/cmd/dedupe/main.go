// Driver for C25: runs the real dedupebuffer.DedupeBuffer with the producer side called from the driver
// goroutine and SendToSinkForever in its own goroutine against a gated sink.
//
// Ordering is decided, never hoped for: every sink call blocks at a gate until the driver releases it;
// after every driver step the driver waits until the consumer goroutine is in one of its two stable
// states - blocked at the gate (observed through the arrive channel) or parked in sync.Cond.Wait
// (observed in a runtime.Stack snapshot; a goroutine that has been signalled is no longer reported in
// that state, so the observation cannot be stale).  All events are therefore written by the driver
// goroutine in one total order established by channel synchronisation (no wall-clock anywhere).  A
// consumer that reaches neither state within the bound is a harness error (exit 2).
//
// The driver only executes, records and converts syntax; it computes no expected values.
package main

import (
	"fmt"
	"io"
	"math/rand"
	"os"
	"regexp"
	"runtime"
	"strings"
	"sync/atomic"
	"time"

	"github.com/sirupsen/logrus"

	"github.com/projectcalico/calico/libcalico-go/lib/backend/api"
	"github.com/projectcalico/calico/libcalico-go/lib/backend/model"
	"github.com/projectcalico/calico/libcalico-go/lib/backend/syncersv1/dedupebuffer"

	"verifharness/tracelog"
)

type kv struct {
	K  string `json:"k"`
	V  int    `json:"v"`
	Ut string `json:"ut"`
}

type sinkCall struct {
	status string
	kvs    []kv
}

type gatedSink struct {
	arrive  chan sinkCall
	release chan struct{}
	closed  atomic.Bool
}

func utName(t api.UpdateType) string {
	switch t {
	case api.UpdateTypeKVNew:
		return "new"
	case api.UpdateTypeKVUpdated:
		return "upd"
	case api.UpdateTypeKVDeleted:
		return "del"
	}
	return "unk"
}

func utOf(s string) api.UpdateType {
	switch s {
	case "new":
		return api.UpdateTypeKVNew
	case "upd":
		return api.UpdateTypeKVUpdated
	case "del":
		return api.UpdateTypeKVDeleted
	}
	return api.UpdateTypeKVUnknown
}

func statusName(s api.SyncStatus) string {
	switch s {
	case api.WaitForDatastore:
		return "wait"
	case api.ResyncInProgress:
		return "resync"
	case api.InSync:
		return "insync"
	}
	return fmt.Sprintf("status%d", s)
}

func statusOf(s string) api.SyncStatus {
	switch s {
	case "wait":
		return api.WaitForDatastore
	case "resync":
		return api.ResyncInProgress
	case "insync":
		return api.InSync
	}
	panic("bad status " + s)
}

func (g *gatedSink) OnStatusUpdated(s api.SyncStatus) {
	if g.closed.Load() {
		return
	}
	g.arrive <- sinkCall{status: statusName(s)}
	<-g.release
}

func (g *gatedSink) OnUpdates(us []api.Update) {
	if g.closed.Load() {
		return
	}
	c := sinkCall{kvs: make([]kv, 0, len(us))}
	for _, u := range us {
		k, ok := u.Key.(model.GlobalConfigKey)
		if !ok {
			fatal("unexpected key type from buffer: %T", u.Key)
		}
		v := 0
		if u.Value != nil {
			v = u.Value.(int)
		}
		c.kvs = append(c.kvs, kv{K: k.Name, V: v, Ut: utName(u.UpdateType)})
	}
	g.arrive <- c
	<-g.release
}

func fatal(f string, a ...any) {
	fmt.Fprintf(os.Stderr, "dedupe driver: "+f+"\n", a...)
	os.Exit(2)
}

type drv struct {
	log    *tracelog.Log
	d      *dedupebuffer.DedupeBuffer
	g      *gatedSink
	cstate string // "off" | "idle" | "insink"
	done   chan struct{}
	bound  time.Duration
}

var goroutineHdr = regexp.MustCompile(`(?m)^goroutine \d+ \[([^\]]*)\]:$`)

// consumerParked reports whether the goroutine running SendToSinkForever is parked in sync.Cond.Wait.
var stackBuf = make([]byte, 1<<16)

func consumerParked() bool {
	var buf []byte
	for {
		n := runtime.Stack(stackBuf, true)
		if n < len(stackBuf) {
			buf = stackBuf[:n]
			break
		}
		stackBuf = make([]byte, 2*len(stackBuf))
	}
	for _, blk := range strings.Split(string(buf), "\n\n") {
		if !strings.Contains(blk, "dedupebuffer.(*DedupeBuffer).SendToSinkForever") {
			continue
		}
		m := goroutineHdr.FindStringSubmatch(blk)
		if m == nil {
			continue
		}
		st := m[1]
		if i := strings.Index(st, ","); i >= 0 {
			st = st[:i]
		}
		return st == "sync.Cond.Wait"
	}
	return false
}

// settle waits until the consumer is blocked at the gate (logs the sink call) or parked (logs idle).
func (d *drv) settle() {
	if d.cstate == "off" {
		return
	}
	deadline := time.Now().Add(d.bound)
	spins := 0
	for {
		select {
		case c := <-d.g.arrive:
			if c.status != "" {
				d.log.Emit("s_status", map[string]any{"s": c.status})
			} else {
				d.log.Emit("s_upd", map[string]any{"kvs": c.kvs})
			}
			d.cstate = "insink"
			return
		default:
		}
		if consumerParked() {
			// a parked consumer cannot have a call in flight: arrival strictly precedes parking
			select {
			case c := <-d.g.arrive:
				_ = c
				fatal("consumer parked and arriving at once")
			default:
			}
			d.log.Emit("idle", nil)
			d.cstate = "idle"
			return
		}
		if time.Now().After(deadline) {
			fatal("consumer goroutine reached neither the gate nor cond.Wait within %v (trace %d)", d.bound, d.log.T)
		}
		spins++
		if spins < 5 {
			runtime.Gosched()
		} else {
			time.Sleep(30 * time.Microsecond)
		}
	}
}

func (d *drv) begin(t int, keys []string) {
	d.d = dedupebuffer.New()
	d.g = &gatedSink{arrive: make(chan sinkCall), release: make(chan struct{})}
	d.cstate = "off"
	d.done = make(chan struct{})
	d.log.Reset(t, map[string]any{"keys": keys})
}

func (d *drv) finish() {
	// let the consumer run out: the sink stops blocking and recording, the buffer is stopped
	d.g.closed.Store(true)
	d.d.Stop()
	if d.cstate == "insink" {
		d.g.release <- struct{}{}
	}
	if d.cstate != "off" {
		select {
		case <-d.done:
		case <-time.After(d.bound):
			fatal("consumer goroutine did not exit after Stop (trace %d)", d.log.T)
		}
	}
}

func (d *drv) start() {
	if d.cstate != "off" {
		return
	}
	done, buf, sink := d.done, d.d, d.g
	go func() {
		buf.SendToSinkForever(sink)
		close(done)
	}()
	d.cstate = "idle" // provisional; settle() observes the real state
	d.log.Emit("start", nil)
	d.settle()
}

func (d *drv) afterProducer() {
	if d.cstate == "idle" {
		d.settle()
	}
}

func (d *drv) upd(kvs []kv) {
	us := make([]api.Update, 0, len(kvs))
	for _, x := range kvs {
		u := api.Update{KVPair: model.KVPair{Key: model.GlobalConfigKey{Name: x.K}}, UpdateType: utOf(x.Ut)}
		if x.V != 0 {
			u.Value = x.V
		}
		us = append(us, u)
	}
	d.d.OnUpdates(us)
	d.log.Emit("p_upd", map[string]any{"kvs": kvs})
	d.afterProducer()
}

func (d *drv) status(s string) {
	d.d.OnStatusUpdated(statusOf(s))
	d.log.Emit("p_status", map[string]any{"s": s})
	d.afterProducer()
}

func (d *drv) restart() {
	d.d.OnTyphaConnectionRestarted()
	d.log.Emit("p_restart", nil)
	d.afterProducer()
}

func (d *drv) releaseOne() bool {
	if d.cstate != "insink" {
		return false
	}
	d.g.release <- struct{}{}
	d.log.Emit("ret", nil)
	d.cstate = "idle" // provisional
	d.settle()
	return true
}

func (d *drv) drain() {
	for i := 0; i < 100000 && d.cstate == "insink"; i++ {
		d.releaseOne()
	}
}

func (d *drv) step(op map[string]any) {
	switch tracelog.Str(op["op"]) {
	case "start":
		d.start()
	case "upd":
		var kvs []kv
		for _, x := range op["kvs"].([]any) {
			m := x.(map[string]any)
			kvs = append(kvs, kv{K: tracelog.Str(m["k"]), V: tracelog.Int(m["v"]), Ut: tracelog.Str(m["ut"])})
		}
		d.upd(kvs)
	case "status":
		d.status(tracelog.Str(op["s"]))
	case "restart":
		d.restart()
	case "release":
		d.releaseOne()
	case "end":
	default:
		fatal("unknown op %v", op["op"])
	}
}

// ---- seeded random leg ---------------------------------------------------------------------------

type planned struct {
	kind string // "upd" | "status" | "restart"
	kvs  []kv
	s    string
}

func (d *drv) random(t int, rnd *rand.Rand, big bool, noproto bool) {
	nk := []int{2, 3, 5, 8}[rnd.Intn(4)]
	if big {
		nk = 130 + rnd.Intn(120)
	}
	keys := make([]string, nk)
	for i := range keys {
		keys[i] = fmt.Sprintf("k%03d", i)
	}
	d.begin(t, keys)
	nv := 1 + rnd.Intn(3)
	typhaLike := rnd.Intn(3) > 0 // upstream sends complete snapshots per connection, like Typha
	ds := map[string]int{}      // the "true" datastore the upstream connection reads from
	conn := map[string]int{}    // what the current connection has sent (for the input UpdateType only)
	var plan []planned
	mkUpd := func(k string, v int) kv {
		ut := "del"
		if v != 0 {
			if _, ok := conn[k]; ok {
				ut = "upd"
			} else {
				ut = "new"
			}
			conn[k] = v
		} else {
			delete(conn, k)
		}
		return kv{K: k, V: v, Ut: ut}
	}
	planSnapshot := func() {
		// all keys of the datastore in chunks, then in-sync
		var ks []string
		for _, k := range keys {
			if _, ok := ds[k]; ok {
				ks = append(ks, k)
			}
		}
		rnd.Shuffle(len(ks), func(i, j int) { ks[i], ks[j] = ks[j], ks[i] })
		chunk := 1 + rnd.Intn(3)
		if big {
			chunk = 90 + rnd.Intn(120)
		}
		for len(ks) > 0 {
			n := chunk
			if n > len(ks) {
				n = len(ks)
			}
			plan = append(plan, planned{kind: "snap", kvs: nil, s: strings.Join(ks[:n], ",")})
			ks = ks[n:]
		}
		plan = append(plan, planned{kind: "status", s: "insync"})
	}
	// first connection: syncclient's loop() reports ResyncInProgress first
	plan = append(plan, planned{kind: "status", s: "resync"})
	if typhaLike {
		// pre-populate the datastore
		for _, k := range keys {
			if rnd.Intn(2) == 0 {
				ds[k] = 1 + rnd.Intn(nv)
			}
		}
		planSnapshot()
	}
	steps := 25 + rnd.Intn(50)
	if big {
		steps = 12 + rnd.Intn(10)
	}
	startAt := rnd.Intn(6)
	if rnd.Intn(4) == 0 {
		startAt = 0
	}
	for i := 0; i < steps; i++ {
		if i == startAt {
			d.start()
		}
		// downstream pace
		if d.cstate == "insink" && rnd.Intn(100) < 40 {
			d.releaseOne()
			continue
		}
		// the datastore changes behind the connection's back (seen by the connection as deltas)
		if len(plan) > 0 {
			p := plan[0]
			plan = plan[1:]
			switch p.kind {
			case "status":
				d.status(p.s)
			case "snap":
				var kvs []kv
				for _, k := range strings.Split(p.s, ",") {
					if v, ok := ds[k]; ok { // may have been deleted since the snapshot was planned
						kvs = append(kvs, mkUpd(k, v))
					}
				}
				if len(kvs) > 0 {
					d.upd(kvs)
				}
			}
			continue
		}
		switch c := rnd.Intn(100); {
		case c < 55:
			n := 1 + rnd.Intn(3)
			var kvs []kv
			for j := 0; j < n; j++ {
				k := keys[rnd.Intn(len(keys))]
				v := 0
				if rnd.Intn(3) > 0 {
					v = 1 + rnd.Intn(nv)
				}
				if typhaLike {
					if _, ok := ds[k]; !ok && v == 0 {
						continue // Typha never reports the deletion of a key it never had
					}
				}
				if v == 0 {
					delete(ds, k)
				} else {
					ds[k] = v
				}
				kvs = append(kvs, mkUpd(k, v))
			}
			if len(kvs) > 0 {
				d.upd(kvs)
			}
		case c < 75:
			d.status([]string{"wait", "resync", "insync", "insync"}[rnd.Intn(4)])
		case c < 90:
			// connection lost: while disconnected the datastore moves on
			d.restart()
			conn = map[string]int{}
			for _, k := range keys {
				switch rnd.Intn(6) {
				case 0:
					delete(ds, k)
				case 1:
					ds[k] = 1 + rnd.Intn(nv)
				}
			}
			if !noproto {
				plan = append(plan, planned{kind: "status", s: "wait"}, planned{kind: "status", s: "resync"})
			}
			if typhaLike {
				planSnapshot()
			}
		default:
			d.releaseOne()
		}
	}
	// finish the protocol obligations, report in-sync, let downstream consume everything
	for _, p := range plan {
		if p.kind == "status" {
			d.status(p.s)
		} else if p.kind == "snap" {
			var kvs []kv
			for _, k := range strings.Split(p.s, ",") {
				if v, ok := ds[k]; ok {
					kvs = append(kvs, mkUpd(k, v))
				}
			}
			if len(kvs) > 0 {
				d.upd(kvs)
			}
		}
	}
	d.status("insync")
	d.start()
	d.drain()
	d.finish()
}

func main() {
	logrus.SetOutput(io.Discard)
	logrus.SetLevel(logrus.PanicLevel)
	env := tracelog.GetEnv()
	lg, err := tracelog.Open(env.OutPath)
	if err != nil {
		fatal("%v", err)
	}
	d := &drv{log: lg, bound: 20 * time.Second}
	behs, err := tracelog.LoadBehaviours(env.BehPath)
	if err != nil {
		fatal("%v", err)
	}
	t := 0
	for _, b := range behs {
		t++
		d.begin(t, []string{"a", "b", "c"})
		for _, op := range b {
			d.step(op)
		}
		d.drain()
		d.finish()
	}
	big := os.Getenv("VERIF_BIG") == "1"
	noproto := os.Getenv("VERIF_NOPROTO") == "1"
	for i := 0; i < env.N; i++ {
		t++
		d.random(t, rand.New(rand.NewSource(env.Seed*1000003+int64(i))), big, noproto)
	}
	if err := lg.Close(); err != nil {
		fatal("%v", err)
	}
}
