// Driver for C42: runs the real felix/bpf/proxy.Syncer over recording in-memory maps.
//
// Every single Update / Delete that reaches the frontend or the backend map is logged as its own
// `write` event together with the FULL decoded content of both maps after that write.  "Crash after
// write k" makes write k+1 panic with a sentinel that the driver recovers; the Syncer is abandoned and
// a NEW Syncer is created on the same underlying maps.  After every Apply a `sync_done` event carries
// ok/err plus the desired state as reported by the very objects handed to Apply (read back through
// their interface methods).  The driver never computes an expected map content: all judgement
// (ready endpoints, local-first, local-only, which frontends must exist) is in specs/bpf_syncer.
package main

import (
	"errors"
	"fmt"
	"io"
	"math/rand"
	"net"
	"os"
	"reflect"
	"sort"

	"github.com/sirupsen/logrus"
	v1 "k8s.io/api/core/v1"
	"k8s.io/apimachinery/pkg/types"
	k8sp "k8s.io/kubernetes/pkg/proxy"

	"github.com/projectcalico/calico/felix/bpf/maps"
	"github.com/projectcalico/calico/felix/bpf/mock"
	"github.com/projectcalico/calico/felix/bpf/nat"
	"github.com/projectcalico/calico/felix/bpf/proxy"

	"verifharness/tracelog"
)

// ---- desired state (harness-side description; converted into the package's own objects) ----------

type epDesc struct {
	IP          string
	Port        int
	Ready       bool
	Local       bool
	Terminating bool
}

type svcDesc struct {
	Name  string
	CIP   string
	Port  int
	Proto int // 6 / 17
	Ext   []string
	LB    []string
	NP    int
	XL    bool // externalTrafficPolicy: Local
	Eps   []epDesc
}

// etpLocalPort overrides only the external traffic policy of the package's own service port object
// (the exported option K8sSvcWithLocalOnly sets internal AND external policy; the property is about
// the external one).
type etpLocalPort struct {
	k8sp.ServicePort
}

func (e etpLocalPort) ExternalPolicyLocal() bool { return true }
func (e etpLocalPort) UsesLocalEndpoints() bool {
	return e.InternalPolicyLocal() || e.ExternallyAccessible()
}

func ips(ss []string) []net.IP {
	var out []net.IP
	for _, s := range ss {
		out = append(out, net.ParseIP(s))
	}
	return out
}

func protoOf(p int) v1.Protocol {
	if p == 17 {
		return v1.ProtocolUDP
	}
	return v1.ProtocolTCP
}

func buildSvc(d svcDesc) k8sp.ServicePort {
	var opts []proxy.K8sServicePortOption
	if len(d.Ext) > 0 {
		opts = append(opts, proxy.K8sSvcWithExternalIPs(ips(d.Ext)))
	}
	if len(d.LB) > 0 {
		opts = append(opts, proxy.K8sSvcWithLoadBalancerIPs(ips(d.LB)))
	}
	if d.NP != 0 {
		opts = append(opts, proxy.K8sSvcWithNodePort(d.NP))
	}
	sp := proxy.NewK8sServicePort(net.ParseIP(d.CIP), d.Port, protoOf(d.Proto), opts...)
	if d.XL {
		// *proxy.servicePort embeds the exported interface k8sp.ServicePort: the embedded field is
		// settable from outside the package.
		f := reflect.ValueOf(sp).Elem().FieldByName("ServicePort")
		if !f.IsValid() || !f.CanSet() {
			panic("harness: cannot reach the embedded ServicePort of proxy.NewK8sServicePort's result")
		}
		inner := f.Interface().(k8sp.ServicePort)
		f.Set(reflect.ValueOf(etpLocalPort{inner}))
		if !sp.ExternalPolicyLocal() || sp.InternalPolicyLocal() {
			panic("harness: externalTrafficPolicy override did not take effect")
		}
	}
	return sp
}

func buildEp(e epDesc) k8sp.Endpoint {
	return proxy.NewEndpointInfo(e.IP, e.Port,
		proxy.EndpointInfoOptIsReady(e.Ready),
		proxy.EndpointInfoOptIsLocal(e.Local),
		proxy.EndpointInfoOptIsServing(e.Ready || e.Terminating),
		proxy.EndpointInfoOptIsTerminating(e.Terminating))
}

func spn(name string) k8sp.ServicePortName {
	return k8sp.ServicePortName{NamespacedName: types.NamespacedName{Namespace: "verif", Name: name}, Port: "p"}
}

func buildState(ds []svcDesc) proxy.DPSyncerState {
	st := proxy.DPSyncerState{SvcMap: k8sp.ServicePortMap{}, EpsMap: k8sp.EndpointsMap{}, Hostname: "node-a"}
	for _, d := range ds {
		n := spn(d.Name)
		st.SvcMap[n] = buildSvc(d)
		var eps []k8sp.Endpoint
		for _, e := range d.Eps {
			eps = append(eps, buildEp(e))
		}
		if len(eps) > 0 {
			st.EpsMap[n] = eps
		}
	}
	return st
}

// ---- pure syntax conversion of what was handed to Apply ------------------------------------------

func ipStrs(xs []net.IP) []string {
	out := []string{}
	for _, x := range xs {
		out = append(out, x.String())
	}
	sort.Strings(out)
	return out
}

func protoNum(p v1.Protocol) int {
	switch p {
	case v1.ProtocolTCP:
		return 6
	case v1.ProtocolUDP:
		return 17
	case v1.ProtocolSCTP:
		return 132
	}
	return 0
}

func stateJSON(st proxy.DPSyncerState) []any {
	names := []string{}
	byName := map[string]k8sp.ServicePortName{}
	for n := range st.SvcMap {
		names = append(names, n.String())
		byName[n.String()] = n
	}
	sort.Strings(names)
	out := []any{}
	for _, ns := range names {
		n := byName[ns]
		sp := st.SvcMap[n]
		eps := []any{}
		for _, ep := range st.EpsMap[n] {
			eps = append(eps, map[string]any{"ip": ep.IP(), "port": ep.Port(), "ready": ep.IsReady(), "local": ep.IsLocal()})
		}
		out = append(out, map[string]any{
			"name": ns, "cip": sp.ClusterIP().String(), "port": sp.Port(), "proto": protoNum(sp.Protocol()),
			"ext": ipStrs(sp.ExternalIPs()), "lb": ipStrs(sp.LoadBalancerVIPs()), "np": sp.NodePort(),
			"etplocal": sp.ExternalPolicyLocal(), "itplocal": sp.InternalPolicyLocal(), "eps": eps,
		})
	}
	return out
}

// ---- recording maps ---------------------------------------------------------------------------------

type crashSentinel struct{}

type recMap struct {
	*mock.Map
	d    *drv
	kind string // "fe" | "be"
}

var _ maps.MapWithExistsCheck = (*recMap)(nil)

var errInjected = errors.New("verif: injected map write failure")

func (m *recMap) Update(k, v []byte) error {
	m.d.beforeWrite()
	if m.d.failNow() {
		return errInjected
	}
	err := m.Map.Update(k, v)
	m.d.afterWrite(m.kind, "upd", k, v, err)
	return err
}

func (m *recMap) Delete(k []byte) error {
	m.d.beforeWrite()
	if m.d.failNow() {
		return errInjected
	}
	err := m.Map.Delete(k)
	m.d.afterWrite(m.kind, "del", k, nil, err)
	return err
}

func (m *recMap) BatchUpdate(ks, vs [][]byte, flags uint64) (int, error) {
	n := 0
	for i := range ks {
		if err := m.Update(ks[i], vs[i]); err != nil {
			return n, err
		}
		n++
	}
	return n, nil
}

type drv struct {
	log      *tracelog.Log
	fe, be   *recMap
	mg, aff  *mock.Map
	npips    []net.IP
	syncer   *proxy.Syncer
	writes   int // writes performed during the current Apply
	crashAt  int // -1: never; otherwise the write with index crashAt (0-based) panics before executing
	inApply  bool
	nsyncers int
	// failure injection (random leg only): write attempt failAt of the current Apply returns an error
	// and leaves the map untouched; failRest makes every later attempt of that Apply fail too
	attempts int
	failAt   int
	failRest bool
}

func (d *drv) failNow() bool {
	if !d.inApply || d.failAt < 0 {
		return false
	}
	i := d.attempts
	d.attempts++
	return i == d.failAt || (d.failRest && i > d.failAt)
}

func feRec(k, v []byte) map[string]any {
	key := nat.FrontendKeyFromBytes(k)
	r := map[string]any{"ip": key.Addr().String(), "port": int(key.Port()), "proto": int(key.Proto()), "src": key.SrcCIDR().String()}
	if v != nil {
		val := nat.FrontendValueFromBytes(v)
		r["id"] = int(val.ID())
		r["count"] = int(val.Count())
		r["local"] = int(val.LocalCount())
		r["flags"] = int(val.Flags())
	}
	return r
}

func beRec(k, v []byte) map[string]any {
	key := nat.BackendKeyFromBytes(k)
	r := map[string]any{"id": int(key.ID()), "idx": int(key.Count())}
	if v != nil {
		val := nat.BackendValueFromBytes(v)
		r["ip"] = val.Addr().String()
		r["port"] = int(val.Port())
	}
	return r
}

func snapshot(m *mock.Map, rec func(k, v []byte) map[string]any) []any {
	keys := make([]string, 0, len(m.Contents))
	for k := range m.Contents {
		keys = append(keys, k)
	}
	sort.Strings(keys)
	out := make([]any, 0, len(keys))
	for _, k := range keys {
		out = append(out, rec([]byte(k), []byte(m.Contents[k])))
	}
	return out
}

func (d *drv) snap(f map[string]any) map[string]any {
	f["fe"] = snapshot(d.fe.Map, feRec)
	f["be"] = snapshot(d.be.Map, beRec)
	return f
}

func (d *drv) beforeWrite() {
	if d.inApply && d.crashAt >= 0 && d.writes >= d.crashAt {
		panic(crashSentinel{})
	}
}

func (d *drv) afterWrite(kind, op string, k, v []byte, err error) {
	if err != nil {
		panic(fmt.Sprintf("harness: mock map write failed: %v", err))
	}
	var r map[string]any
	if kind == "fe" {
		r = feRec(k, v)
	} else {
		r = beRec(k, v)
	}
	by := "env"
	if d.inApply {
		by = "syncer"
		d.writes++
	}
	d.log.Emit("write", d.snap(map[string]any{"m": kind, "op": op, "rec": r, "by": by}))
}

func (d *drv) reset(t int) {
	d.fe = &recMap{Map: mock.NewMockMap(nat.FrontendMapParameters), d: d, kind: "fe"}
	d.be = &recMap{Map: mock.NewMockMap(nat.BackendMapParameters), d: d, kind: "be"}
	d.mg = mock.NewMockMap(nat.MaglevMapParameters)
	d.aff = mock.NewMockMap(nat.AffinityMapParameters)
	d.syncer = nil
	d.crashAt = -1
	d.failAt = -1
	d.log.Reset(t, map[string]any{"npips": ipStrs(d.npips)})
}

func (d *drv) newSyncer() {
	s, err := proxy.NewSyncer(4, d.npips, d.fe, d.be, d.mg, d.aff, proxy.NewRTCache(), nil, 31, 0)
	if err != nil {
		panic(err)
	}
	d.syncer = s
	d.nsyncers++
	d.log.Emit("start", map[string]any{})
}

// apply runs one Apply of the current Syncer; crashAt >= 0 abandons it at that write.
func (d *drv) apply(ds []svcDesc, crashAt int) {
	if d.syncer == nil {
		d.newSyncer()
	}
	st := buildState(ds)
	desired := stateJSON(st)
	d.writes = 0
	d.attempts = 0
	d.crashAt = crashAt
	crashed := false
	var err error
	func() {
		defer func() {
			d.inApply = false
			if r := recover(); r != nil {
				if _, ok := r.(crashSentinel); ok {
					crashed = true
					return
				}
				panic(r)
			}
		}()
		d.inApply = true
		err = d.syncer.Apply(st)
	}()
	d.crashAt = -1
	d.failAt = -1
	es := ""
	if err != nil {
		es = err.Error()
	}
	d.log.Emit("sync_done", d.snap(map[string]any{
		"ok": !crashed && err == nil, "crashed": crashed, "err": es, "nwrites": d.writes,
		"npips": ipStrs(d.npips), "svcs": desired,
	}))
	if crashed {
		// the process is gone: nothing of the old Syncer survives, only the maps
		d.syncer = nil
	}
}

func (d *drv) restart() {
	if d.syncer != nil {
		d.syncer.Stop()
	}
	d.syncer = nil
}

// envWrite: content written behind the Syncer's back before it starts (an older Felix, the
// ebpf-bootstrap container).  Backends first so that the maps are never inconsistent.
func (d *drv) envService(cip string, port, proto int, id uint32, eps []epDesc) {
	for i, e := range eps {
		k := nat.NewNATBackendKey(id, uint32(i))
		v := nat.NewNATBackendValue(net.ParseIP(e.IP), uint16(e.Port))
		_ = d.be.Update(k.AsBytes(), v.AsBytes())
	}
	fk := nat.NewNATKey(net.ParseIP(cip), uint16(port), uint8(proto))
	fv := nat.NewNATValue(id, uint32(len(eps)), 0, 0)
	_ = d.fe.Update(fk.AsBytes(), fv.AsBytes())
}

// ---- TLC behaviours -----------------------------------------------------------------------------------

func b2bool(v any) bool { b, _ := v.(bool); return b }

func svcFromBeh(m map[string]any) svcDesc {
	s := tracelog.Int(m["s"])
	d := svcDesc{Name: fmt.Sprintf("svc%d", s), CIP: fmt.Sprintf("10.0.0.%d", s), Port: 80, Proto: 6, XL: b2bool(m["xl"])}
	if b2bool(m["ext"]) {
		d.Ext = []string{fmt.Sprintf("35.0.0.%d", s)}
	}
	if b2bool(m["lb"]) {
		d.LB = []string{fmt.Sprintf("45.0.0.%d", s)}
	}
	if b2bool(m["np"]) {
		d.NP = 30000 + s
	}
	if eps, ok := m["eps"].([]any); ok {
		for _, x := range eps {
			em := x.(map[string]any)
			e := tracelog.Int(em["e"])
			st := tracelog.Str(em["st"])
			if len(st) != 2 {
				continue
			}
			d.Eps = append(d.Eps, epDesc{IP: fmt.Sprintf("10.1.%d.%d", s, e), Port: 8080, Ready: st[0] == 'r', Local: st[1] == 'l'})
		}
	}
	return d
}

var (
	hostIP  = net.IPv4(192, 168, 0, 1)
	podNPIP = net.IPv4(255, 255, 255, 255) // the "any local address" node-port IP kube-proxy.go always adds
)

func (d *drv) runBehaviour(t int, beh []map[string]any) {
	// VERIF_NPIPS=1: the generator's model has a single node-port IP; with the same number here its crash
	// points k range over all writes of the real sync
	d.npips = []net.IP{hostIP, podNPIP}
	if os.Getenv("VERIF_NPIPS") == "1" {
		d.npips = []net.IP{hostIP}
	}
	d.reset(t)
	for _, op := range beh {
		switch tracelog.Str(op["op"]) {
		case "sync", "crash":
			var ds []svcDesc
			if ss, ok := op["svcs"].([]any); ok {
				for _, x := range ss {
					ds = append(ds, svcFromBeh(x.(map[string]any)))
				}
			}
			if tracelog.Str(op["op"]) == "crash" {
				d.apply(ds, tracelog.Int(op["k"]))
				d.restart() // if the sync had fewer writes than k it completed; the process dies anyway
			} else {
				d.apply(ds, -1)
			}
		case "restart":
			d.restart()
		case "end":
		default:
			panic("unknown op " + tracelog.Str(op["op"]))
		}
	}
	d.restart()
}

// ---- seeded random histories over a larger universe --------------------------------------------------

func (d *drv) runRandom(t int, r *rand.Rand) {
	d.npips = []net.IP{hostIP, podNPIP}
	if r.Intn(4) == 0 {
		d.npips = []net.IP{hostIP}
	}
	d.reset(t)
	nsvc := 2 + r.Intn(3)
	neps := 2 + r.Intn(4)
	cur := map[int]*svcDesc{}
	mk := func(s int) *svcDesc {
		sd := &svcDesc{Name: fmt.Sprintf("svc%d", s), CIP: fmt.Sprintf("10.0.0.%d", s), Port: 80, Proto: 6}
		if r.Intn(4) == 0 {
			sd.Proto = 17
		}
		return sd
	}
	randomise := func(s int, sd *svcDesc) {
		switch r.Intn(8) {
		case 0:
			if len(sd.Ext) == 0 {
				sd.Ext = []string{fmt.Sprintf("35.0.0.%d", s)}
				if r.Intn(3) == 0 {
					sd.Ext = append(sd.Ext, fmt.Sprintf("36.0.0.%d", s))
				}
			} else {
				sd.Ext = sd.Ext[:len(sd.Ext)-1]
			}
		case 1:
			if len(sd.LB) == 0 {
				sd.LB = []string{fmt.Sprintf("45.0.0.%d", s)}
			} else {
				sd.LB = nil
			}
		case 2:
			if sd.NP == 0 {
				sd.NP = 30000 + s
			} else {
				sd.NP = 0
			}
		case 3:
			sd.XL = !sd.XL
		case 4:
			if sd.Port == 80 {
				sd.Port = 8000 + s
			} else {
				sd.Port = 80
			}
		}
	}
	epEdit := func(s int, sd *svcDesc) {
		e := 1 + r.Intn(neps)
		ipS := fmt.Sprintf("10.1.%d.%d", s, e)
		idx := -1
		for i := range sd.Eps {
			if sd.Eps[i].IP == ipS {
				idx = i
			}
		}
		switch {
		case idx < 0:
			ne := epDesc{IP: ipS, Port: 8080, Ready: r.Intn(4) != 0, Local: r.Intn(2) == 0}
			if !ne.Ready && r.Intn(2) == 0 {
				ne.Terminating = true
			}
			// insert at a random position: the order of the endpoint slice is not sorted in production either
			pos := r.Intn(len(sd.Eps) + 1)
			sd.Eps = append(sd.Eps, epDesc{})
			copy(sd.Eps[pos+1:], sd.Eps[pos:])
			sd.Eps[pos] = ne
		case r.Intn(3) == 0:
			sd.Eps = append(sd.Eps[:idx], sd.Eps[idx+1:]...)
		case r.Intn(2) == 0:
			sd.Eps[idx].Ready = !sd.Eps[idx].Ready
			sd.Eps[idx].Terminating = !sd.Eps[idx].Ready && r.Intn(2) == 0
		default:
			sd.Eps[idx].Local = !sd.Eps[idx].Local
		}
	}
	// sometimes the maps already hold content written by somebody else (consistent, but with ids the
	// new Syncer did not allocate; two services may even share one id)
	if r.Intn(4) == 0 {
		id := uint32(r.Intn(4))
		for s := 1; s <= 2; s++ {
			var eps []epDesc
			for e := 1; e <= 1+r.Intn(3); e++ {
				eps = append(eps, epDesc{IP: fmt.Sprintf("10.1.%d.%d", s, e), Port: 8080})
			}
			d.envService(fmt.Sprintf("10.0.0.%d", s), 80, 6, id, eps)
			if r.Intn(2) == 0 {
				id += uint32(1 + r.Intn(3))
			}
		}
	}
	steps := 6 + r.Intn(10)
	for i := 0; i < steps; i++ {
		nedits := 1 + r.Intn(4)
		for j := 0; j < nedits; j++ {
			s := 1 + r.Intn(nsvc)
			sd := cur[s]
			switch {
			case sd == nil:
				sd = mk(s)
				cur[s] = sd
				for k := r.Intn(neps + 1); k > 0; k-- {
					epEdit(s, sd)
				}
				for k := r.Intn(3); k > 0; k-- {
					randomise(s, sd)
				}
			case r.Intn(8) == 0:
				delete(cur, s)
			case r.Intn(3) == 0:
				randomise(s, sd)
			default:
				epEdit(s, sd)
			}
		}
		var ds []svcDesc
		for s := 1; s <= nsvc; s++ {
			if cur[s] != nil {
				c := *cur[s]
				c.Eps = append([]epDesc(nil), cur[s].Eps...)
				ds = append(ds, c)
			}
		}
		switch r.Intn(7) {
		case 0:
			d.apply(ds, r.Intn(12))
			d.restart()
		case 2:
			// a map write fails (once, or from then on) and Apply reports it or retries it; the same
			// Syncer then syncs again
			d.failAt = r.Intn(10)
			d.failRest = r.Intn(2) == 0
			d.apply(ds, -1)
			d.apply(ds, -1)
		case 1:
			d.apply(ds, -1)
			d.restart()
		default:
			d.apply(ds, -1)
		}
	}
	d.restart()
}

func main() {
	logrus.SetOutput(io.Discard)
	logrus.SetLevel(logrus.PanicLevel)
	env := tracelog.GetEnv()
	lg, err := tracelog.Open(env.OutPath)
	if err != nil {
		fmt.Fprintln(os.Stderr, err)
		os.Exit(2)
	}
	d := &drv{log: lg, crashAt: -1, failAt: -1}
	behs, err := tracelog.LoadBehaviours(env.BehPath)
	if err != nil {
		fmt.Fprintln(os.Stderr, err)
		os.Exit(2)
	}
	t := 0
	for _, b := range behs {
		t++
		d.runBehaviour(t, b)
	}
	for i := 0; i < env.N; i++ {
		t++
		d.runRandom(t, rand.New(rand.NewSource(env.Seed*1000003+int64(i))))
	}
	if err := lg.Close(); err != nil {
		fmt.Fprintln(os.Stderr, err)
		os.Exit(2)
	}
	fmt.Fprintf(os.Stderr, "syncer driver: %d traces, %d events, %d syncers\n", t, lg.N, d.nsyncers)
}
