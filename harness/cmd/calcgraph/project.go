// Projection of the messages emitted by the EventSequencer to the JSON records of the trace: pure syntax
// conversion (field by field), no interpretation.
package main

import (
	"encoding/json"
	"fmt"
	"sort"
	"strconv"
	"strings"

	"google.golang.org/protobuf/encoding/protojson"
	googleproto "google.golang.org/protobuf/proto"

	"github.com/projectcalico/calico/felix/calc"
	"github.com/projectcalico/calico/felix/proto"
	cnet "github.com/projectcalico/calico/libcalico-go/lib/net"
)

// canonical, deterministic text of a protobuf message (protojson deliberately randomises whitespace, so
// round-trip through encoding/json, which sorts keys)
func raw(m googleproto.Message) string {
	b, err := protojson.MarshalOptions{UseProtoNames: true}.Marshal(m)
	if err != nil {
		panic(err)
	}
	var v any
	if err := json.Unmarshal(b, &v); err != nil {
		panic(err)
	}
	out, _ := json.Marshal(v)
	return string(out)
}

func ss(in []string) []string {
	if in == nil {
		return []string{}
	}
	return in
}

// "10.0.0.1/32" | "10.0.0.1" | "10.0.0.1,tcp:80"  ->  {s, a, n, proto, port}
func member(s string) map[string]any {
	out := map[string]any{"s": s, "proto": "", "port": 0}
	addr := s
	if i := strings.Index(s, ","); i >= 0 {
		addr = s[:i]
		pp := strings.SplitN(s[i+1:], ":", 2)
		if len(pp) != 2 {
			panic("unparseable ip set member " + s)
		}
		p, err := strconv.Atoi(pp[1])
		if err != nil {
			panic("unparseable ip set member " + s)
		}
		out["proto"] = pp[0]
		out["port"] = p
	}
	_, n, err := cnet.ParseCIDROrIP(addr)
	if err != nil || n == nil {
		panic("unparseable ip set member " + s)
	}
	o := octets(*n)
	out["a"] = o["a"]
	out["n"] = o["n"]
	return out
}

func members(in []string) []any {
	srt := append([]string{}, in...)
	sort.Strings(srt)
	out := []any{}
	for _, s := range srt {
		out = append(out, member(s))
	}
	return out
}

func protoName(p *proto.Protocol) string {
	if p == nil {
		return ""
	}
	switch x := p.NumberOrName.(type) {
	case *proto.Protocol_Name:
		return strings.ToLower(x.Name)
	case *proto.Protocol_Number:
		return strconv.Itoa(int(x.Number))
	}
	return ""
}

// number of match criteria present in a rule (everything except the action and the generated rule id)
func nmatch(r *proto.Rule) int {
	var v map[string]any
	if err := json.Unmarshal([]byte(raw(r)), &v); err != nil {
		panic(err)
	}
	delete(v, "action")
	delete(v, "rule_id")
	return len(v)
}

func rule(r *proto.Rule) map[string]any {
	return map[string]any{
		"nmatch": nmatch(r),
		"action": r.Action,
		"proto":  protoName(r.Protocol),
		"src":    ss(r.SrcIpSetIds), "dst": ss(r.DstIpSetIds),
		"nsrc": ss(r.NotSrcIpSetIds), "ndst": ss(r.NotDstIpSetIds),
		"srcnp": ss(r.SrcNamedPortIpSetIds), "dstnp": ss(r.DstNamedPortIpSetIds),
		"nsrcnp": ss(r.NotSrcNamedPortIpSetIds), "ndstnp": ss(r.NotDstNamedPortIpSetIds),
		"dstipport": ss(r.DstIpPortSetIds),
		"srcnum":    len(r.SrcPorts) > 0, "dstnum": len(r.DstPorts) > 0,
	}
}

func rules(rs []*proto.Rule) []any {
	out := []any{}
	for _, r := range rs {
		out = append(out, rule(r))
	}
	return out
}

func polID(p *proto.PolicyID) string { return p.Kind + "/" + p.Namespace + "/" + p.Name }

func polIDs(ps []*proto.PolicyID) []string {
	out := []string{}
	for _, p := range ps {
		out = append(out, polID(p))
	}
	return out
}

func tiers(ts []*proto.TierInfo) []any {
	out := []any{}
	for _, t := range ts {
		out = append(out, map[string]any{"name": t.Name, "da": t.DefaultAction, "ing": polIDs(t.IngressPolicies), "eg": polIDs(t.EgressPolicies)})
	}
	return out
}

func routeTypes(t proto.RouteType) []string {
	out := []string{}
	for _, b := range []struct {
		v proto.RouteType
		n string
	}{{proto.RouteType_REMOTE_WORKLOAD, "REMOTE_WORKLOAD"}, {proto.RouteType_REMOTE_HOST, "REMOTE_HOST"},
		{proto.RouteType_LOCAL_WORKLOAD, "LOCAL_WORKLOAD"}, {proto.RouteType_LOCAL_HOST, "LOCAL_HOST"},
		{proto.RouteType_REMOTE_TUNNEL, "REMOTE_TUNNEL"}, {proto.RouteType_LOCAL_TUNNEL, "LOCAL_TUNNEL"}} {
		if t&b.v != 0 {
			out = append(out, b.n)
		}
	}
	return out
}

func msg(kind, id string, body map[string]any) map[string]any {
	if body == nil {
		body = map[string]any{"raw": ""}
	}
	return map[string]any{"kind": kind, "id": id, "body": body}
}

func generic(comp, op, id string, m googleproto.Message) map[string]any {
	out := msg("other_"+op, id, map[string]any{"raw": raw(m)})
	out["comp"] = comp
	return out
}

// project converts one EventSequencer callback argument.
func project(ev any) map[string]any {
	switch m := ev.(type) {
	case *proto.IPSetUpdate:
		typ := "net"
		if m.Type == proto.IPSetUpdate_IP_AND_PORT {
			typ = "ipport"
		} else if m.Type == proto.IPSetUpdate_IP {
			typ = "ip"
		}
		return msg("ipset_update", m.Id, map[string]any{"typ": typ, "members": members(m.Members), "n": len(m.Members)})
	case *proto.IPSetDeltaUpdate:
		return msg("ipset_delta", m.Id, map[string]any{"added": members(m.AddedMembers), "removed": members(m.RemovedMembers),
			"nadded": len(m.AddedMembers), "nremoved": len(m.RemovedMembers)})
	case *proto.IPSetRemove:
		return msg("ipset_remove", m.Id, nil)
	case *proto.ActivePolicyUpdate:
		p := m.Policy
		return msg("policy_update", polID(m.Id), map[string]any{"tier": p.Tier, "untracked": p.Untracked, "prednat": p.PreDnat,
			"inr": rules(p.InboundRules), "outr": rules(p.OutboundRules), "raw": raw(p)})
	case *proto.ActivePolicyRemove:
		return msg("policy_remove", polID(m.Id), nil)
	case *proto.ActiveProfileUpdate:
		return msg("profile_update", m.Id.Name, map[string]any{"inr": rules(m.Profile.InboundRules), "outr": rules(m.Profile.OutboundRules), "raw": raw(m.Profile)})
	case *proto.ActiveProfileRemove:
		return msg("profile_remove", m.Id.Name, nil)
	case *proto.WorkloadEndpointUpdate:
		e := m.Endpoint
		return msg("wep_update", m.Id.OrchestratorId+"/"+m.Id.WorkloadId+"/"+m.Id.EndpointId, map[string]any{
			"profiles": ss(e.ProfileIds), "tiers": tiers(e.Tiers), "utiers": []any{}, "ptiers": []any{}, "ftiers": []any{}, "raw": raw(e)})
	case *proto.WorkloadEndpointRemove:
		return msg("wep_remove", m.Id.OrchestratorId+"/"+m.Id.WorkloadId+"/"+m.Id.EndpointId, nil)
	case *proto.HostEndpointUpdate:
		e := m.Endpoint
		return msg("hep_update", m.Id.EndpointId, map[string]any{
			"profiles": ss(e.ProfileIds), "tiers": tiers(e.Tiers), "utiers": tiers(e.UntrackedTiers), "ptiers": tiers(e.PreDnatTiers),
			"ftiers": tiers(e.ForwardTiers), "raw": raw(e)})
	case *proto.HostEndpointRemove:
		return msg("hep_remove", m.Id.EndpointId, nil)
	case *proto.VXLANTunnelEndpointUpdate:
		return msg("vtep_update", m.Node, map[string]any{"ipv4": m.Ipv4Addr, "parent": m.ParentDeviceIp, "mac": m.Mac, "raw": raw(m)})
	case *proto.VXLANTunnelEndpointRemove:
		return msg("vtep_remove", m.Node, nil)
	case *proto.RouteUpdate:
		tun := map[string]any{"ipip": false, "vxlan": false, "wireguard": false}
		if m.TunnelType != nil {
			tun = map[string]any{"ipip": m.TunnelType.Ipip, "vxlan": m.TunnelType.Vxlan, "wireguard": m.TunnelType.Wireguard}
		}
		return msg("route_update", m.Dst, map[string]any{"dst": cidrStr(m.Dst), "types": routeTypes(m.Types), "pool": m.IpPoolType.String(),
			"node": m.DstNodeName, "nodeIp": m.DstNodeIp, "sameSubnet": m.SameSubnet, "nat": m.NatOutgoing,
			"localWorkload": m.LocalWorkload, "borrowed": m.Borrowed, "tunnel": tun, "raw": raw(m)})
	case *proto.RouteRemove:
		return msg("route_remove", m.Dst, nil)
	case *proto.HostMetadataUpdate:
		return generic("hostmeta", "set", m.Hostname, m)
	case *proto.HostMetadataRemove:
		return generic("hostmeta", "del", m.Hostname, m)
	case *proto.IPAMPoolUpdate:
		return generic("ippool", "set", m.Id, m)
	case *proto.IPAMPoolRemove:
		return generic("ippool", "del", m.Id, m)
	case *proto.ServiceAccountUpdate:
		return generic("sa", "set", m.Id.Namespace+"/"+m.Id.Name, m)
	case *proto.ServiceAccountRemove:
		return generic("sa", "del", m.Id.Namespace+"/"+m.Id.Name, m)
	case *proto.NamespaceUpdate:
		return generic("ns", "set", m.Id.Name, m)
	case *proto.NamespaceRemove:
		return generic("ns", "del", m.Id.Name, m)
	case *proto.WireguardEndpointUpdate:
		return generic("wg", "set", m.Hostname, m)
	case *proto.WireguardEndpointRemove:
		return generic("wg", "del", m.Hostname, m)
	case *proto.WireguardEndpointV6Update:
		return generic("wg6", "set", m.Hostname, m)
	case *proto.WireguardEndpointV6Remove:
		return generic("wg6", "del", m.Hostname, m)
	case *proto.ServiceUpdate:
		return generic("svc", "set", m.Namespace+"/"+m.Name, m)
	case *proto.ServiceRemove:
		return generic("svc", "del", m.Namespace+"/"+m.Name, m)
	case *proto.Encapsulation:
		return generic("single", "set", "encap", m)
	case *proto.GlobalBGPConfigUpdate:
		return generic("single", "set", "globalbgp", m)
	case *proto.ConfigUpdate:
		return generic("single", "set", "config", m)
	case *proto.InSync:
		return msg("insync", "", nil)
	case *calc.DatastoreNotReady:
		return msg("notready", "", nil)
	}
	panic(fmt.Sprintf("project: unknown message type %T (harness gap)", ev))
}
