// Driver for the Felix calculation graph checks (C01 C02 C03 C04(graph level) C05 C43(resolver level)).
//
//	model.KVPair updates -> calc.NewValidationFilter -> calc.NewCalculationGraph -> calc.NewEventSequencer -> recorder
//
// Modes:
//
//	calcgraph -export FILE     write the catalogue projection (all universes) for TLC and exit
//	calcgraph                  replay VERIF_BEH behaviours (TLC, abstract keys bound to catalogue keys by seed) and
//	                           VERIF_N seeded random delivery histories; write the ndjson trace to VERIF_OUT
//
// Environment: VERIF_UNIVERSES=comma list (default all), VERIF_FRESH=all|end|none (when the fresh-instance oracle
// runs), VERIF_MODE=async (drive calc.AsyncCalcGraph instead: in-sync clause of C02), VERIF_LEN=steps of a random history.
//
// Trace events: reset{universe} deliver{k,v} status{s} emit{m} flushed{} fresh{fed,msgs} panic{msg}.
// The driver executes and records; it never computes an expected output.
package main

import (
	"encoding/json"
	"flag"
	"fmt"
	"math/rand"
	"os"
	"sort"
	"strconv"
	"strings"
	"sync"
	"time"

	"github.com/sirupsen/logrus"

	"github.com/projectcalico/calico/felix/calc"
	"github.com/projectcalico/calico/felix/config"
	"github.com/projectcalico/calico/libcalico-go/lib/backend/api"
	"github.com/projectcalico/calico/libcalico-go/lib/backend/model"

	"verifharness/tracelog"
)

// ---- one real pipeline instance ---------------------------------------------------------------

type inst struct {
	conf *config.Config
	seq  *calc.EventSequencer
	cg   *calc.CalcGraph
	vf   *calc.ValidationFilter
}

func newConf(u *Universe) *config.Config {
	conf := config.New()
	conf.FelixHostname = localHost
	conf.BPFEnabled = true // as in the repository's own FV wiring: enables the L3 route resolver
	conf.Encapsulation = config.Encapsulation{VXLANEnabled: true, VXLANEnabledV6: u.V6}
	if u.NFT {
		conf.NFTablesMode = "Enabled"
	} else {
		conf.NFTablesMode = "Disabled"
	}
	return conf
}

func newInst(u *Universe, cb func(any)) *inst {
	in := &inst{conf: newConf(u)}
	in.seq = calc.NewEventSequencer(in.conf)
	in.seq.Callback = cb
	in.cg = calc.NewCalculationGraph(in.seq, calc.NewLookupsCache(), in.conf, func() {})
	in.vf = calc.NewValidationFilter(in.cg, in.conf)
	return in
}

func (in *inst) flush() {
	in.cg.Flush()
	in.seq.Flush()
}

// freshValue rebuilds the catalogue so that every delivery hands the graph a new object (as a syncer would)
func freshValue(uname, kid, vname string) (model.Key, any) {
	for _, u := range allUniverses() {
		if u.Name == uname {
			k := u.key(kid)
			if vname == "nil" {
				return k.Key, nil
			}
			return k.Key, k.variant(vname).Value
		}
	}
	panic("no universe " + uname)
}

func update(key model.Key, val any, had bool) api.Update {
	ut := api.UpdateTypeKVUpdated
	if val == nil {
		ut = api.UpdateTypeKVDeleted
	} else if !had {
		ut = api.UpdateTypeKVNew
	}
	return api.Update{KVPair: model.KVPair{Key: key, Value: val}, UpdateType: ut}
}

// ---- trace driver -----------------------------------------------------------------------------

type op struct {
	Op string // deliver status flush
	K  string
	V  string
	B  bool // deliver only: same OnUpdates batch as the preceding deliver
}

type drv struct {
	log   *tracelog.Log
	fresh string
}

type aborted struct{ msg string }

func (d *drv) runTrace(t int, u *Universe, ops []op) {
	d.log.Reset(t, map[string]any{"universe": u.Name})
	delivered := map[string]string{}
	insync := false
	main := newInst(u, func(m any) { d.log.Emit("emit", map[string]any{"m": project(m)}) })
	defer func() {
		if r := recover(); r != nil {
			d.log.Emit("panic", map[string]any{"msg": fmt.Sprint(r)})
		}
	}()
	lastFlush := -1
	for i, o := range ops {
		if o.Op == "flush" {
			lastFlush = i
		}
	}
	dirty := true // something was delivered since the oracle last ran
	for i, o := range ops {
		switch o.Op {
		case "deliver":
			// one OnUpdates call per batch: this deliver plus the following ones marked B
			batch := []api.Update{}
			if o.B && i > 0 && ops[i-1].Op == "deliver" {
				continue // already sent with the batch that started earlier
			}
			for j := i; j < len(ops) && ops[j].Op == "deliver" && (j == i || ops[j].B); j++ {
				b := ops[j]
				key, val := freshValue(u.Name, b.K, b.V)
				old, had := delivered[b.K]
				d.log.Emit("deliver", map[string]any{"k": b.K, "v": b.V})
				batch = append(batch, update(key, val, had && old != "nil"))
				delivered[b.K] = b.V
			}
			main.vf.OnUpdates(batch)
			dirty = true
		case "status":
			d.log.Emit("status", map[string]any{"s": o.V})
			dirty = true
			switch o.V {
			case "in-sync":
				main.vf.OnStatusUpdated(api.InSync)
				insync = true
			case "resync":
				main.vf.OnStatusUpdated(api.ResyncInProgress)
			}
		case "flush":
			main.flush()
			d.log.Emit("flushed", map[string]any{})
			if insync && ((d.fresh == "all" && dirty) || (d.fresh != "none" && i == lastFlush)) {
				d.freshOracle(u, delivered, false)
				d.freshOracle(u, delivered, true)
				dirty = false
			}
		}
	}
}

// freshOracle: a second, newly constructed real pipeline is fed only the currently delivered state, told
// in-sync and flushed; everything it emits is logged.
// With absent = true the values the catalogue declares invalid are left out (C05: invalid = absent); that second
// run is skipped when no delivered value is invalid.
func (d *drv) freshOracle(u *Universe, delivered map[string]string, absent bool) {
	if absent {
		any := false
		for kid, vn := range delivered {
			if vn != "nil" && u.key(kid).variant(vn).Invalid {
				any = true
			}
		}
		if !any {
			return
		}
	}
	msgs := []any{}
	f := newInst(u, func(m any) { msgs = append(msgs, project(m)) })
	fed := map[string]string{}
	for i := range u.Keys {
		kid := u.Keys[i].ID
		vn, ok := delivered[kid]
		if !ok || vn == "nil" || (absent && u.Keys[i].variant(vn).Invalid) {
			continue
		}
		key, val := freshValue(u.Name, kid, vn)
		f.vf.OnUpdates([]api.Update{update(key, val, false)})
		fed[kid] = vn
	}
	f.vf.OnStatusUpdated(api.InSync)
	f.flush()
	d.log.Emit("fresh", map[string]any{"fed": fed, "msgs": msgs, "absent": absent})
}

// ---- binding of TLC behaviours (abstract keys k1.., values 0..) to catalogue keys ---------------

func pickUniverse(unis []*Universe, seed int64, i int) *Universe {
	return unis[(int(seed)+i)%len(unis)]
}

func variantNames(k *Key) []string {
	out := []string{}
	for _, v := range k.Variants {
		out = append(out, v.Name)
	}
	return out
}

func bindBehaviour(u *Universe, beh []map[string]any, rnd *rand.Rand) []op {
	abs := map[string]bool{}
	for _, r := range beh {
		if k := tracelog.Str(r["k"]); k != "" {
			abs[k] = true
		}
	}
	absKeys := []string{}
	for k := range abs {
		absKeys = append(absKeys, k)
	}
	sort.Strings(absKeys)
	perm := rnd.Perm(len(u.Keys))
	// VERIF_BIND=groups: the abstract keys are bound, in order, to one group of related catalogue keys (object,
	// activity key, ...) and the other local endpoints are mostly absent, so that the behaviour's deliveries toggle
	// the object's activity; otherwise to random keys
	grouped := os.Getenv("VERIF_BIND") == "groups" && len(u.Groups) > 0
	if grouped {
		g := u.Groups[rnd.Intn(len(u.Groups))]
		first := []int{}
		used := map[int]bool{}
		for _, kid := range g {
			for i := range u.Keys {
				if u.Keys[i].ID == kid {
					first = append(first, i)
					used[i] = true
				}
			}
		}
		for _, i := range perm {
			if !used[i] {
				first = append(first, i)
			}
		}
		perm = first
	}
	bind := map[string]*Key{}
	vmap := map[string][]string{}
	bound := map[string]bool{}
	for i, ak := range absKeys {
		k := &u.Keys[perm[i%len(perm)]]
		bind[ak] = k
		bound[k.ID] = true
		vs := variantNames(k)
		rnd.Shuffle(len(vs), func(a, b int) { vs[a], vs[b] = vs[b], vs[a] })
		vmap[ak] = vs
	}
	ops := []op{}
	// background: the other keys of the universe get a value (or stay absent) before the behaviour starts
	for _, i := range rnd.Perm(len(u.Keys)) {
		k := &u.Keys[i]
		if bound[k.ID] || rnd.Intn(5) == 0 || (grouped && isLocalEndpoint(k) && rnd.Intn(10) < 5) {
			continue
		}
		v := k.Variants[rnd.Intn(len(k.Variants))]
		if v.Invalid && rnd.Intn(3) > 0 {
			v = k.Variants[0]
		}
		ops = append(ops, op{Op: "deliver", K: k.ID, V: v.Name})
	}
	truth := map[string]int{}
	deliv := map[string]int{}
	insync := false
	val := func(ak string, vi int) string {
		if vi == 0 {
			return "nil"
		}
		vs := vmap[ak]
		return vs[(vi-1)%len(vs)]
	}
	for _, r := range beh {
		switch tracelog.Str(r["op"]) {
		case "write":
			truth[tracelog.Str(r["k"])] = tracelog.Int(r["v"])
		case "deliver":
			ak := tracelog.Str(r["k"])
			vi := tracelog.Int(r["v"])
			deliv[ak] = vi
			ops = append(ops, op{Op: "deliver", K: bind[ak].ID, V: val(ak, vi)})
		case "status":
			ops = append(ops, op{Op: "status", V: tracelog.Str(r["s"])})
			insync = insync || tracelog.Str(r["s"]) == "in-sync"
		case "flush":
			ops = append(ops, op{Op: "flush"})
		}
	}
	// CatchUp .. final flush of the environment model: deliver the truth for every key still behind
	for _, i := range rnd.Perm(len(absKeys)) {
		ak := absKeys[i]
		if deliv[ak] != truth[ak] {
			ops = append(ops, op{Op: "deliver", K: bind[ak].ID, V: val(ak, truth[ak])})
		}
	}
	if !insync {
		ops = append(ops, op{Op: "status", V: "in-sync"})
	}
	ops = append(ops, op{Op: "flush"})
	return ops
}

// ---- seeded random delivery histories over a whole universe (same environment model as I_CalcEnv) -----

func randomHistory(u *Universe, rnd *rand.Rand, steps int) []op {
	truth := map[string]string{}
	delivered := map[string]string{}
	seen := map[string][]string{}
	for _, k := range u.Keys {
		truth[k.ID], delivered[k.ID] = "nil", "nil"
		seen[k.ID] = []string{"nil"}
	}
	ops := []op{}
	insync := false
	// restrict the history to a random subset of "hot" keys so that interactions are dense
	hot := []string{}
	for _, i := range rnd.Perm(len(u.Keys))[:3+rnd.Intn(len(u.Keys)-2)] {
		hot = append(hot, u.Keys[i].ID)
	}
	flushP := []int{2, 5, 12, 1000}[rnd.Intn(4)] // flush after ~every op ... only at the end
	rk := func() string { return hot[rnd.Intn(len(hot))] }
	deliver := func(k, v string) {
		ops = append(ops, op{Op: "deliver", K: k, V: v})
		delivered[k] = v
	}
	for i := 0; i < steps; i++ {
		k := rk()
		switch c := rnd.Intn(20); {
		case c < 7: // Write
			key := u.key(k)
			v := "nil"
			if rnd.Intn(4) > 0 {
				v = key.Variants[rnd.Intn(len(key.Variants))].Name
			}
			truth[k] = v
			seen[k] = append(seen[k], v)
		case c < 13: // Deliver
			if delivered[k] != truth[k] {
				deliver(k, truth[k])
			}
		case c < 15: // DeliverStale
			deliver(k, seen[k][rnd.Intn(len(seen[k]))])
		case c < 16: // DeliverDup
			deliver(k, delivered[k])
		case c < 17: // SpuriousDelete
			deliver(k, "nil")
		case c < 18:
			if !insync {
				ops = append(ops, op{Op: "status", V: "in-sync"})
				insync = true
			} else {
				ops = append(ops, op{Op: "flush"})
			}
		default:
			if rnd.Intn(flushP) == 0 {
				ops = append(ops, op{Op: "flush"})
			}
		}
		if flushP == 2 && rnd.Intn(2) == 0 {
			ops = append(ops, op{Op: "flush"})
		}
	}
	// catch-up, in-sync, flush
	for _, i := range rnd.Perm(len(u.Keys)) {
		k := u.Keys[i].ID
		if delivered[k] != truth[k] {
			deliver(k, truth[k])
		}
	}
	if !insync {
		ops = append(ops, op{Op: "status", V: "in-sync"})
	}
	ops = append(ops, op{Op: "flush"})
	return ops
}

// ---- window-mode histories: few related keys toggled back and forth, flushes only every 1-4 deliveries -----------
// (shapes such as "sent, then edited and deactivated inside one flush window" or "sent, removal flushed, later
// activated and deactivated again inside one window", which need an earlier flush and a multi-update window)

func isLocalEndpoint(k *Key) bool {
	switch kk := k.Key.(type) {
	case model.WorkloadEndpointKey:
		return kk.Hostname == localHost
	case model.HostEndpointKey:
		return kk.Hostname == localHost
	}
	return false
}

func windowHistory(u *Universe, rnd *rand.Rand) []op {
	if len(u.Groups) == 0 {
		return randomHistory(u, rnd, 15+rnd.Intn(45))
	}
	g := u.Groups[rnd.Intn(len(u.Groups))]
	hot := map[string]bool{}
	for _, k := range g {
		hot[k] = true
	}
	ops := []op{}
	// background: the other local endpoints are mostly absent so that the group's endpoint decides activity
	for _, i := range rnd.Perm(len(u.Keys)) {
		k := &u.Keys[i]
		if hot[k.ID] {
			continue
		}
		pNil := 0.2
		if isLocalEndpoint(k) {
			pNil = 0.6
		}
		if rnd.Float64() < pNil {
			continue
		}
		v := k.Variants[rnd.Intn(len(k.Variants))]
		if v.Invalid {
			v = k.Variants[0]
		}
		ops = append(ops, op{Op: "deliver", K: k.ID, V: v.Name})
	}
	insync := false
	if rnd.Intn(10) < 7 {
		ops = append(ops, op{Op: "status", V: "in-sync"})
		insync = true
	}
	pick := func() op {
		k := u.key(g[rnd.Intn(len(g))])
		v := "nil"
		if rnd.Intn(10) >= 3 {
			v = k.Variants[rnd.Intn(len(k.Variants))].Name
		}
		return op{Op: "deliver", K: k.ID, V: v}
	}
	// by convention a group lists the object first and a key deciding its activity second
	cur := map[string]string{}
	val := func(kid string) op { // a variant different from the one this generator delivered last
		k := u.key(kid)
		v := k.Variants[rnd.Intn(len(k.Variants))].Name
		if v == cur[kid] {
			v = k.Variants[rnd.Intn(len(k.Variants))].Name
		}
		cur[kid] = v
		return op{Op: "deliver", K: kid, V: v}
	}
	gone := func(kid string) op { return op{Op: "deliver", K: kid, V: "nil"} }
	flush := func() {
		if !insync && rnd.Intn(3) == 0 {
			ops = append(ops, op{Op: "status", V: "in-sync"})
			insync = true
		}
		ops = append(ops, op{Op: "flush"})
	}
	obj, act := g[0], g[1]
	if rnd.Intn(20) < 7 {
		// walk history: for every variant of the object, the activity key steps through all its variants in catalogue
		// order with a flush after each step (neighbouring variants differ in little, e.g. only in an appended profile):
		// every (object variant, consecutive activity-key transition) pair is judged
		for _, k := range g[2:] {
			ops = append(ops, val(k))
		}
		for _, ov := range u.key(obj).Variants {
			ops = append(ops, op{Op: "deliver", K: obj, V: ov.Name})
			for _, av := range u.key(act).Variants {
				ops = append(ops, op{Op: "deliver", K: act, V: av.Name})
				flush()
			}
			if rnd.Intn(2) == 0 {
				ops = append(ops, gone(act))
			}
		}
		if !insync {
			ops = append(ops, op{Op: "status", V: "in-sync"}, op{Op: "flush"})
		}
		return ops
	}
	rounds := 3 + rnd.Intn(4)
	for r := 0; r < rounds; r++ {
		// (A) a window that (re)creates the object and something that may activate it, flushed: "sent"
		if rnd.Intn(10) < 7 {
			ops = append(ops, val(obj))
		}
		ops = append(ops, val(act))
		if rnd.Intn(3) == 0 {
			ops = append(ops, pick())
		}
		flush()
		// (B) a multi-update window
		switch rnd.Intn(10) {
		case 0, 1, 2, 7: // edited, then deactivated, in one window
			ops = append(ops, val(obj), gone(act))
		case 3, 4: // removal flushed; later activated and deactivated again inside one window
			ops = append(ops, gone(act))
			flush()
			if rnd.Intn(2) == 0 {
				ops = append(ops, pick())
				flush()
			}
			ops = append(ops, val(act), gone(act))
		case 5: // deactivated and re-activated in one window
			ops = append(ops, gone(act), val(act))
		case 6: // object deleted and re-created in one window
			ops = append(ops, gone(obj), val(obj))
		case 9: // the activity key steps through its variants in catalogue order, flushing in between
			// (neighbouring variants differ in little, e.g. only in an appended profile)
			for _, v := range u.key(act).Variants {
				ops = append(ops, op{Op: "deliver", K: act, V: v.Name})
				cur[act] = v.Name
				if rnd.Intn(4) > 0 {
					flush()
				}
			}
		case 8: // every key of the group replaced by its invalid variants (where it has some), typically one batch
			for _, kid := range g {
				for _, v := range u.key(kid).Variants {
					if v.Invalid && rnd.Intn(3) > 0 {
						ops = append(ops, op{Op: "deliver", K: kid, V: v.Name, B: true})
					}
				}
			}
		default:
			n := []int{2, 2, 3, 3, 4}[rnd.Intn(5)]
			for i := 0; i < n; i++ {
				ops = append(ops, pick())
			}
		}
		flush()
	}
	if !insync {
		ops = append(ops, op{Op: "status", V: "in-sync"}, op{Op: "flush"})
	}
	return ops
}

// batchify marks (seeded) some deliveries as belonging to the same OnUpdates call as the preceding delivery
func batchify(ops []op, rnd *rand.Rand) []op {
	for i := 1; i < len(ops); i++ {
		if ops[i].Op == "deliver" && ops[i-1].Op == "deliver" && rnd.Intn(10) < 4 {
			ops[i].B = true
		}
	}
	return ops
}

// ---- async leg: calc.AsyncCalcGraph, for "in-sync is never reported before the datastore reported it" ----

func (d *drv) runAsync(t int, u *Universe, ops []op) {
	d.log.Reset(t, map[string]any{"universe": u.Name, "async": true})
	conf := newConf(u)
	out := make(chan any)
	acg := calc.NewAsyncCalcGraph(conf, []chan<- any{out}, nil, calc.NewLookupsCache())
	vf := calc.NewValidationFilter(acg, conf)
	gotInSync := make(chan struct{})
	// The graph's goroutine cannot be stopped and may flush again after this trace is over: the recorder logs only
	// while the trace is open (the mutex makes "check open + log" atomic with closing), afterwards it just drains.
	var mu sync.Mutex
	open := true
	defer func() {
		mu.Lock()
		open = false
		mu.Unlock()
	}()
	go func() {
		seen := false
		for m := range out {
			p := project(m)
			mu.Lock()
			if open {
				d.log.Emit("emit", map[string]any{"m": p})
			}
			mu.Unlock()
			if p["kind"] == "insync" && !seen {
				seen = true
				close(gotInSync)
			}
		}
	}()
	acg.Start()
	delivered := map[string]string{}
	for _, o := range ops {
		switch o.Op {
		case "deliver":
			key, val := freshValue(u.Name, o.K, o.V)
			old, had := delivered[o.K]
			d.log.Emit("deliver", map[string]any{"k": o.K, "v": o.V})
			vf.OnUpdates([]api.Update{update(key, val, had && old != "nil")})
			delivered[o.K] = o.V
		case "status":
			if o.V == "in-sync" {
				// give the graph a chance to (wrongly) report in-sync before it is told
				time.Sleep(30 * time.Millisecond)
			}
			d.log.Emit("status", map[string]any{"s": o.V})
			if o.V == "in-sync" {
				vf.OnStatusUpdated(api.InSync)
			}
		}
	}
	select {
	case <-gotInSync:
	case <-time.After(180 * time.Second):
		fmt.Fprintln(os.Stderr, "async leg: no InSync message within 180s")
		os.Exit(2)
	}
	time.Sleep(20 * time.Millisecond)
	// the graph's goroutine cannot be stopped; it idles on its input channel from here on
}

// ---- main -------------------------------------------------------------------------------------

func main() {
	export := flag.String("export", "", "write the catalogue projection to this file and exit")
	flag.Parse()
	logrus.SetLevel(logrus.PanicLevel)
	if *export != "" {
		b, err := json.Marshal(exportAll())
		if err != nil {
			fmt.Fprintln(os.Stderr, err)
			os.Exit(2)
		}
		if err := os.WriteFile(*export, b, 0o644); err != nil {
			fmt.Fprintln(os.Stderr, err)
			os.Exit(2)
		}
		return
	}
	env := tracelog.GetEnv()
	lg, err := tracelog.Open(env.OutPath)
	if err != nil {
		fmt.Fprintln(os.Stderr, err)
		os.Exit(2)
	}
	all := allUniverses()
	unis := all
	if s := os.Getenv("VERIF_UNIVERSES"); s != "" {
		unis = nil
		for _, n := range strings.Split(s, ",") {
			found := false
			for _, u := range all {
				if u.Name == n {
					unis = append(unis, u)
					found = true
				}
			}
			if !found {
				fmt.Fprintln(os.Stderr, "unknown universe", n)
				os.Exit(2)
			}
		}
	}
	d := &drv{log: lg, fresh: os.Getenv("VERIF_FRESH")}
	if d.fresh == "" {
		d.fresh = "all"
	}
	async := os.Getenv("VERIF_MODE") == "async"
	steps, _ := strconv.Atoi(os.Getenv("VERIF_LEN"))
	behs, err := tracelog.LoadBehaviours(env.BehPath)
	if err != nil {
		fmt.Fprintln(os.Stderr, err)
		os.Exit(2)
	}
	t := 0
	// hand-written concrete histories (minimal reproductions): [{"universe": u, "ops": [{"Op":..,"K":..,"V":..}]}]
	if sp := os.Getenv("VERIF_SCRIPT"); sp != "" {
		b, err := os.ReadFile(sp)
		if err != nil {
			fmt.Fprintln(os.Stderr, err)
			os.Exit(2)
		}
		var scripts []struct {
			Universe string
			Ops      []op
		}
		if err := json.Unmarshal(b, &scripts); err != nil {
			fmt.Fprintln(os.Stderr, err)
			os.Exit(2)
		}
		for _, sc := range scripts {
			for _, u := range all {
				if u.Name == sc.Universe {
					t++
					d.runTrace(t, u, sc.Ops)
				}
			}
		}
	}
	for i, b := range behs {
		t++
		u := pickUniverse(unis, env.Seed, i)
		rnd := rand.New(rand.NewSource(env.Seed*7919 + int64(i)))
		ops := batchify(bindBehaviour(u, b, rnd), rnd)
		if async {
			d.runAsync(t, u, ops)
		} else {
			d.runTrace(t, u, ops)
		}
	}
	for i := 0; i < env.N; i++ {
		t++
		u := pickUniverse(unis, env.Seed, i)
		rnd := rand.New(rand.NewSource(env.Seed*1000003 + int64(i)))
		n := steps
		if n == 0 {
			n = 15 + rnd.Intn(45)
		}
		ops := randomHistory(u, rnd, n)
		wm := os.Getenv("VERIF_WINDOWS") // "": every other random history is window-mode; "most": three of four; "off"
		// decided by the trace's own seeded generator, not by i, so that it is independent of the universe rotation
		if w := rnd.Intn(4); !async && wm != "off" && ((wm == "most" && w != 0) || (wm != "most" && w < 2)) {
			ops = windowHistory(u, rnd)
		}
		ops = batchify(ops, rnd)
		if async {
			d.runAsync(t, u, ops)
		} else {
			d.runTrace(t, u, ops)
		}
	}
	if err := lg.Close(); err != nil {
		fmt.Fprintln(os.Stderr, err)
		os.Exit(2)
	}
}
