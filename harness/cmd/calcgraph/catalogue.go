// Catalogue (universe) of datastore keys and value variants for the calc-graph checks (C01-C05, C43).
//
// One Go value table is the single source for both sides:
//   - the driver delivers Variant.Value (a real model.* / v3 / internalapi value) under Key.Key;
//   - `calcgraph -export` writes, for TLC, the purely syntactic projection of exactly those values
//     (labels, selector ASTs from the real parser, rule skeletons, orders, CIDRs as octets, ...).
//
// Nothing here computes an expected output of the calculation graph.
package main

import (
	"fmt"
	"math"
	"net/netip"
	"sort"
	"strings"

	v3 "github.com/projectcalico/api/pkg/apis/projectcalico/v3"
	"github.com/projectcalico/api/pkg/lib/numorstring"
	metav1 "k8s.io/apimachinery/pkg/apis/meta/v1"

	"github.com/projectcalico/calico/felix/calc"
	"github.com/projectcalico/calico/felix/labelindex/ipsetmember"
	"github.com/projectcalico/calico/lib/std/uniquelabels"
	"github.com/projectcalico/calico/libcalico-go/lib/apis/internalapi"
	"github.com/projectcalico/calico/libcalico-go/lib/backend/encap"
	"github.com/projectcalico/calico/libcalico-go/lib/backend/model"
	cnet "github.com/projectcalico/calico/libcalico-go/lib/net"
	"github.com/projectcalico/calico/libcalico-go/lib/selector"
	v3v "github.com/projectcalico/calico/libcalico-go/lib/validator/v3"
	v1v "github.com/projectcalico/calico/typha/pkg/validator/v1"

	"verifharness/selgen"
)

const (
	localHost = "lh"
	remote1   = "rh1"
	remote2   = "rh2"
)

// Variant is one value a key can take. Value == nil is never listed (nil is implicit: "nil").
type Variant struct {
	Name    string
	Value   any
	Invalid bool // declared by the catalogue author; cross-checked against the real validators at export
}

type Key struct {
	ID       string
	Kind     string // wep hep profrules proflabels policy tier netset pool block node hostconfig
	Key      model.Key
	Variants []Variant
}

type Universe struct {
	Name string
	NFT  bool // conf.NFTablesMode != Disabled => overlap suppression in the IP-set member index
	V6   bool // conf.Encapsulation.VXLANEnabledV6
	Keys []Key
	// Groups are generation hints only (never used to judge): sets of related keys (an object and the keys that
	// decide whether it is active / what it contains) that the window-mode history generator toggles together.
	Groups [][]string
}

func (u *Universe) key(id string) *Key {
	for i := range u.Keys {
		if u.Keys[i].ID == id {
			return &u.Keys[i]
		}
	}
	return nil
}

func (k *Key) variant(name string) *Variant {
	for i := range k.Variants {
		if k.Variants[i].Name == name {
			return &k.Variants[i]
		}
	}
	return nil
}

// ---- small constructors -----------------------------------------------------------------------

func nets(ss ...string) []cnet.IPNet {
	out := make([]cnet.IPNet, len(ss))
	for i, s := range ss {
		out[i] = cnet.MustParseNetwork(s)
	}
	return out
}

func ips(ss ...string) []cnet.IP {
	out := make([]cnet.IP, len(ss))
	for i, s := range ss {
		out[i] = cnet.MustParseIP(s)
	}
	return out
}

func lbl(kv ...string) uniquelabels.Map {
	m := map[string]string{}
	for i := 0; i+1 < len(kv); i += 2 {
		m[kv[i]] = kv[i+1]
	}
	return uniquelabels.Make(m)
}

func port(name, proto string, p uint16) model.EndpointPort {
	return model.EndpointPort{Name: name, Protocol: numorstring.ProtocolFromStringV1(proto), Port: p}
}

func wepKey(host, wl string) model.WorkloadEndpointKey {
	return model.WorkloadEndpointKey{Hostname: host, OrchestratorID: "k8s", WorkloadID: wl, EndpointID: "eth0"}
}

func wep(name string, labels uniquelabels.Map, profiles []string, v4 []string, ports ...model.EndpointPort) *model.WorkloadEndpoint {
	return &model.WorkloadEndpoint{State: "active", Name: name, ProfileIDs: profiles, IPv4Nets: nets(v4...), Labels: labels, Ports: ports}
}

func hep(name string, labels uniquelabels.Map, profiles []string, v4 []string, ports ...model.EndpointPort) *model.HostEndpoint {
	return &model.HostEndpoint{Name: name, ProfileIDs: profiles, ExpectedIPv4Addrs: ips(v4...), Labels: labels, Ports: ports}
}

func fp(f float64) *float64 { return &f }

func protoP(s string) *numorstring.Protocol {
	p := numorstring.ProtocolFromStringV1(s)
	return &p
}

func namedPort(n string) numorstring.Port { return numorstring.Port{PortName: n} }
func numPort(p uint16) numorstring.Port   { return numorstring.SinglePort(p) }

func gnpKey(name string) model.PolicyKey {
	return model.PolicyKey{Name: name, Kind: v3.KindGlobalNetworkPolicy}
}

func npKey(ns, name string) model.PolicyKey {
	return model.PolicyKey{Name: name, Namespace: ns, Kind: v3.KindNetworkPolicy}
}

func profLabels(name string, kv ...string) *v3.Profile {
	m := map[string]string{}
	for i := 0; i+1 < len(kv); i += 2 {
		m[kv[i]] = kv[i+1]
	}
	return &v3.Profile{ObjectMeta: metav1.ObjectMeta{Name: name}, Spec: v3.ProfileSpec{LabelsToApply: m}}
}

func node(name, v4cidr, vxlanAddr string) *internalapi.Node {
	n := &internalapi.Node{ObjectMeta: metav1.ObjectMeta{Name: name}}
	if v4cidr != "" {
		n.Spec.BGP = &internalapi.NodeBGPSpec{IPv4Address: v4cidr}
	}
	n.Spec.IPv4VXLANTunnelAddr = vxlanAddr
	return n
}

func intp(i int) *int { return &i }

// node46: a node with IPv4 and/or IPv6 BGP addresses (CIDR form)
func node46(name, v4cidr, v6cidr string) *internalapi.Node {
	n := &internalapi.Node{ObjectMeta: metav1.ObjectMeta{Name: name}}
	if v4cidr != "" || v6cidr != "" {
		n.Spec.BGP = &internalapi.NodeBGPSpec{IPv4Address: v4cidr, IPv6Address: v6cidr}
	}
	return n
}

func wep6(name string, labels uniquelabels.Map, v4 []string, v6 []string) *model.WorkloadEndpoint {
	return &model.WorkloadEndpoint{State: "active", Name: name, IPv4Nets: nets(v4...), IPv6Nets: nets(v6...), Labels: labels}
}

// block builds an AllocationBlock with /29 CIDR; allocs maps ordinal -> owning node ("" = no attribute node)
func block(cidr, affinityHost string, allocs map[int]string) *model.AllocationBlock {
	b := &model.AllocationBlock{CIDR: cnet.MustParseNetwork(cidr), Allocations: make([]*int, 8)}
	if affinityHost != "" {
		a := "host:" + affinityHost
		b.Affinity = &a
	}
	ords := []int{}
	for o := range allocs {
		ords = append(ords, o)
	}
	sort.Ints(ords)
	for _, o := range ords {
		b.Attributes = append(b.Attributes, model.AllocationAttribute{ActiveOwnerAttrs: map[string]string{model.IPAMBlockAttributeNode: allocs[o]}})
		b.Allocations[o] = intp(len(b.Attributes) - 1)
	}
	for o := 0; o < 8; o++ {
		if b.Allocations[o] == nil {
			b.Unallocated = append(b.Unallocated, o)
		}
	}
	return b
}

func pool(cidr string, ipip, vxlan encap.Mode, nat bool) *model.IPPool {
	return &model.IPPool{CIDR: cnet.MustParseNetwork(cidr), IPIPMode: ipip, VXLANMode: vxlan, Masquerade: nat, IPAM: true}
}

func poolKey(cidr string) model.IPPoolKey {
	return model.IPPoolKey{CIDR: netip.MustParsePrefix(cidr)}
}

func blockKey(cidr string) model.BlockKey {
	return model.BlockKey{CIDR: netip.MustParsePrefix(cidr)}
}

func V(name string, v any) Variant   { return Variant{Name: name, Value: v} }
func Bad(name string, v any) Variant { return Variant{Name: name, Value: v, Invalid: true} }

// a rule that fails backend validation (numeric ports without a protocol) but is harmless to the graph and
// would *open* traffic if it were applied
func badAllowRule() model.Rule {
	return model.Rule{Action: "allow", DstPorts: []numorstring.Port{numPort(80)}}
}

// ---- the universes ----------------------------------------------------------------------------

func profileKeys(n string, a, b *model.ProfileRules, la, lb *v3.Profile) []Key {
	return []Key{
		{ID: "pr-" + n, Kind: "profrules", Key: model.ProfileRulesKey{ProfileKey: model.ProfileKey{Name: n}}, Variants: []Variant{
			V("a", a), V("b", b),
			Bad("bad", &model.ProfileRules{InboundRules: []model.Rule{badAllowRule()}, OutboundRules: []model.Rule{{Action: "allow"}}}),
		}},
		{ID: "pl-" + n, Kind: "proflabels", Key: model.ResourceKey{Kind: v3.KindProfile, Name: n}, Variants: []Variant{
			V("a", la), V("b", lb),
		}},
	}
}

func tierKey(n string, vs ...Variant) Key {
	return Key{ID: "tier-" + n, Kind: "tier", Key: model.TierKey{Name: n}, Variants: vs}
}

func universePolicy() *Universe {
	u := &Universe{Name: "policy", NFT: false}
	u.Keys = append(u.Keys,
		Key{ID: "wepL1", Kind: "wep", Key: wepKey(localHost, "wl1"), Variants: []Variant{
			V("a", wep("cali1", lbl("role", "web", "app", "a"), []string{"prof1"}, []string{"10.0.0.1/32"}, port("http", "tcp", 80), port("dns", "udp", 53))),
			V("b", wep("cali1", lbl("role", "db"), []string{"prof1", "prof2"}, []string{"10.0.0.1/32", "10.0.0.2/32"}, port("http", "tcp", 8080))),
			V("c", wep("cali1", lbl(), []string{"prof2"}, []string{"10.0.0.9/32"})),
			// as "a" with a profile only appended (same own labels): prof2's labels are newly inherited
			V("a2", wep("cali1", lbl("role", "web", "app", "a"), []string{"prof1", "prof2"}, []string{"10.0.0.1/32"}, port("http", "tcp", 80), port("dns", "udp", 53))),
			Bad("bad", wep("", lbl("role", "web", "app", "a"), []string{"prof1"}, []string{"10.0.0.1/32"})),
			// fails *schema* validation only (named port number 0), passes the Felix-specific checks
			Bad("bad2", wep("cali1", lbl("role", "web", "app", "a"), []string{"prof1"}, []string{"10.0.0.1/32"}, port("odd", "tcp", 0))),
		}},
		Key{ID: "wepL2", Kind: "wep", Key: wepKey(localHost, "wl2"), Variants: []Variant{
			V("a", wep("cali2", lbl("role", "web"), []string{"prof2"}, []string{"10.0.0.2/32"}, port("http", "tcp", 8080))),
			V("b", wep("cali2", lbl("role", "db", "app", "a"), []string{"profmissing", "prof1"}, []string{"10.0.0.3/32"}, port("http", "udp", 80))),
			Bad("bad", wep("", lbl("role", "web"), []string{"prof2"}, []string{"10.0.0.2/32"})),
			// fails *schema* validation only (named-port protocol that is not tcp/udp/sctp; the port name is used by no rule)
			Bad("bad2", wep("cali2", lbl("role", "web"), []string{"prof2"}, []string{"10.0.0.2/32"}, port("odd", "icmp", 7))),
		}},
		Key{ID: "wepR1", Kind: "wep", Key: wepKey(remote1, "wl1"), Variants: []Variant{
			V("a", wep("cali3", lbl("role", "web"), []string{"prof1"}, []string{"10.0.1.1/32"}, port("http", "tcp", 80))),
			V("b", wep("cali3", lbl("role", "db"), []string{"prof2"}, []string{"10.0.0.1/32"}, port("http", "tcp", 80), port("http", "udp", 81))),
			Bad("bad2", wep("cali3", lbl("role", "web"), []string{"prof1"}, []string{"10.0.1.1/32"}, port("odd", "tcp", 0))),
		}},
		Key{ID: "hepL", Kind: "hep", Key: model.HostEndpointKey{Hostname: localHost, EndpointID: "eth0"}, Variants: []Variant{
			V("a", hep("eth0", lbl("role", "host"), []string{"prof1"}, []string{"192.168.0.1"})),
			V("b", hep("eth0", lbl("role", "web", "app", "a"), nil, []string{"192.168.0.1", "10.0.0.1"}, port("http", "tcp", 443))),
		}},
	)
	u.Keys = append(u.Keys, profileKeys("prof1",
		&model.ProfileRules{InboundRules: []model.Rule{{Action: "allow", SrcSelector: "role == 'web'"}}, OutboundRules: []model.Rule{{Action: "allow"}}},
		&model.ProfileRules{InboundRules: []model.Rule{{Action: "deny"}}, OutboundRules: []model.Rule{{Action: "allow", DstSelector: "role == 'db'", NotDstSelector: "app == 'a'"}}},
		profLabels("prof1", "tenant", "t1"), profLabels("prof1", "tenant", "t2", "role", "inherited"))...)
	u.Keys = append(u.Keys, profileKeys("prof2",
		&model.ProfileRules{InboundRules: []model.Rule{{Action: "allow", Protocol: protoP("tcp"), SrcSelector: "has(zone)", DstPorts: []numorstring.Port{namedPort("http")}}}, OutboundRules: []model.Rule{{Action: "allow"}}},
		&model.ProfileRules{InboundRules: []model.Rule{{Action: "allow", SrcSelector: "role == 'web'"}}, OutboundRules: nil},
		profLabels("prof2", "zone", "z1"), profLabels("prof2", "zone", "z2", "app", "a"))...)
	u.Keys = append(u.Keys,
		Key{ID: "polA", Kind: "policy", Key: gnpKey("pol-a"), Variants: []Variant{
			V("a", &model.Policy{Tier: "default", Order: fp(10), Selector: "role == 'web'", Types: []string{"ingress", "egress"},
				InboundRules:  []model.Rule{{Action: "allow", SrcSelector: "role == 'db'"}},
				OutboundRules: []model.Rule{{Action: "allow", DstSelector: "role == 'web'"}}}),
			V("b", &model.Policy{Tier: "default", Order: fp(30), Selector: "has(tenant)", Types: []string{"ingress"},
				InboundRules: []model.Rule{{Action: "deny", NotSrcSelector: "role == 'db'"}}}),
			V("c", &model.Policy{Tier: "tier1", Selector: "all()", Types: []string{"egress"},
				OutboundRules: []model.Rule{{Action: "pass", Protocol: protoP("tcp"), DstPorts: []numorstring.Port{namedPort("http"), numPort(22)}, DstSelector: "role == 'web'"}}}),
			Bad("bad", &model.Policy{Tier: "default", Order: fp(10), Selector: "role == 'web'", Types: []string{"ingress", "egress"},
				InboundRules: []model.Rule{badAllowRule()}, OutboundRules: []model.Rule{{Action: "allow"}}}),
		}},
		Key{ID: "polB", Kind: "policy", Key: npKey("ns1", "pol-b"), Variants: []Variant{
			V("a", &model.Policy{Namespace: "ns1", Tier: "tier1", Order: fp(20), Selector: "app == 'a'", Types: []string{"ingress"},
				InboundRules: []model.Rule{{Action: "allow", SrcSelector: "role == 'db'"}}}),
			V("b", &model.Policy{Namespace: "ns1", Tier: "tier1", Order: fp(10), Selector: "zone == 'z1' || role == 'host'", Types: []string{"ingress", "egress"},
				InboundRules:  []model.Rule{{Action: "allow", Protocol: protoP("udp"), SrcPorts: []numorstring.Port{namedPort("dns")}}},
				OutboundRules: []model.Rule{{Action: "deny", DstSelector: "role == 'db'"}}}),
			Bad("bad", &model.Policy{Namespace: "ns1", Tier: "tier1", Order: fp(20), Selector: "app == 'a'", Types: []string{"ingress"},
				InboundRules: []model.Rule{{Action: "allow", ICMPType: intp(255)}}}),
		}},
		Key{ID: "polC", Kind: "policy", Key: gnpKey("pol-c"), Variants: []Variant{
			V("a", &model.Policy{Tier: "tier1", Order: fp(20), Selector: "all()", Types: []string{"egress"},
				OutboundRules: []model.Rule{{Action: "allow", DstSelector: "role == 'web'"}}}),
			V("b", &model.Policy{Tier: "default", Order: fp(10), Selector: "role in {'web', 'db'}",
				InboundRules: []model.Rule{{Action: "allow", SrcSelector: "role == 'db'"}}, OutboundRules: []model.Rule{{Action: "allow"}}}),
			V("c", &model.Policy{Tier: "tier1", Selector: "role == 'nobody'", Types: []string{"ingress"},
				InboundRules: []model.Rule{{Action: "allow", SrcSelector: "role == 'orphan'"}}}),
		}},
		Key{ID: "polD", Kind: "policy", Key: gnpKey("pol-d"), Variants: []Variant{
			V("a", &model.Policy{Tier: "ghost", Order: fp(5), Selector: "role == 'web'", Types: []string{"ingress"},
				InboundRules: []model.Rule{{Action: "allow", SrcSelector: "has(zone)"}}}),
			V("b", &model.Policy{Tier: "tier1", Order: fp(20), Selector: "role == 'web'", Types: []string{"ingress"},
				InboundRules: []model.Rule{{Action: "allow"}}}),
		}},
		tierKey("default", V("a", &model.Tier{Order: fp(100), DefaultAction: v3.Deny}), V("b", &model.Tier{DefaultAction: v3.Deny})),
		tierKey("tier1", V("a", &model.Tier{Order: fp(10), DefaultAction: v3.Deny}), V("b", &model.Tier{Order: fp(100), DefaultAction: v3.Pass}), V("c", &model.Tier{DefaultAction: v3.Pass})),
		Key{ID: "ns1", Kind: "netset", Key: model.NetworkSetKey{Name: "netset-1"}, Variants: []Variant{
			V("a", &model.NetworkSet{Nets: nets("12.0.0.0/24", "12.0.0.0/24", "12.0.0.128/25", "10.0.0.1/32"), Labels: lbl("role", "web")}),
			V("b", &model.NetworkSet{Nets: nets("12.0.0.0/16", "13.0.0.0/8"), Labels: lbl("role", "db"), ProfileIDs: []string{"prof2"}}),
		}},
	)
	u.Groups = [][]string{{"polA", "wepL1"}, {"polC", "wepL1", "polA"}, {"pr-prof1", "wepL1"}, {"pr-prof2", "wepL2"}, {"polB", "hepL"}, {"pl-prof1", "polA", "wepL1"}, {"tier-tier1", "polB", "wepL1"}, {"ns1", "polA", "wepL1"}, {"polD", "wepL1"}, {"pr-prof1", "pr-prof2", "wepL1"}, {"polB", "wepL1"}, {"polB", "wepL1", "pl-prof2"}}
	return u
}

// policy-ordering corners (C03): equal / unset orders, name tie-breaks, tiers with equal / unset orders,
// tier moves, types, a policy whose tier is never created
func universeOrder() *Universe {
	u := &Universe{Name: "order", NFT: false}
	pol := func(tier string, order *float64, sel string, types ...string) *model.Policy {
		return &model.Policy{Tier: tier, Order: order, Selector: sel, Types: types,
			InboundRules: []model.Rule{{Action: "allow"}}, OutboundRules: []model.Rule{{Action: "allow"}}}
	}
	npol := func(ns, tier string, order *float64, sel string, types ...string) *model.Policy {
		p := pol(tier, order, sel, types...)
		p.Namespace = ns
		return p
	}
	u.Keys = append(u.Keys,
		Key{ID: "wepL1", Kind: "wep", Key: wepKey(localHost, "wl1"), Variants: []Variant{
			V("a", wep("cali1", lbl("role", "web"), nil, []string{"10.0.0.1/32"})),
			V("a1", wep("cali1", lbl("role", "web"), []string{"prof1"}, []string{"10.0.0.1/32"})), // "a" + an appended profile
			V("b", wep("cali1", lbl("role", "db"), []string{"prof1"}, []string{"10.0.0.1/32"})),
			Bad("bad", wep("", lbl("role", "web"), nil, []string{"10.0.0.1/32"})),
			Bad("bad2", wep("cali1", lbl("role", "web"), nil, []string{"10.0.0.1/32"}, port("odd", "tcp", 0))),
		}},
		Key{ID: "hepL", Kind: "hep", Key: model.HostEndpointKey{Hostname: localHost, EndpointID: "eth0"}, Variants: []Variant{
			V("a", hep("eth0", lbl("role", "web"), nil, []string{"192.168.0.1"})),
			V("a1", hep("eth0", lbl("role", "web"), []string{"prof1"}, []string{"192.168.0.1"})), // "a" + an appended profile
			V("b", hep("eth0", lbl("role", "host"), []string{"prof1"}, []string{"192.168.0.1"})),
		}},
		Key{ID: "pl-prof1", Kind: "proflabels", Key: model.ResourceKey{Kind: v3.KindProfile, Name: "prof1"}, Variants: []Variant{
			V("a", profLabels("prof1", "tenant", "t1")), V("b", profLabels("prof1", "tenant", "t2")),
		}},
		Key{ID: "p1", Kind: "policy", Key: gnpKey("aaa"), Variants: []Variant{
			V("a", pol("default", fp(10), "all()", "ingress", "egress")),
			V("b", pol("default", nil, "all()", "ingress")),
			V("c", pol("tier1", fp(10), "role == 'web'", "egress")),
		}},
		Key{ID: "p2", Kind: "policy", Key: gnpKey("bbb"), Variants: []Variant{
			V("a", pol("default", fp(10), "all()", "ingress", "egress")),
			V("b", pol("default", fp(5), "has(tenant)")),
			V("c", pol("tier2", nil, "all()", "ingress")),
		}},
		Key{ID: "p3", Kind: "policy", Key: npKey("ns1", "bbb"), Variants: []Variant{
			V("a", npol("ns1", "default", fp(10), "all()", "ingress", "egress")),
			V("b", npol("ns1", "tier1", nil, "all()", "Ingress")),
			V("c", npol("ns1", "ghost", fp(1), "all()", "ingress", "egress")),
		}},
		Key{ID: "p4", Kind: "policy", Key: npKey("ns0", "bbb"), Variants: []Variant{
			V("a", npol("ns0", "default", fp(10), "all()", "egress")),
			V("b", npol("ns0", "tier1", fp(10), "role == 'web' || role == 'host'", "ingress", "egress")),
			Bad("bad", &model.Policy{Namespace: "ns0", Tier: "default", Selector: "all()", Types: []string{"egress"}, OutboundRules: []model.Rule{badAllowRule()}}),
		}},
		tierKey("default", V("a", &model.Tier{Order: fp(100), DefaultAction: v3.Deny}), V("b", &model.Tier{DefaultAction: v3.Deny}), V("c", &model.Tier{Order: fp(10), DefaultAction: v3.Deny})),
		tierKey("tier1", V("a", &model.Tier{Order: fp(10), DefaultAction: v3.Deny}), V("b", &model.Tier{Order: fp(100), DefaultAction: v3.Pass}), V("c", &model.Tier{DefaultAction: v3.Pass})),
		tierKey("tier2", V("a", &model.Tier{Order: fp(10), DefaultAction: v3.Pass}), V("b", &model.Tier{DefaultAction: v3.Deny})),
	)
	u.Groups = [][]string{{"p1", "wepL1"}, {"p2", "hepL", "pl-prof1"}, {"p3", "tier-tier1", "wepL1"}, {"p4", "p3", "hepL"}, {"p1", "p2", "wepL1"}, {"p2", "wepL1"}, {"p2", "hepL"}, {"p2", "wepL1", "pl-prof1"}}
	return u
}

// IP-set membership corners (C04): shared IPs, nested / duplicate CIDRs, a /0, named ports with mixed protocols,
// labels inherited from profiles; two copies: with and without overlap suppression
func universeIPSets(nft bool) *Universe {
	u := &Universe{Name: "ipsets", NFT: nft}
	if nft {
		u.Name = "ipsets-nft"
	}
	u.Keys = append(u.Keys,
		Key{ID: "wepL1", Kind: "wep", Key: wepKey(localHost, "wl1"), Variants: []Variant{
			V("a", wep("cali1", lbl("role", "web"), []string{"prof1"}, []string{"10.0.0.1/32"}, port("http", "tcp", 80), port("dns", "udp", 53))),
			V("b", wep("cali1", lbl("role", "web", "tenant", "own"), []string{"prof1"}, []string{"10.0.0.1/32", "10.0.0.2/32"}, port("http", "tcp", 8080), port("http", "udp", 80))),
			Bad("bad", wep("", lbl("role", "web"), []string{"prof1"}, []string{"10.0.0.1/32"})),
		}},
		Key{ID: "wepR1", Kind: "wep", Key: wepKey(remote1, "wl1"), Variants: []Variant{
			V("a", wep("cali3", lbl("role", "web"), []string{"prof1"}, []string{"10.0.0.1/32"}, port("http", "tcp", 80))),
			V("b", wep("cali3", lbl("role", "db"), nil, []string{"10.0.0.2/32", "10.0.1.1/32"}, port("http", "sctp", 80))),
			V("c", wep("cali3", lbl(), []string{"prof1"}, []string{"10.0.1.1/32"}, port("http", "tcp", 80))),
			V("b2", wep("cali3", lbl("role", "db"), []string{"prof1"}, []string{"10.0.0.2/32", "10.0.1.1/32"}, port("http", "sctp", 80))), // "b" + an appended profile
			Bad("bad2", wep("cali3", lbl("role", "web"), []string{"prof1"}, []string{"10.0.3.3/32"}, port("odd", "tcp", 0))),
		}},
		Key{ID: "wepR2", Kind: "wep", Key: wepKey(remote2, "wl1"), Variants: []Variant{
			V("a", wep("cali4", lbl("role", "web"), nil, []string{"10.0.0.1/32", "10.0.1.1/32"}, port("http", "tcp", 80))),
			V("b", wep("cali4", lbl("role", "web"), []string{"prof1"}, []string{"10.0.2.1/32"}, port("dns", "udp", 53), port("http", "tcp", 81))),
		}},
		Key{ID: "hepR", Kind: "hep", Key: model.HostEndpointKey{Hostname: remote1, EndpointID: "eth0"}, Variants: []Variant{
			V("a", hep("eth0", lbl("role", "web"), nil, []string{"10.0.0.1", "192.168.0.2"}, port("http", "tcp", 80))),
			V("b", hep("eth0", lbl("role", "db"), []string{"prof1"}, []string{"192.168.0.2"})),
		}},
		Key{ID: "pl-prof1", Kind: "proflabels", Key: model.ResourceKey{Kind: v3.KindProfile, Name: "prof1"}, Variants: []Variant{
			V("a", profLabels("prof1", "tenant", "t1")), V("b", profLabels("prof1", "tenant", "t2", "role", "db")),
		}},
		Key{ID: "pr-prof1", Kind: "profrules", Key: model.ProfileRulesKey{ProfileKey: model.ProfileKey{Name: "prof1"}}, Variants: []Variant{
			V("a", &model.ProfileRules{InboundRules: []model.Rule{{Action: "allow", SrcSelector: "tenant == 't1'"}}, OutboundRules: []model.Rule{{Action: "allow"}}}),
			V("b", &model.ProfileRules{InboundRules: []model.Rule{{Action: "allow", SrcSelector: "role == 'web'", NotSrcSelector: "tenant == 't2'"}}}),
		}},
		Key{ID: "polA", Kind: "policy", Key: gnpKey("pol-a"), Variants: []Variant{
			V("a", &model.Policy{Tier: "default", Order: fp(10), Selector: "all()",
				InboundRules:  []model.Rule{{Action: "allow", SrcSelector: "role == 'web'"}, {Action: "allow", SrcSelector: "role == 'db'"}},
				OutboundRules: []model.Rule{{Action: "allow", Protocol: protoP("tcp"), DstPorts: []numorstring.Port{namedPort("http")}}}}),
			V("b", &model.Policy{Tier: "default", Order: fp(10), Selector: "all()",
				InboundRules:  []model.Rule{{Action: "allow", SrcSelector: "has(tenant)"}},
				OutboundRules: []model.Rule{{Action: "allow", Protocol: protoP("udp"), DstSelector: "role == 'web'", DstPorts: []numorstring.Port{namedPort("http"), namedPort("dns")}}}}),
			V("c", &model.Policy{Tier: "default", Order: fp(10), Selector: "all()",
				InboundRules:  []model.Rule{{Action: "allow", SrcSelector: "all()"}, {Action: "deny", NotSrcSelector: "role == 'web'"}},
				OutboundRules: []model.Rule{{Action: "allow", DstPorts: []numorstring.Port{namedPort("http")}, NotDstPorts: []numorstring.Port{namedPort("dns")}}}}),
		}},
		Key{ID: "polB", Kind: "policy", Key: gnpKey("pol-b"), Variants: []Variant{
			V("a", &model.Policy{Tier: "default", Order: fp(20), Selector: "role == 'web'",
				InboundRules: []model.Rule{{Action: "allow", SrcSelector: "role == 'web'"}}}),
			V("b", &model.Policy{Tier: "default", Order: fp(20), Selector: "role == 'web'",
				InboundRules: []model.Rule{{Action: "allow", SrcSelector: "role == 'db'"}, {Action: "allow", SrcSelector: "role=='web'"}}}),
		}},
		tierKey("default", V("a", &model.Tier{Order: fp(100), DefaultAction: v3.Deny})),
		Key{ID: "ns1", Kind: "netset", Key: model.NetworkSetKey{Name: "netset-1"}, Variants: []Variant{
			V("a", &model.NetworkSet{Nets: nets("12.0.0.0/24", "12.0.0.0/24", "12.0.0.128/25", "10.0.0.1/32"), Labels: lbl("role", "web")}),
			V("b", &model.NetworkSet{Nets: nets("12.0.0.0/16", "12.0.0.0/24", "10.0.0.0/30"), Labels: lbl("role", "web")}),
			V("c", &model.NetworkSet{Nets: nets("0.0.0.0/0", "12.0.0.0/24"), Labels: lbl("role", "db")}),
		}},
		Key{ID: "ns2", Kind: "netset", Key: model.NetworkSetKey{Name: "netset-2"}, Variants: []Variant{
			V("a", &model.NetworkSet{Nets: nets("12.0.0.0/25", "10.0.0.2/32"), Labels: lbl("role", "web")}),
			V("b", &model.NetworkSet{Nets: nets("12.0.0.0/8", "128.0.0.0/1"), Labels: lbl(), ProfileIDs: []string{"prof1"}}),
		}},
	)
	u.Groups = [][]string{{"polA", "wepL1"}, {"polB", "wepL1"}, {"pr-prof1", "wepL1"}, {"polA", "ns1", "ns2"}, {"wepR1", "wepR2", "polA"}, {"pl-prof1", "wepR1", "polA"}, {"polA", "polB", "wepL1"}}
	return u
}

// routes / VTEPs (C43 resolver level, C02 VTEP clause): pools in every encapsulation mode, local and remote
// blocks with borrowed addresses, nodes in and out of the local subnet, a local workload inside the local block
func universeRoutes() *Universe {
	u := &Universe{Name: "routes", NFT: false}
	hc := func(host, name string) model.HostConfigKey { return model.HostConfigKey{Hostname: host, Name: name} }
	u.Keys = append(u.Keys,
		Key{ID: "pool1", Kind: "pool", Key: poolKey("10.0.0.0/16"), Variants: []Variant{
			V("vxlan", pool("10.0.0.0/16", encap.Never, encap.Always, true)),
			V("vxlancs", pool("10.0.0.0/16", encap.Never, encap.CrossSubnet, false)),
			V("ipip", pool("10.0.0.0/16", encap.Always, encap.Never, true)),
			V("ipipcs", pool("10.0.0.0/16", encap.CrossSubnet, encap.Never, false)),
			V("none", pool("10.0.0.0/16", encap.Never, encap.Never, true)),
		}},
		// pools never overlap (the datastore rejects overlapping pools)
		Key{ID: "pool2", Kind: "pool", Key: poolKey("10.1.0.0/24"), Variants: []Variant{
			V("vxlancs", pool("10.1.0.0/24", encap.Never, encap.CrossSubnet, true)),
			V("none", pool("10.1.0.0/24", encap.Never, encap.Never, false)),
			V("ipip", pool("10.1.0.0/24", encap.Always, encap.Never, false)),
		}},
		Key{ID: "blkL", Kind: "block", Key: blockKey("10.0.0.0/29"), Variants: []Variant{
			V("a", block("10.0.0.0/29", localHost, nil)),
			V("b", block("10.0.0.0/29", localHost, map[int]string{1: localHost, 2: remote1})),
			V("c", block("10.0.0.0/29", remote2, map[int]string{1: localHost})),
		}},
		Key{ID: "blkR1", Kind: "block", Key: blockKey("10.0.1.0/29"), Variants: []Variant{
			V("a", block("10.0.1.0/29", remote1, nil)),
			V("b", block("10.0.1.0/29", remote1, map[int]string{1: remote1, 2: remote2, 3: localHost})),
			V("c", block("10.0.1.0/29", remote2, map[int]string{2: remote1})),
		}},
		Key{ID: "blkR2", Kind: "block", Key: blockKey("10.1.0.0/29"), Variants: []Variant{
			V("a", block("10.1.0.0/29", remote2, nil)),
			V("b", block("10.1.0.0/29", "", map[int]string{4: remote1})),
			V("c", block("10.1.0.0/29", remote1, map[int]string{4: remote2, 5: localHost})),
		}},
		Key{ID: "nodeL", Kind: "node", Key: model.ResourceKey{Kind: internalapi.KindNode, Name: localHost}, Variants: []Variant{
			V("a", node(localHost, "192.168.0.1/24", "10.0.0.0")),
			V("b", node(localHost, "192.168.0.1/16", "")),
			V("c", node(localHost, "172.16.0.1/24", "10.0.0.0")),
		}},
		Key{ID: "nodeR1", Kind: "node", Key: model.ResourceKey{Kind: internalapi.KindNode, Name: remote1}, Variants: []Variant{
			V("a", node(remote1, "192.168.0.2/24", "10.0.1.0")),
			V("b", node(remote1, "192.168.1.2/24", "10.0.1.0")),
			V("c", node(remote1, "172.16.0.2/24", "")),
		}},
		Key{ID: "nodeR2", Kind: "node", Key: model.ResourceKey{Kind: internalapi.KindNode, Name: remote2}, Variants: []Variant{
			V("a", node(remote2, "192.168.0.3/24", "10.1.0.0")),
			V("b", node(remote2, "172.16.0.3/24", "10.1.0.0")),
		}},
		Key{ID: "hcR1", Kind: "hostconfig", Key: hc(remote1, "IPv4VXLANTunnelAddr"), Variants: []Variant{V("a", "10.0.1.0"), V("b", "10.0.1.7")}},
		Key{ID: "hcR2", Kind: "hostconfig", Key: hc(remote2, "IPv4VXLANTunnelAddr"), Variants: []Variant{V("a", "10.1.0.0")}},
		Key{ID: "hcL", Kind: "hostconfig", Key: hc(localHost, "IPv4VXLANTunnelAddr"), Variants: []Variant{V("a", "10.0.0.0")}},
		Key{ID: "wepL1", Kind: "wep", Key: wepKey(localHost, "wl1"), Variants: []Variant{
			V("a", wep("cali1", lbl("role", "web"), nil, []string{"10.0.0.1/32"})),
			V("b", wep("cali1", lbl("role", "web"), nil, []string{"10.0.1.3/32"})),
			Bad("bad", wep("", lbl("role", "web"), nil, []string{"10.0.0.1/32"})),
		}},
	)
	u.Groups = [][]string{{"nodeR1", "hcR1"}, {"blkR1", "nodeR1"}, {"pool1", "blkR1"}, {"wepL1", "blkL"}, {"nodeL", "blkR1", "pool1"}, {"hcR2", "nodeR2", "blkR2"}, {"blkR1", "blkR2", "nodeR1"}}
	return u
}

// IPv6 routes (C43 / C01): an IPv6 pool in cross-subnet / always / no-encap mode, IPv6 blocks with borrowed addresses, nodes with
// IPv6 addresses in and out of the local node's IPv6 subnet, the local node's IPv6 subnet changing / arriving late / absent
func universeRoutes6() *Universe {
	u := &Universe{Name: "routes6", NFT: false, V6: true}
	u.Keys = append(u.Keys,
		Key{ID: "pool6", Kind: "pool", Key: poolKey("feed:beef::/64"), Variants: []Variant{
			V("vxlancs", pool("feed:beef::/64", encap.Never, encap.CrossSubnet, false)),
			V("vxlan", pool("feed:beef::/64", encap.Never, encap.Always, true)),
			V("none", pool("feed:beef::/64", encap.Never, encap.Never, false)),
		}},
		Key{ID: "pool4", Kind: "pool", Key: poolKey("10.0.0.0/16"), Variants: []Variant{
			V("vxlancs", pool("10.0.0.0/16", encap.Never, encap.CrossSubnet, false)),
			V("ipipcs", pool("10.0.0.0/16", encap.CrossSubnet, encap.Never, true)),
		}},
		Key{ID: "blk6R1", Kind: "block", Key: blockKey("feed:beef::100/125"), Variants: []Variant{
			V("a", block("feed:beef::100/125", remote1, nil)),
			V("b", block("feed:beef::100/125", remote1, map[int]string{1: remote1, 2: remote2, 3: localHost})),
			V("c", block("feed:beef::100/125", remote2, map[int]string{2: remote1})),
		}},
		Key{ID: "blk6L", Kind: "block", Key: blockKey("feed:beef::200/125"), Variants: []Variant{
			V("a", block("feed:beef::200/125", localHost, nil)),
			V("b", block("feed:beef::200/125", localHost, map[int]string{1: localHost, 2: remote1})),
		}},
		Key{ID: "blk4R1", Kind: "block", Key: blockKey("10.0.1.0/29"), Variants: []Variant{
			V("a", block("10.0.1.0/29", remote1, nil)),
			V("b", block("10.0.1.0/29", remote2, map[int]string{2: remote1})),
		}},
		Key{ID: "nodeL", Kind: "node", Key: model.ResourceKey{Kind: internalapi.KindNode, Name: localHost}, Variants: []Variant{
			V("a", node46(localHost, "192.168.0.1/24", "fd00:1::1/64")),
			V("b", node46(localHost, "192.168.0.1/24", "fd00:1::1/127")),
			V("c", node46(localHost, "192.168.0.1/24", "fd00:2::1/64")),
			V("d", node46(localHost, "192.168.0.1/24", "")),
			V("e", node46(localHost, "", "fd00:1::1/64")),
		}},
		Key{ID: "nodeR1", Kind: "node", Key: model.ResourceKey{Kind: internalapi.KindNode, Name: remote1}, Variants: []Variant{
			V("a", node46(remote1, "192.168.0.2/24", "fd00:1::2/64")),
			V("b", node46(remote1, "172.16.0.2/24", "fd00:2::2/64")),
			V("c", node46(remote1, "192.168.0.2/24", "")),
		}},
		Key{ID: "nodeR2", Kind: "node", Key: model.ResourceKey{Kind: internalapi.KindNode, Name: remote2}, Variants: []Variant{
			V("a", node46(remote2, "192.168.0.3/24", "fd00:1::3/64")),
			V("b", node46(remote2, "", "fd00:2::3/64")),
		}},
		Key{ID: "wepL1", Kind: "wep", Key: wepKey(localHost, "wl1"), Variants: []Variant{
			V("a", wep6("cali1", lbl("role", "web"), []string{"10.0.0.1/32"}, []string{"feed:beef::201/128"})),
			V("b", wep6("cali1", lbl("role", "web"), nil, []string{"feed:beef::103/128"})),
			Bad("bad", wep6("", lbl("role", "web"), nil, []string{"feed:beef::201/128"})),
		}},
		Key{ID: "wepR1", Kind: "wep", Key: wepKey(remote1, "wl1"), Variants: []Variant{
			V("a", wep6("cali3", lbl("role", "web"), nil, []string{"feed:beef::101/128"})),
			V("b", wep6("cali3", lbl("role", "db"), []string{"10.0.1.1/32"}, []string{"feed:beef::102/128"})),
		}},
	)
	u.Groups = [][]string{{"nodeL", "nodeR1", "pool6"}, {"blk6R1", "nodeL"}, {"pool6", "nodeL", "blk6R1"}, {"nodeR1", "nodeL"}, {"blk6R1", "nodeR1", "nodeR2"}, {"wepL1", "blk6R1", "blk6L"}, {"pool4", "nodeL", "blk4R1"}}
	return u
}

// names where one is a prefix of the other: "then name" must order "allow-dns" before "allow-dns-egress" / "allow-dns.v2"
func universeNames() *Universe {
	u := &Universe{Name: "names", NFT: false}
	pol := func(tier string, order *float64, types ...string) *model.Policy {
		return &model.Policy{Tier: tier, Order: order, Selector: "all()", Types: types,
			InboundRules: []model.Rule{{Action: "allow"}}, OutboundRules: []model.Rule{{Action: "allow"}}}
	}
	npol := func(ns string, order *float64) *model.Policy {
		p := pol("default", order, "ingress", "egress")
		p.Namespace = ns
		return p
	}
	u.Keys = append(u.Keys,
		Key{ID: "wepL1", Kind: "wep", Key: wepKey(localHost, "wl1"), Variants: []Variant{
			V("a", wep("cali1", lbl("role", "web"), nil, []string{"10.0.0.1/32"})),
		}},
		Key{ID: "n1", Kind: "policy", Key: gnpKey("allow-dns"), Variants: []Variant{
			V("a", pol("default", fp(10), "ingress", "egress")), V("b", pol("default", nil, "ingress")),
		}},
		Key{ID: "n2", Kind: "policy", Key: gnpKey("allow-dns-egress"), Variants: []Variant{
			V("a", pol("default", fp(10), "ingress", "egress")), V("b", pol("default", nil, "ingress", "egress")),
		}},
		Key{ID: "n3", Kind: "policy", Key: npKey("ns1", "allow-dns.v2"), Variants: []Variant{
			V("a", npol("ns1", fp(10))), V("b", npol("ns1", nil)),
		}},
		Key{ID: "n4", Kind: "policy", Key: npKey("ns1", "allow"), Variants: []Variant{
			V("a", npol("ns1", fp(10))), V("b", npol("ns1", fp(5))),
		}},
		tierKey("default", V("a", &model.Tier{Order: fp(100), DefaultAction: v3.Deny})),
		tierKey("default.x", V("a", &model.Tier{Order: fp(100), DefaultAction: v3.Deny})),
	)
	u.Groups = [][]string{{"n1", "n2", "wepL1"}, {"n3", "n4", "wepL1"}}
	return u
}

func allUniverses() []*Universe {
	return []*Universe{universePolicy(), universeOrder(), universeIPSets(false), universeIPSets(true), universeRoutes(), universeNames(), universeRoutes6()}
}

// ---- projection for TLC (pure syntax) ---------------------------------------------------------

type exporter struct {
	strs   map[string]bool           // every string that can be a label value / selector literal
	ipsets map[string]map[string]any // ip set id -> descriptor
}

func octets(ipn cnet.IPNet) map[string]any {
	ones, _ := ipn.Mask.Size()
	ipb := ipn.IP.To4()
	if ipb == nil {
		ipb = ipn.IP.To16()
	}
	a := make([]int, len(ipb))
	for i, b := range ipb {
		a[i] = int(b)
	}
	return map[string]any{"a": a, "n": ones}
}

func addrOctets(i cnet.IP) map[string]any {
	ipb := i.IP.To4()
	n := 32
	if ipb == nil {
		ipb = i.IP.To16()
		n = 128
	}
	a := make([]int, len(ipb))
	for j, b := range ipb {
		a[j] = int(b)
	}
	return map[string]any{"a": a, "n": n}
}

func cidrStr(s string) map[string]any {
	_, n, err := cnet.ParseCIDROrIP(s)
	if err != nil || n == nil {
		panic("catalogue: bad cidr " + s)
	}
	return octets(*n)
}

func (e *exporter) labels(m uniquelabels.Map) map[string]any {
	out := map[string]any{}
	for k, v := range m.AllStrings() {
		out[k] = v
		e.strs[v] = true
	}
	return out
}

func (e *exporter) selAST(s string) map[string]any {
	sel, err := selector.Parse(s)
	if err != nil {
		panic("catalogue: selector does not parse: " + s)
	}
	return selgen.Export(sel.Root(), e.strs)
}

// register the IP set a (selector, named port, protocol) triple would be known by, using the real id function
func (e *exporter) regIPSet(selStr string, proto ipsetmember.Protocol, portName string) {
	sel, err := selector.Parse(selStr)
	if err != nil {
		panic("catalogue: selector does not parse: " + selStr)
	}
	d := &calc.IPSetData{Selector: sel, NamedPortProtocol: proto, NamedPort: portName}
	ps := ""
	if proto != ipsetmember.ProtocolNone {
		ps = proto.String()
	}
	e.ipsets[d.UniqueID()] = map[string]any{"sel": e.selAST(selStr), "proto": ps, "port": portName, "text": selStr}
}

func portNames(ps []numorstring.Port) []string {
	out := []string{}
	for _, p := range ps {
		if p.PortName != "" {
			out = append(out, p.PortName)
		}
	}
	return out
}

func hasNumeric(ps []numorstring.Port) bool {
	for _, p := range ps {
		if p.PortName == "" {
			return true
		}
	}
	return false
}

// rule skeleton: the match criteria that involve selectors / named ports, as written in the datastore value
func (e *exporter) rule(r model.Rule) map[string]any {
	out := map[string]any{"action": r.Action}
	protoS := ""
	npProto := ipsetmember.ProtocolAny
	if r.Protocol != nil {
		protoS = strings.ToLower(r.Protocol.String())
		npProto = ipsetmember.ProtocolFrom(*r.Protocol)
	}
	out["proto"] = protoS
	put := func(field, s string) {
		out["has_"+field] = s != ""
		if s != "" {
			out[field] = e.selAST(s)
		} else {
			out[field] = map[string]any{"op": "all"}
		}
	}
	put("src", r.SrcSelector)
	put("dst", r.DstSelector)
	put("nsrc", r.NotSrcSelector)
	put("ndst", r.NotDstSelector)
	out["srcnp"] = portNames(r.SrcPorts)
	out["dstnp"] = portNames(r.DstPorts)
	out["nsrcnp"] = portNames(r.NotSrcPorts)
	out["ndstnp"] = portNames(r.NotDstPorts)
	out["srcnum"] = hasNumeric(r.SrcPorts)
	out["dstnum"] = hasNumeric(r.DstPorts)
	// candidate IP sets: every selector as written, the positive/negative combination the rule may be
	// rendered with, and every named port filtered by the positive selector or unfiltered
	for _, pn := range [][2]string{{r.SrcSelector, r.NotSrcSelector}, {r.DstSelector, r.NotDstSelector}} {
		pos, neg := pn[0], pn[1]
		cands := []string{}
		if pos != "" {
			cands = append(cands, pos)
		}
		if neg != "" {
			cands = append(cands, neg)
		}
		if pos != "" && neg != "" {
			cands = append(cands, fmt.Sprintf("(%s) && (!(%s))", pos, neg))
		}
		for _, c := range cands {
			e.regIPSet(c, ipsetmember.ProtocolNone, "")
		}
		named := append(append(append(portNames(r.SrcPorts), portNames(r.DstPorts)...), portNames(r.NotSrcPorts)...), portNames(r.NotDstPorts)...)
		for _, n := range named {
			e.regIPSet("all()", npProto, n)
			for _, c := range cands {
				e.regIPSet(c, npProto, n)
			}
		}
	}
	return out
}

func (e *exporter) rules(rs []model.Rule) []any {
	out := []any{}
	for _, r := range rs {
		out = append(out, e.rule(r))
	}
	return out
}

func intOrder(o *float64) (bool, int) {
	if o == nil {
		return false, 0
	}
	if *o != math.Trunc(*o) || math.Abs(*o) > 1e6 {
		panic("catalogue: orders must be small integers (TLC has no floats)")
	}
	return true, int(*o)
}

func epPorts(ps []model.EndpointPort) []any {
	out := []any{}
	for _, p := range ps {
		out = append(out, map[string]any{"name": p.Name, "proto": strings.ToLower(p.Protocol.String()), "port": int(p.Port)})
	}
	return out
}

func strsOrEmpty(ss []string) []string {
	if ss == nil {
		return []string{}
	}
	return ss
}

func (e *exporter) variant(k *Key, v *Variant) map[string]any {
	out := map[string]any{"valid": !v.Invalid}
	switch val := v.Value.(type) {
	case *model.WorkloadEndpoint:
		key := k.Key.(model.WorkloadEndpointKey)
		ns := []any{}
		for _, n := range val.IPv4Nets {
			ns = append(ns, octets(n))
		}
		for _, n := range val.IPv6Nets {
			ns = append(ns, octets(n))
		}
		out["id"] = key.OrchestratorID + "/" + key.WorkloadID + "/" + key.EndpointID
		out["host"] = key.Hostname
		out["local"] = key.Hostname == localHost
		out["labels"] = e.labels(val.Labels)
		out["profiles"] = strsOrEmpty(val.ProfileIDs)
		out["nets"] = ns
		out["ports"] = epPorts(val.Ports)
	case *model.HostEndpoint:
		key := k.Key.(model.HostEndpointKey)
		ns := []any{}
		for _, a := range val.ExpectedIPv4Addrs {
			ns = append(ns, addrOctets(a))
		}
		out["id"] = key.EndpointID
		out["host"] = key.Hostname
		out["local"] = key.Hostname == localHost
		out["labels"] = e.labels(val.Labels)
		out["profiles"] = strsOrEmpty(val.ProfileIDs)
		out["nets"] = ns
		out["ports"] = epPorts(val.Ports)
	case *model.NetworkSet:
		ns := []any{}
		for _, n := range val.Nets {
			ns = append(ns, octets(n))
		}
		out["labels"] = e.labels(val.Labels)
		out["profiles"] = strsOrEmpty(val.ProfileIDs)
		out["nets"] = ns
		out["ports"] = []any{}
	case *model.ProfileRules:
		out["name"] = k.Key.(model.ProfileRulesKey).Name
		out["inr"] = e.rules(val.InboundRules)
		out["outr"] = e.rules(val.OutboundRules)
	case *v3.Profile:
		out["name"] = k.Key.(model.ResourceKey).Name
		m := map[string]any{}
		for lk, lv := range val.Spec.LabelsToApply {
			m[lk] = lv
			e.strs[lv] = true
		}
		out["labels"] = m
	case *model.Policy:
		key := k.Key.(model.PolicyKey)
		out["id"] = key.Kind + "/" + key.Namespace + "/" + key.Name
		out["name"] = key.Name
		e.strs[key.Name] = true
		out["namespace"] = key.Namespace
		out["pkind"] = key.Kind
		out["tier"] = val.Tier
		has, o := intOrder(val.Order)
		out["hasOrder"] = has
		out["order"] = o
		if !v.Invalid {
			out["sel"] = e.selAST(val.Selector)
		} else if _, err := selector.Parse(val.Selector); err == nil {
			out["sel"] = e.selAST(val.Selector)
		} else {
			out["sel"] = map[string]any{"op": "all"}
		}
		ingress, egress := len(val.Types) == 0, len(val.Types) == 0
		for _, t := range val.Types {
			if strings.EqualFold(t, "ingress") {
				ingress = true
			}
			if strings.EqualFold(t, "egress") {
				egress = true
			}
		}
		out["ingress"] = ingress
		out["egress"] = egress
		out["untracked"] = val.DoNotTrack
		out["prednat"] = val.PreDNAT
		out["forward"] = val.ApplyOnForward
		out["inr"] = e.rules(val.InboundRules)
		out["outr"] = e.rules(val.OutboundRules)
	case *model.Tier:
		out["name"] = k.Key.(model.TierKey).Name
		e.strs[k.Key.(model.TierKey).Name] = true
		has, o := intOrder(val.Order)
		out["hasOrder"] = has
		out["order"] = o
		out["defaultAction"] = string(val.DefaultAction)
	case *model.IPPool:
		out["cidr"] = octets(val.CIDR)
		mode := func(m encap.Mode) string {
			if m == encap.Never {
				return "never"
			}
			return string(m)
		}
		out["ipip"] = mode(val.IPIPMode)
		out["vxlan"] = mode(val.VXLANMode)
		out["nat"] = val.Masquerade
		out["lbonly"] = len(val.AllowedUses) == 1 && val.AllowedUses[0] == v3.IPPoolAllowedUseLoadBalancer
	case *model.AllocationBlock:
		out["cidr"] = octets(val.CIDR)
		host := ""
		if val.Affinity != nil && strings.HasPrefix(*val.Affinity, "host:") {
			host = strings.TrimPrefix(*val.Affinity, "host:")
		}
		out["host"] = host
		al := []any{}
		for ord, idx := range val.Allocations {
			if idx == nil {
				continue
			}
			owner := ""
			if *idx < len(val.Attributes) {
				owner = val.Attributes[*idx].ActiveOwnerAttrs[model.IPAMBlockAttributeNode]
			}
			a := val.OrdinalToIP(ord)
			al = append(al, map[string]any{"addr": addrOctets(a), "host": owner})
		}
		out["allocs"] = al
	case *internalapi.Node:
		out["name"] = val.Name
		out["hasV4"] = false
		out["addr"] = map[string]any{"a": []int{0, 0, 0, 0}, "n": 32}
		out["subnet"] = map[string]any{"a": []int{0, 0, 0, 0}, "n": 32}
		if val.Spec.BGP != nil && val.Spec.BGP.IPv4Address != "" {
			ipa, n, err := cnet.ParseCIDROrIP(val.Spec.BGP.IPv4Address)
			if err != nil {
				panic(err)
			}
			out["hasV4"] = true
			out["addr"] = addrOctets(*ipa)
			out["addrs"] = ipa.String()
			out["subnet"] = octets(*n)
		}
		out["hasV6"] = false
		out["addr6"] = map[string]any{"a": []int{0, 0, 0, 0, 0, 0, 0, 0, 0, 0, 0, 0, 0, 0, 0, 0}, "n": 128}
		out["subnet6"] = out["addr6"]
		out["addrs6"] = ""
		if _, ok := out["addrs"]; !ok {
			out["addrs"] = ""
		}
		if val.Spec.BGP != nil && val.Spec.BGP.IPv6Address != "" {
			ipa, n, err := cnet.ParseCIDROrIP(val.Spec.BGP.IPv6Address)
			if err != nil {
				panic(err)
			}
			out["hasV6"] = true
			out["addr6"] = addrOctets(*ipa)
			out["addrs6"] = ipa.String()
			out["subnet6"] = octets(*n)
		}
		out["hasVxlan"] = val.Spec.IPv4VXLANTunnelAddr != ""
		out["vxlanAddr"] = map[string]any{"a": []int{0, 0, 0, 0}, "n": 32}
		if val.Spec.IPv4VXLANTunnelAddr != "" {
			out["vxlanAddr"] = addrOctets(cnet.MustParseIP(val.Spec.IPv4VXLANTunnelAddr))
		}
	case string:
		hk := k.Key.(model.HostConfigKey)
		out["host"] = hk.Hostname
		out["name"] = hk.Name
		out["value"] = val
	default:
		panic(fmt.Sprintf("catalogue: no projection for %T", v.Value))
	}
	return out
}

// checkDeclaredValidity runs the same validator functions the ValidationFilter uses (not the filter itself)
// and panics if the catalogue's Invalid declaration disagrees - a catalogue authoring error, never a verdict.
func checkDeclaredValidity(k *Key, v *Variant) {
	var err error
	switch val := v.Value.(type) {
	case string:
		return
	case *model.WorkloadEndpoint:
		err = v1v.Validate(*val)
		if err == nil && val.Name == "" {
			err = fmt.Errorf("missing workload endpoint name")
		}
	case *v3.Profile:
		err = v3v.Validate(*val)
	case *internalapi.Node:
		err = v3v.Validate(*val)
	case *model.HostEndpoint:
		err = v1v.Validate(*val)
	case *model.NetworkSet:
		err = v1v.Validate(*val)
	case *model.ProfileRules:
		err = v1v.Validate(*val)
	case *model.Policy:
		err = v1v.Validate(*val)
	case *model.Tier:
		err = v1v.Validate(*val)
	case *model.IPPool:
		err = v1v.Validate(*val)
	case *model.AllocationBlock:
		err = v1v.Validate(*val)
	}
	if (err != nil) != v.Invalid {
		panic(fmt.Sprintf("catalogue: key %s variant %s declared invalid=%v but validator says %v", k.ID, v.Name, v.Invalid, err))
	}
}

func exportUniverse(u *Universe) map[string]any {
	e := &exporter{strs: map[string]bool{"": true}, ipsets: map[string]map[string]any{}}
	keys := map[string]any{}
	order := []string{}
	for i := range u.Keys {
		k := &u.Keys[i]
		vs := map[string]any{}
		names := []string{}
		for j := range k.Variants {
			v := &k.Variants[j]
			checkDeclaredValidity(k, v)
			vs[v.Name] = e.variant(k, v)
			names = append(names, v.Name)
		}
		keys[k.ID] = map[string]any{"kind": k.Kind, "variants": vs, "vnames": names}
		order = append(order, k.ID)
	}
	// names that the ordering rules compare: characters and their code points
	ords := map[string]int{}
	for s := range e.strs {
		for _, r := range s {
			ords[string(r)] = int(r)
		}
	}
	ips := map[string]any{}
	for id, d := range e.ipsets {
		ips[id] = d
	}
	return map[string]any{
		"name":   u.Name,
		"nft":    u.NFT,
		"local":  localHost,
		"keys":   keys,
		"order":  order,
		"ipsets": ips,
		"ct":     selgen.CharTable(e.strs),
		"ord":    ords,
	}
}

func exportAll() map[string]any {
	out := map[string]any{}
	for _, u := range allUniverses() {
		out[u.Name] = exportUniverse(u)
	}
	return out
}
