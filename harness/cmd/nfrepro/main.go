// nfrepro prints the real rendering of the minimal reproduction of the C08 finding "scratch mark bit of a
// positive match block is not reset before the next block" (iptables and nftables).
package main

import (
	"fmt"

	"github.com/sirupsen/logrus"

	"github.com/projectcalico/calico/felix/environment"
	"github.com/projectcalico/calico/felix/ipsets"
	"github.com/projectcalico/calico/felix/iptables"
	"github.com/projectcalico/calico/felix/nftables"
	"github.com/projectcalico/calico/felix/proto"
	"github.com/projectcalico/calico/felix/rules"
	"github.com/projectcalico/calico/felix/types"
)

func main() {
	logrus.SetLevel(logrus.PanicLevel)
	cfg := rules.Config{
		IPSetConfigV4: ipsets.NewIPVersionConfig(ipsets.IPFamilyV4, "cali", nil, nil),
		IPSetConfigV6: ipsets.NewIPVersionConfig(ipsets.IPFamilyV6, "cali", nil, nil),
		MarkAccept:    0x1, MarkPass: 0x2, MarkDrop: 0x4, MarkScratch0: 0x8, MarkScratch1: 0x10, MarkEndpoint: 0xff00, MarkNonCaliEndpoint: 0x100,
	}
	var ports []*proto.PortRange
	for p := int32(1001); p <= 1016; p++ { // 16 ports: two multiport splits -> the destination ports need a block
		ports = append(ports, &proto.PortRange{First: p, Last: p})
	}
	r := &proto.Rule{
		Action:   "allow",
		Protocol: &proto.Protocol{NumberOrName: &proto.Protocol_Name{Name: "tcp"}},
		DstPorts: ports,
		SrcNet:   []string{"10.1.0.0/16", "10.2.0.0/16"},
		DstNet:   []string{"10.3.0.0/16", "10.4.0.0/16"},
	}
	f := &environment.Features{}
	for _, nft := range []bool{false, true} {
		rr := rules.NewRenderer(cfg, nft)
		rs := rr.ProtoRuleToIptablesRules(r, 4, rules.RuleOwnerTypePolicy, rules.RuleDirIngress, 0, &types.PolicyID{Name: "p", Kind: "GlobalNetworkPolicy"}, "default", false)
		for i := range rs {
			if nft {
				fmt.Println("nft:", nftables.NewNFTRenderer("", 4).Render("c", "", rs[i], f).Rule)
			} else {
				fmt.Println(iptables.NewIptablesRenderer("").RenderAppend(&rs[i], "c", "", f))
			}
		}
	}
}
