// Driver for C27: applies TLC-generated assignment cases (and seeded random update histories) to real
// felix/config.Config objects through UpdateFrom / UpdateFromConfigUpdate, for real parameters of every
// metadata class and parser type, in several source orders and with re-built raw maps, and records
// what the real code answered.  It computes no expectations: the parameter dictionary (class, rendered
// parsed values, zero value, default) is read from the real code and everything is judged by T_Config.
package main

import (
	"bufio"
	"encoding/json"
	"fmt"
	"io"
	"math/rand"
	"net"
	"os"
	"reflect"
	"regexp"
	"runtime"
	"sort"
	"strconv"
	"strings"
	"sync"

	log "github.com/sirupsen/logrus"

	"github.com/projectcalico/calico/felix/config"
	"github.com/projectcalico/calico/felix/proto"

	"verifharness/tracelog"
)

// ---------------------------------------------------------------------------------------------
// rendering of config field values (pure syntax; equality of renderings is judged in TLA+)
// ---------------------------------------------------------------------------------------------

var regexpPtrType = reflect.TypeOf((*regexp.Regexp)(nil))
var ipType = reflect.TypeOf(net.IP{})

func render(v reflect.Value) string {
	if !v.IsValid() {
		return "nil"
	}
	if v.Type() == regexpPtrType {
		if v.IsNil() {
			return "nil"
		}
		return "re(" + strconv.Quote(v.Interface().(*regexp.Regexp).String()) + ")"
	}
	if v.Type() == ipType {
		if v.IsNil() {
			return "nil"
		}
		return "ip(" + v.Interface().(net.IP).String() + ")"
	}
	switch v.Kind() {
	case reflect.Bool:
		return strconv.FormatBool(v.Bool())
	case reflect.Int, reflect.Int8, reflect.Int16, reflect.Int32, reflect.Int64:
		return strconv.FormatInt(v.Int(), 10)
	case reflect.Uint, reflect.Uint8, reflect.Uint16, reflect.Uint32, reflect.Uint64, reflect.Uintptr:
		return strconv.FormatUint(v.Uint(), 10) + "u"
	case reflect.Float32, reflect.Float64:
		return strconv.FormatFloat(v.Float(), 'g', -1, 64)
	case reflect.String:
		return strconv.Quote(v.String())
	case reflect.Pointer, reflect.Interface:
		if v.IsNil() {
			return "nil"
		}
		return "&" + render(v.Elem())
	case reflect.Slice, reflect.Array:
		if v.Kind() == reflect.Slice && v.IsNil() {
			return "nil"
		}
		parts := make([]string, v.Len())
		for i := range parts {
			parts[i] = render(v.Index(i))
		}
		return "[" + strings.Join(parts, ",") + "]"
	case reflect.Map:
		if v.IsNil() {
			return "nil"
		}
		parts := []string{}
		for _, k := range v.MapKeys() {
			parts = append(parts, render(k)+":"+render(v.MapIndex(k)))
		}
		sort.Strings(parts)
		return "{" + strings.Join(parts, ",") + "}"
	case reflect.Struct:
		parts := make([]string, v.NumField())
		for i := range parts {
			parts[i] = v.Type().Field(i).Name + "=" + render(v.Field(i))
		}
		return v.Type().Name() + "{" + strings.Join(parts, ",") + "}"
	}
	return "?" + v.Kind().String()
}

func renderAny(x any) string {
	if x == nil {
		return "nil"
	}
	return render(reflect.ValueOf(x))
}

// ---------------------------------------------------------------------------------------------
// parameter dictionary
// ---------------------------------------------------------------------------------------------

type pinfo struct {
	Name                string
	Kind                string // parser type from the struct tag
	Local, Die, NonZero bool
	Keys                []string // canonical, lower, UPPER spellings (distinct ones)
	Lit1, Lit2, LitBad  string
	V1, V2, Zero, Def   string
	MDef                string // default declared in the parameter's metadata
	classRep            bool
	index               int
}

var tagRe = regexp.MustCompile(`^([^;(]+)(?:\(([^)]*)\))?;([^;]*)(?:;([^;]*))?$`)

// candidate literals per parser type; which are valid is decided by the real parser
var validPool = []string{
	"true", "false", "7", "2", "100", "1000", "40000", "65000", "0x1ff00000", "0xff000000", "1.5", "30",
	"cali,tap", "eth0", "eth1", "vxlan.calico", "10.0.0.1", "10.0.0.2", "fe80::1", "fe80::2",
	"10.0.0.0/8,192.168.0.0/16", "172.16.0.0/12", "tcp:22,udp:53", "tcp:10.0.0.0/8:80", "1000:2000", "3000:4000",
	"1000:2000,5000", "http://a.example:2379", "https://b.example:2379", "a.example:2379", "b.example:2380",
	"host1.example", "host2", "region1", "region2", "1-100", "10-20", "1-100,200-300", "a=b,c=d", "x=y",
	"a=1s,b=2m", "c=3s", "^abc$", "x.*y", "/^kube/,eth1", "docker+", "AF11", "EF", "1/second", "5/minute",
	"/tmp", "/", "sh", "ls", "some string", "another-string", "INFO", "DEBUG",
}
var badPool = []string{"!!bad value!!", "bad\nvalue", "99999999999999999999", "/nonexistent/verif-c27-file", "-1", "[", "verif-no-such-executable"}

func buildDict() []*pinfo {
	params := config.Params()
	fresh := config.New()
	kind := reflect.TypeOf(config.Config{})
	var out []*pinfo
	for i := 0; i < kind.NumField(); i++ {
		f := kind.Field(i)
		tag := f.Tag.Get("config")
		if tag == "" {
			continue
		}
		m := tagRe.FindStringSubmatch(tag)
		if m == nil {
			fatal("cannot parse tag of " + f.Name)
		}
		p := params[strings.ToLower(f.Name)]
		if p == nil {
			fatal("no registered parameter for " + f.Name)
		}
		md := p.GetMetadata()
		pi := &pinfo{Name: f.Name, Kind: m[1], Local: md.Local, Die: md.DieOnParseFailure, NonZero: md.NonZero}
		pi.Keys = []string{f.Name}
		for _, alt := range []string{strings.ToLower(f.Name), strings.ToUpper(f.Name)} {
			if alt != f.Name {
				pi.Keys = append(pi.Keys, alt)
			}
		}
		pi.Zero = render(reflect.Zero(f.Type))
		pi.Def = render(reflect.ValueOf(fresh).Elem().FieldByName(f.Name))
		pi.MDef = renderAny(md.Default)
		cands := append([]string{}, validPool...)
		if m[1] == "oneof" {
			cands = append(strings.Split(m[2], ","), cands...)
		}
		if m[1] == "int" || m[1] == "seconds" {
			for _, r := range strings.FieldsFunc(m[2], func(r rune) bool { return r == ',' || r == ':' }) {
				cands = append(cands, strings.TrimSpace(r))
			}
		}
		// prefer literals whose parsed value differs from both the default and the zero value
		type cand struct{ lit, val string }
		var good, meh []cand
		for _, c := range cands {
			if c == "" || strings.ToLower(c) == "none" {
				continue
			}
			v, err := p.Parse(c)
			if err != nil {
				continue
			}
			r := renderAny(v)
			if r != pi.Zero && r != pi.Def {
				good = append(good, cand{c, r})
			} else {
				meh = append(meh, cand{c, r})
			}
		}
		all := append(good, meh...)
		if len(all) == 0 {
			fmt.Fprintf(os.Stderr, "cfgresolve: no valid literal for %s (%s); parameter skipped\n", f.Name, m[1])
			continue
		}
		pi.Lit1, pi.V1 = all[0].lit, all[0].val
		for _, c := range all[1:] {
			if c.val != pi.V1 {
				pi.Lit2, pi.V2 = c.lit, c.val
				break
			}
		}
		for _, c := range badPool {
			if _, err := p.Parse(c); err != nil {
				pi.LitBad = c
				break
			}
		}
		out = append(out, pi)
	}
	return out
}

func (p *pinfo) class() string {
	return fmt.Sprintf("%v/%v/%v", p.Local, p.Die, p.NonZero)
}

// representatives: for every metadata class that exists, the first parameter that has all literal kinds;
// plus (parserReps) one parameter per (parser type, class).
func chooseReps(ps []*pinfo) (classReps, parserReps []*pinfo) {
	seenC := map[string]bool{}
	seenK := map[string]bool{}
	// prefer parameters with a full set of literals
	for pass := 0; pass < 3; pass++ {
		for _, p := range ps {
			full := p.Lit2 != "" && p.LitBad != ""
			if (pass == 0 && (!full || p.Kind == "file")) || (pass == 1 && !full) {
				continue
			}
			if !seenC[p.class()] {
				seenC[p.class()] = true
				p.classRep = true
				classReps = append(classReps, p)
			}
		}
	}
	for _, p := range ps {
		k := p.Kind + "|" + p.class()
		if !seenK[k] && !p.classRep {
			seenK[k] = true
			parserReps = append(parserReps, p)
		} else if p.classRep {
			seenK[k] = true
		}
	}
	return
}

// ---------------------------------------------------------------------------------------------
// cases
// ---------------------------------------------------------------------------------------------

type keyEntry struct {
	K  string `json:"k"`
	Sp string `json:"sp"`
}
type caseT struct {
	Asg     [6][]keyEntry
	nset    int
	nalt    int
	dup     bool
	differs bool // some source holds two keys with different value kinds
}

func loadCases(path string) []caseT {
	behs, err := tracelog.LoadBehaviours(path)
	if err != nil {
		fatal(err.Error())
	}
	var out []caseT
	for _, b := range behs {
		for _, op := range b {
			if tracelog.Str(op["op"]) != "case" {
				continue
			}
			raw, _ := json.Marshal(op["asg"])
			var asg [][]keyEntry
			if err := json.Unmarshal(raw, &asg); err != nil || len(asg) != 6 {
				fatal("bad case: " + string(raw))
			}
			var c caseT
			for s := 0; s < 6; s++ {
				c.Asg[s] = asg[s]
				if len(asg[s]) > 0 {
					c.nset++
				}
				if len(asg[s]) > 1 {
					c.dup = true
					if asg[s][0].K != asg[s][1].K {
						c.differs = true
					}
				}
				for _, e := range asg[s] {
					if e.Sp == "a" {
						c.nalt++
						break
					}
				}
			}
			out = append(out, c)
		}
	}
	return out
}

// spellT fixes, for one case, the alternative key spelling and the spelling of `none`, so that every
// run of the case hands the real code the same raw keys and values (only orders differ).
type spellT struct{ alt, none string }

func (p *pinfo) spelling(rnd *rand.Rand) spellT {
	sp := spellT{none: []string{"none", "None", "NONE"}[rnd.Intn(3)]}
	if len(p.Keys) > 1 {
		sp.alt = p.Keys[1+rnd.Intn(len(p.Keys)-1)]
	}
	return sp
}

func (p *pinfo) lit(kind string, sp spellT) (string, bool) {
	switch kind {
	case "v1":
		return p.Lit1, true
	case "v2":
		return p.Lit2, p.Lit2 != ""
	case "bad":
		return p.LitBad, p.LitBad != ""
	case "none":
		return sp.none, true
	}
	return "", false
}

func (p *pinfo) applicable(c *caseT) bool {
	for s := 0; s < 6; s++ {
		for _, e := range c.Asg[s] {
			if (e.K == "v2" && p.Lit2 == "") || (e.K == "bad" && p.LitBad == "") {
				return false
			}
			if e.Sp == "a" && len(p.Keys) < 2 {
				return false
			}
		}
	}
	return true
}

type kv [2]string

// rawFor builds the raw key/value pairs of source s (0-based) for the parameter; noise keys (unknown
// parameters, which resolve() only stashes) are mixed in so that map iteration has more to permute.
func (p *pinfo) rawFor(entries []keyEntry, sp spellT, rnd *rand.Rand, noise bool) []kv {
	var out []kv
	for _, e := range entries {
		l, _ := p.lit(e.K, sp)
		k := p.Name
		if e.Sp == "a" {
			k = sp.alt
		}
		out = append(out, kv{k, l})
	}
	if noise {
		for i, n := 0, rnd.Intn(3); i < n; i++ {
			out = append(out, kv{[]string{"VerifNoiseA", "verifnoiseb", "VERIFNOISEC"}[i], "x"})
		}
	}
	rnd.Shuffle(len(out), func(i, j int) { out[i], out[j] = out[j], out[i] })
	return out
}

func toMap(raw []kv) map[string]string {
	m := make(map[string]string, len(raw))
	for _, p := range raw {
		m[p[0]] = p[1]
	}
	return m
}

type setT struct {
	Src int  `json:"src"`
	Raw []kv `json:"raw"`
}
type stepT struct {
	API      string `json:"api"`
	Sets     []setT `json:"sets"`
	Err      bool   `json:"err"`
	ErrField bool   `json:"errfield"`
	Val      string `json:"val"`
	Changed  bool   `json:"changed"`
}

func fieldVal(c *config.Config, name string) string {
	return render(reflect.ValueOf(c).Elem().FieldByName(name))
}

// srcOf maps the specification's source numbers (priority order of the statement: 1 global datastore,
// 2 per-selector, 3 per-host, 4 config file, 5 environment, 6 internal override) to the package's
// named constants.
var srcOf = []config.Source{config.Default, config.DatastoreGlobal, config.DatastorePerSelector, config.DatastorePerHost,
	config.ConfigFile, config.EnvironmentVariable, config.InternalOverride}

func doOne(c *config.Config, p *pinfo, src int, raw []kv) stepT {
	if raw == nil {
		raw = []kv{}
	}
	changed, err := c.UpdateFrom(toMap(raw), srcOf[src])
	return stepT{API: "one", Sets: []setT{{src, raw}}, Err: err != nil, ErrField: c.Err != nil,
		Val: fieldVal(c, p.Name), Changed: changed}
}

func doAll(c *config.Config, p *pinfo, sets []setT) stepT {
	msg := &proto.ConfigUpdate{SourceToRawConfig: map[uint32]*proto.RawConfig{}}
	for _, s := range sets {
		msg.SourceToRawConfig[uint32(srcOf[s.Src])] = &proto.RawConfig{Source: srcOf[s.Src].String(), Config: toMap(s.Raw)}
	}
	changed, err := c.UpdateFromConfigUpdate(msg)
	return stepT{API: "all", Sets: sets, Err: err != nil, ErrField: c.Err != nil,
		Val: fieldVal(c, p.Name), Changed: changed != nil && changed.Len() > 0}
}

type tbuf struct {
	t     int
	lines [][]byte
}

func (b *tbuf) emit(ev string, fields map[string]any) {
	m := map[string]any{"ev": ev, "t": b.t}
	for k, v := range fields {
		m[k] = v
	}
	j, err := json.Marshal(m)
	if err != nil {
		panic(err)
	}
	b.lines = append(b.lines, j)
}

func (p *pinfo) reset(b *tbuf) {
	b.emit("reset", map[string]any{"param": p.Name, "kind": p.Kind, "local": p.Local, "die": p.Die, "nonzero": p.NonZero,
		"keys": p.Keys, "lit1": p.Lit1, "lit2": p.Lit2, "litbad": p.LitBad, "v1": p.V1, "v2": p.V2, "zero": p.Zero, "def": p.Def, "mdef": p.MDef})
}

// runCase executes one assignment case on fresh Configs in several orders.
func (p *pinfo) runCase(b *tbuf, ci int, c *caseT, rnd *rand.Rand, reps int) {
	b.emit("case", map[string]any{"case": ci})
	sp := p.spelling(rnd)
	orders := [][]int{{1, 2, 3, 4, 5, 6}, {6, 5, 4, 3, 2, 1}}
	if c.nset >= 3 {
		o := []int{1, 2, 3, 4, 5, 6}
		rnd.Shuffle(6, func(i, j int) { o[i], o[j] = o[j], o[i] })
		orders = append(orders, o)
		if c.nset >= 4 {
			// the large canonical assignments (thorough tier): one seeded order plus the all-at-once run
			orders = orders[2:]
		}
	}
	for oi, order := range orders {
		cfg := config.New()
		var steps []stepT
		touchEmpty := rnd.Intn(4) == 0
		for _, s := range order {
			if len(c.Asg[s-1]) == 0 && !touchEmpty {
				continue
			}
			steps = append(steps, doOne(cfg, p, s, p.rawFor(c.Asg[s-1], sp, rnd, oi > 0)))
		}
		if len(steps) == 0 {
			steps = append(steps, doOne(cfg, p, 1+rnd.Intn(6), nil))
		}
		b.emit("run", map[string]any{"case": ci, "steps": steps})
	}
	// everything at once through the calculation-graph message route
	{
		cfg := config.New()
		var sets []setT
		for s := 1; s <= 6; s++ {
			if len(c.Asg[s-1]) > 0 || rnd.Intn(3) == 0 {
				r := p.rawFor(c.Asg[s-1], sp, rnd, true)
				if r == nil {
					r = []kv{}
				}
				sets = append(sets, setT{s, r})
			}
		}
		if sets == nil {
			sets = []setT{}
		}
		b.emit("run", map[string]any{"case": ci, "steps": []stepT{doAll(cfg, p, sets)}})
	}
	// two case-variant keys in one source: repeat with re-built maps (Go randomises map iteration)
	for r := 0; r < reps; r++ {
		cfg := config.New()
		var steps []stepT
		for s := 6; s >= 1; s-- {
			if len(c.Asg[s-1]) > 0 {
				steps = append(steps, doOne(cfg, p, s, p.rawFor(c.Asg[s-1], sp, rnd, r%2 == 1)))
			}
		}
		b.emit("run", map[string]any{"case": ci, "steps": steps})
	}
}

// randomTrace: seeded update histories (re-updates of a source, all six sources, both APIs).
func (p *pinfo) randomCase(b *tbuf, ci int, rnd *rand.Rand) {
	b.emit("case", map[string]any{"case": ci})
	sp := p.spelling(rnd)
	kinds := []string{"v1", "v1", "v2", "bad", "none"}
	entry := func() []keyEntry {
		switch x := rnd.Intn(10); {
		case x < 3:
			return nil
		case x < 8 || len(p.Keys) < 2:
			return []keyEntry{{kinds[rnd.Intn(len(kinds))], "c"}}
		case x == 8:
			return []keyEntry{{kinds[rnd.Intn(len(kinds))], "a"}}
		default:
			k := kinds[rnd.Intn(len(kinds))]
			return []keyEntry{{k, "c"}, {k, "a"}} // same kind under two spellings: unambiguous
		}
	}
	ok := func(es []keyEntry) []keyEntry {
		var o []keyEntry
		for _, e := range es {
			if _, has := p.lit(e.K, sp); has {
				o = append(o, e)
			}
		}
		return o
	}
	for rep := 0; rep < 2; rep++ {
		cfg := config.New()
		var steps []stepT
		n := 4 + rnd.Intn(8)
		for i := 0; i < n; i++ {
			if rnd.Intn(6) == 0 {
				var sets []setT
				for s := 1; s <= 6; s++ {
					if rnd.Intn(2) == 0 {
						r := p.rawFor(ok(entry()), sp, rnd, true)
						if r == nil {
							r = []kv{}
						}
						sets = append(sets, setT{s, r})
					}
				}
				if sets == nil {
					sets = []setT{}
				}
				steps = append(steps, doAll(cfg, p, sets))
			} else {
				steps = append(steps, doOne(cfg, p, 1+rnd.Intn(6), p.rawFor(ok(entry()), sp, rnd, true)))
			}
		}
		b.emit("run", map[string]any{"case": ci, "steps": steps})
	}
}

func fatal(msg string) {
	fmt.Fprintln(os.Stderr, "cfgresolve:", msg)
	os.Exit(2)
}

func hashStr(s string) int64 {
	var h int64 = 1469598103934665603
	for i := 0; i < len(s); i++ {
		h = (h ^ int64(s[i])) * 1099511628211
	}
	return h
}

func main() {
	log.SetOutput(io.Discard)
	log.SetLevel(log.PanicLevel)
	env := tracelog.GetEnv()
	dict := buildDict()
	classReps, parserReps := chooseReps(dict)
	cases := loadCases(env.BehPath)
	mode := os.Getenv("VERIF_C27_PARAMS") // "reps" (default) | "all"
	reps1, _ := strconv.Atoi(os.Getenv("VERIF_C27_DUPREPS1"))
	if reps1 == 0 {
		reps1 = 48
	}
	thin := 8
	if mode == "all" {
		thin = 32
	}
	reps2, _ := strconv.Atoi(os.Getenv("VERIF_C27_DUPREPS"))
	if reps2 == 0 {
		reps2 = 6
	}
	// VERIF_C27_ONLY: JSON list of [param, case index] pairs to (re-)execute; everything else is skipped
	var only map[string]map[int]bool
	if o := os.Getenv("VERIF_C27_ONLY"); o != "" {
		var pairs [][]any
		if err := json.Unmarshal([]byte(o), &pairs); err != nil {
			fatal("bad VERIF_C27_ONLY")
		}
		only = map[string]map[int]bool{}
		for _, pr := range pairs {
			n := tracelog.Str(pr[0])
			if only[n] == nil {
				only[n] = map[int]bool{}
			}
			only[n][tracelog.Int(pr[1])] = true
		}
	}

	selected := append([]*pinfo{}, classReps...)
	selected = append(selected, parserReps...)
	if mode == "all" {
		selected = dict
	}
	bufs := make([]*tbuf, len(selected))
	var wg sync.WaitGroup
	sem := make(chan struct{}, max(1, min(8, runtime.NumCPU()/2)))
	for i, p := range selected {
		p.index = i
		bufs[i] = &tbuf{t: i + 1}
		if only != nil && only[p.Name] == nil {
			continue
		}
		wg.Add(1)
		go func(b *tbuf, p *pinfo) {
			defer wg.Done()
			sem <- struct{}{}
			defer func() { <-sem }()
			p.reset(b)
			for ci := range cases {
				c := &cases[ci]
				if only != nil && !only[p.Name][ci] {
					continue
				}
				if !p.applicable(c) {
					continue
				}
				// effort allocation (input selection only): class representatives get every case; the other
				// parameters the single-key cases with at most one setting source and a seeded eighth of the
				// remaining cases with at most two setting sources
				if only == nil && !p.classRep && (c.nset > 2 || ((c.nset == 2 || c.dup || c.nalt > 0) && (ci+int(env.Seed))%thin != 0)) {
					continue
				}
				rnd := rand.New(rand.NewSource(env.Seed*1000003 + hashStr(p.Name) + int64(ci)*7919))
				reps := 0
				if c.dup {
					reps = reps2
					// many repetitions where Go's map order can show: one source with two case-variant keys
					// of different kinds (all of them in re-execution mode, a seeded third otherwise)
					if c.nset == 1 && c.differs && p.classRep && (only != nil || (ci+int(env.Seed))%3 == 0) {
						reps = reps1
					} else if c.nset >= 3 {
						reps = 1
					}
				}
				p.runCase(b, ci, c, rnd, reps)
			}
			// seeded random histories: VERIF_N in total, spread over the selected parameters
			n := env.N / len(selected)
			if p.index < env.N%len(selected) {
				n++
			}
			for i := 0; i < n; i++ {
				ci := len(cases) + i
				if only != nil && !only[p.Name][ci] {
					continue
				}
				rnd := rand.New(rand.NewSource(env.Seed*1000003 + hashStr(p.Name) + int64(ci)*7919))
				p.randomCase(b, ci, rnd)
			}
		}(bufs[i], p)
	}
	wg.Wait()
	f, err := os.Create(env.OutPath)
	if err != nil {
		fatal(err.Error())
	}
	w := bufio.NewWriterSize(f, 1<<20)
	for _, b := range bufs {
		if len(b.lines) <= 1 {
			continue // no case ran for this parameter
		}
		for _, l := range b.lines {
			w.Write(l)
			w.WriteByte('\n')
		}
	}
	if err := w.Flush(); err != nil {
		fatal(err.Error())
	}
	if err := f.Close(); err != nil {
		fatal(err.Error())
	}
	// summary for the orchestrator (stderr; not part of the trace)
	sum := map[string]any{"params_total": len(dict), "class_reps": names(classReps), "parser_reps": len(parserReps), "cases": len(cases)}
	j, _ := json.Marshal(sum)
	fmt.Fprintln(os.Stderr, "C27SUMMARY "+string(j))
}

func names(ps []*pinfo) []string {
	var o []string
	for _, p := range ps {
		o = append(o, fmt.Sprintf("%s(%s;%s)", p.Name, p.Kind, p.class()))
	}
	return o
}
