// Driver for C38 "CNI delete is idempotent and leaves no address behind".
//
// Runs the REAL cmdAdd / cmdDel of cni-plugin/pkg/ipamplugin (through the verif-tag hooks VerifCmdAdd /
// VerifCmdDel) against the in-memory datastore harness/memkv, wrapped by a fault injector that fails the
// k-th datastore call of the current CNI call (transport error) or the k-th compare-and-swap call
// (update / delete) with a conflict, without touching the store.
//
// The driver only executes, records and converts syntax: after every call it records the call's result
// (error or the addresses printed in the CNI result on stdout) and the store's allocation projection read
// from the memkv snapshot (for every block: ordinal -> address, the handle id in the allocation's attribute,
// whether the attribute carries ReleasedAt; and the handle objects).  Everything that judges lives in
// specs/cni/P_CNI.tla.
//
// Inputs: VERIF_BEH (TLC behaviours: a list of records, the first one is {"op":"init",...}), VERIF_N seeded
// random traces (VERIF_SEED) over larger universes, VERIF_OUT ndjson.
package main

import (
	"context"
	"encoding/json"
	"fmt"
	"io"
	"math/big"
	"math/rand"
	"net"
	"os"
	"path/filepath"
	"sort"
	"strings"

	"github.com/containernetworking/cni/pkg/skel"
	v3 "github.com/projectcalico/api/pkg/apis/projectcalico/v3"
	"github.com/sirupsen/logrus"

	"github.com/projectcalico/calico/cni-plugin/pkg/ipamplugin"
	"github.com/projectcalico/calico/cni-plugin/pkg/types"
	"github.com/projectcalico/calico/libcalico-go/lib/apiconfig"
	"github.com/projectcalico/calico/libcalico-go/lib/apis/internalapi"
	bapi "github.com/projectcalico/calico/libcalico-go/lib/backend/api"
	"github.com/projectcalico/calico/libcalico-go/lib/backend/model"
	"github.com/projectcalico/calico/libcalico-go/lib/clientv3"
	cerrors "github.com/projectcalico/calico/libcalico-go/lib/errors"
	"github.com/projectcalico/calico/libcalico-go/lib/ipam"

	"verifharness/memkv"
	"verifharness/tracelog"
)

func must(err error) {
	if err != nil {
		panic(err)
	}
}

// ---- fault-injecting wrapper around memkv ------------------------------------------------------------------------

// plan: kind "" (none) | "error" (the k-th datastore call fails with a transport error) |
// "conflict" (the k-th compare-and-swap call, i.e. Update / Delete / DeleteKVP, fails with an update conflict).
// Both leave the store untouched.  A third kind, "lostreply" (the k-th datastore call is EXECUTED but the caller
// gets a transport error), is outside the fault model of the check; it is only used for the exploration described
// in notes/C38.md (VERIF_CNI_LOSTREPLY=1 makes the seeded random leg use it).
type plan struct {
	kind string
	k    int
}

type faulty struct {
	in    bapi.Client
	plan  plan
	calls int      // datastore calls of the current CNI call
	cas   int      // compare-and-swap calls of the current CNI call
	fired bool     // the planned fault was injected
	lost  bool     // lostreply: execute the current call, then report a transport error
	log   []string // "<op> <path>" of every call (debugging aid: VERIF_CNI_DEBUG=1)
	keep  bool
}

func (f *faulty) arm(p plan) { f.plan, f.calls, f.cas, f.fired, f.lost, f.log = p, 0, 0, false, false, nil }

// reply passes the inner result on, or hides it behind a transport error (lostreply).
func (f *faulty) reply(k model.Key, kv *model.KVPair, err error) (*model.KVPair, error) {
	if f.lost {
		f.lost = false
		return nil, cerrors.ErrorDatastoreError{Identifier: k, Err: fmt.Errorf("verif: reply lost")}
	}
	return kv, err
}

func pathOf(k model.Key) string {
	if k == nil {
		return ""
	}
	p, err := model.KeyToDefaultPath(k)
	if err != nil {
		return fmt.Sprint(k)
	}
	return p
}

// gate counts the call and returns the error to inject, if any.
func (f *faulty) gate(op string, k model.Key, path string, cas bool) error {
	f.calls++
	if cas {
		f.cas++
	}
	var err error
	switch {
	case f.plan.kind == "error" && f.calls == f.plan.k:
		err = cerrors.ErrorDatastoreError{Identifier: k, Err: fmt.Errorf("verif: injected transport error")}
	case f.plan.kind == "conflict" && cas && f.cas == f.plan.k:
		err = cerrors.ErrorResourceUpdateConflict{Identifier: k, Err: fmt.Errorf("verif: injected conflict")}
	}
	if f.plan.kind == "lostreply" && f.calls == f.plan.k {
		f.lost = true
	}
	if err != nil || f.lost {
		f.fired = true
	}
	if f.keep {
		s := op + " " + path
		if err != nil {
			s += "  <-- " + f.plan.kind
		}
		f.log = append(f.log, s)
	}
	return err
}

func (f *faulty) Create(ctx context.Context, d *model.KVPair) (*model.KVPair, error) {
	if err := f.gate("create", d.Key, pathOf(d.Key), false); err != nil {
		return nil, err
	}
	kv, err := f.in.Create(ctx, d)
	return f.reply(d.Key, kv, err)
}

func (f *faulty) Update(ctx context.Context, d *model.KVPair) (*model.KVPair, error) {
	if err := f.gate("update", d.Key, pathOf(d.Key), true); err != nil {
		return nil, err
	}
	kv, err := f.in.Update(ctx, d)
	return f.reply(d.Key, kv, err)
}

func (f *faulty) Apply(ctx context.Context, d *model.KVPair) (*model.KVPair, error) {
	if err := f.gate("apply", d.Key, pathOf(d.Key), false); err != nil {
		return nil, err
	}
	kv, err := f.in.Apply(ctx, d)
	return f.reply(d.Key, kv, err)
}

func (f *faulty) DeleteKVP(ctx context.Context, d *model.KVPair) (*model.KVPair, error) {
	if err := f.gate("delete", d.Key, pathOf(d.Key), true); err != nil {
		return nil, err
	}
	kv, err := f.in.DeleteKVP(ctx, d)
	return f.reply(d.Key, kv, err)
}

func (f *faulty) Delete(ctx context.Context, k model.Key, rev string) (*model.KVPair, error) {
	if err := f.gate("delete", k, pathOf(k), true); err != nil {
		return nil, err
	}
	kv, err := f.in.Delete(ctx, k, rev)
	return f.reply(k, kv, err)
}

func (f *faulty) Get(ctx context.Context, k model.Key, rev string) (*model.KVPair, error) {
	if err := f.gate("get", k, pathOf(k), false); err != nil {
		return nil, err
	}
	kv, err := f.in.Get(ctx, k, rev)
	return f.reply(k, kv, err)
}

func (f *faulty) List(ctx context.Context, l model.ListInterface, rev string) (*model.KVPairList, error) {
	if err := f.gate("list", nil, model.ListOptionsToDefaultPathRoot(l), false); err != nil {
		return nil, err
	}
	if f.lost {
		f.lost = false
		return nil, cerrors.ErrorDatastoreError{Identifier: nil, Err: fmt.Errorf("verif: reply lost")}
	}
	return f.in.List(ctx, l, rev)
}

func (f *faulty) Watch(ctx context.Context, l model.ListInterface, o bapi.WatchOptions) (bapi.WatchInterface, error) {
	return f.in.Watch(ctx, l, o)
}
func (f *faulty) EnsureInitialized() error { return f.in.EnsureInitialized() }
func (f *faulty) Clean() error             { return f.in.Clean() }
func (f *faulty) Close() error             { return nil }

var _ bapi.Client = (*faulty)(nil)

// ---- scenario ----------------------------------------------------------------------------------------------------

type container struct {
	ID, Pod, NS string
	V4, V6      bool
}

type pool struct {
	Name, CIDR string
	BlockSize  int
}

type scenario struct {
	Net   string
	Node  string
	Cs    []container
	Pools []pool
	Cap4  int // number of addresses in the v4 pool (0 = no pool)
	Cap6  int
	Cool  int // IPCooldownSeconds; -1 = released addresses are reusable at once (deterministic)
}

// pools for a requested capacity (pure table: capacity -> CIDR/block size; tiny blocks so that a handle spans blocks)
func poolsFor(v4cap, v6cap int) []pool {
	var ps []pool
	switch v4cap {
	case 0:
	case 1:
		ps = append(ps, pool{"p4", "10.65.0.0/32", 32})
	case 2:
		ps = append(ps, pool{"p4", "10.65.0.0/31", 32})
	case 4:
		ps = append(ps, pool{"p4", "10.65.0.0/30", 31})
	case 8:
		ps = append(ps, pool{"p4", "10.65.0.0/29", 30})
	default:
		ps = append(ps, pool{"p4", "10.65.0.0/26", 29})
	}
	switch v6cap {
	case 0:
	case 1:
		ps = append(ps, pool{"p6", "fd00:65::/128", 128})
	case 2:
		ps = append(ps, pool{"p6", "fd00:65::/127", 128})
	case 4:
		ps = append(ps, pool{"p6", "fd00:65::/126", 127})
	default:
		ps = append(ps, pool{"p6", "fd00:65::/122", 125})
	}
	return ps
}

type drv struct {
	log   *tracelog.Log
	sc    *scenario
	store *memkv.Store
	fc    *faulty
	tmp   string
	out   *os.File
	debug bool
}

func (d *drv) start(t int, sc *scenario) {
	d.sc = sc
	d.store = memkv.New()
	d.store.KeepLog(false)
	d.fc = &faulty{in: d.store.Client("cni"), keep: d.debug}
	n := internalapi.NewNode()
	n.Name = sc.Node
	_, err := d.store.Seed(&model.KVPair{Key: model.ResourceKey{Kind: internalapi.KindNode, Name: sc.Node}, Value: n})
	must(err)
	pools := []any{}
	for _, p := range sc.Pools {
		ip := v3.NewIPPool()
		ip.Name = p.Name
		ip.Spec.CIDR = p.CIDR
		ip.Spec.BlockSize = p.BlockSize
		_, err := d.store.Seed(&model.KVPair{Key: model.ResourceKey{Kind: v3.KindIPPool, Name: p.Name}, Value: ip})
		must(err)
		pools = append(pools, map[string]any{"name": p.Name, "cidr": p.CIDR, "bs": p.BlockSize})
	}
	_, err = d.store.Seed(&model.KVPair{Key: model.IPAMConfigKey{}, Value: &model.IPAMConfig{
		StrictAffinity: false, AutoAllocateBlocks: true, IPCooldownSeconds: sc.Cool}})
	must(err)
	cs := []any{}
	for _, c := range sc.Cs {
		cs = append(cs, map[string]any{"id": c.ID, "pod": c.Pod, "ns": c.NS, "fams": fams(c.V4, c.V6)})
	}
	ev := map[string]any{"net": sc.Net, "node": sc.Node, "containers": cs, "pools": pools, "cool": sc.Cool,
		"cap4": sc.Cap4, "cap6": sc.Cap6}
	d.observe(ev)
	d.log.Reset(t, ev)
}

func fams(v4, v6 bool) []string {
	out := []string{}
	if v4 {
		out = append(out, "v4")
	}
	if v6 {
		out = append(out, "v6")
	}
	return out
}

// ---- observation: pure syntax over the memkv snapshot ------------------------------------------------------------

func ordinalToIP(cidr net.IPNet, o int) string {
	base := cidr.IP
	if b4 := base.To4(); b4 != nil {
		base = b4
	}
	n := new(big.Int).SetBytes(base)
	n.Add(n, big.NewInt(int64(o)))
	b := n.Bytes()
	out := make([]byte, len(base))
	copy(out[len(out)-len(b):], b)
	return net.IP(out).String()
}

func famOf(ip string) string {
	if strings.Contains(ip, ":") {
		return "v6"
	}
	return "v4"
}

// observe adds "alloc" (every non-free ordinal of every block: address, family, handle id ("" = none), cooling =
// the attribute carries ReleasedAt) and "hrecs" (the handle objects) to ev.
func (d *drv) observe(ev map[string]any) {
	alloc := []any{}
	for _, it := range d.store.Snapshot("/calico/ipam/v2/assignment/") {
		b, ok := it.Value.(*model.AllocationBlock)
		if !ok {
			continue
		}
		for o, ix := range b.Allocations {
			if ix == nil {
				continue
			}
			a := ordinalToIP(b.CIDR.IPNet, o)
			h, cooling := "", false
			if *ix >= 0 && *ix < len(b.Attributes) {
				at := b.Attributes[*ix]
				if at.HandleID != nil {
					h = *at.HandleID
				}
				cooling = at.ReleasedAt != nil
			} else {
				h = "?bad-attribute-index"
			}
			alloc = append(alloc, map[string]any{"a": a, "fam": famOf(a), "h": h, "cooling": cooling})
		}
	}
	hrecs := []any{}
	for _, it := range d.store.Snapshot("/calico/ipam/v2/handle/") {
		h, ok := it.Value.(*model.IPAMHandle)
		if !ok {
			continue
		}
		id := h.HandleID
		if k, ok := it.Key.(model.IPAMHandleKey); ok && id == "" {
			id = k.HandleID
		}
		n := 0
		for _, c := range h.Block {
			n += c
		}
		hrecs = append(hrecs, map[string]any{"h": id, "n": n, "blocks": len(h.Block)})
	}
	ev["alloc"] = alloc
	ev["hrecs"] = hrecs
}

// ---- the CNI calls ---------------------------------------------------------------------------------------------

func (d *drv) find(id string) container {
	for _, c := range d.sc.Cs {
		if c.ID == id {
			return c
		}
	}
	panic("unknown container " + id)
}

func (d *drv) args(c container) *skel.CmdArgs {
	b := func(x bool) string {
		if x {
			return "true"
		}
		return "false"
	}
	conf := map[string]any{
		"cniVersion":     "1.0.0",
		"name":           d.sc.Net,
		"type":           "calico",
		"nodename":       d.sc.Node,
		"log_level":      "error",
		"ipam_lock_file": filepath.Join(d.tmp, "ipam.lock"),
		"ipam":           map[string]any{"type": "calico-ipam", "assign_ipv4": b(c.V4), "assign_ipv6": b(c.V6)},
	}
	raw, err := json.Marshal(conf)
	must(err)
	return &skel.CmdArgs{
		ContainerID: c.ID,
		Netns:       "/var/run/netns/" + c.ID,
		IfName:      "eth0",
		Args:        fmt.Sprintf("K8S_POD_NAMESPACE=%s;K8S_POD_NAME=%s;IgnoreUnknown=1", c.NS, c.Pod),
		Path:        "/opt/cni/bin",
		StdinData:   raw,
	}
}

// capture runs f with os.Stdout redirected to a (reused) file and returns what was printed.
func (d *drv) capture(f func() error) (string, error) {
	if d.out == nil {
		out, err := os.Create(filepath.Join(d.tmp, "stdout"))
		must(err)
		d.out = out
	}
	must(d.out.Truncate(0))
	_, err := d.out.Seek(0, io.SeekStart)
	must(err)
	saved := os.Stdout
	os.Stdout = d.out
	var ferr error
	func() {
		defer func() { os.Stdout = saved }()
		ferr = f()
	}()
	n, err := d.out.Seek(0, io.SeekCurrent)
	must(err)
	raw := make([]byte, n)
	_, err = d.out.ReadAt(raw, 0)
	if n > 0 {
		must(err)
	}
	return string(raw), ferr
}

func errText(err error) string {
	if err == nil {
		return ""
	}
	s := err.Error()
	if len(s) > 160 {
		s = s[:160]
	}
	return s
}

func (d *drv) call(op string, c container, p plan) {
	d.fc.arm(p)
	var printed string
	var err error
	if op == "add" {
		printed, err = d.capture(func() error { return ipamplugin.VerifCmdAdd(d.args(c)) })
	} else {
		printed, err = d.capture(func() error { return ipamplugin.VerifCmdDel(d.args(c)) })
	}
	calls, cas, fired := d.fc.calls, d.fc.cas, d.fc.fired
	if d.debug {
		fmt.Fprintf(os.Stderr, "--- %s %s plan=%v err=%v printed=%s\n", op, c.ID, p, err, strings.TrimSpace(printed))
		for i, l := range d.fc.log {
			fmt.Fprintf(os.Stderr, "   %2d %s\n", i+1, l)
		}
	}
	d.fc.arm(plan{})
	ev := map[string]any{"c": c.ID, "kind": p.kind, "k": p.k, "fired": fired, "calls": calls, "cas": cas,
		"ok": err == nil, "err": errText(err)}
	if op == "add" {
		ips := []any{}
		if strings.TrimSpace(printed) != "" {
			var res struct {
				IPs []struct {
					Address string `json:"address"`
				} `json:"ips"`
			}
			if jerr := json.Unmarshal([]byte(printed), &res); jerr != nil {
				panic(fmt.Sprintf("unparseable CNI result %q: %v", printed, jerr))
			}
			for _, x := range res.IPs {
				a := x.Address
				if i := strings.IndexByte(a, '/'); i >= 0 {
					a = a[:i]
				}
				if ip := net.ParseIP(a); ip != nil {
					a = ip.String()
				}
				ips = append(ips, map[string]any{"a": a, "fam": famOf(a)})
			}
		}
		ev["ips"] = ips
	}
	d.observe(ev)
	d.log.Emit(op, ev)
}

// legacy: an allocation made under the workload-ID handle "<namespace>.<pod>" (what a v2.x-era plugin recorded),
// through the real IPAM client on the un-faulted store.
func (d *drv) legacy(c container, v6 bool) {
	h := c.NS + "." + c.Pod
	cl := clientv3.NewFromBackend(*apiconfig.NewCalicoAPIConfig(), d.store.Client("legacy"))
	a := ipam.AutoAssignArgs{HandleID: &h, Hostname: d.sc.Node, IntendedUse: v3.IPPoolAllowedUseWorkload,
		Attrs: map[string]string{ipam.AttributeNode: d.sc.Node, ipam.AttributePod: c.Pod, ipam.AttributeNamespace: c.NS}}
	if v6 {
		a.Num6 = 1
	} else {
		a.Num4 = 1
	}
	_, _, err := cl.IPAM().AutoAssign(context.Background(), a)
	ev := map[string]any{"c": c.ID, "h": h, "ok": err == nil, "err": errText(err)}
	d.observe(ev)
	d.log.Emit("legacy", ev)
}

// ---- behaviours ------------------------------------------------------------------------------------------------

func toContainers(v any) []container {
	var out []container
	arr, _ := v.([]any)
	for _, x := range arr {
		m, _ := x.(map[string]any)
		c := container{ID: tracelog.Str(m["id"]), Pod: tracelog.Str(m["pod"]), NS: tracelog.Str(m["ns"])}
		fs, _ := m["fams"].([]any)
		for _, f := range fs {
			switch tracelog.Str(f) {
			case "v4":
				c.V4 = true
			case "v6":
				c.V6 = true
			}
		}
		out = append(out, c)
	}
	sort.Slice(out, func(i, j int) bool { return out[i].ID < out[j].ID })
	return out
}

func (d *drv) replay(t int, beh []map[string]any) {
	if len(beh) == 0 || tracelog.Str(beh[0]["op"]) != "init" {
		panic("behaviour must start with an init record")
	}
	in := beh[0]
	sc := &scenario{Net: tracelog.Str(in["net"]), Node: "node1", Cs: toContainers(in["containers"]),
		Cap4: tracelog.Int(in["cap4"]), Cap6: tracelog.Int(in["cap6"]), Cool: -1}
	sc.Pools = poolsFor(sc.Cap4, sc.Cap6)
	d.start(t, sc)
	for _, r := range beh[1:] {
		switch op := tracelog.Str(r["op"]); op {
		case "add", "del":
			d.call(op, d.find(tracelog.Str(r["c"])), plan{kind: tracelog.Str(r["kind"]), k: tracelog.Int(r["k"])})
		case "legacy":
			d.legacy(d.find(tracelog.Str(r["c"])), tracelog.Str(r["fam"]) == "v6")
		case "end":
		default:
			panic("unknown op " + op)
		}
	}
}

// ---- seeded random traces over larger universes ----------------------------------------------------------------

func (d *drv) random(t int, rnd *rand.Rand) {
	caps := []int{0, 1, 2, 4, 8, 64}
	sc := &scenario{Net: []string{"net1", "k8s-pod-network"}[rnd.Intn(2)], Node: "node1", Cool: -1}
	if rnd.Intn(5) == 0 {
		sc.Cool = 3600 // released addresses stay in cooldown for the whole trace: pools run dry quickly
	}
	sc.Cap4, sc.Cap6 = caps[1+rnd.Intn(5)], caps[rnd.Intn(6)]
	sc.Pools = poolsFor(sc.Cap4, sc.Cap6)
	npods := 1 + rnd.Intn(3)
	ncs := 2 + rnd.Intn(4) // 2..5
	for i := 0; i < ncs; i++ {
		pod := []string{"pod1", "pod10", "pod2"}[rnd.Intn(npods)]
		// ids with a prefix relation (cid1 / cid10 / cid100): handles must be compared exactly
		c := container{ID: "cid" + []string{"1", "10", "2", "100", "20"}[i], Pod: pod, NS: "ns1", V4: true, V6: rnd.Intn(3) > 0}
		if rnd.Intn(8) == 0 {
			c.V4, c.V6 = false, true
		}
		sc.Cs = append(sc.Cs, c)
	}
	d.start(t, sc)
	pf := []float64{0, 0.15, 0.4, 0.7}[rnd.Intn(4)]
	steps := 4 + rnd.Intn(12)
	for i := 0; i < steps; i++ {
		c := sc.Cs[rnd.Intn(len(sc.Cs))]
		p := plan{}
		if rnd.Float64() < pf {
			if os.Getenv("VERIF_CNI_LOSTREPLY") == "1" {
				p = plan{"lostreply", 1 + rnd.Intn(36)}
			} else if rnd.Intn(3) == 0 {
				p = plan{"conflict", 1 + rnd.Intn(6)}
			} else {
				p = plan{"error", 1 + rnd.Intn(40)}
			}
		}
		switch x := rnd.Intn(10); {
		case x < 4:
			d.call("add", c, p)
		case x < 9:
			d.call("del", c, p)
		default:
			d.legacy(c, rnd.Intn(3) == 0)
		}
	}
	// close every trace with un-faulted deletes of all containers (the "final delete")
	for _, c := range sc.Cs {
		d.call("del", c, plan{})
	}
}

func main() {
	logrus.SetOutput(io.Discard)
	env := tracelog.GetEnv()
	lg, err := tracelog.Open(env.OutPath)
	must(err)
	tmp, err := os.MkdirTemp("", "verif-cni-")
	must(err)
	defer os.RemoveAll(tmp)
	d := &drv{log: lg, tmp: tmp, debug: os.Getenv("VERIF_CNI_DEBUG") == "1"}
	if !d.debug {
		// the plugin re-points logrus at os.Stderr on every call (utils.ConfigureLogging)
		if null, err := os.OpenFile(os.DevNull, os.O_WRONLY, 0); err == nil {
			os.Stderr = null
		}
	}
	ipamplugin.VerifSetClientFactory(func(conf types.NetConf) (clientv3.Interface, error) {
		return clientv3.NewFromBackend(*apiconfig.NewCalicoAPIConfig(), d.fc), nil
	})
	behs, err := tracelog.LoadBehaviours(env.BehPath)
	must(err)
	t := 0
	for _, b := range behs {
		t++
		d.replay(t, b)
	}
	for i := 0; i < env.N; i++ {
		t++
		d.random(t, rand.New(rand.NewSource(env.Seed*1000003+int64(i))))
	}
	must(lg.Close())
}
