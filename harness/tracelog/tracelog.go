// Package tracelog writes ndjson traces: one JSON object per line, fields "t" (trace number),
// "ev" (event name) plus event arguments. Single-writer per Log; concurrent drivers use one Log
// per process with their own sequence numbers.
package tracelog

import (
	"bufio"
	"encoding/json"
	"os"
	"sync"
)

type Log struct {
	mu sync.Mutex
	f  *os.File
	w  *bufio.Writer
	T  int
	N  int
}

func Open(path string) (*Log, error) {
	f, err := os.Create(path)
	if err != nil {
		return nil, err
	}
	return &Log{f: f, w: bufio.NewWriterSize(f, 1<<20)}, nil
}

// Reset starts trace number t with a reset event carrying optional fields.
func (l *Log) Reset(t int, fields map[string]any) {
	l.mu.Lock()
	l.T = t
	l.mu.Unlock()
	l.Emit("reset", fields)
}

// Emit writes one event. Map keys are sorted by encoding/json, so output is deterministic.
func (l *Log) Emit(ev string, fields map[string]any) {
	l.mu.Lock()
	defer l.mu.Unlock()
	m := make(map[string]any, len(fields)+2)
	for k, v := range fields {
		m[k] = v
	}
	m["ev"] = ev
	m["t"] = l.T
	b, err := json.Marshal(m)
	if err != nil {
		panic(err)
	}
	l.w.Write(b)
	l.w.WriteByte('\n')
	l.N++
}

func (l *Log) Close() error {
	l.mu.Lock()
	defer l.mu.Unlock()
	if err := l.w.Flush(); err != nil {
		return err
	}
	return l.f.Close()
}
