package tracelog

import (
	"encoding/json"
	"os"
	"strconv"
)

// Env is the driver-side view of the orchestrator's environment contract.
type Env struct {
	BehPath string
	OutPath string
	Seed    int64
	N       int
	Tier    string
}

func GetEnv() Env {
	e := Env{BehPath: os.Getenv("VERIF_BEH"), OutPath: os.Getenv("VERIF_OUT"), Tier: os.Getenv("VERIF_TIER")}
	e.Seed, _ = strconv.ParseInt(os.Getenv("VERIF_SEED"), 10, 64)
	if e.Seed == 0 {
		e.Seed = 1
	}
	e.N, _ = strconv.Atoi(os.Getenv("VERIF_N"))
	if e.OutPath == "" {
		e.OutPath = "trace.ndjson"
	}
	return e
}

// LoadBehaviours reads the TLC-generated behaviours: a JSON array of behaviours, each an array of
// action records (map[string]any).
func LoadBehaviours(path string) ([][]map[string]any, error) {
	if path == "" {
		return nil, nil
	}
	b, err := os.ReadFile(path)
	if err != nil {
		return nil, err
	}
	var out [][]map[string]any
	if err := json.Unmarshal(b, &out); err != nil {
		return nil, err
	}
	return out, nil
}

func Int(v any) int {
	switch x := v.(type) {
	case float64:
		return int(x)
	case int:
		return x
	case string:
		n, _ := strconv.Atoi(x)
		return n
	}
	return 0
}

func Str(v any) string {
	if s, ok := v.(string); ok {
		return s
	}
	return ""
}
