// Package polgen is the shared case material for every "rendered/compiled policy equals PolicySem"
// check (C08 C09 C40 netfilter, C11 BPF, C12 agreement, ...): a seeded generator of felix/proto.Rule
// values that pass the API validation, the IP sets they reference, and the exporter of both into the
// JSON formats documented in specs/lib/PolicySem.tla.  The exporter is a field-by-field copy (CIDR strings
// to octets, protocol names to numbers); nothing here evaluates a rule.
package polgen

import (
	"fmt"
	"math/rand"
	"net"
	"sort"

	"github.com/projectcalico/calico/felix/proto"
	"github.com/projectcalico/calico/felix/rules"

	"verifharness/nfparse"
)

type M = map[string]any

// IPSet is one generated IP set: Type "net" (members CIDR) or "ipport" (members ip,proto,port).
// Members is the PolicySem JSON form, MemberStrings the felix/proto IPSetUpdate member form
// ("10.0.0.0/8", "10.0.0.1,tcp:80").
type IPSet struct {
	ID            string
	Type          string
	Members       []M
	MemberStrings []string
}

// ---------------------------------------------------------------------------------------------
// proto.Rule -> PolicySem JSON (field-by-field copy; CIDR strings to octets, protocol names to numbers)

func SemProto(p *proto.Protocol) int {
	if p == nil {
		return 0
	}
	switch v := p.NumberOrName.(type) {
	case *proto.Protocol_Name:
		n, err := nfparse.ProtoNum(v.Name)
		if err != nil {
			panic(err)
		}
		return n
	case *proto.Protocol_Number:
		return int(v.Number)
	}
	return 0
}

func SemNets(in []string) []M {
	out := []M{}
	for _, s := range in {
		c, err := nfparse.CIDR(s)
		if err != nil {
			panic(err)
		}
		out = append(out, c)
	}
	return out
}

func SemPorts(in []*proto.PortRange) [][]int {
	out := [][]int{}
	for _, p := range in {
		out = append(out, []int{int(p.First), int(p.Last)})
	}
	return out
}

func strs(in []string) []string {
	if in == nil {
		return []string{}
	}
	return in
}

func SemRule(r *proto.Rule) M {
	icmp := []int{}
	switch v := r.Icmp.(type) {
	case *proto.Rule_IcmpType:
		icmp = []int{int(v.IcmpType)}
	case *proto.Rule_IcmpTypeCode:
		icmp = []int{int(v.IcmpTypeCode.Type), int(v.IcmpTypeCode.Code)}
	}
	notIcmp := []int{}
	switch v := r.NotIcmp.(type) {
	case *proto.Rule_NotIcmpType:
		notIcmp = []int{int(v.NotIcmpType)}
	case *proto.Rule_NotIcmpTypeCode:
		notIcmp = []int{int(v.NotIcmpTypeCode.Type), int(v.NotIcmpTypeCode.Code)}
	}
	return M{
		"action": r.Action, "ipv": int(r.IpVersion),
		"proto": SemProto(r.Protocol), "notProto": SemProto(r.NotProtocol),
		"srcNets": SemNets(r.SrcNet), "notSrcNets": SemNets(r.NotSrcNet),
		"dstNets": SemNets(r.DstNet), "notDstNets": SemNets(r.NotDstNet),
		"srcPorts": SemPorts(r.SrcPorts), "notSrcPorts": SemPorts(r.NotSrcPorts),
		"dstPorts": SemPorts(r.DstPorts), "notDstPorts": SemPorts(r.NotDstPorts),
		"srcNamed": strs(r.SrcNamedPortIpSetIds), "notSrcNamed": strs(r.NotSrcNamedPortIpSetIds),
		"dstNamed": strs(r.DstNamedPortIpSetIds), "notDstNamed": strs(r.NotDstNamedPortIpSetIds),
		"srcSets": strs(r.SrcIpSetIds), "notSrcSets": strs(r.NotSrcIpSetIds),
		"dstSets": strs(r.DstIpSetIds), "notDstSets": strs(r.NotDstIpSetIds),
		"dstIpPortSets": strs(r.DstIpPortSetIds),
		"icmp":          icmp, "notIcmp": notIcmp,
	}
}

func SemRules(in []*proto.Rule) []M {
	out := []M{}
	for _, r := range in {
		out = append(out, SemRule(r))
	}
	return out
}

// ---------------------------------------------------------------------------------------------
// random material

var CIDRPool = map[uint8][]string{
	4: {"10.0.0.0/8", "10.1.0.0/16", "10.1.2.0/24", "10.1.2.3/32", "10.1.2.4/30", "192.168.0.0/30", "128.0.0.0/1",
		"0.0.0.0/1", "255.255.255.255/32", "0.0.0.0/32", "172.16.0.0/12", "10.255.255.0/24", "10.1.3.0/24", "11.0.0.0/8"},
	6: {"fd00::/8", "fd00:1::/32", "fd00:1::1/128", "fd00:1::/126", "fe80::/10", "8000::/1", "::/1",
		"ffff:ffff:ffff:ffff:ffff:ffff:ffff:ffff/128", "::/128", "fd00:1:2::/48", "fd00:1:0:ffff::/64", "fc00::/7", "2001:db8::/33"},
}

var AddrPool = map[uint8][]string{
	4: {"10.1.2.3", "10.1.2.4", "10.0.0.1", "10.255.255.255", "192.168.0.1", "172.16.0.9", "11.0.0.0", "9.255.255.255", "0.0.0.0", "255.255.255.255"},
	6: {"fd00:1::1", "fd00:1::2", "fd00::1", "fe80::1", "2001:db8::1", "fdff:ffff:ffff:ffff:ffff:ffff:ffff:ffff", "::", "ffff:ffff:ffff:ffff:ffff:ffff:ffff:ffff"},
}

func CatchAll(ipv uint8) string {
	if ipv == 4 {
		return "0.0.0.0/0"
	}
	return "::/0"
}

func Pick[T any](rnd *rand.Rand, xs []T) T { return xs[rnd.Intn(len(xs))] }

func Chance(rnd *rand.Rand, pct int) bool { return rnd.Intn(100) < pct }

func OtherV(ipv uint8) uint8 {
	if ipv == 4 {
		return 6
	}
	return 4
}

func RandNets(rnd *rand.Rand, ipv uint8, max int, negated bool) []string {
	n := 0
	if Chance(rnd, 45) {
		n = 1 + rnd.Intn(max)
	}
	var out []string
	seen := map[string]bool{}
	for i := 0; i < n; i++ {
		fam := ipv
		if Chance(rnd, 6) {
			fam = OtherV(ipv) // mixed-family list: filterNets must drop the foreign entries
		}
		c := Pick(rnd, CIDRPool[fam])
		if Chance(rnd, 5) {
			c = CatchAll(fam) // incl. the negated catch-all that filterNets turns into "rule never matches"
		}
		if !seen[c] {
			seen[c] = true
			out = append(out, c)
		}
	}
	return out
}

func RandPorts(rnd *rand.Rand) []*proto.PortRange {
	var n int
	switch rnd.Intn(10) {
	case 0, 1, 2, 3:
		n = 1 + rnd.Intn(3)
	case 4, 5:
		n = 6 + rnd.Intn(6) // crosses 15 slots only with ranges
	case 6:
		n = 14 + rnd.Intn(4) // around the 15-slot boundary
	case 7:
		n = 28 + rnd.Intn(13) // two or three splits
	default:
		n = 1
	}
	var out []*proto.PortRange
	for i := 0; i < n; i++ {
		base := int32(Pick(rnd, []int{0, 1, 22, 53, 80, 443, 1000, 8080, 30000, 65534, 65535}))
		if Chance(rnd, 60) {
			base = int32(rnd.Intn(65536))
		}
		last := base
		if Chance(rnd, 35) {
			last = base + int32(rnd.Intn(40))
			if Chance(rnd, 10) {
				last = base + int32(rnd.Intn(30000))
			}
			if last > 65535 {
				last = 65535
			}
		}
		out = append(out, &proto.PortRange{First: base, Last: last})
	}
	return out
}

// SetGen generates the IP sets a rule refers to (selector sets = "net", named-port / service sets =
// "ipport") for one IP version and remembers them.
type SetGen struct {
	rnd  *rand.Rand
	ipv  uint8
	sets []*IPSet
	n    int
}

func NewSetGen(rnd *rand.Rand, ipv uint8) *SetGen { return &SetGen{rnd: rnd, ipv: ipv} }

// Sets lists the sets generated so far, in generation order.
func (g *SetGen) Sets() []*IPSet { return g.sets }

// SemIPSets is the PolicySem `ipsets` value (id -> {"type","members"}); never empty (dummy "_none").
func (g *SetGen) SemIPSets() M { return SemIPSets(g.sets) }

func SemIPSets(sets []*IPSet) M {
	out := M{"_none": M{"type": "net", "members": []M{}}}
	for _, s := range sets {
		out[s.ID] = M{"type": s.Type, "members": s.Members}
	}
	return out
}

var protoMemberName = map[int]string{6: "tcp", 17: "udp", 132: "sctp"}

func (g *SetGen) NetSet() string {
	g.n++
	id := fmt.Sprintf("s:%dset%c", g.n, 'a'+rune(g.rnd.Intn(26)))
	s := &IPSet{ID: id, Type: "net", Members: []M{}, MemberStrings: []string{}}
	k := g.rnd.Intn(4)
	for i := 0; i < k; i++ {
		var c string
		if Chance(g.rnd, 60) {
			c = Pick(g.rnd, AddrPool[g.ipv])
		} else {
			c = Pick(g.rnd, CIDRPool[g.ipv])
		}
		m, _ := nfparse.CIDR(c)
		s.Members = append(s.Members, m)
		s.MemberStrings = append(s.MemberStrings, c)
	}
	g.sets = append(g.sets, s)
	return id
}

func (g *SetGen) PortSet(protos []int) string {
	g.n++
	id := fmt.Sprintf("n:%dnp%c", g.n, 'a'+rune(g.rnd.Intn(26)))
	s := &IPSet{ID: id, Type: "ipport", Members: []M{}, MemberStrings: []string{}}
	k := g.rnd.Intn(4)
	for i := 0; i < k; i++ {
		ip := Pick(g.rnd, AddrPool[g.ipv])
		a, _ := nfparse.Addr(ip)
		pr := Pick(g.rnd, protos)
		port := Pick(g.rnd, []int{1, 53, 80, 8080, 65535, g.rnd.Intn(65536)})
		s.Members = append(s.Members, M{"a": a, "p": pr, "port": port})
		s.MemberStrings = append(s.MemberStrings, fmt.Sprintf("%s,%s:%d", ip, protoMemberName[pr], port))
	}
	g.sets = append(g.sets, s)
	return id
}

func ProtoByName(n string) *proto.Protocol {
	return &proto.Protocol{NumberOrName: &proto.Protocol_Name{Name: n}}
}
func ProtoByNum(n int32) *proto.Protocol {
	return &proto.Protocol{NumberOrName: &proto.Protocol_Number{Number: n}}
}

// RandRule generates a rule that passes the API validation (ports only with a port protocol, ICMP
// fields only with the ICMP protocol of the right family, ...) but is otherwise arbitrary, including
// the shapes DESIGN lists: mixed-family CIDR lists, negated catch-all, >15 port slots, named ports,
// positive/negated IP sets, ICMP type / type+code / negated, every action, ipVersion 0/4/6.
func RandRule(rnd *rand.Rand, ipv uint8, sg *SetGen) *proto.Rule {
	r := &proto.Rule{}
	r.Action = Pick(rnd, []string{"allow", "allow", "deny", "deny", "pass", "next-tier", "log", ""})
	switch rnd.Intn(10) {
	case 0:
		r.IpVersion = proto.IPVersion(OtherV(ipv))
	case 1, 2, 3:
		r.IpVersion = proto.IPVersion(ipv)
	}
	portProto := false
	icmpProto := false
	switch rnd.Intn(12) {
	case 0, 1, 2:
		r.Protocol = ProtoByName(Pick(rnd, []string{"tcp", "udp", "sctp"}))
		portProto = true
	case 3:
		r.Protocol = ProtoByNum(int32(Pick(rnd, []int{6, 17, 132})))
		portProto = true
	case 4:
		if ipv == 4 {
			r.Protocol = ProtoByName("icmp")
		} else {
			r.Protocol = ProtoByName("icmpv6")
		}
		// the calculation graph derives the IP version from the ICMP protocol name
		r.IpVersion = proto.IPVersion(ipv)
		icmpProto = true
	case 5:
		if ipv == 4 {
			r.Protocol = ProtoByNum(1)
		} else {
			r.Protocol = ProtoByNum(58)
		}
		r.IpVersion = proto.IPVersion(ipv)
		icmpProto = true
	case 6:
		r.Protocol = ProtoByName("udplite")
	case 7:
		r.Protocol = ProtoByNum(int32(Pick(rnd, []int{4, 47, 50, 255, 2})))
	}
	if Chance(rnd, 12) {
		if Chance(rnd, 50) {
			r.NotProtocol = ProtoByName(Pick(rnd, []string{"tcp", "udp", "sctp", "udplite"}))
		} else {
			r.NotProtocol = ProtoByNum(int32(Pick(rnd, []int{6, 17, 1, 58, 47})))
		}
	}
	r.SrcNet = RandNets(rnd, ipv, 3, false)
	r.DstNet = RandNets(rnd, ipv, 3, false)
	if Chance(rnd, 40) {
		r.NotSrcNet = RandNets(rnd, ipv, 3, true)
	}
	if Chance(rnd, 40) {
		r.NotDstNet = RandNets(rnd, ipv, 3, true)
	}
	if portProto {
		if Chance(rnd, 35) {
			r.SrcPorts = RandPorts(rnd)
		}
		if Chance(rnd, 60) {
			r.DstPorts = RandPorts(rnd)
		}
		if Chance(rnd, 15) {
			r.NotSrcPorts = RandPorts(rnd)
		}
		if Chance(rnd, 20) {
			r.NotDstPorts = RandPorts(rnd)
		}
	}
	// named ports: with a port protocol, or with no protocol at all (the validator allows both)
	if portProto || r.Protocol == nil {
		protos := []int{6, 17, 132}
		if portProto {
			protos = []int{SemProto(r.Protocol), SemProto(r.Protocol), Pick(rnd, protos)}
		}
		if Chance(rnd, 20) {
			for i := 0; i <= rnd.Intn(2); i++ {
				r.DstNamedPortIpSetIds = append(r.DstNamedPortIpSetIds, sg.PortSet(protos))
			}
		}
		if Chance(rnd, 8) {
			r.SrcNamedPortIpSetIds = append(r.SrcNamedPortIpSetIds, sg.PortSet(protos))
		}
		if Chance(rnd, 8) {
			r.NotDstNamedPortIpSetIds = append(r.NotDstNamedPortIpSetIds, sg.PortSet(protos))
		}
		if Chance(rnd, 5) {
			r.NotSrcNamedPortIpSetIds = append(r.NotSrcNamedPortIpSetIds, sg.PortSet(protos))
		}
		if Chance(rnd, 6) && len(r.DstPorts) == 0 && len(r.DstNamedPortIpSetIds) == 0 {
			r.DstIpPortSetIds = append(r.DstIpPortSetIds, sg.PortSet(protos))
		}
	}
	if Chance(rnd, 25) {
		for i := 0; i <= rnd.Intn(2); i++ {
			r.SrcIpSetIds = append(r.SrcIpSetIds, sg.NetSet())
		}
	}
	if Chance(rnd, 25) {
		r.DstIpSetIds = append(r.DstIpSetIds, sg.NetSet())
	}
	if Chance(rnd, 15) {
		r.NotSrcIpSetIds = append(r.NotSrcIpSetIds, sg.NetSet())
	}
	if Chance(rnd, 15) {
		for i := 0; i <= rnd.Intn(2); i++ {
			r.NotDstIpSetIds = append(r.NotDstIpSetIds, sg.NetSet())
		}
	}
	if icmpProto {
		ty := int32(Pick(rnd, []int{0, 3, 8, 128, 135, 254, rnd.Intn(255)}))
		co := int32(Pick(rnd, []int{0, 1, 4, 255, rnd.Intn(256)}))
		switch rnd.Intn(4) {
		case 0:
			r.Icmp = &proto.Rule_IcmpType{IcmpType: ty}
		case 1:
			r.Icmp = &proto.Rule_IcmpTypeCode{IcmpTypeCode: &proto.IcmpTypeAndCode{Type: ty, Code: co}}
		}
		ty2 := int32(Pick(rnd, []int{0, 3, 8, 128, 254, int(ty)}))
		switch rnd.Intn(5) {
		case 0:
			r.NotIcmp = &proto.Rule_NotIcmpType{NotIcmpType: ty2}
		case 1:
			r.NotIcmp = &proto.Rule_NotIcmpTypeCode{NotIcmpTypeCode: &proto.IcmpTypeAndCode{Type: ty2, Code: co}}
		}
	}
	return r
}

func IPOctets(s string) []int {
	ip := net.ParseIP(s)
	var out []int
	if v4 := ip.To4(); v4 != nil {
		for _, b := range v4 {
			out = append(out, int(b))
		}
		return out
	}
	for _, b := range ip.To16() {
		out = append(out, int(b))
	}
	return out
}

func SortedKeys[V any](m map[string]V) []string {
	ks := make([]string, 0, len(m))
	for k := range m {
		ks = append(ks, k)
	}
	sort.Strings(ks)
	return ks
}

// StripICMPCode turns ICMP type+code matches into type-only matches (in place).  Used by generators of
// checks other than C08: the nftables spelling of type+code matches is a known finding of C08 and would
// otherwise mask everything else in multi-rule cases.
func StripICMPCode(r *proto.Rule) *proto.Rule {
	if v, ok := r.Icmp.(*proto.Rule_IcmpTypeCode); ok {
		r.Icmp = &proto.Rule_IcmpType{IcmpType: v.IcmpTypeCode.Type}
	}
	if v, ok := r.NotIcmp.(*proto.Rule_NotIcmpTypeCode); ok {
		r.NotIcmp = &proto.Rule_NotIcmpType{NotIcmpType: v.NotIcmpTypeCode.Type}
	}
	return r
}

// PositiveBlocks counts the positive match blocks the iptables/nftables renderer needs for the rule at the
// given IP version (source ports, destination ports: more than one multiport split or split + named port sets;
// source / destination CIDRs: more than one after filtering to the version).  Rules with three or more such
// blocks hit the known C08 finding (scratch mark bit not reset between blocks); generators of other checks use
// this to keep them out.  Uses the renderer's own exported helpers, so it cannot drift from the rendering.
func PositiveBlocks(r *proto.Rule, ipv uint8) int {
	f := rules.FilterRuleToIPVersion(ipv, r)
	if f == nil {
		return 0
	}
	n := 0
	if len(rules.SplitPortList(f.SrcPorts))+len(f.SrcNamedPortIpSetIds) > 1 {
		n++
	}
	if len(rules.SplitPortList(f.DstPorts))+len(f.DstNamedPortIpSetIds) > 1 {
		n++
	}
	if len(f.SrcNet) > 1 {
		n++
	}
	if len(f.DstNet) > 1 {
		n++
	}
	return n
}
