package memkv

import (
	"fmt"
	"runtime"
	"sort"
	"sync"
	"time"

	"k8s.io/apimachinery/pkg/labels"
)

func labelSet(m map[string]string) labels.Set { return labels.Set(m) }

// Client goroutine states as seen by the scheduler.
const (
	StateRunning = iota // executing client code (between two store calls)
	StateBlocked        // waiting at the gate with a pending call
	StateDone           // the function given to Go returned
	StateCrashed        // killed at a gate; never runs again
)

type cstate struct {
	state   int
	pending *CallInfo
	resume  chan Fault
}

// Sched is the gate scheduler.  A client is started with Go(name, fn); every gated store call made
// through Store.Client(name) then blocks until the driver calls Release(name, fault).  The driver
// alternates WaitQuiescent (wait until no client is running: each is blocked at a gate, finished or
// crashed) and Release, so exactly one client goroutine executes at any time and the interleaving
// is chosen by the driver - never by timing.
//
// Assumption: a client runs at most one goroutine that talks to the store at a time (true for the
// IPAM client as long as one ReleaseIPs call names addresses of a single block).
type Sched struct {
	mu      sync.Mutex
	cond    *sync.Cond
	clients map[string]*cstate
	// Timeout bounds WaitQuiescent (a client stuck outside the gate is a harness error).
	Timeout time.Duration
}

// NewSched returns a scheduler; attach it with Store.Attach.
func NewSched() *Sched {
	s := &Sched{clients: map[string]*cstate{}, Timeout: 60 * time.Second}
	s.cond = sync.NewCond(&s.mu)
	return s
}

// Go starts fn in a new goroutine as client `name` (which must not be running or blocked).
func (s *Sched) Go(name string, fn func()) {
	s.mu.Lock()
	if c, ok := s.clients[name]; ok && (c.state == StateRunning || c.state == StateBlocked) {
		s.mu.Unlock()
		panic("memkv: client " + name + " is still active")
	}
	c := &cstate{state: StateRunning, resume: make(chan Fault, 1)}
	s.clients[name] = c
	s.mu.Unlock()
	go func() {
		defer func() {
			s.mu.Lock()
			if c.state != StateCrashed {
				c.state = StateDone
			}
			s.cond.Broadcast()
			s.mu.Unlock()
		}()
		fn()
	}()
}

// arrive is called by the store before a gated call.  Calls from identities not started with Go
// pass straight through.
func (s *Sched) arrive(ci *CallInfo) Fault {
	s.mu.Lock()
	c, ok := s.clients[ci.Client]
	if !ok || c.state == StateDone {
		s.mu.Unlock()
		return FaultNone
	}
	if c.state == StateCrashed {
		s.mu.Unlock()
		runtime.Goexit()
	}
	c.state = StateBlocked
	c.pending = ci
	s.cond.Broadcast()
	s.mu.Unlock()
	f := <-c.resume
	if f == FaultKill {
		runtime.Goexit() // the client crashed: nothing of it runs any more (deferred calls still do)
	}
	return f
}

// WaitQuiescent blocks until no client is running and returns the pending call of every blocked
// client.  It fails when the timeout expires (some client is stuck outside the gate).
func (s *Sched) WaitQuiescent() (map[string]*CallInfo, error) {
	deadline := time.Now().Add(s.Timeout)
	timer := time.AfterFunc(s.Timeout, func() { s.mu.Lock(); s.cond.Broadcast(); s.mu.Unlock() })
	defer timer.Stop()
	s.mu.Lock()
	defer s.mu.Unlock()
	for {
		running := ""
		for n, c := range s.clients {
			if c.state == StateRunning {
				running = n
			}
		}
		if running == "" {
			break
		}
		if time.Now().After(deadline) {
			return nil, fmt.Errorf("memkv: client %s still running after %v (not at a gate)", running, s.Timeout)
		}
		s.cond.Wait()
	}
	out := map[string]*CallInfo{}
	for n, c := range s.clients {
		if c.state == StateBlocked {
			out[n] = c.pending
		}
	}
	return out, nil
}

// Release lets the blocked client `name` proceed with the given fault (FaultNone = execute the call,
// FaultKill = the client crashes instead of making the call).
func (s *Sched) Release(name string, f Fault) error {
	s.mu.Lock()
	c, ok := s.clients[name]
	if !ok || c.state != StateBlocked {
		s.mu.Unlock()
		return fmt.Errorf("memkv: client %s is not blocked at a gate", name)
	}
	if f == FaultKill {
		c.state = StateCrashed
	} else {
		c.state = StateRunning
	}
	c.pending = nil
	s.mu.Unlock()
	c.resume <- f
	return nil
}

// State returns the state of a client (StateDone for unknown names).
func (s *Sched) State(name string) int {
	s.mu.Lock()
	defer s.mu.Unlock()
	if c, ok := s.clients[name]; ok {
		return c.state
	}
	return StateDone
}

// Blocked returns the names of the clients currently blocked at a gate, sorted.
func (s *Sched) Blocked() []string {
	s.mu.Lock()
	defer s.mu.Unlock()
	var out []string
	for n, c := range s.clients {
		if c.state == StateBlocked {
			out = append(out, n)
		}
	}
	sort.Strings(out)
	return out
}

// Drain releases blocked clients (in name order, without faults) until every client is done or
// crashed.  pick, if non-nil, chooses among the blocked names (seeded schedulers).
func (s *Sched) Drain(pick func(names []string) string, maxSteps int) error {
	for i := 0; i < maxSteps; i++ {
		p, err := s.WaitQuiescent()
		if err != nil {
			return err
		}
		if len(p) == 0 {
			return nil
		}
		names := make([]string, 0, len(p))
		for n := range p {
			names = append(names, n)
		}
		sort.Strings(names)
		n := names[0]
		if pick != nil {
			n = pick(names)
		}
		if err := s.Release(n, FaultNone); err != nil {
			return err
		}
	}
	return fmt.Errorf("memkv: drain did not finish in %d steps", maxSteps)
}
