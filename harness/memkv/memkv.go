// Package memkv is an in-memory, revisioned compare-and-swap implementation of libcalico-go's
// backend api.Client, built for model-based verification of the IPAM code paths (and reused by the
// CNI and kube-controllers drivers).
//
//   - Storage is generic: every model.Key is stored under model.KeyToDefaultPath(key), values are kept
//     as the JSON that the etcdv3 backend would store (model.SerializeValue / model.ParseValue), so
//     every Get/List returns a fresh deep copy and timestamps have the datastore's 1 s resolution.
//   - Revisions are a per-store counter (etcd ModRevision semantics).  Create fails with
//     ErrorResourceAlreadyExists when the key is present; Update / Delete / DeleteKVP fail with
//     ErrorResourceUpdateConflict when the presented revision is not the stored one and with
//     ErrorResourceDoesNotExist when the key is absent.  An EMPTY revision on Update/Delete means
//     "unconditional" (Kubernetes semantics - the dangerous one; the call is recorded with RevIn "").
//   - Every call is recorded (arguments, presented revision, result, new revision) while the store
//     mutex is held: Call.N is a total order over all client goroutines (the linearization order).
//   - Before a call takes the mutex it passes the GATE of the attached scheduler (sched.go): the
//     scheduler decides which blocked client proceeds and whether the call is executed, fails with an
//     injected conflict / transport error, or the client is killed (its goroutine never returns).
//   - Time advance: AdvanceTime(d) shifts every stored ReleasedAt / AffinityClaimTime backwards by d.
//     The IPAM client is stateless between calls and uses the clock only to compare with stored
//     stamps, so this is equivalent to advancing its clock by d (no clock hook needed).
package memkv

import (
	"context"
	"fmt"
	"sort"
	"strings"
	"sync"
	"time"

	metav1 "k8s.io/apimachinery/pkg/apis/meta/v1"

	bapi "github.com/projectcalico/calico/libcalico-go/lib/backend/api"
	"github.com/projectcalico/calico/libcalico-go/lib/backend/model"
	cerrors "github.com/projectcalico/calico/libcalico-go/lib/errors"
)

// Fault is what the gate decided for one call.
type Fault int

const (
	FaultNone     Fault = iota // execute the call
	FaultConflict              // do not touch the store; return ErrorResourceUpdateConflict
	FaultError                 // do not touch the store; return ErrorDatastoreError (transport error)
	FaultKill                  // the client crashes before this call (goroutine exits, call not executed)
)

func (f Fault) String() string {
	return [...]string{"", "conflict", "error", "kill"}[f]
}

// CallInfo describes a call before it is executed (what the gate sees).
type CallInfo struct {
	Client string              // identity given to Store.Client
	Op     string              // get | list | create | update | apply | delete
	Key    model.Key           // nil for list
	List   model.ListInterface // nil unless Op == "list"
	Path   string              // default path of Key, or the list path root
	RevIn  string              // revision presented by the caller ("" = none)
}

// Item is one stored object as seen by a call (deep copy).
type Item struct {
	Key   model.Key
	Path  string
	Rev   string
	Value any
}

// Call is the record of one executed (or faulted) call.
type Call struct {
	CallInfo
	N       int64         // per-store sequence number: the linearization order
	Value   any           // deep copy of the value presented (create/update/apply)
	OK      bool          // the call returned no error
	ErrKind string        // "" | exists | notfound | conflict | error | unsupported
	Err     error         // the error returned to the caller
	NewRev  string        // revision of the object after a successful write
	Result  []Item        // get: the object read; list: the objects returned; delete: the removed object
	Fault   Fault         // injected fault, if any (store untouched)
	At      time.Time     // wall clock at the linearization point
	Shift   time.Duration // total AdvanceTime applied so far (virtual now = At + Shift)
}

type entry struct {
	key model.Key
	raw []byte
	rev int64
}

// Store is the shared datastore.  Use Client(name) to obtain a bapi.Client for one client identity.
type Store struct {
	mu       sync.Mutex
	data     map[string]*entry
	rev      int64
	n        int64
	shift    time.Duration
	log      []*Call
	keepLog  bool
	recorder func(*Call)
	sched    *Sched
	filter   func(*CallInfo) bool
}

// New returns an empty store that keeps its call log in memory.
func New() *Store {
	return &Store{data: map[string]*entry{}, keepLog: true}
}

// SetRecorder installs a callback invoked for every call while the store mutex is held (so the
// callback observes calls in linearization order).  It must not call back into the store.
func (s *Store) SetRecorder(f func(*Call)) {
	s.mu.Lock()
	s.recorder = f
	s.mu.Unlock()
}

// KeepLog switches the in-memory call log on or off (default on).
func (s *Store) KeepLog(on bool) {
	s.mu.Lock()
	s.keepLog = on
	s.mu.Unlock()
}

// Log returns the calls recorded so far.
func (s *Store) Log() []*Call {
	s.mu.Lock()
	defer s.mu.Unlock()
	return append([]*Call(nil), s.log...)
}

// Attach connects a scheduler: from now on every call made through a Client whose name was started
// with Sched.Go and for which filter returns true (nil = all calls) waits at the gate.
func (s *Store) Attach(sc *Sched, filter func(*CallInfo) bool) {
	s.mu.Lock()
	s.sched = sc
	s.filter = filter
	s.mu.Unlock()
}

// Client returns a bapi.Client whose calls are recorded under the given identity.
func (s *Store) Client(name string) *Client {
	return &Client{s: s, name: name}
}

// ---- harness-side access (never recorded, never gated) ---------------------------------------------

// Seed writes an object unconditionally (test setup) and returns its revision.
func (s *Store) Seed(kvp *model.KVPair) (string, error) {
	path, err := model.KeyToDefaultPath(kvp.Key)
	if err != nil {
		return "", err
	}
	raw, err := model.SerializeValue(kvp)
	if err != nil {
		return "", err
	}
	s.mu.Lock()
	defer s.mu.Unlock()
	s.rev++
	s.data[path] = &entry{key: kvp.Key, raw: raw, rev: s.rev}
	return fmt.Sprint(s.rev), nil
}

// Remove deletes an object unconditionally (test setup); it reports whether it existed.
func (s *Store) Remove(key model.Key) bool {
	path, err := model.KeyToDefaultPath(key)
	if err != nil {
		return false
	}
	s.mu.Lock()
	defer s.mu.Unlock()
	_, ok := s.data[path]
	delete(s.data, path)
	return ok
}

// Peek reads an object without recording (harness observation, e.g. a GC controller's scan).
func (s *Store) Peek(key model.Key) (*model.KVPair, bool) {
	path, err := model.KeyToDefaultPath(key)
	if err != nil {
		return nil, false
	}
	s.mu.Lock()
	defer s.mu.Unlock()
	e, ok := s.data[path]
	if !ok {
		return nil, false
	}
	it, err := s.item(e, path)
	if err != nil {
		return nil, false
	}
	return &model.KVPair{Key: it.Key, Value: it.Value, Revision: it.Rev}, true
}

// Snapshot returns deep copies of all objects whose path starts with prefix, sorted by path.
func (s *Store) Snapshot(prefix string) []Item {
	s.mu.Lock()
	defer s.mu.Unlock()
	var out []Item
	for _, p := range s.sortedPaths() {
		if strings.HasPrefix(p, prefix) {
			if it, err := s.item(s.data[p], p); err == nil {
				out = append(out, it)
			}
		}
	}
	return out
}

// Shift returns the total time advance applied so far.
func (s *Store) Shift() time.Duration {
	s.mu.Lock()
	defer s.mu.Unlock()
	return s.shift
}

// AdvanceTime moves the IPAM clock forward by d: every stored block's AffinityClaimTime and every
// allocation attribute's ReleasedAt is shifted backwards by d.  Revisions do not change (a clock
// tick is not a write).  d is rounded to whole seconds (the datastore's timestamp resolution).
func (s *Store) AdvanceTime(d time.Duration) error {
	d = d.Round(time.Second)
	s.mu.Lock()
	defer s.mu.Unlock()
	for path, e := range s.data {
		if _, ok := e.key.(model.BlockKey); !ok {
			continue
		}
		v, err := model.ParseValue(e.key, e.raw)
		if err != nil {
			return err
		}
		b := v.(*model.AllocationBlock)
		if b.AffinityClaimTime != nil {
			t := metav1.NewTime(b.AffinityClaimTime.Add(-d))
			b.AffinityClaimTime = &t
		}
		for i := range b.Attributes {
			if b.Attributes[i].ReleasedAt != nil {
				t := metav1.NewTime(b.Attributes[i].ReleasedAt.Add(-d))
				b.Attributes[i].ReleasedAt = &t
			}
		}
		raw, err := model.SerializeValue(&model.KVPair{Key: e.key, Value: b})
		if err != nil {
			return err
		}
		s.data[path].raw = raw
	}
	s.shift += d
	return nil
}

// ---- internals ----------------------------------------------------------------------------------------

func (s *Store) sortedPaths() []string {
	ps := make([]string, 0, len(s.data))
	for p := range s.data {
		ps = append(ps, p)
	}
	sort.Strings(ps)
	return ps
}

func (s *Store) item(e *entry, path string) (Item, error) {
	v, err := model.ParseValue(e.key, e.raw)
	if err != nil {
		return Item{}, err
	}
	return Item{Key: e.key, Path: path, Rev: fmt.Sprint(e.rev), Value: v}, nil
}

func copyValue(key model.Key, v any) (any, []byte, error) {
	raw, err := model.SerializeValue(&model.KVPair{Key: key, Value: v})
	if err != nil {
		return nil, nil, err
	}
	c, err := model.ParseValue(key, raw)
	return c, raw, err
}

func kvpOf(it Item) *model.KVPair {
	return &model.KVPair{Key: it.Key, Value: it.Value, Revision: it.Rev}
}

// gate blocks until the scheduler lets this call through (if a scheduler is attached and the call is
// subject to it) and returns the fault decided for it.
func (s *Store) gate(ci *CallInfo) Fault {
	s.mu.Lock()
	sc, f := s.sched, s.filter
	s.mu.Unlock()
	if sc == nil || (f != nil && !f(ci)) {
		return FaultNone
	}
	return sc.arrive(ci)
}

// record finishes a call record; must be called with the mutex held.
func (s *Store) record(c *Call) {
	s.n++
	c.N = s.n
	c.At = time.Now()
	c.Shift = s.shift
	c.OK = c.Err == nil
	if s.keepLog {
		s.log = append(s.log, c)
	}
	if s.recorder != nil {
		s.recorder(c)
	}
}

func (s *Store) faulted(c *Call, f Fault) error {
	switch f {
	case FaultConflict:
		c.ErrKind, c.Err = "conflict", cerrors.ErrorResourceUpdateConflict{Identifier: c.Key, Err: fmt.Errorf("memkv: injected conflict")}
	default:
		c.ErrKind, c.Err = "error", cerrors.ErrorDatastoreError{Identifier: c.Key, Err: fmt.Errorf("memkv: injected transport error")}
	}
	c.Fault = f
	s.mu.Lock()
	s.record(c)
	s.mu.Unlock()
	return c.Err
}

// Client implements bapi.Client on top of a Store for one client identity.
type Client struct {
	s    *Store
	name string
}

var _ bapi.Client = (*Client)(nil)

// Name returns the client identity.
func (c *Client) Name() string { return c.name }

// Store returns the underlying store.
func (c *Client) Store() *Store { return c.s }

func (c *Client) write(op string, d *model.KVPair, rev string) (*model.KVPair, error) {
	path, err := model.KeyToDefaultPath(d.Key)
	if err != nil {
		return nil, err
	}
	call := &Call{CallInfo: CallInfo{Client: c.name, Op: op, Key: d.Key, Path: path, RevIn: rev}}
	val, raw, err := copyValue(d.Key, d.Value)
	if err != nil {
		return nil, cerrors.ErrorDatastoreError{Identifier: d.Key, Err: err}
	}
	call.Value = val
	if f := c.s.gate(&call.CallInfo); f != FaultNone {
		return nil, c.s.faulted(call, f)
	}
	s := c.s
	s.mu.Lock()
	defer s.mu.Unlock()
	e, present := s.data[path]
	switch op {
	case "create":
		if present {
			it, _ := s.item(e, path)
			call.ErrKind, call.Err = "exists", cerrors.ErrorResourceAlreadyExists{Identifier: d.Key}
			call.Result = []Item{it}
			s.record(call)
			return kvpOf(it), call.Err
		}
	case "update":
		if !present {
			call.ErrKind, call.Err = "notfound", cerrors.ErrorResourceDoesNotExist{Identifier: d.Key}
			s.record(call)
			return nil, call.Err
		}
		if rev != "" && rev != fmt.Sprint(e.rev) {
			it, _ := s.item(e, path)
			call.ErrKind, call.Err = "conflict", cerrors.ErrorResourceUpdateConflict{Identifier: d.Key}
			call.Result = []Item{it}
			s.record(call)
			return kvpOf(it), call.Err
		}
	}
	s.rev++
	s.data[path] = &entry{key: d.Key, raw: raw, rev: s.rev}
	call.NewRev = fmt.Sprint(s.rev)
	s.record(call)
	out, _ := model.ParseValue(d.Key, raw)
	return &model.KVPair{Key: d.Key, Value: out, Revision: call.NewRev, UID: d.UID}, nil
}

// Create stores a new object; it fails with ErrorResourceAlreadyExists when the key is present.
func (c *Client) Create(ctx context.Context, d *model.KVPair) (*model.KVPair, error) {
	return c.write("create", d, "")
}

// Update replaces an object if d.Revision is the stored revision (or is empty: unconditional).
func (c *Client) Update(ctx context.Context, d *model.KVPair) (*model.KVPair, error) {
	return c.write("update", d, d.Revision)
}

// Apply creates or replaces an object unconditionally.
func (c *Client) Apply(ctx context.Context, d *model.KVPair) (*model.KVPair, error) {
	return c.write("apply", d, d.Revision)
}

// DeleteKVP deletes d.Key if d.Revision is the stored revision (or is empty).
func (c *Client) DeleteKVP(ctx context.Context, d *model.KVPair) (*model.KVPair, error) {
	return c.Delete(ctx, d.Key, d.Revision)
}

// Delete removes the object if revision is the stored revision (or is empty: unconditional).
func (c *Client) Delete(ctx context.Context, k model.Key, revision string) (*model.KVPair, error) {
	path, err := model.KeyToDefaultDeletePath(k)
	if err != nil {
		return nil, err
	}
	call := &Call{CallInfo: CallInfo{Client: c.name, Op: "delete", Key: k, Path: path, RevIn: revision}}
	if f := c.s.gate(&call.CallInfo); f != FaultNone {
		return nil, c.s.faulted(call, f)
	}
	s := c.s
	s.mu.Lock()
	defer s.mu.Unlock()
	e, present := s.data[path]
	if !present {
		call.ErrKind, call.Err = "notfound", cerrors.ErrorResourceDoesNotExist{Identifier: k}
		s.record(call)
		return nil, call.Err
	}
	it, _ := s.item(e, path)
	call.Result = []Item{it}
	if revision != "" && revision != it.Rev {
		call.ErrKind, call.Err = "conflict", cerrors.ErrorResourceUpdateConflict{Identifier: k}
		s.record(call)
		return kvpOf(it), call.Err
	}
	delete(s.data, path)
	s.rev++ // a delete consumes a revision, like an etcd transaction
	s.record(call)
	return kvpOf(it), nil
}

// Get reads the current object (the revision argument is ignored: only current reads are supported).
func (c *Client) Get(ctx context.Context, k model.Key, revision string) (*model.KVPair, error) {
	path, err := model.KeyToDefaultPath(k)
	if err != nil {
		return nil, err
	}
	call := &Call{CallInfo: CallInfo{Client: c.name, Op: "get", Key: k, Path: path}}
	if f := c.s.gate(&call.CallInfo); f != FaultNone {
		if f == FaultConflict {
			f = FaultError // a read cannot conflict
		}
		return nil, c.s.faulted(call, f)
	}
	s := c.s
	s.mu.Lock()
	defer s.mu.Unlock()
	e, present := s.data[path]
	if !present {
		call.ErrKind, call.Err = "notfound", cerrors.ErrorResourceDoesNotExist{Identifier: k}
		s.record(call)
		return nil, call.Err
	}
	it, err := s.item(e, path)
	if err != nil {
		call.ErrKind, call.Err = "error", cerrors.ErrorDatastoreError{Identifier: k, Err: err}
		s.record(call)
		return nil, call.Err
	}
	call.Result = []Item{it}
	s.record(call)
	return kvpOf(it), nil
}

// List returns the objects selected by the list options, exactly like the etcdv3 backend: prefix scan
// from the options' default path root, then the options' own KeyFromDefaultPath as the filter (and the
// label selector for LabelSelectingListInterface).  Results are sorted by path.
func (c *Client) List(ctx context.Context, l model.ListInterface, revision string) (*model.KVPairList, error) {
	root := model.ListOptionsToDefaultPathRoot(l)
	call := &Call{CallInfo: CallInfo{Client: c.name, Op: "list", List: l, Path: root}}
	if f := c.s.gate(&call.CallInfo); f != FaultNone {
		if f == FaultConflict {
			f = FaultError
		}
		return nil, c.s.faulted(call, f)
	}
	exact := false
	prefix := root
	if model.IsListOptionsLastSegmentPrefix(l) {
		// name prefix: plain prefix match
	} else if !model.ListOptionsIsFullyQualified(l) {
		if !strings.HasSuffix(prefix, "/") {
			prefix += "/"
		}
	} else {
		exact = true
	}
	s := c.s
	s.mu.Lock()
	defer s.mu.Unlock()
	out := &model.KVPairList{Revision: fmt.Sprint(s.rev)}
	for _, p := range s.sortedPaths() {
		if exact && p != prefix || !exact && !strings.HasPrefix(p, prefix) {
			continue
		}
		k := l.KeyFromDefaultPath(p)
		if k == nil {
			continue
		}
		it, err := s.item(s.data[p], p)
		if err != nil {
			continue
		}
		if ls, ok := l.(model.LabelSelectingListInterface); ok {
			if sel := ls.GetLabelSelector(); sel != nil {
				lab, ok := it.Value.(metav1.Object)
				if !ok || !sel.Matches(labelSet(lab.GetLabels())) {
					continue
				}
			}
		}
		it.Key = k
		call.Result = append(call.Result, it)
		out.KVPairs = append(out.KVPairs, kvpOf(it))
	}
	s.record(call)
	return out, nil
}

// Watch is not supported.
func (c *Client) Watch(ctx context.Context, l model.ListInterface, o bapi.WatchOptions) (bapi.WatchInterface, error) {
	return nil, cerrors.ErrorOperationNotSupported{Operation: "Watch", Identifier: l}
}

func (c *Client) EnsureInitialized() error { return nil }
func (c *Client) Clean() error {
	c.s.mu.Lock()
	c.s.data = map[string]*entry{}
	c.s.mu.Unlock()
	return nil
}
func (c *Client) Close() error { return nil }
