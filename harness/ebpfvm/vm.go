// Package ebpfvm is a small eBPF interpreter for the instruction subset that felix/bpf/asm emits for
// policy programs (felix/bpf/polprog): 64/32-bit ALU with immediate and register operands, loads and
// stores of 1/2/4/8 bytes, LoadImm64 (incl. the map-fd pseudo source), conditional and unconditional
// jumps, call of bpf_map_lookup_elem and bpf_tail_call, exit.
//
// Memory is a set of regions addressed by tagged 64-bit pointers: the 512-byte stack (R10 points to
// its top), the per-packet state (struct cali_tc_state, as laid out by felix/bpf/state), the program
// context (struct __sk_buff, only cb[] is meaningful) and one-word "map value" cells returned by
// successful IP-set lookups.  An access outside a region, an unknown opcode, an unknown helper or
// running for more than MaxSteps instructions is an error (never silently tolerated).
package ebpfvm

import (
	"encoding/binary"
	"fmt"
)

const (
	tagShift = 48
	TagStack = 0x1
	TagState = 0x2
	TagCtx   = 0x3
	TagMap   = 0x4 // map "fd" handles produced by LoadMapFD
	TagValue = 0x5 // pointer to a map value (IP set hit)

	StackSize = 512
	CtxSize   = 192
	MaxSteps  = 4_000_000
)

func ptr(tag uint64, off uint64) uint64 { return tag<<tagShift | off }

// Insn is one decoded instruction.
type Insn struct {
	Op  uint8
	Dst uint8
	Src uint8
	Off int16
	Imm int32
}

func Decode(raw [][8]byte) []Insn {
	out := make([]Insn, len(raw))
	for i, b := range raw {
		out[i] = Insn{
			Op:  b[0],
			Dst: b[1] & 0x0f,
			Src: b[1] >> 4,
			Off: int16(binary.LittleEndian.Uint16(b[2:4])),
			Imm: int32(binary.LittleEndian.Uint32(b[4:8])),
		}
	}
	return out
}

// Env is what the program can see and call.
type Env struct {
	State []byte // cali_tc_state bytes (mutated by the program)
	Ctx   []byte // __sk_buff bytes

	StateMapFD      uint32
	IPSetMapFD      uint32
	StaticJumpMapFD uint32
	PolicyJumpMapFD uint32

	// IPSetLookup is called with the key bytes the program built on its stack (KeySize bytes).
	IPSetLookup func(key []byte) bool
	IPSetKeySize int

	// Programs reachable through the policy jump map: index -> program.
	PolicyProgs map[int32][]Insn
}

// Result of running a (chain of) program(s).
type Result struct {
	Exit        uint64 // R0 at exit (only meaningful if !TailStatic)
	TailStatic  bool   // ended with a successful tail call into the static jump map
	TailIndex   int32  // index used for that tail call
	Steps       int
	SubPrograms int // number of policy sub-programs entered (1 = no split)
	Err         error
}

type vm struct {
	env   *Env
	reg   [11]uint64
	stack [StackSize]byte
	steps int
}

func (m *vm) region(p uint64, size int) ([]byte, error) {
	tag, off := p>>tagShift, p&((1<<tagShift)-1)
	var mem []byte
	switch tag {
	case TagStack:
		mem = m.stack[:]
	case TagState:
		mem = m.env.State
	case TagCtx:
		mem = m.env.Ctx
	default:
		return nil, fmt.Errorf("access through non-memory pointer %#x", p)
	}
	if off+uint64(size) > uint64(len(mem)) {
		return nil, fmt.Errorf("out-of-bounds access tag=%d off=%d size=%d", tag, off, size)
	}
	return mem[off : off+uint64(size)], nil
}

func sizeOf(op uint8) int {
	switch op & 0x18 {
	case 0x10:
		return 1
	case 0x08:
		return 2
	case 0x00:
		return 4
	default:
		return 8
	}
}

func (m *vm) load(p uint64, size int) (uint64, error) {
	b, err := m.region(p, size)
	if err != nil {
		return 0, err
	}
	switch size {
	case 1:
		return uint64(b[0]), nil
	case 2:
		return uint64(binary.LittleEndian.Uint16(b)), nil
	case 4:
		return uint64(binary.LittleEndian.Uint32(b)), nil
	}
	return binary.LittleEndian.Uint64(b), nil
}

func (m *vm) store(p uint64, size int, v uint64) error {
	b, err := m.region(p, size)
	if err != nil {
		return err
	}
	switch size {
	case 1:
		b[0] = uint8(v)
	case 2:
		binary.LittleEndian.PutUint16(b, uint16(v))
	case 4:
		binary.LittleEndian.PutUint32(b, uint32(v))
	default:
		binary.LittleEndian.PutUint64(b, v)
	}
	return nil
}

func bswap(v uint64, bits int32) (uint64, error) {
	switch bits {
	case 16:
		x := uint16(v)
		return uint64(x<<8 | x>>8), nil
	case 32:
		x := uint32(v)
		return uint64(x<<24 | (x<<8)&0xff0000 | (x>>8)&0xff00 | x>>24), nil
	case 64:
		var b [8]byte
		binary.LittleEndian.PutUint64(b[:], v)
		return binary.BigEndian.Uint64(b[:]), nil
	}
	return 0, fmt.Errorf("bad endian width %d", bits)
}

func alu(op uint8, is64 bool, dst, src uint64, imm int32) (uint64, error) {
	if !is64 {
		dst, src = uint64(uint32(dst)), uint64(uint32(src))
	}
	var r uint64
	switch op & 0xf0 {
	case 0x00:
		r = dst + src
	case 0x10:
		r = dst - src
	case 0x20:
		r = dst * src
	case 0x30:
		if src == 0 {
			r = 0
		} else {
			r = dst / src
		}
	case 0x40:
		r = dst | src
	case 0x50:
		r = dst & src
	case 0x60:
		if is64 {
			r = dst << (src & 63)
		} else {
			r = dst << (src & 31)
		}
	case 0x70:
		if is64 {
			r = dst >> (src & 63)
		} else {
			r = dst >> (src & 31)
		}
	case 0x80:
		r = -dst
	case 0x90:
		if src == 0 {
			r = dst
		} else {
			r = dst % src
		}
	case 0xa0:
		r = dst ^ src
	case 0xb0:
		r = src
	case 0xc0:
		if is64 {
			r = uint64(int64(dst) >> (src & 63))
		} else {
			r = uint64(uint32(int32(uint32(dst)) >> (src & 31)))
		}
	case 0xd0:
		// endian: imm = width; source bit 0x08 set => to/from BE (swap on a little-endian host)
		if op&0x08 != 0 {
			return bswap(dst, imm)
		}
		switch imm {
		case 16:
			return dst & 0xffff, nil
		case 32:
			return dst & 0xffffffff, nil
		}
		return dst, nil
	default:
		return 0, fmt.Errorf("unknown ALU op %#x", op)
	}
	if !is64 {
		r = uint64(uint32(r))
	}
	return r, nil
}

func cond(op uint8, is64 bool, a, b uint64) (bool, error) {
	var sa, sb int64
	if is64 {
		sa, sb = int64(a), int64(b)
	} else {
		a, b = uint64(uint32(a)), uint64(uint32(b))
		sa, sb = int64(int32(uint32(a))), int64(int32(uint32(b)))
	}
	switch op & 0xf0 {
	case 0x10:
		return a == b, nil
	case 0x20:
		return a > b, nil
	case 0x30:
		return a >= b, nil
	case 0x40:
		return a&b != 0, nil
	case 0x50:
		return a != b, nil
	case 0x60:
		return sa > sb, nil
	case 0x70:
		return sa >= sb, nil
	case 0xa0:
		return a < b, nil
	case 0xb0:
		return a <= b, nil
	case 0xc0:
		return sa < sb, nil
	case 0xd0:
		return sa <= sb, nil
	}
	return false, fmt.Errorf("unknown jump op %#x", op)
}

// Run executes prog (entry sub-program) to completion, following tail calls through the policy jump map.
func Run(env *Env, prog []Insn) Result {
	m := &vm{env: env}
	res := Result{SubPrograms: 1}
	cur := prog
restart:
	for i := range m.reg {
		m.reg[i] = 0
	}
	m.reg[1] = ptr(TagCtx, 0)
	m.reg[10] = ptr(TagStack, StackSize)
	pc := 0
	for {
		if m.steps++; m.steps > MaxSteps {
			res.Err = fmt.Errorf("step limit exceeded (non-termination?)")
			break
		}
		if pc < 0 || pc >= len(cur) {
			res.Err = fmt.Errorf("pc %d out of program (len %d)", pc, len(cur))
			break
		}
		in := cur[pc]
		pc++
		class := in.Op & 0x07
		switch class {
		case 0x07, 0x04: // ALU64, ALU32
			src := uint64(int64(in.Imm))
			if in.Op&0x08 != 0 && in.Op&0xf0 != 0xd0 {
				src = m.reg[in.Src]
			}
			if in.Dst > 9 {
				res.Err = fmt.Errorf("write to r%d", in.Dst)
				goto done
			}
			r, err := alu(in.Op, class == 0x07, m.reg[in.Dst], src, in.Imm)
			if err != nil {
				res.Err = err
				goto done
			}
			m.reg[in.Dst] = r
		case 0x00: // LoadImm64 (two slots)
			if in.Op != 0x18 || pc >= len(cur) {
				res.Err = fmt.Errorf("bad ld class opcode %#x", in.Op)
				goto done
			}
			hi := cur[pc]
			pc++
			v := uint64(uint32(in.Imm)) | uint64(uint32(hi.Imm))<<32
			if in.Src == 1 { // pseudo map fd
				v = ptr(TagMap, uint64(uint32(in.Imm)))
			}
			m.reg[in.Dst] = v
		case 0x01: // LDX mem
			if in.Op&0xe0 != 0x60 {
				res.Err = fmt.Errorf("unsupported load mode %#x", in.Op)
				goto done
			}
			v, err := m.load(m.reg[in.Src]+uint64(int64(in.Off)), sizeOf(in.Op))
			if err != nil {
				res.Err = fmt.Errorf("pc %d: %w", pc-1, err)
				goto done
			}
			m.reg[in.Dst] = v
		case 0x03, 0x02: // STX mem, ST imm
			if in.Op&0xe0 != 0x60 && class == 0x03 {
				res.Err = fmt.Errorf("unsupported store mode %#x", in.Op)
				goto done
			}
			v := m.reg[in.Src]
			if class == 0x02 {
				v = uint64(int64(in.Imm))
			}
			if err := m.store(m.reg[in.Dst]+uint64(int64(in.Off)), sizeOf(in.Op), v); err != nil {
				res.Err = fmt.Errorf("pc %d: %w", pc-1, err)
				goto done
			}
		case 0x05, 0x06: // JMP64, JMP32
			switch in.Op & 0xf0 {
			case 0x00:
				if class != 0x05 {
					res.Err = fmt.Errorf("ja in jmp32 class")
					goto done
				}
				pc += int(in.Off)
			case 0x80: // call
				if err := m.call(in.Imm, &res, &cur, &pc); err != nil {
					res.Err = fmt.Errorf("pc %d: %w", pc-1, err)
					goto done
				}
				if res.TailStatic {
					goto done
				}
				if pc == -1 { // tail call into another policy sub-program
					res.SubPrograms++
					goto restart
				}
			case 0x90: // exit
				res.Exit = m.reg[0]
				goto done
			default:
				b := uint64(int64(in.Imm))
				if in.Op&0x08 != 0 {
					b = m.reg[in.Src]
				}
				t, err := cond(in.Op, class == 0x05, m.reg[in.Dst], b)
				if err != nil {
					res.Err = err
					goto done
				}
				if t {
					pc += int(in.Off)
				}
			}
		default:
			res.Err = fmt.Errorf("unknown instruction class %#x", in.Op)
			goto done
		}
	}
done:
	res.Steps = m.steps
	return res
}

func (m *vm) call(helper int32, res *Result, cur *[]Insn, pc *int) error {
	switch helper {
	case 1: // bpf_map_lookup_elem(map, key)
		mp, key := m.reg[1], m.reg[2]
		if mp>>tagShift != TagMap {
			return fmt.Errorf("map_lookup_elem: r1 is not a map handle: %#x", mp)
		}
		fd := uint32(mp)
		var ret uint64
		switch fd {
		case m.env.StateMapFD:
			k, err := m.load(key, 4)
			if err != nil {
				return err
			}
			if k == 0 {
				ret = ptr(TagState, 0)
			}
		case m.env.IPSetMapFD:
			kb, err := m.region(key, m.env.IPSetKeySize)
			if err != nil {
				return err
			}
			if m.env.IPSetLookup(append([]byte(nil), kb...)) {
				ret = ptr(TagValue, 0)
			}
		default:
			return fmt.Errorf("map_lookup_elem on unexpected map fd %d", fd)
		}
		m.reg[0] = ret
		for i := 1; i <= 5; i++ { // caller-saved registers are clobbered by a call
			m.reg[i] = 0xdead_beef_dead_beef
		}
	case 12: // bpf_tail_call(ctx, map, index)
		mp, idx := m.reg[2], int32(uint32(m.reg[3]))
		if m.reg[1] != ptr(TagCtx, 0) {
			return fmt.Errorf("tail_call: r1 is not the context: %#x", m.reg[1])
		}
		if mp>>tagShift != TagMap {
			return fmt.Errorf("tail_call: r2 is not a map handle: %#x", mp)
		}
		switch uint32(mp) {
		case m.env.StaticJumpMapFD:
			res.TailStatic = true
			res.TailIndex = idx
		case m.env.PolicyJumpMapFD:
			if p, ok := m.env.PolicyProgs[idx]; ok {
				*cur = p
				*pc = -1
				return nil
			}
			// missing program: the tail call fails and execution falls through
		default:
			return fmt.Errorf("tail_call on unexpected map fd %d", uint32(mp))
		}
		for i := 0; i <= 5; i++ {
			if !res.TailStatic {
				m.reg[i] = 0xdead_beef_dead_beef
			}
		}
	default:
		return fmt.Errorf("unsupported helper %d", helper)
	}
	return nil
}
