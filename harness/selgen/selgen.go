// Package selgen holds the purely syntactic helpers shared by the selector / label-index drivers:
// the AST JSON format of specs/lib/Selectors.tla, the export of the real parser's node tree to it,
// a grammar-directed generator, a renderer with many spellings, and token-level mutations.
// Nothing in here evaluates a selector.
package selgen

import (
	"fmt"
	"math/rand"
	"sort"
	"strings"

	"github.com/projectcalico/calico/libcalico-go/lib/selector/parser"
)

// N is a selector AST node (same shape as the JSON).
type N struct {
	Op   string
	K, V string
	Vs   []string
	A    *N
	Args []*N
}

func (n *N) JSON() map[string]any {
	switch n.Op {
	case "all", "global":
		return map[string]any{"op": n.Op}
	case "has":
		return map[string]any{"op": n.Op, "k": n.K}
	case "in", "notin":
		vs := append([]string{}, n.Vs...)
		return map[string]any{"op": n.Op, "k": n.K, "vs": vs}
	case "not":
		return map[string]any{"op": n.Op, "a": n.A.JSON()}
	case "and", "or":
		args := make([]any, len(n.Args))
		for i, a := range n.Args {
			args[i] = a.JSON()
		}
		return map[string]any{"op": n.Op, "args": args}
	default:
		return map[string]any{"op": n.Op, "k": n.K, "v": n.V}
	}
}

func FromJSON(v any) (*N, error) {
	m, ok := v.(map[string]any)
	if !ok {
		return nil, fmt.Errorf("node is not an object: %v", v)
	}
	op, _ := m["op"].(string)
	n := &N{Op: op}
	str := func(f string) string { s, _ := m[f].(string); return s }
	switch op {
	case "all", "global":
	case "has":
		n.K = str("k")
	case "eq", "ne", "contains", "startswith", "endswith":
		n.K, n.V = str("k"), str("v")
	case "in", "notin":
		n.K = str("k")
		if a, ok := m["vs"].([]any); ok {
			for _, x := range a {
				s, _ := x.(string)
				n.Vs = append(n.Vs, s)
			}
		}
	case "not":
		a, err := FromJSON(m["a"])
		if err != nil {
			return nil, err
		}
		n.A = a
	case "and", "or":
		a, _ := m["args"].([]any)
		for _, x := range a {
			c, err := FromJSON(x)
			if err != nil {
				return nil, err
			}
			n.Args = append(n.Args, c)
		}
		if len(n.Args) == 0 {
			return nil, fmt.Errorf("%s without operands", op)
		}
	default:
		return nil, fmt.Errorf("unknown op %q", op)
	}
	return n, nil
}

// Export converts the real parser's node tree to the AST JSON, node type by node type. strs collects
// every label value that occurs (for the character table).
func Export(n parser.Node, strs map[string]bool) map[string]any {
	kv := func(op, k, v string) map[string]any {
		strs[v] = true
		return map[string]any{"op": op, "k": k, "v": v}
	}
	set := func(op, k string, vs parser.StringSet) map[string]any {
		out := []string{}
		for _, h := range vs {
			out = append(out, h.Value())
			strs[h.Value()] = true
		}
		return map[string]any{"op": op, "k": k, "vs": out}
	}
	switch x := n.(type) {
	case *parser.AllNode:
		return map[string]any{"op": "all"}
	case *parser.GlobalNode:
		return map[string]any{"op": "global"}
	case *parser.HasNode:
		return map[string]any{"op": "has", "k": x.LabelName.Value()}
	case *parser.LabelEqValueNode:
		return kv("eq", x.LabelName.Value(), x.Value.Value())
	case *parser.LabelNeValueNode:
		return kv("ne", x.LabelName.Value(), x.Value.Value())
	case *parser.LabelContainsValueNode:
		return kv("contains", x.LabelName.Value(), x.Value.Value())
	case *parser.LabelStartsWithValueNode:
		return kv("startswith", x.LabelName.Value(), x.Value.Value())
	case *parser.LabelEndsWithValueNode:
		return kv("endswith", x.LabelName.Value(), x.Value.Value())
	case *parser.LabelInSetNode:
		return set("in", x.LabelName.Value(), x.Value)
	case *parser.LabelNotInSetNode:
		return set("notin", x.LabelName.Value(), x.Value)
	case *parser.NotNode:
		return map[string]any{"op": "not", "a": Export(x.Operand, strs)}
	case *parser.AndNode:
		args := make([]any, len(x.Operands))
		for i, o := range x.Operands {
			args[i] = Export(o, strs)
		}
		return map[string]any{"op": "and", "args": args}
	case *parser.OrNode:
		args := make([]any, len(x.Operands))
		for i, o := range x.Operands {
			args[i] = Export(o, strs)
		}
		return map[string]any{"op": "or", "args": args}
	}
	panic(fmt.Sprintf("selgen.Export: unknown node type %T (harness gap)", n))
}

// ExportRestrictions converts Selector.LabelRestrictions() field by field.
func ExportRestrictions(lr parser.LabelRestrictions, strs map[string]bool) map[string]any {
	out := map[string]any{}
	for k, r := range lr.All() {
		vals := []string{}
		for _, h := range r.MustHaveOneOfValues {
			vals = append(vals, h.Value())
			if strs != nil {
				strs[h.Value()] = true
			}
		}
		out[k.Value()] = map[string]any{
			"present": r.MustBePresent,
			"absent":  r.MustBeAbsent,
			"hasvals": r.MustHaveOneOfValues != nil,
			"vals":    vals,
		}
	}
	return out
}

// CharTable: string -> its characters (one-character strings), for the sub-string operators in TLA+.
func CharTable(strs map[string]bool) map[string][]string {
	out := map[string][]string{}
	for s := range strs {
		cs := []string{}
		for _, r := range s {
			cs = append(cs, string(r))
		}
		out[s] = cs
	}
	return out
}

// AllMaps enumerates every partial function keys -> vals in a fixed order.
func AllMaps(keys, vals []string) []map[string]string {
	out := []map[string]string{{}}
	for _, k := range keys {
		var next []map[string]string
		for _, m := range out {
			next = append(next, m)
			for _, v := range vals {
				c := map[string]string{}
				for a, b := range m {
					c[a] = b
				}
				c[k] = v
				next = append(next, c)
			}
		}
		out = next
	}
	return out
}

// ---- grammar-directed generator ---------------------------------------------------------------

type Gen struct {
	Rnd  *rand.Rand
	Keys []string
	Vals []string
}

func (g *Gen) key() string { return g.Keys[g.Rnd.Intn(len(g.Keys))] }
func (g *Gen) val() string { return g.Vals[g.Rnd.Intn(len(g.Vals))] }

func (g *Gen) Leaf() *N {
	switch g.Rnd.Intn(12) {
	case 0:
		return &N{Op: "all"}
	case 1:
		return &N{Op: "global"}
	case 2, 3:
		return &N{Op: "has", K: g.key()}
	case 4, 5:
		return &N{Op: "eq", K: g.key(), V: g.val()}
	case 6:
		return &N{Op: "ne", K: g.key(), V: g.val()}
	case 7:
		return &N{Op: []string{"contains", "startswith", "endswith"}[g.Rnd.Intn(3)], K: g.key(), V: g.val()}
	case 8, 9:
		return &N{Op: "in", K: g.key(), Vs: g.set()}
	default:
		return &N{Op: "notin", K: g.key(), Vs: g.set()}
	}
}

// set members are drawn with repetition (up to 5): repeated and unsorted members are what the
// parser's in-place sort/de-duplication has to cope with
func (g *Gen) set() []string {
	n := g.Rnd.Intn(6)
	vs := []string{}
	for i := 0; i < n; i++ {
		vs = append(vs, g.val())
	}
	return vs
}

// AST of nesting depth <= depth (0 = leaf).
func (g *Gen) AST(depth int) *N {
	if depth <= 0 {
		return g.Leaf()
	}
	if depth >= 2 && g.Rnd.Intn(6) == 0 {
		return g.SameLabelShape()
	}
	switch g.Rnd.Intn(7) {
	case 0:
		return g.Leaf()
	case 1, 2:
		return &N{Op: "not", A: g.AST(depth - 1)}
	default:
		op := "and"
		if g.Rnd.Intn(2) == 0 {
			op = "or"
		}
		n := 2 + g.Rnd.Intn(3)
		if g.Rnd.Intn(6) == 0 {
			n = 1
		}
		args := make([]*N, n)
		for i := range args {
			args[i] = g.AST(depth - 1)
		}
		return &N{Op: op, Args: args}
	}
}

// SameLabelShape: an AND of a leaf over label k with an OR of eq / in leaves over the SAME label whose
// values come in an arbitrary (typically unsorted) order, 2-4 of them; the OR is the later or the earlier
// operand.  The restriction derivation has to intersect / unite value lists that are not in sorted order.
func (g *Gen) SameLabelShape() *N {
	k := g.key()
	vals := append([]string{}, g.Vals...)
	g.Rnd.Shuffle(len(vals), func(i, j int) { vals[i], vals[j] = vals[j], vals[i] })
	n := 2 + g.Rnd.Intn(3)
	if n > len(vals) {
		n = len(vals)
	}
	or := &N{Op: "or"}
	for _, v := range vals[:n] {
		if g.Rnd.Intn(4) == 0 {
			or.Args = append(or.Args, &N{Op: "in", K: k, Vs: []string{v, vals[g.Rnd.Intn(len(vals))]}})
		} else {
			or.Args = append(or.Args, &N{Op: "eq", K: k, V: v})
		}
	}
	var leaf *N
	switch g.Rnd.Intn(4) {
	case 0:
		leaf = &N{Op: "has", K: k}
	case 1:
		leaf = &N{Op: "eq", K: k, V: vals[g.Rnd.Intn(len(vals))]}
	default:
		set := append([]string{}, g.Vals...)
		g.Rnd.Shuffle(len(set), func(i, j int) { set[i], set[j] = set[j], set[i] })
		leaf = &N{Op: "in", K: k, Vs: set[:1+g.Rnd.Intn(len(set))]}
	}
	and := &N{Op: "and", Args: []*N{leaf, or}}
	switch g.Rnd.Intn(4) {
	case 0:
		and.Args = []*N{or, leaf}
	case 1:
		and.Args = []*N{leaf, or, g.Leaf()}
	}
	return and
}

// ---- rendering ------------------------------------------------------------------------------------

// Style chooses among the spellings the grammar allows. Rnd == nil means deterministic choices.
type Style struct {
	Rnd         *rand.Rand
	SingleQuote bool    // prefer '...' where the value allows it
	Dense       bool    // no optional whitespace
	ExtraParens float64 // probability of a redundant pair of parentheses
	Flatten     bool    // omit parentheses around an operand with the same operator
	WordAlt     bool    // "notin", "startswith", "endswith", "has( k )", "all( )"
	ManyNots    bool    // "!!!" instead of "!"
	SetNoise    bool    // shuffle / duplicate set members, trailing comma
	SetRevDup   bool    // deterministic: members in reverse order, each one twice ({"b","b","a","a"})
}

func PlainStyle() *Style { return &Style{} }
func DenseStyle() *Style {
	return &Style{SingleQuote: true, Dense: true, WordAlt: true, ManyNots: true, Flatten: true, SetRevDup: true}
}
func RandomStyle(rnd *rand.Rand) *Style {
	return &Style{Rnd: rnd, SingleQuote: rnd.Intn(2) == 0, Dense: rnd.Intn(3) == 0, ExtraParens: []float64{0, 0.15, 0.4}[rnd.Intn(3)],
		Flatten: rnd.Intn(2) == 0, WordAlt: rnd.Intn(2) == 0, ManyNots: rnd.Intn(3) == 0, SetNoise: rnd.Intn(2) == 0, SetRevDup: rnd.Intn(3) == 0}
}

func (st *Style) chance(p float64) bool { return st.Rnd != nil && st.Rnd.Float64() < p }

func (st *Style) quote(v string) string {
	q := `"`
	if st.SingleQuote {
		q = `'`
	}
	if st.Rnd != nil && st.Rnd.Intn(4) == 0 {
		if q == `"` {
			q = `'`
		} else {
			q = `"`
		}
	}
	if strings.Contains(v, `"`) {
		q = `'`
	} else if strings.Contains(v, `'`) {
		q = `"`
	}
	return q + v + q
}

func prec(n *N) int {
	switch n.Op {
	case "or":
		if len(n.Args) == 1 {
			return prec(n.Args[0])
		}
		return 1
	case "and":
		if len(n.Args) == 1 {
			return prec(n.Args[0])
		}
		return 2
	}
	return 3
}

// Tokens renders the AST as a token list (each token a string of the concrete syntax).
func Tokens(n *N, st *Style) []string {
	return st.tokens(n, 0)
}

func unwrap(n *N) *N {
	for (n.Op == "and" || n.Op == "or") && len(n.Args) == 1 {
		n = n.Args[0]
	}
	return n
}

func (st *Style) tokens(n *N, ctx int) []string {
	return st.tokensX(n, ctx, false)
}

// noExtra: never add redundant parentheses around this node (kept for callers that want a minimal
// rendering; the generators pass false everywhere, so "!(!x)", "!((!x))" etc. are produced freely -
// that shape was the C06 finding fixed in /repo 88cb2cf).
func (st *Style) tokensX(n *N, ctx int, noExtra bool) []string {
	var out []string
	n = unwrap(n)
	p := prec(n)
	paren := p < ctx || (p == ctx && p < 3 && !st.Flatten) || (!noExtra && st.chance(st.ExtraParens))
	switch n.Op {
	case "all":
		out = []string{st.alt("all()", "all( )")}
	case "global":
		out = []string{st.alt("global()", "global(\t)")}
	case "has":
		out = []string{st.alt("has("+n.K+")", "has( "+n.K+" )")}
	case "eq":
		out = []string{n.K, "==", st.quote(n.V)}
	case "ne":
		out = []string{n.K, "!=", st.quote(n.V)}
	case "contains":
		out = []string{n.K, "contains", st.quote(n.V)}
	case "startswith":
		out = []string{n.K, st.alt("starts with", "startswith"), st.quote(n.V)}
	case "endswith":
		out = []string{n.K, st.alt("ends with", "ends  with"), st.quote(n.V)}
	case "in", "notin":
		op := "in"
		if n.Op == "notin" {
			op = st.alt("not in", "notin")
		}
		out = []string{n.K, op, "{"}
		vs := append([]string{}, n.Vs...)
		if st.SetRevDup {
			rev := []string{}
			for i := len(vs) - 1; i >= 0; i-- {
				rev = append(rev, vs[i], vs[i])
			}
			vs = rev
		}
		if st.SetNoise && st.Rnd != nil && len(vs) > 0 {
			st.Rnd.Shuffle(len(vs), func(i, j int) { vs[i], vs[j] = vs[j], vs[i] })
			if st.Rnd.Intn(3) == 0 {
				vs = append(vs, vs[st.Rnd.Intn(len(vs))])
			}
		}
		for i, v := range vs {
			if i > 0 {
				out = append(out, ",")
			}
			out = append(out, st.quote(v))
		}
		if st.SetNoise && len(vs) > 0 && st.chance(0.3) {
			out = append(out, ",")
		}
		out = append(out, "}")
	case "not":
		nots := 1
		if st.ManyNots {
			nots = 3
		}
		for i := 0; i < nots; i++ {
			out = append(out, "!")
		}
		out = append(out, st.tokensX(n.A, 3, false)...)
	case "and", "or":
		sym := "&&"
		if n.Op == "or" {
			sym = "||"
		}
		for i, a := range n.Args {
			if i > 0 {
				out = append(out, sym)
			}
			out = append(out, st.tokens(a, p)...)
		}
	default:
		panic("selgen.Tokens: unknown op " + n.Op)
	}
	if paren {
		out = append(append([]string{"("}, out...), ")")
	}
	return out
}

func (st *Style) alt(a, b string) string {
	if st.WordAlt && (st.Rnd == nil || st.Rnd.Intn(2) == 0) {
		return b
	}
	return a
}

func identChar(c byte) bool {
	return c >= 'a' && c <= 'z' || c >= 'A' && c <= 'Z' || c >= '0' && c <= '9' || c == '_' || c == '.' || c == '/' || c == '-'
}

// Join concatenates tokens; whitespace is inserted where the lexical syntax requires it (between two
// tokens that would otherwise fuse into one identifier) and, depending on the style, elsewhere.
func Join(toks []string, st *Style) string {
	var b strings.Builder
	if st.Rnd != nil && st.Rnd.Intn(5) == 0 {
		b.WriteString(" ")
	}
	for i, t := range toks {
		if i > 0 {
			prev := toks[i-1]
			need := len(prev) > 0 && len(t) > 0 && identChar(prev[len(prev)-1]) && identChar(t[0])
			switch {
			case st.Rnd != nil && !st.Dense:
				ws := []string{" ", " ", "  ", "\t", " \t "}[st.Rnd.Intn(5)]
				if !need && st.Rnd.Intn(3) == 0 {
					ws = ""
				}
				b.WriteString(ws)
			case st.Dense:
				if need {
					b.WriteString(" ")
				}
			default:
				if need || !(prev == "(" || t == ")" || prev == "!" || prev == "{" || t == "}" || t == ",") {
					b.WriteString(" ")
				}
			}
		}
		b.WriteString(t)
	}
	if st.Rnd != nil && st.Rnd.Intn(5) == 0 {
		b.WriteString(" \t")
	}
	return b.String()
}

// Text is the plain rendering (used by drivers that only need *some* valid text for an AST).
func Text(n *N) string {
	st := PlainStyle()
	return Join(Tokens(n, st), st)
}

var junk = []string{"(", ")", "{", "}", ",", "!", "&&", "||", "&", "|", "=", "==", "!=", `"`, `'`, `"x"`, `'y'`, "in", "not in", "not",
	"contains", "starts with", "ends with", "starts", "with", "has(a)", "has(", "all()", "all(", "global()", "a", "b", "\n", "has", "all", ""}

// Trailers: tokens appended after a complete expression (every one tokenises).
var Trailers = []string{")", "}", ",", `"c"`, "'c'", "has(b)", "all()", "global()", "a", "!", "(", "{", "&&", "||", `b == "x"`, "in", "=="}

// Mutate applies one token-level mutation (drop / duplicate / transpose / insert / replace / truncate /
// break a string literal / append a trailing token).
func Mutate(rnd *rand.Rand, toks []string) []string {
	out := append([]string{}, toks...)
	if len(out) == 0 {
		return []string{junk[rnd.Intn(len(junk))]}
	}
	i := rnd.Intn(len(out))
	switch rnd.Intn(10) {
	case 8, 9: // trailing junk after a complete expression
		return append(out, Trailers[rnd.Intn(len(Trailers))])
	case 0: // drop
		out = append(out[:i], out[i+1:]...)
	case 1: // duplicate
		out = append(out[:i+1], out[i:]...)
	case 2: // transpose
		if i+1 < len(out) {
			out[i], out[i+1] = out[i+1], out[i]
		} else if i > 0 {
			out[i], out[i-1] = out[i-1], out[i]
		}
	case 3: // insert junk
		j := junk[rnd.Intn(len(junk))]
		out = append(out[:i], append([]string{j}, out[i:]...)...)
	case 4: // replace by junk
		out[i] = junk[rnd.Intn(len(junk))]
	case 5: // truncate
		out = out[:i]
	case 6: // unbalance: drop the first paren / brace found from i
		for k := 0; k < len(out); k++ {
			x := out[(i+k)%len(out)]
			if x == "(" || x == ")" || x == "{" || x == "}" {
				p := (i + k) % len(out)
				out = append(out[:p], out[p+1:]...)
				break
			}
		}
	case 7: // break a string literal: strip its closing quote, or swap its quote style half-way
		for k := 0; k < len(out); k++ {
			p := (i + k) % len(out)
			x := out[p]
			if len(x) >= 2 && (x[0] == '"' || x[0] == '\'') {
				if rnd.Intn(2) == 0 {
					out[p] = x[:len(x)-1]
				} else if x[0] == '"' {
					out[p] = x[:len(x)-1] + "'"
				} else {
					out[p] = x[:len(x)-1] + `"`
				}
				break
			}
		}
	}
	return out
}

const mutChars = "()!&|='\"{}, \tainhsx\n"

// CharMutate deletes / inserts / replaces one character of the text (rune-wise, so that the text
// stays valid UTF-8 and survives JSON encoding unchanged).
func CharMutate(rnd *rand.Rand, s string) string {
	rs := []rune(s)
	c := rune(mutChars[rnd.Intn(len(mutChars))])
	if len(rs) == 0 {
		return string(c)
	}
	i := rnd.Intn(len(rs))
	switch rnd.Intn(3) {
	case 0:
		return string(rs[:i]) + string(rs[i+1:])
	case 1:
		return string(rs[:i]) + string(c) + string(rs[i:])
	default:
		return string(rs[:i]) + string(c) + string(rs[i+1:])
	}
}

// SortedKeys is a small helper for deterministic iteration.
func SortedKeys[V any](m map[string]V) []string {
	ks := make([]string, 0, len(m))
	for k := range m {
		ks = append(ks, k)
	}
	sort.Strings(ks)
	return ks
}
