// Package nfparse converts rendered generictables rules (iptables fragments as produced by the real
// iptables renderer, nftables rule text as produced by the real nftables renderer) into the rule IR
// that specs/lib/Netfilter.tla executes.  The conversion is pure syntax: numbers are parsed, CIDRs
// become octet sequences + prefix length, masks become lists of bit positions, interface names become
// lists of character codes.  An element the converter does not understand is an error (the caller
// exits 2); it is never silently dropped, because a dropped match would change the program's meaning.
//
// IR (JSON):
//
//	program : {"flavour":"ipt"|"nft", "chains":{name:[rule...]}, "maps":{name:[{"key":[codes],"a":action}...]}}
//	rule    : {"m":[match...], "a":action}
//	match   : {"k":"proto","p":n,"neg":b}
//	          {"k":"net","side":"src"|"dst","c":{"a":[octets],"n":len},"neg":b}
//	          {"k":"ports","side":"src"|"dst","r":[[lo,hi]...],"neg":b,"l4":n}   l4=0: no implied protocol (iptables)
//	          {"k":"set","name":s,"dirs":["src"|"dst",...],"neg":b}
//	          {"k":"mark","mask":[bits],"val":[bits],"neg":b}
//	          {"k":"iface","dir":"in"|"out","name":[codes],"wild":b,"neg":b}
//	          {"k":"ct","states":[s...],"neg":b}                     states incl. the virtual "DNAT"
//	          {"k":"addrtype","side":"src"|"dst","type":"LOCAL","neg":b,"limitOut":b}
//	          {"k":"icmp","v":4|6,"type":t,"code":c|-1,"neg":b}      iptables icmp/icmp6 match (one negation for the pair)
//	          {"k":"icmpf","v":4|6,"f":"type"|"code","val":n,"neg":b,"bare":b}  nftables payload compare (implies
//	                                                                 l4proto); bare: field written without the icmp keyword
//	          {"k":"rpf","neg":b}                                    reverse-path check *failed*
//	          {"k":"ipvs","neg":b}
//	action  : {"k":"accept"|"drop"|"reject"|"return"|"none"|"notrack"|"offload"|"log"}
//	          {"k":"jump"|"goto","t":chain}
//	          {"k":"setmark","clr":[bits],"xor":[bits],"or":[bits]}   mark' = ((mark \ clr) xor xor) union or
//	          {"k":"vmap","dir":"in"|"out","map":name}                nft verdict map lookup on iifname/oifname
package nfparse

import (
	"fmt"
	"net"
	"strconv"
	"strings"
)

type M = map[string]any

type Rule struct {
	M []M `json:"m"`
	A M   `json:"a"`
}

type MapEntry struct {
	Key []int `json:"key"`
	A   M     `json:"a"`
}

type Program struct {
	Flavour string                `json:"flavour"`
	Chains  map[string][]Rule     `json:"chains"`
	Maps    map[string][]MapEntry `json:"maps"`
}

func NewProgram(flavour string) *Program {
	return &Program{Flavour: flavour, Chains: map[string][]Rule{}, Maps: map[string][]MapEntry{"_none": {}}}
}

// Bits returns the positions of the set bits of a 32-bit value, ascending.
func Bits(v uint32) []int {
	out := []int{}
	for i := 0; i < 32; i++ {
		if v&(1<<uint(i)) != 0 {
			out = append(out, i)
		}
	}
	return out
}

func parseU32(s string) (uint32, error) {
	v, err := strconv.ParseUint(s, 0, 32)
	if err != nil {
		return 0, fmt.Errorf("bad number %q", s)
	}
	return uint32(v), nil
}

// Codes is the list of character codes of an interface name.
func Codes(s string) []int {
	out := make([]int, 0, len(s))
	for _, b := range []byte(s) {
		out = append(out, int(b))
	}
	return out
}

// CIDR converts "10.0.0.0/8", "10.0.0.1", "fe80::/10" into {"a":[octets],"n":prefix}.
func CIDR(s string) (M, error) {
	var ip net.IP
	var n int
	if strings.Contains(s, "/") {
		i, nw, err := net.ParseCIDR(s)
		if err != nil {
			return nil, err
		}
		ip = i
		n, _ = nw.Mask.Size()
	} else {
		ip = net.ParseIP(s)
		if ip == nil {
			return nil, fmt.Errorf("bad IP %q", s)
		}
		n = -1
	}
	var oct []int
	if ip4 := ip.To4(); ip4 != nil && !strings.Contains(s, ":") {
		for _, b := range ip4 {
			oct = append(oct, int(b))
		}
		if n < 0 {
			n = 32
		}
	} else {
		for _, b := range ip.To16() {
			oct = append(oct, int(b))
		}
		if n < 0 {
			n = 128
		}
	}
	return M{"a": oct, "n": n}, nil
}

// Addr converts an IP string to its octet list.
func Addr(s string) ([]int, error) {
	c, err := CIDR(s)
	if err != nil {
		return nil, err
	}
	return c["a"].([]int), nil
}

var protoNames = map[string]int{
	"icmp": 1, "ipencap": 4, "ipip": 4, "tcp": 6, "udp": 17, "ipv6-icmp": 58, "icmpv6": 58, "icmp6": 58,
	"sctp": 132, "udplite": 136, "dccp": 33, "gre": 47, "esp": 50, "ah": 51,
}

// ProtoNum converts a protocol given by name or by number (as both iptables and nft accept).
func ProtoNum(s string) (int, error) {
	if v, err := strconv.Atoi(s); err == nil {
		if v < 0 || v > 255 {
			return 0, fmt.Errorf("protocol out of range %q", s)
		}
		return v, nil
	}
	if v, ok := protoNames[strings.ToLower(s)]; ok {
		return v, nil
	}
	return 0, fmt.Errorf("unknown protocol %q", s)
}

func parsePortRanges(items []string, sep string) ([][]int, error) {
	out := [][]int{}
	for _, it := range items {
		it = strings.TrimSpace(it)
		if it == "" {
			return nil, fmt.Errorf("empty port item")
		}
		lo, hi := it, it
		if i := strings.Index(it, sep); i >= 0 {
			lo, hi = it[:i], it[i+len(sep):]
		}
		a, err := strconv.Atoi(lo)
		if err != nil {
			return nil, fmt.Errorf("bad port %q", it)
		}
		b, err := strconv.Atoi(hi)
		if err != nil {
			return nil, fmt.Errorf("bad port %q", it)
		}
		if a < 0 || b > 65535 {
			return nil, fmt.Errorf("port out of range %q", it)
		}
		out = append(out, []int{a, b})
	}
	return out, nil
}

// tokenize splits on blanks, keeping double-quoted strings (with their content) as one token.
func tokenize(s string) ([]string, error) {
	var out []string
	i := 0
	for i < len(s) {
		if s[i] == ' ' {
			i++
			continue
		}
		if s[i] == '"' {
			j := strings.IndexByte(s[i+1:], '"')
			if j < 0 {
				return nil, fmt.Errorf("unterminated quote in %q", s)
			}
			out = append(out, s[i:i+j+2])
			i += j + 2
			continue
		}
		j := i
		for j < len(s) && s[j] != ' ' {
			j++
		}
		out = append(out, s[i:j])
		i = j
	}
	return out, nil
}
