package nfparse

import (
	"fmt"
	"strconv"
	"strings"
)

// ParseIptables converts one rule as rendered by iptables.IptablesRenderer.RenderAppend
// ("-A <chain> [-m comment --comment "..."]* <match fragments> <action fragment>") into (chain, rule).
func ParseIptables(line string) (string, Rule, error) {
	toks, err := tokenize(line)
	if err != nil {
		return "", Rule{}, err
	}
	p := &iptParser{toks: toks, line: line}
	return p.parse()
}

type iptParser struct {
	toks []string
	i    int
	line string
}

func (p *iptParser) errf(f string, a ...any) error {
	return fmt.Errorf("iptables: %s (at token %d of %q)", fmt.Sprintf(f, a...), p.i, p.line)
}

func (p *iptParser) more() bool { return p.i < len(p.toks) }
func (p *iptParser) peek() string {
	if p.more() {
		return p.toks[p.i]
	}
	return ""
}

func (p *iptParser) next() (string, error) {
	if !p.more() {
		return "", p.errf("unexpected end")
	}
	t := p.toks[p.i]
	p.i++
	return t, nil
}

func (p *iptParser) parse() (string, Rule, error) {
	r := Rule{M: []M{}, A: M{"k": "none"}}
	chain := ""
	neg := false
	haveAction := false
	takeNeg := func() bool { n := neg; neg = false; return n }
	for p.more() {
		t, _ := p.next()
		if haveAction {
			return "", r, p.errf("tokens after the action: %q", t)
		}
		switch t {
		case "-A":
			c, err := p.next()
			if err != nil {
				return "", r, err
			}
			chain = c
		case "!":
			if neg {
				return "", r, p.errf("double negation")
			}
			neg = true
			continue
		case "-m":
			mod, err := p.next()
			if err != nil {
				return "", r, err
			}
			switch mod {
			case "comment":
				if t2, _ := p.next(); t2 != "--comment" {
					return "", r, p.errf("expected --comment")
				}
				if _, err := p.next(); err != nil {
					return "", r, err
				}
			case "mark", "set", "multiport", "conntrack", "addrtype", "icmp", "icmp6", "tcp", "udp":
				// options follow
			case "rpfilter":
				// "-m rpfilter --invert --validmark": the reverse path check failed
				if a, _ := p.next(); a != "--invert" {
					return "", r, p.errf("rpfilter without --invert is not modelled")
				}
				if a, _ := p.next(); a != "--validmark" {
					return "", r, p.errf("rpfilter: expected --validmark")
				}
				r.M = append(r.M, M{"k": "rpf", "neg": false})
			case "ipvs":
				n := false
				if p.peek() == "!" {
					p.i++
					n = true
				}
				if a, _ := p.next(); a != "--ipvs" {
					return "", r, p.errf("ipvs: expected --ipvs")
				}
				r.M = append(r.M, M{"k": "ipvs", "neg": n})
			default:
				return "", r, p.errf("unsupported match module %q", mod)
			}
			if neg {
				return "", r, p.errf("negation before -m")
			}
		case "-p":
			v, err := p.next()
			if err != nil {
				return "", r, err
			}
			n, err := ProtoNum(v)
			if err != nil {
				return "", r, p.errf("%v", err)
			}
			r.M = append(r.M, M{"k": "proto", "p": n, "neg": takeNeg()})
		case "--source", "--destination":
			v, err := p.next()
			if err != nil {
				return "", r, err
			}
			c, err := CIDR(v)
			if err != nil {
				return "", r, p.errf("%v", err)
			}
			side := "src"
			if t == "--destination" {
				side = "dst"
			}
			r.M = append(r.M, M{"k": "net", "side": side, "c": c, "neg": takeNeg()})
		case "--in-interface", "--out-interface":
			v, err := p.next()
			if err != nil {
				return "", r, err
			}
			dir := "in"
			if t == "--out-interface" {
				dir = "out"
			}
			wild := strings.HasSuffix(v, "+")
			name := strings.TrimSuffix(v, "+")
			r.M = append(r.M, M{"k": "iface", "dir": dir, "name": Codes(name), "wild": wild, "neg": takeNeg()})
		case "--mark":
			v, err := p.next()
			if err != nil {
				return "", r, err
			}
			val, mask, err := splitMark(v)
			if err != nil {
				return "", r, p.errf("%v", err)
			}
			r.M = append(r.M, M{"k": "mark", "mask": Bits(mask), "val": Bits(val), "neg": takeNeg()})
		case "--match-set":
			name, err := p.next()
			if err != nil {
				return "", r, err
			}
			flags, err := p.next()
			if err != nil {
				return "", r, err
			}
			dirs := []string{}
			for _, f := range strings.Split(flags, ",") {
				if f != "src" && f != "dst" {
					return "", r, p.errf("bad set flag %q", f)
				}
				dirs = append(dirs, f)
			}
			r.M = append(r.M, M{"k": "set", "name": name, "dirs": dirs, "neg": takeNeg()})
		case "--source-ports", "--destination-ports", "--sports", "--dports", "--sport", "--dport":
			v, err := p.next()
			if err != nil {
				return "", r, err
			}
			rs, err := parsePortRanges(strings.Split(v, ","), ":")
			if err != nil {
				return "", r, p.errf("%v", err)
			}
			side := "src"
			if strings.HasPrefix(t, "--d") {
				side = "dst"
			}
			r.M = append(r.M, M{"k": "ports", "side": side, "r": rs, "neg": takeNeg(), "l4": 0})
		case "--ctstate":
			v, err := p.next()
			if err != nil {
				return "", r, err
			}
			st := []string{}
			for _, s := range strings.Split(v, ",") {
				switch s {
				case "NEW", "ESTABLISHED", "RELATED", "INVALID", "UNTRACKED", "DNAT", "SNAT":
					st = append(st, s)
				default:
					return "", r, p.errf("unknown ctstate %q", s)
				}
			}
			r.M = append(r.M, M{"k": "ct", "states": st, "neg": takeNeg()})
		case "--src-type", "--dst-type":
			v, err := p.next()
			if err != nil {
				return "", r, err
			}
			side := "src"
			if t == "--dst-type" {
				side = "dst"
			}
			lim := false
			if p.peek() == "--limit-iface-out" {
				p.i++
				lim = true
			}
			r.M = append(r.M, M{"k": "addrtype", "side": side, "type": v, "neg": takeNeg(), "limitOut": lim})
		case "--icmp-type", "--icmpv6-type":
			v, err := p.next()
			if err != nil {
				return "", r, err
			}
			ty, code := v, "-1"
			if i := strings.Index(v, "/"); i >= 0 {
				ty, code = v[:i], v[i+1:]
			}
			tn, e1 := strconv.Atoi(ty)
			cn, e2 := strconv.Atoi(code)
			if e1 != nil || e2 != nil {
				return "", r, p.errf("bad icmp type %q", v)
			}
			ver := 4
			if t == "--icmpv6-type" {
				ver = 6
			}
			r.M = append(r.M, M{"k": "icmp", "v": ver, "type": tn, "code": cn, "neg": takeNeg()})
		case "--jump", "-j":
			tgt, err := p.next()
			if err != nil {
				return "", r, err
			}
			a, err := p.target(tgt)
			if err != nil {
				return "", r, err
			}
			r.A = a
			haveAction = true
		case "--goto", "-g":
			tgt, err := p.next()
			if err != nil {
				return "", r, err
			}
			r.A = M{"k": "goto", "t": tgt}
			haveAction = true
		default:
			return "", r, p.errf("unsupported token %q", t)
		}
		if neg {
			return "", r, p.errf("dangling negation")
		}
	}
	if chain == "" {
		return "", r, p.errf("no -A chain")
	}
	return chain, r, nil
}

func splitMark(v string) (val, mask uint32, err error) {
	i := strings.Index(v, "/")
	if i < 0 {
		val, err = parseU32(v)
		return val, 0xffffffff, err
	}
	val, err = parseU32(v[:i])
	if err != nil {
		return
	}
	mask, err = parseU32(v[i+1:])
	return
}

func (p *iptParser) target(tgt string) (M, error) {
	switch tgt {
	case "ACCEPT":
		return M{"k": "accept"}, nil
	case "DROP":
		return M{"k": "drop"}, nil
	case "RETURN":
		return M{"k": "return"}, nil
	case "NOTRACK":
		return M{"k": "notrack"}, nil
	case "REJECT":
		if p.peek() == "--reject-with" {
			p.i += 2
		}
		return M{"k": "reject"}, nil
	case "MARK":
		if o, _ := p.next(); o != "--set-mark" {
			return nil, p.errf("MARK: only --set-mark is modelled")
		}
		v, err := p.next()
		if err != nil {
			return nil, err
		}
		val, mask, err := splitMark(v)
		if err != nil {
			return nil, p.errf("%v", err)
		}
		// xt_MARK --set-mark value/mask: mark = (mark & ~mask) ^ value
		return M{"k": "setmark", "clr": Bits(mask), "xor": Bits(val), "or": []int{}}, nil
	case "LOG":
		for p.more() {
			o, _ := p.next()
			if o != "--log-prefix" && o != "--log-level" {
				return nil, p.errf("LOG: unsupported option %q", o)
			}
			if _, err := p.next(); err != nil {
				return nil, err
			}
		}
		return M{"k": "log"}, nil
	case "NFLOG":
		for p.more() {
			o, _ := p.next()
			switch o {
			case "--nflog-group", "--nflog-prefix", "--nflog-size", "--nflog-range":
				if _, err := p.next(); err != nil {
					return nil, err
				}
			default:
				return nil, p.errf("NFLOG: unsupported option %q", o)
			}
		}
		return M{"k": "log"}, nil
	case "DSCP", "MASQUERADE", "SNAT", "DNAT", "CONNMARK":
		return nil, p.errf("target %s is not modelled", tgt)
	}
	if tgt == strings.ToUpper(tgt) && !strings.Contains(tgt, "-") {
		return nil, p.errf("unknown built-in target %q", tgt)
	}
	return M{"k": "jump", "t": tgt}, nil
}
