package nfparse

import (
	"fmt"
	"strconv"
	"strings"
)

// ParseNft converts one nftables rule body as rendered by nftables.NFTRenderer.Render (the Rule field
// of the knftables.Rule: match clauses, "counter", action fragment) into an IR rule.
func ParseNft(text string) (Rule, error) {
	toks, err := tokenize(text)
	if err != nil {
		return Rule{}, err
	}
	p := &nftParser{toks: toks, line: text}
	return p.parse()
}

// ParseNftVerdict converts a verdict-map element value ("goto chain", "return", ...) to an action.
func ParseNftVerdict(words []string) (M, error) {
	if len(words) != 1 {
		return nil, fmt.Errorf("nft: unexpected map element value %q", words)
	}
	toks, err := tokenize(words[0])
	if err != nil {
		return nil, err
	}
	p := &nftParser{toks: toks, line: words[0]}
	a, err := p.action()
	if err != nil {
		return nil, err
	}
	if p.more() {
		return nil, p.errf("trailing tokens in verdict")
	}
	return a, nil
}

type nftParser struct {
	toks []string
	i    int
	line string
}

func (p *nftParser) errf(f string, a ...any) error {
	return fmt.Errorf("nft: %s (at token %d of %q)", fmt.Sprintf(f, a...), p.i, p.line)
}
func (p *nftParser) more() bool { return p.i < len(p.toks) }
func (p *nftParser) peek() string {
	if p.more() {
		return p.toks[p.i]
	}
	return ""
}
func (p *nftParser) peekAt(k int) string {
	if p.i+k < len(p.toks) {
		return p.toks[p.i+k]
	}
	return ""
}
func (p *nftParser) next() (string, error) {
	if !p.more() {
		return "", p.errf("unexpected end")
	}
	t := p.toks[p.i]
	p.i++
	return t, nil
}
func (p *nftParser) expect(words ...string) error {
	for _, w := range words {
		t, err := p.next()
		if err != nil {
			return err
		}
		if t != w {
			return p.errf("expected %q, got %q", w, t)
		}
	}
	return nil
}

// optNeg consumes "!=" if present.
func (p *nftParser) optNeg() bool {
	if p.peek() == "!=" {
		p.i++
		return true
	}
	return false
}

func (p *nftParser) parse() (Rule, error) {
	r := Rule{M: []M{}, A: M{"k": "none"}}
	for p.more() {
		t := p.peek()
		switch t {
		case "counter":
			p.i++
			if p.more() {
				a, err := p.action()
				if err != nil {
					return r, err
				}
				r.A = a
			}
			if p.more() {
				return r, p.errf("tokens after the action: %q", p.peek())
			}
			return r, nil
		case "continue":
			p.i++
			if p.more() || len(r.M) > 0 {
				return r, p.errf("unexpected continue")
			}
			return r, nil
		case "meta":
			p.i++
			what, err := p.next()
			if err != nil {
				return r, err
			}
			switch what {
			case "l4proto":
				neg := p.optNeg()
				v, err := p.next()
				if err != nil {
					return r, err
				}
				n, err := ProtoNum(v)
				if err != nil {
					return r, p.errf("%v", err)
				}
				r.M = append(r.M, M{"k": "proto", "p": n, "neg": neg})
			case "mark":
				// meta mark & MASK ==|!= VALUE
				if err := p.expect("&"); err != nil {
					return r, err
				}
				ms, _ := p.next()
				op, _ := p.next()
				vs, err := p.next()
				if err != nil {
					return r, err
				}
				mask, e1 := parseU32(ms)
				val, e2 := parseU32(vs)
				if e1 != nil || e2 != nil || (op != "==" && op != "!=") {
					return r, p.errf("bad mark match")
				}
				r.M = append(r.M, M{"k": "mark", "mask": Bits(mask), "val": Bits(val), "neg": op == "!="})
			default:
				return r, p.errf("unsupported meta %q", what)
			}
		case "ip", "ip6":
			p.i++
			fld, err := p.next()
			if err != nil {
				return r, err
			}
			if fld != "saddr" && fld != "daddr" {
				return r, p.errf("unsupported %s field %q", t, fld)
			}
			side := "src"
			if fld == "daddr" {
				side = "dst"
			}
			dirs := []string{side}
			if p.peek() == "." {
				// <ip> Xaddr . meta l4proto . th Yport [!=] @set
				if err := p.expect(".", "meta", "l4proto", ".", "th"); err != nil {
					return r, err
				}
				pf, err := p.next()
				if err != nil {
					return r, err
				}
				switch pf {
				case "sport":
					dirs = append(dirs, "src")
				case "dport":
					dirs = append(dirs, "dst")
				default:
					return r, p.errf("unsupported th field %q", pf)
				}
			}
			neg := p.optNeg()
			v, err := p.next()
			if err != nil {
				return r, err
			}
			if strings.HasPrefix(v, "@") {
				r.M = append(r.M, M{"k": "set", "name": v[1:], "dirs": dirs, "neg": neg})
			} else {
				if len(dirs) != 1 {
					return r, p.errf("concatenation compared with a literal")
				}
				c, err := CIDR(v)
				if err != nil {
					return r, p.errf("%v", err)
				}
				wantV6 := t == "ip6"
				if (len(c["a"].([]int)) == 16) != wantV6 {
					return r, p.errf("address family of %q does not fit %q", v, t)
				}
				r.M = append(r.M, M{"k": "net", "side": side, "c": c, "neg": neg})
			}
		case "tcp", "udp", "sctp":
			p.i++
			l4, _ := ProtoNum(t)
			fld, err := p.next()
			if err != nil {
				return r, err
			}
			if fld != "sport" && fld != "dport" {
				return r, p.errf("unsupported %s field %q", t, fld)
			}
			side := "src"
			if fld == "dport" {
				side = "dst"
			}
			neg := p.optNeg()
			items, err := p.setLiteral()
			if err != nil {
				return r, err
			}
			rs, err := parsePortRanges(items, "-")
			if err != nil {
				return r, p.errf("%v", err)
			}
			r.M = append(r.M, M{"k": "ports", "side": side, "r": rs, "neg": neg, "l4": l4})
		case "icmp", "icmpv6":
			p.i++
			ver := 4
			if t == "icmpv6" {
				ver = 6
			}
			if p.peek() == "code" {
				p.i++
				neg := p.optNeg()
				v, err := p.next()
				if err != nil {
					return r, err
				}
				n, err := strconv.Atoi(v)
				if err != nil {
					return r, p.errf("bad icmp code %q", v)
				}
				r.M = append(r.M, M{"k": "icmpf", "v": ver, "f": "code", "val": n, "neg": neg, "bare": false})
				break
			}
			if err := p.expect("type"); err != nil {
				return r, err
			}
			neg := p.optNeg()
			v, err := p.next()
			if err != nil {
				return r, err
			}
			n, err := strconv.Atoi(v)
			if err != nil {
				return r, p.errf("bad icmp type %q", v)
			}
			r.M = append(r.M, M{"k": "icmpf", "v": ver, "f": "type", "val": n, "neg": neg, "bare": false})
			// "icmp type T code C": the second field is written without repeating the "icmp" keyword.
			// Recorded as such ("bare"); whether nft accepts that spelling is decided in Netfilter.tla.
			if p.peek() == "code" {
				p.i++
				neg := p.optNeg()
				v, err := p.next()
				if err != nil {
					return r, err
				}
				n, err := strconv.Atoi(v)
				if err != nil {
					return r, p.errf("bad icmp code %q", v)
				}
				r.M = append(r.M, M{"k": "icmpf", "v": ver, "f": "code", "val": n, "neg": neg, "bare": true})
			}
		case "iifname", "oifname":
			p.i++
			dir := "in"
			if t == "oifname" {
				dir = "out"
			}
			if p.peek() == "vmap" {
				p.i++
				m, err := p.next()
				if err != nil {
					return r, err
				}
				if !strings.HasPrefix(m, "@") {
					return r, p.errf("vmap without a named map")
				}
				if p.more() && p.peek() != "counter" {
					return r, p.errf("tokens after vmap")
				}
				if p.peek() == "counter" {
					p.i++
				}
				if p.more() {
					return r, p.errf("vmap statement followed by another action")
				}
				r.A = M{"k": "vmap", "dir": dir, "map": m[1:]}
				return r, nil
			}
			neg := p.optNeg()
			v, err := p.next()
			if err != nil {
				return r, err
			}
			v = strings.Trim(v, `"`)
			wild := strings.HasSuffix(v, "*")
			name := strings.TrimSuffix(v, "*")
			r.M = append(r.M, M{"k": "iface", "dir": dir, "name": Codes(name), "wild": wild, "neg": neg})
		case "ct":
			p.i++
			what, err := p.next()
			if err != nil {
				return r, err
			}
			neg := p.optNeg()
			v, err := p.next()
			if err != nil {
				return r, err
			}
			st := []string{}
			for _, s := range strings.Split(v, ",") {
				u := strings.ToUpper(s)
				switch what {
				case "state":
					switch u {
					case "NEW", "ESTABLISHED", "RELATED", "INVALID", "UNTRACKED":
					default:
						return r, p.errf("unknown ct state %q", s)
					}
				case "status":
					switch u {
					case "DNAT", "SNAT":
					default:
						return r, p.errf("unknown ct status %q", s)
					}
				default:
					return r, p.errf("unsupported ct key %q", what)
				}
				st = append(st, u)
			}
			r.M = append(r.M, M{"k": "ct", "states": st, "neg": neg})
		case "fib":
			p.i++
			// fib saddr type [!=] local | fib daddr type [!=] local | fib saddr . oif type [!=] local
			// fib saddr . mark . iif oif 0   (reverse path lookup found no route: RPF failed)
			a, err := p.next()
			if err != nil {
				return r, err
			}
			if a != "saddr" && a != "daddr" {
				return r, p.errf("unsupported fib selector %q", a)
			}
			side := "src"
			if a == "daddr" {
				side = "dst"
			}
			lim := false
			if p.peek() == "." && p.peekAt(1) == "mark" {
				if err := p.expect(".", "mark", ".", "iif", "oif", "0"); err != nil {
					return r, err
				}
				if side != "src" {
					return r, p.errf("rpf on daddr")
				}
				r.M = append(r.M, M{"k": "rpf", "neg": false})
				break
			}
			if p.peek() == "." {
				if err := p.expect(".", "oif"); err != nil {
					return r, err
				}
				lim = true
			}
			if err := p.expect("type"); err != nil {
				return r, err
			}
			neg := p.optNeg()
			v, err := p.next()
			if err != nil {
				return r, err
			}
			r.M = append(r.M, M{"k": "addrtype", "side": side, "type": strings.ToUpper(v), "neg": neg, "limitOut": lim})
		default:
			return r, p.errf("unsupported clause starting with %q", t)
		}
	}
	// a rule without "counter" has no action (Action == nil): it is a no-op
	return r, nil
}

// setLiteral parses "{ a, b-c, d }" or a single value and returns the items.
func (p *nftParser) setLiteral() ([]string, error) {
	t, err := p.next()
	if err != nil {
		return nil, err
	}
	if t != "{" {
		return []string{t}, nil
	}
	var items []string
	for {
		t, err := p.next()
		if err != nil {
			return nil, err
		}
		if t == "}" {
			break
		}
		t = strings.TrimSuffix(t, ",")
		if t == "" {
			continue
		}
		items = append(items, t)
	}
	if len(items) == 0 {
		return nil, p.errf("empty set literal")
	}
	return items, nil
}

func (p *nftParser) action() (M, error) {
	t, err := p.next()
	if err != nil {
		return nil, err
	}
	switch t {
	case "accept", "drop", "return", "notrack":
		return M{"k": t}, nil
	case "reject":
		if p.peek() == "with" {
			p.i++
			for p.more() {
				p.i++
			}
		}
		return M{"k": "reject"}, nil
	case "jump", "goto":
		tgt, err := p.next()
		if err != nil {
			return nil, err
		}
		return M{"k": t, "t": tgt}, nil
	case "log":
		// log prefix "<p>" level info | log prefix "<p>" [snaplen N] group N
		if err := p.expect("prefix"); err != nil {
			return nil, err
		}
		if _, err := p.next(); err != nil {
			return nil, err
		}
		for p.more() {
			o, _ := p.next()
			switch o {
			case "level", "snaplen", "group":
				if _, err := p.next(); err != nil {
					return nil, err
				}
			default:
				return nil, p.errf("log: unsupported option %q", o)
			}
		}
		return M{"k": "log"}, nil
	case "flow":
		if err := p.expect("offload"); err != nil {
			return nil, err
		}
		ft, err := p.next()
		if err != nil {
			return nil, err
		}
		if !strings.HasPrefix(ft, "@") {
			return nil, p.errf("flow offload without a flowtable")
		}
		return M{"k": "offload"}, nil
	case "meta":
		// meta mark set mark or V | meta mark set mark & A [^ X]
		if err := p.expect("mark", "set", "mark"); err != nil {
			return nil, err
		}
		op, err := p.next()
		if err != nil {
			return nil, err
		}
		vs, err := p.next()
		if err != nil {
			return nil, err
		}
		v, err := parseU32(vs)
		if err != nil {
			return nil, p.errf("%v", err)
		}
		switch op {
		case "or":
			return M{"k": "setmark", "clr": []int{}, "xor": []int{}, "or": Bits(v)}, nil
		case "&":
			x := uint32(0)
			if p.peek() == "^" {
				p.i++
				xs, err := p.next()
				if err != nil {
					return nil, err
				}
				x, err = parseU32(xs)
				if err != nil {
					return nil, p.errf("%v", err)
				}
			}
			return M{"k": "setmark", "clr": Bits(^v), "xor": Bits(x), "or": []int{}}, nil
		}
		return nil, p.errf("unsupported mark operation %q", op)
	}
	return nil, p.errf("unsupported action %q", t)
}
