"""C33 - Maglev lookup tables are complete, balanced and node-independent (felix/bpf/consistenthash,
BPFLUTSizeMaglev in felix/config).  The CPU-byte-order clause is NOT decided by this check."""
import copy
import os

from vlib import core, pipeline


def signature(t_id, events, off, reason):
    e = events[off]
    if e.get("ev") == "gen":
        return "%s:gen:m=%s:n=%d" % (reason, e.get("m"), len(set(e.get("backends", []))))
    return "%s:%s" % (reason, e.get("ev"))


def nontrivial(evs):
    # the antecedent of node-independence: one backend set (>= 2 backends) added in two different orders
    seen = {}
    for e in evs:
        if e["ev"] == "gen" and len(set(e["backends"])) >= 2:
            k = (e["m"], tuple(sorted(set(e["backends"]))))
            seen.setdefault(k, set()).add(tuple(e["backends"]))
    return any(len(v) >= 2 for v in seen.values())


BASE = {
    "specdir": "maglev",
    "driver": {"cmd": "maglev"},
    "trace": {"module": "T_Maglev", "cfg": "T_Maglev.cfg", "heap": "4g", "timeout": 1200},
    "chunk": 60000,
    "signature": signature,
    "nontrivial": nontrivial,
    "rule": "behaviours = every (offset, skip) assignment to 1-3 backends for table size 5 (quick, thinned by seed) / 7 and 1-4 "
            "backends for size 5 (thorough), fed to the real code through table-driven hash.Hash fakes, each backend set added in "
            "ascending, descending and rotated order with a duplicated addition; seeded random sets (sizes 5..101, table-driven "
            "incl. identical preference lists, and the real FNV-32 hashes with up to 64 backends, subsets, shuffled orders; one in six "
            "with more backends than table entries, sizes 5/7/11); every "
            "size BPFLUTSizeMaglev() returns for BPFMaglevMaxEndpointsPerService = 1..3000 is recorded and tables are generated for "
            "a seeded sample of the distinct sizes (quick) / all of them (thorough) in two orders; non-trivial = one backend set "
            "(>= 2 backends) added in two different orders; distinct = distinct event sequences",
    "assumptions": ["NOT DECIDED: the CPU-byte-order clause (hashFromString reads the digest with binary.NativeEndian); the fake "
                    "hashes write their value in the CPU's order so that the decoded value is the intended one",
                    "tables larger than 101 entries are recorded as per-backend histogram + SHA-256 digest of the table",
                    "backend identity is the endpoint's String() (ip:port), as in the code"],
    "exhaustive": False,
}


def drift(ctx, leg):
    """Implementation-shaped comparison, never a verdict: table = Maglev!Populate, sizes prime and >= 5x."""
    tp = os.path.join(ctx.work, "trace.ndjson")
    if not os.path.exists(tp):
        return
    tr = core.validate_trace("maglev", "T_Maglev", "T_Maglev_exact.cfg", tp, heap="4g", timeout=1200)
    d = ctx.notes.setdefault("drift", [])
    if not tr.accepted:
        d.append({"leg": leg, "line": tr.hwm, "event": str(tr.bad_line)[:300]})
        core.log("drift: real table/size differs from the implementation-shaped model at line %d: %s"
                 % (tr.hwm, str(tr.bad_line)[:300]))
    ctx.notes["exact_table_checked"] = ctx.notes.get("exact_table_checked", 0) + 1


def legs(quick):
    D = {"workers": 4, "heap": "4g"}
    design = [dict(D, module="I_Maglev", cfg="MC_I_Maglev_5.cfg", thorough_cfg="MC_I_Maglev_7.cfg")]
    if not quick:
        for cfg in ("MC_F_Maglev_5_4.cfg", "MC_F_Maglev_11_2.cfg", "MC_F_Maglev_13_2.cfg"):
            design.append(dict(D, module="F_Maglev", cfg=cfg, coverage=False, thorough_timeout=1500))
    out = [dict(BASE, design=design,
                gen={"module": "Gen_Maglev", "cfg": "Gen_5.cfg", "thorough_cfg": "Gen_7.cfg", "workers": 4,
                     "max": 800, "thorough_max": 10000, "thorough_timeout": 1200},
                n_random=(100, 1000)),
           dict(BASE, design=[], gen=None, n_random=(0, 0),
                driver={"cmd": "maglev", "env": {"VERIF_MAGLEV_SIZES": "60" if quick else "0"}})]
    if not quick:
        out.append(dict(BASE, design=[],
                        gen={"module": "Gen_Maglev", "cfg": "Gen_5_4.cfg", "workers": 4, "max": 6000, "timeout": 1200,
                             "thorough_timeout": 1200},
                        n_random=(0, 0)))
    return out


def run(ctx):
    for i, P in enumerate(legs(ctx.quick)):
        pipeline.standard_check(ctx, P)
        if ctx.violations:
            break
        if i == 0 or not ctx.quick:
            drift(ctx, i + 1)
        if ctx.replay:
            break


def _fresh(fn):
    # corruption_selftest hands out shallow copies: never let one corruption leak into the next one
    return lambda evs: fn(copy.deepcopy(evs))


def selftest(ctx):
    P = dict(BASE, design=[], gen=None, n_random=(25, 25))

    def gens(evs, pred):
        return [e for e in evs if e["ev"] == "gen" and e["full"] and pred(e)]

    def empty_entry(evs):
        for e in gens(evs, lambda e: e["len"] > 0):
            e["lut"][2] = 0
            return evs

    def unbalanced(evs):
        # give one backend's entry to another one: shares differ by 2 (or a backend vanishes)
        for e in gens(evs, lambda e: len(set(e["backends"])) >= 2 and e["m"] % len(set(e["backends"])) == 0):
            a = e["lut"][0]
            i = [j for j, x in enumerate(e["lut"]) if x != a][0]
            e["lut"][i] = a
            return evs
        for e in gens(evs, lambda e: len(set(e["backends"])) >= 2):
            cnt = {}
            for x in e["lut"]:
                cnt[x] = cnt.get(x, 0) + 1
            hi = max(cnt, key=cnt.get)
            i = [j for j, x in enumerate(e["lut"]) if x != hi][0]
            e["lut"][i] = hi
            return evs

    def order_dependent(evs):
        # swap two entries of the table generated for the second order: still full and balanced, but different
        first = {}
        for e in evs:
            if e["ev"] == "reset":
                first = {}
            if e["ev"] == "gen" and e["full"] and len(set(e["backends"])) >= 2:
                k = (e["m"], tuple(sorted(set(e["backends"]))))
                if k in first:
                    l = e["lut"]
                    i = [j for j in range(1, len(l)) if l[j] != l[0]][0]
                    l[0], l[i] = l[i], l[0]
                    e["dig"] = "swapped"
                    return evs
                first[k] = True

    def stranger(evs):
        for e in gens(evs, lambda e: e["len"] > 0):
            e["lut"][0] = 777
            return evs

    def short_table(evs):
        for e in gens(evs, lambda e: e["len"] > 0):
            e["lut"] = e["lut"][:-1]
            return evs

    def table_for_nothing(evs):
        for e in evs:
            if e["ev"] == "gen" and not e["backends"]:
                e["lut"], e["len"], e["full"] = [1], 1, True
                return evs

    return pipeline.corruption_selftest(ctx, P, [("empty_entry", _fresh(empty_entry)), ("unbalanced", _fresh(unbalanced)),
                                                 ("order_dependent", _fresh(order_dependent)), ("stranger", _fresh(stranger)),
                                                 ("short_table", _fresh(short_table)), ("table_for_nothing", _fresh(table_for_nothing))],
                                        n_random=25)


MANIFEST = dict(
    text="Property layer Maglev: a generated table of size M for backend set B has no empty entry, only backends of B, every "
         "backend's share in {floor(M/N), ceil(M/N)}, and is a function of (B, M) only (same table whatever the order of "
         "additions). I_Maglev models Generate turn by turn; TLC checks for EVERY (offset, skip) assignment (M=5,7 with <=3-4 "
         "backends; M=11,13 as a function) that a turn always finds a free slot and the final table is full and balanced. The "
         "same assignments are fed to the real code through table-driven hash.Hash fakes, plus real FNV-32 runs for every "
         "table size BPFLUTSizeMaglev can return, and TLC validates every recorded table. The CPU-byte-order clause of C33 "
         "(binary.NativeEndian in hashFromString) is out of scope and is not decided.",
    design_ref="3.8 C33",
    technique="TLA+ specs (Maglev/I_Maglev/F_Maglev) + TLC; TLC-generated inputs replayed via table-driven hashes; trace validation with TLC",
)
