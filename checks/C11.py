"""C11 - BPF policy programs reach the same verdict as the policy semantics.

Two-pass pipeline: (1) the Go driver generates polprog.Rules configurations; TLC (specs/bpfpol/BPFProbe)
chooses the probe packet states of every configuration from the configuration itself; (2) the driver
compiles each configuration with the real polprog.Builder, executes it on every probe with
harness/ebpfvm and records what the program did; TLC (T_BPF) checks every record against
BPFSem!BPFVerdict (reference semantics on top of specs/lib/PolicySem).
"""
import json
import os

from vlib import core, pipeline
from vlib.core import HarnessError, log

SPEC = "bpfpol"


def _drive(ctx, mode, n, nbig, out, beh=None):
    binp = core.go_build("bpfpol")
    env = core.goenv()
    env.update({"VERIF_MODE": mode, "VERIF_N": str(n), "VERIF_NBIG": str(nbig), "VERIF_SEED": str(ctx.seed),
                "VERIF_OUT": out, "VERIF_BEH": beh or ""})
    p = core.run([binp], env=env, timeout=1800, check=False)
    if p.returncode != 0:
        raise HarnessError("bpfpol %s failed:\n%s" % (mode, (p.stdout or "")[-3000:]))


def signature(t_id, events, off, reason):
    e = events[off]
    if not e.get("built", True):
        return "build-failed"
    return "verdict-mismatch"


def run(ctx, n=None, nbig=None, corrupt=None):
    n = n if n is not None else (60 if ctx.quick else 1200)
    nbig = nbig if nbig is not None else (2 if ctx.quick else 16)
    cases = os.path.join(ctx.work, "cases.ndjson")
    _drive(ctx, "gen", n, nbig, cases)
    r = core.tlc(SPEC, "BPFProbe", "BPFProbe.cfg" if ctx.quick else "BPFProbe_thorough.cfg", workers=1, timeout=900 if ctx.quick else 3000,
                 extra_files={"trace.ndjson": cases}, heap="6g", stack="256m")
    if r.violated and r.violated != "deadlock":
        raise HarnessError("BPFProbe failed: %s\n%s" % (r.violated, r.out[-2000:]))
    if len(r.behaviours) != n:
        raise HarnessError("BPFProbe produced %d probe sets for %d cases\n%s" % (len(r.behaviours), n, r.out[-2000:]))
    beh = os.path.join(ctx.work, "behaviours.json")
    json.dump(r.behaviours, open(beh, "w"))
    nprobes = sum(len(b["pkts"]) for b in r.behaviours)
    log("probe pass: %d cases, %d probe packet states, %.1fs" % (n, nprobes, r.wall))
    ctx.cov["states"] += r.distinct
    ctx.cov["transitions"] += max(r.generated, 1)

    trace = os.path.join(ctx.work, "trace.ndjson")
    _drive(ctx, "run", n, nbig, trace, beh)
    if corrupt:
        evs = core.read_ndjson(trace)
        core.write_ndjson(trace, corrupt(evs))

    def rerun():
        p2 = os.path.join(ctx.work, "trace-rerun.ndjson")
        _drive(ctx, "run", n, nbig, p2, beh)
        return p2

    tspec = {"specdir": SPEC, "module": "T_BPF", "cfg": "T_BPF.cfg", "beh_path": beh, "timeout": 1200 if ctx.quick else 3400,
             "heap": "6g"}
    stats = pipeline.validate_all(ctx, tspec, trace, signature, None if corrupt else rerun, chunk=40)
    evs = core.read_ndjson(trace)
    split = sum(1 for e in evs if e.get("nprogs", 1) > 1)
    verdicts = {}
    multi = 0
    for e in evs:
        for res in e.get("results", []):
            verdicts[res["verdict"]] = verdicts.get(res["verdict"], 0) + 1
            if res["subprogs"] > 1:
                multi += 1
    nontriv = sum(1 for e in evs if len({res["verdict"] for res in e.get("results", [])}) > 1)
    ctx.cov["traces_validated_against_impl"] += stats["traces"]
    ctx.cov["evaluations"] += nprobes
    ctx.cov["distinct_nontrivial"] += nontriv
    ctx.cov["programs"] = n
    ctx.cov["rule"] = ("cases = seeded polprog.Rules configurations (tiers/pre-DNAT/apply-on-forward/normal host policy/profiles, "
                       "IPv4+IPv6, XDP, flow logs, debug, trampolines, a few oversized ones that the builder splits into chained "
                       "sub-programs); probes chosen by TLC from each configuration's own rules (CIDR edges, port-range ends, set "
                       "members, protocols, ICMP types) x to/from-host flags x pre-NAT destination variants; a case is non-trivial "
                       "when its probes reach at least two different verdicts")
    ctx.notes["verdict_histogram"] = verdicts
    ctx.notes["split_programs"] = split
    ctx.notes["probe_runs_crossing_a_tail_call"] = multi
    ctx.notes["trace_validation"] = {k: stats[k] for k in ("traces", "events", "tlc_states", "rejected")}
    e0 = evs[min(1, len(evs) - 1)]
    ctx.sample({"case": e0["case"], "cfg": e0["cfg"], "first_results": e0.get("results", [])[:2]}, limit=3)
    ctx.assumptions += ["harness/ebpfvm interprets the emitted instructions faithfully (helpers: map_lookup_elem on the state "
                        "and IP-set maps with the real key encoders and LPM semantics; tail_call); kernel verifier/JIT out of scope"]
    return stats


def selftest(ctx):
    def flip(evs):
        for e in evs:
            for res in e.get("results", []):
                if res["verdict"] == "allow":
                    res["verdict"] = "deny"
                    return evs
        return evs
    run(ctx, n=10, nbig=0, corrupt=flip)
    ok = ctx.violations > 0
    log("selftest: flipped verdict -> %s" % ("rejected" if ok else "accepted (BAD)"))
    return ok


MANIFEST = dict(
    text="Every generated BPF policy configuration is compiled by the real polprog.Builder and executed by an eBPF "
         "interpreter on probe packet states that TLC derives from the configuration; TLC then checks every observed "
         "outcome (pol_rc + tail-call target, incl. programs split across chained sub-programs) against the TLA+ "
         "reference semantics BPFSem/PolicySem. Builder errors or panics are recorded and never accepted.",
    design_ref="3.2 C11",
    technique="TLA+ reference semantics (BPFSem over PolicySem) evaluated by TLC on traces of the real compiler's output run in an eBPF interpreter",
)
