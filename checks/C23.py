"""C23 - IPAM garbage collection never frees an address that is still in use (kube-controllers node/ipam.go)."""
import copy
import json
import os

from vlib import core, pipeline
from vlib.core import log

PKG = "kube-controllers/pkg/controllers/node"
TIME_FIELDS = ("tb", "ta", "tc")

# signatures of the three defects this check found in the original code (repaired by hooks/fix-C23-*.patch)
SIG_AFF = "bookkeeping:blocksByNode-stale-after-affinity-change"
SIG_NODE = "bookkeeping:allocationsByNode-stale-after-reassign-to-other-node"
SIG_LAST = "no-match:release_block:coalesced-delivery"


def signature(t_id, events, off, reason):
    e = events[off]
    ev = e.get("ev")
    coalesced = any(x.get("ev") == "options" and x.get("coalesce") for x in events[:off])
    if ev == "state":
        rows = lambda k: {json.dumps(r, sort_keys=True) for r in e.get(k, [])}
        if rows("blocksByNode") != rows("nodesByBlock"):
            return SIG_AFF
        last = {}
        for x in events[:off]:
            if x.get("ev") == "assign":
                last[(x["ip"], x["handle"])] = x["node"]
        if any(last.get((r["ip"], r["handle"]), r["node"]) != r["node"] for r in e.get("byNode", [])):
            return SIG_NODE
    if ev == "release_block" and coalesced:
        return SIG_LAST
    return "%s:%s" % (reason, ev)


def nontrivial(evs):
    # the antecedent is exercised when the controller released something, or declined to although a
    # sync ran on a world holding an unjustified allocation candidate (a confirmed-leak row was recorded)
    for e in evs:
        if e["ev"] in ("release_ips", "release_block"):
            return True
        if e["ev"] == "state" and e.get("confirmed"):
            return True
    return False


def dedupe_key(evs):
    return json.dumps([{k: v for k, v in e.items() if k != "t" and k not in TIME_FIELDS} for e in evs], sort_keys=True)


DRIVER = {"overlay_pkg": PKG, "run": "^TestVerifGC$", "timeout": 2400}

P = {
    "specdir": "ipamgc",
    "design": [
        {"module": "MC_I_GC", "cfg": "MC_I_GC_quick.cfg", "thorough_cfg": "MC_I_GC_handles.cfg", "workers": 4,
         "heap": "4g", "timeout": 900, "thorough_timeout": 3000, "allow_zero": ("INext",)},
        {"module": "MC_I_GC", "cfg": "MC_I_GC_quick_blocks.cfg", "workers": 4, "heap": "4g", "timeout": 900,
         "allow_zero": ("INext", "IAssign", "IFree", "IPodSet", "IPodDel", "IPodCacheSync")},
    ],
    "gen": {"module": "Gen_GC", "cfg": "Gen_sim.cfg", "simulate": {"num": 100, "depth": 250},
            "thorough_simulate": {"num": 800, "depth": 250}, "timeout": 900, "thorough_timeout": 2400},
    "driver": DRIVER,
    "n_random": (250, 4000),
    "trace": {"module": "T_GC", "cfg": "T_GC.cfg", "timeout": 2400, "heap": "4g"},
    "chunk": 120000,
    "signature": signature,
    "nontrivial": nontrivial,
    "dedupe_key": dedupe_key,
    "rule": "behaviours = TLC -simulate walks of the environment + design model (world histories x sync points x "
            "sleeps x injected IPAM failures; 2 nodes, 2 pods, 2 blocks, 3 addresses, 5 owner kinds/handles; a VM "
            "variant with long sleeps), in thorough tier also one behaviour per distinct end-of-sync state of the "
            "exhaustive small model, plus seeded random histories over 2-3 nodes, 2-4 pods, 2 VMs, 2-4 blocks of 4 "
            "addresses; every trace ends with the freeze + 3 spaced full syncs of the bounded liveness claim; a "
            "trace is non-trivial if the controller made a ReleaseIPs/ReleaseBlockAffinity call or held a confirmed "
            "leak; distinct = distinct event sequences ignoring clock readings",
    "assumptions": [
        "E1 node and VM informer caches equal the truth; the pod informer cache may lag the API server",
        "E2 a node is deleted only after the pod cache has caught up on that node's pods (the final re-validation "
        "deliberately prefers the cache once the node is gone)",
        "E3 block deliveries use watch semantics (deletion delivered before a re-created block of the same CIDR) in the "
        "TLC-generated histories and 5/6 of the seeded ones; 1/6 of the seeded histories and the witness behaviours "
        "use re-list semantics (a re-created block arrives as a plain update)",
        "E4 a handle belongs to one node in the TLC-generated histories and 5/6 of the seeded ones; 1/6 reuse handles "
        "across nodes",
        "time: grace periods 30 ms / 240 ms, sleeps are 0, 100 ms or 750 ms; a release is judged too early only if "
        "the harness clock reading taken inside the IPAM call minus the reading taken before the first sync that "
        "could observe the leak does not exceed the grace period (sound under any scheduling delay)",
        "the IPAM datastore is the driver's recording client: releases succeed iff handle and sequence number match",
    ],
    "exhaustive": False,
}


def witness_leg(ctx):
    """Recorded findings: behaviours outside assumptions E3/E4 that the unchanged code fails."""
    beh = os.path.join(core.SPECS, "ipamgc", "witness_findings.json")
    out = os.path.join(ctx.work, "trace-witness.ndjson")
    pipeline.run_driver(ctx, DRIVER, beh, out, 0)

    def rerun():
        p2 = os.path.join(ctx.work, "trace-witness-rerun.ndjson")
        pipeline.run_driver(ctx, DRIVER, beh, p2, 0)
        return p2

    tspec = dict(P["trace"])
    tspec["specdir"] = "ipamgc"
    tspec["beh_path"] = beh
    st = pipeline.validate_all(ctx, tspec, out, signature, rerun)
    ctx.notes["witness_leg"] = {"traces": st["traces"], "rejected": st["rejected"]}


def run(ctx):
    pipeline.standard_check(ctx, P)
    if ctx.replay or ctx.violations:
        return
    # node deletion / re-registration with a queued tunnel-address leak: for one node, its tunnel address, a failing
    # ReleaseIPs and up to 3 syncs, EVERY history in which the injected failure hit a call (TLC, exhaustive;
    # 1 245 behaviours, thinned by seed to 300 in quick tier)
    PT = dict(P)
    PT["design"] = []
    PT["gen"] = {"module": "Gen_GCF", "cfg": "Gen_cover_tunnel.cfg", "workers": 1, "max": 300, "timeout": 600,
                 "thorough_timeout": 1200}
    PT["n_random"] = (0, 0)
    pipeline.standard_check(ctx, PT)
    if ctx.violations:
        return
    if ctx.quick:
        # (the VM grace period is exercised by a third of the seeded random histories in quick tier)
        return witness(ctx)
    # VM variant: long sleeps, VM grace period
    P2 = dict(P)
    P2["design"] = []
    P2["gen"] = {"module": "Gen_GC", "cfg": "Gen_sim_vm.cfg", "simulate": {"num": 30, "depth": 250},
                 "thorough_simulate": {"num": 200, "depth": 250}, "timeout": 900, "thorough_timeout": 2400}
    P2["n_random"] = (0, 0)
    pipeline.standard_check(ctx, P2)
    if not ctx.quick and not ctx.violations:
        P3 = dict(P)
        P3["design"] = [{"module": "MC_I_GC", "cfg": "MC_I_GC.cfg", "workers": 4, "heap": "4g",
                         "thorough_timeout": 3000, "allow_zero": ("INext",)}]
        P3["gen"] = {"module": "Gen_GC", "cfg": "Gen_cover.cfg", "workers": 1, "thorough_max": 6000,
                     "thorough_timeout": 2400}
        P3["n_random"] = (0, 0)
        pipeline.standard_check(ctx, P3)
    witness(ctx)


def witness(ctx):
    # regression cases of the three onBlockUpdated / garbageCollectKnownLeaks repairs (hooks/fix-C23-*.patch):
    # handcrafted histories with re-list delivery and a handle reused on another node
    witness_leg(ctx)


def selftest(ctx):
    def stale_seq(evs):
        for e in evs:
            if e["ev"] == "release_ips" and e["opts"]:
                e["opts"][0]["seq"] += 1
                return evs

    def no_handle(evs):
        for e in evs:
            if e["ev"] == "release_ips" and e["opts"]:
                e["opts"][0]["handle"] = ""
                return evs

    def owner_is_back(evs):
        # the pod of a released allocation exists (on the right node, no address reported yet) at release time
        assigns = {}
        for i, e in enumerate(evs):
            if e["ev"] == "assign":
                assigns[(e["ip"], e["handle"], e["seq"], e["t"])] = e
            if e["ev"] == "release_ips":
                for o in e["opts"]:
                    a = assigns.get((o["ip"], o["handle"], o["seq"], e["t"]))
                    if a and a["kind"] == "pod":
                        ins = {"ev": "pod_set", "t": e["t"], "p": a["owner"], "node": a["node"], "ips": [], "cached": True}
                        return evs[:i] + [ins] + evs[i:]

    def no_time_passes(evs):
        # all clock readings collapse: every grace-based release becomes too early
        hit = False
        n = 0
        for e in evs:
            for k in TIME_FIELDS:
                if k in e:
                    n += 1
                    e[k] = n
            if e["ev"] == "release_block":
                hit = True
        return evs if hit else None

    def partial_handle(evs):
        for e in evs:
            if e["ev"] == "release_ips":
                hs = [o["handle"] for o in e["opts"]]
                for j, o in enumerate(e["opts"]):
                    if hs.count(o["handle"]) > 1:
                        e["released"] = [r for r in e["released"] if r != o]
                        del e["opts"][j]
                        return evs

    def lost_row(evs):
        for e in evs:
            if e["ev"] == "state" and e["allocs"]:
                e["allocs"] = e["allocs"][1:]
                return evs

    def drop_deliver(evs):
        for i, e in enumerate(evs):
            if e["ev"] == "deliver" and i > 8:
                return evs[:i] + evs[i + 1:]

    def leak_survives(evs):
        # the last ReleaseIPs call of a trace never happened: the leak is still there at `final`
        last = None
        for i, e in enumerate(evs):
            if e["ev"] == "release_ips" and e["released"] and not e["fail"]:
                last = i
        if last is None:
            return None
        t = evs[last]["t"]
        keep = evs[:last]
        for e in evs[last + 1:]:
            if e["t"] != t:
                keep.append(e)
            elif e["ev"] in ("sync_begin", "sync_end", "freeze", "final", "deliver", "pod_cache_sync"):
                keep.append(e)
        return keep

    # corruption_selftest hands out shallow copies: work on deep copies so that corruptions stay independent
    def deep(fn):
        return lambda evs: fn(copy.deepcopy(evs))

    return pipeline.corruption_selftest(ctx, P, [(n, deep(f)) for n, f in [
        ("stale_seq", stale_seq), ("no_handle", no_handle), ("owner_is_back", owner_is_back),
        ("no_time_passes", no_time_passes), ("partial_handle", partial_handle), ("lost_row", lost_row),
        ("drop_deliver", drop_deliver), ("leak_survives", leak_survives)]], n_random=150)


MANIFEST = dict(
    text="Property layer GC.tla holds the true world (pods as API server and as informer cache, nodes, VMs, the IPAM "
         "block store), the blocks delivered to the controller, and a conservative shadow of its knowledge (earliest "
         "sync start at which an allocation / an empty block could have been observed, from harness monotonic clock "
         "readings; no clock hook); it judges every ReleaseIPs / ReleaseBlockAffinity / ReleaseHostAffinities call the "
         "real controller makes (owner unjustified in the truth at release time, grace certainly elapsed, handle and "
         "sequence number of the observed allocation, all-or-none per handle, never a node's last block, two empty "
         "observations spanning the grace), the projection of its maps after every delivery and sync, and the bounded "
         "liveness claim (freeze + 3 spaced full syncs). I_GC (the collector transcribed on logical time) is checked "
         "exhaustively against it by TLC and generates world histories x sync points x sleeps x injected failures, "
         "which an in-package overlay driver replays on the real IPAMController with client-go fakes, hand-filled "
         "indexers and a recording IPAM client; the recorded traces are validated by TLC against GC.",
    design_ref="3.3 C23",
    technique="TLA+ spec (GC/I_GC) + TLC; TLC-generated behaviours replayed via go test -overlay; trace validation "
              "with TLC; real-time grace periods judged with interval arithmetic",
)
