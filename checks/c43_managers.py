"""C43, manager level - routeManager + vxlanManager / ipipManager / noEncapManager program, per route class, a
direct route via the owner's address iff the pool is unencapsulated or the route says SameSubnet, else a tunnel
route over the pool's device; local blocks get blackholes that never equal a local workload's own address.

Leg of checks/C43.py:  run_manager_level(ctx) / selftest_manager_level(ctx).
"""
from checks import mgr_common

PKG = "felix/dataplane/linux"


def signature(t_id, events, off, reason):
    return "manager:%s:%s" % (reason, events[off].get("ev"))


def nontrivial(evs):
    # the antecedent: some observation is made while a relevant remote route of an encapsulated pool exists in
    # both flavours over the trace (SameSubnet and not), or a local block coexists with a local workload route
    same = other = blk = wl = False
    seen_flush_after = False
    for e in evs:
        if e["ev"] == "route_update":
            r = e["r"]
            if r["rw"] and r["pool"] in ("vxlan", "ipip"):
                same = same or r["same"]
                other = other or not r["same"]
            if r["lw"]:
                wl = wl or r["local_wl"]
                blk = blk or not r["local_wl"]
        elif e["ev"] == "flush" and ((same and other) or (blk and wl)):
            seen_flush_after = True
    return seen_flush_after


P = {
    "specdir": "routemgr",
    "design": [{"module": "MC_I_RouteMgr", "cfg": "MC_I_RouteMgr_quick.cfg", "thorough_cfg": "MC_I_RouteMgr.cfg",
                "workers": 4, "timeout": 300, "thorough_timeout": 1700, "allow_zero": ("INext",)}],
    "gens": [
        {"module": "Gen_RouteMgr", "cfg": "Gen_cover.cfg", "workers": 2, "max": 1200, "thorough_max": 10000,
         "timeout": 300, "thorough_timeout": 900},
        {"module": "Gen_RouteMgr", "cfg": "Gen_sim.cfg", "simulate": {"num": 100, "depth": 40},
         "thorough_simulate": {"num": 1500, "depth": 40}, "timeout": 300, "thorough_timeout": 900},
    ],
    "driver": {"overlay_pkg": PKG, "run": "^TestVerifMgrRoutes$"},
    "n_random": (300, 4000),
    "trace": {"module": "T_RouteMgr", "cfg": "T_RouteMgr.cfg", "heap": "4g"},
    "chunk": 100000,
    "signature": signature,
    "nontrivial": nontrivial,
    "rule": "manager level: behaviours = one per transition of the abstract (routes, VTEPs, host metadata, parent-known) graph "
            "over a VXLAN/no-encap block of a same-subnet node that can also flip to a LOCAL block by a bare RouteUpdate (owner "
            "change without RouteRemove, both directions), a local block and a local workload//32 (TLC, VIEW + "
            "ACTION_CONSTRAINT; thinned by seed in quick tier), TLC random walks of 30 messages over all three pool kinds, "
            "borrowed addresses, tunnel addresses and local<->remote owner flips of every pool kind, and seeded random histories over 3 remote nodes (2 in the local "
            "subnet), 4 blocks whose pools change kind and cross-subnet mode, node addresses and VTEPs changing, local "
            "information arriving late or being withdrawn; all three managers share one recording route table; a trace is "
            "non-trivial when an observation follows both a SameSubnet and a non-SameSubnet remote route of an encapsulated "
            "pool, or a local block together with a local workload route",
    "assumptions": ["SameSubnet is only set on routes that carry the owner's node address (the resolver derives it from that address)",
                    "the local parent address, when announced, is an address of a local interface (eth0 in the mock netlink)",
                    "ProgramIPIPClusterRoutes is on (otherwise the IPIP manager leaves cluster routes to BIRD)",
                    "IPv4 managers; the IPv6 VXLAN / no-encap instances run the same routeManager code on the other family's fields"],
    "exhaustive": False,
}


def run_manager_level(ctx):
    mgr_common.run_legs(ctx, P)


def selftest_manager_level(ctx):
    from vlib import pipeline

    def first_flush(evs, pred):
        for e in evs:
            if e["ev"] == "flush":
                for tb in e["tables"]:
                    if pred(tb):
                        return e, tb
        return None, None

    def direct_becomes_tunnel(evs):
        # move a same-subnet (direct) VXLAN route into the tunnel class
        e, tb = first_flush(evs, lambda tb: tb["class"] == "RouteClassVXLANSameSubnet")
        if e is not None:
            tb["class"], tb["iface"] = "RouteClassVXLANTunnel", "vxlan.calico"
            e["tables"] = [x for x in e["tables"] if x is tb or x["class"] != "RouteClassVXLANTunnel"] if False else e["tables"]
            # merge with an existing tunnel entry, if any, to keep one entry per (class, iface)
            others = [x for x in e["tables"] if x is not tb and x["class"] == "RouteClassVXLANTunnel"]
            for o in others:
                tb["targets"] = tb["targets"] + o["targets"]
                e["tables"].remove(o)
            return evs

    def stale_gateway(evs):
        e, tb = first_flush(evs, lambda tb: tb["class"] in ("RouteClassVXLANTunnel", "RouteClassIPIPTunnel")
                            and any(t["gw"] for t in tb["targets"]))
        if e is not None:
            for t in tb["targets"]:
                if t["gw"]:
                    t["gw"] = "10.250.250.250"
                    return evs

    def blackhole_on_workload(evs):
        # pretend the manager was told that a blackholed local block is a workload's own route
        for i, e in enumerate(evs):
            if e["ev"] == "route_update" and e["r"]["lw"] and not e["r"]["local_wl"] and e["r"]["cidr"]["n"] < 32:
                t = e["t"]
                if any(x["ev"] == "flush" and x["t"] == t and any(tb["class"].startswith("RouteClassBlackhole") for tb in x["tables"])
                       for x in evs[i:]):
                    e["r"]["local_wl"] = True
                    return evs

    def drop_remove(evs):
        for i, e in enumerate(evs):
            if e["ev"] == "route_remove":
                t, d = e["t"], e["dst"]
                told = [x for x in evs[:i] if x["t"] == t and x["ev"] == "route_update" and x["dst"] == d
                        and x["r"]["pool"] in ("vxlan", "none") and (x["r"]["lw"] and not x["r"]["local_wl"] and x["r"]["cidr"]["n"] < 32)]
                later = [x for x in evs[i:] if x["t"] == t and x["ev"] in ("route_update", "route_remove") and x["dst"] == d]
                if told and len(later) == 1 and any(x["ev"] == "flush" and x["t"] == t for x in evs[i:]):
                    return evs[:i] + evs[i + 1:]

    def lose_route(evs):
        e, tb = first_flush(evs, lambda tb: tb["class"] == "RouteClassNoEncap")
        if e is not None:
            tb["targets"] = tb["targets"][1:]
            if not tb["targets"]:
                e["tables"].remove(tb)
            return evs

    return pipeline.corruption_selftest(ctx, dict(P, driver=dict(P["driver"])), [
        ("direct_becomes_tunnel", direct_becomes_tunnel), ("stale_gateway", stale_gateway),
        ("blackhole_on_workload", blackhole_on_workload), ("drop_remove", drop_remove), ("lose_route", lose_route)],
        n_random=60)
