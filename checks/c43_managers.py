"""C43, manager level - routeManager + vxlanManager / ipipManager / noEncapManager program, per route class, a
direct route via the owner's address iff the pool is unencapsulated or the route says SameSubnet, else a tunnel
route over the pool's device; local blocks get blackholes that never equal a local workload's own address.

Leg of checks/C43.py:  run_manager_level(ctx) / selftest_manager_level(ctx).
"""
from checks import mgr_common

PKG = "felix/dataplane/linux"


def signature(t_id, events, off, reason):
    return "manager:%s:%s" % (reason, events[off].get("ev"))


def nontrivial(evs):
    # the antecedent: some observation is made while a relevant remote route of an encapsulated pool exists in
    # both flavours over the trace (SameSubnet and not), or a local block coexists with a local workload route
    same = other = blk = wl = False
    seen_flush_after = False
    for e in evs:
        if e["ev"] == "route_update":
            r = e["r"]
            if r["rw"] and r["pool"] in ("vxlan", "ipip"):
                same = same or r["same"]
                other = other or not r["same"]
            if r["lw"]:
                wl = wl or r["local_wl"]
                blk = blk or not r["local_wl"]
        elif e["ev"] == "flush" and ((same and other) or (blk and wl)):
            seen_flush_after = True
    return seen_flush_after


P = {
    "specdir": "routemgr",
    "design": [],
    "gens": [
        {"module": "Gen_RouteMgr", "cfg": "Gen_cover.cfg", "workers": 2, "max": 1200, "thorough_max": 20000,
         "timeout": 300, "thorough_timeout": 900},
        {"module": "Gen_RouteMgr", "cfg": "Gen_sim.cfg", "simulate": {"num": 100, "depth": 40},
         "thorough_simulate": {"num": 3000, "depth": 40}, "timeout": 300, "thorough_timeout": 900},
    ],
    "driver": {"overlay_pkg": PKG, "run": "^TestVerifMgrRoutes$"},
    "n_random": (300, 6000),
    "trace": {"module": "T_RouteMgr", "cfg": "T_RouteMgr.cfg", "heap": "4g"},
    "chunk": 100000,
    "signature": signature,
    "nontrivial": nontrivial,
    "rule": "TODO",
    "assumptions": [],
    "exhaustive": False,
}


def run_manager_level(ctx):
    mgr_common.run_legs(ctx, P)
