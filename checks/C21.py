"""C21 - IPAM release is safe against stale requests and honours cooldown."""
from vlib import pipeline
from . import _ipam
from .C19 import BASE

RULE = ("TLC walks of I_IPAM with cooldown 100 s, ticks of 70 s, sequence-number captures and stale releases (ABA), plus seeded "
        "sequential histories with releases by address (no / right / wrong handle; no / fresh / old captured sequence number), "
        "ReleaseByHandle, double releases, ticks, and assignments by address (AssignIP, one operation in twelve: the free queue after "
        "it is still judged longest-free first); non-trivial = a release was refused as stale, or named an unallocated address, or a "
        "released address was re-assigned after ticks")


def run(ctx):
    design = [{"module": "MC_IPAM", "cfg": "MC_c21_quick.cfg", "thorough_cfg": "MC_c21.cfg", "workers": 4,
               "allow_zero": _ipam.ALLOW_ZERO, "timeout": 600, "thorough_timeout": 1700}]
    _ipam.leg(ctx, BASE, "tlc-schedules+seeded-sequential", design=design,
              gen={"module": "Gen_IPAM", "cfg": "Gen_sim_c21.cfg", "simulate": {"num": 60, "depth": 140},
                   "thorough_simulate": {"num": 2000, "depth": 140}, "timeout": 600, "thorough_timeout": 1500},
              n_random=(45, 1200), mode="seq21", nontrivial=_ipam.stale_or_cooldown, rule=RULE)


def selftest(ctx):
    P = dict(BASE)
    P.update({"driver": {"cmd": "ipam", "env": {"VERIF_MODE": "seq21"}}, "trace": dict(_ipam.TRACE)})

    def freeing_release(evs, want_handle):
        """index of the call event of a release that freed its address"""
        last = {}
        for i, e in enumerate(evs):
            if e["ev"] == "call" and e["op"] == "release":
                last[e["c"]] = i
            if e["ev"] == "ret" and e["op"] == "release" and e["released"] and not e["unalloc"] and e["c"] in last:
                c = evs[last[e["c"]]]
                if not want_handle or c["opts"][0]["h"]:
                    return last[e["c"]]

    def other_handle(evs):         # the request named another handle, yet the address was freed
        i = freeing_release(evs, False)
        if i is not None:
            evs[i]["opts"][0]["h"] = "somebody-else"
            return evs

    def stale_seq(evs):            # the request carried a sequence number captured from an earlier allocation
        i = freeing_release(evs, False)
        if i is not None:
            evs[i]["opts"][0]["cap"] = 9999
            return evs

    def no_cooldown(evs):          # the clock never advanced, yet cooled-down addresses came back
        if any(e["ev"] == "tick" for e in evs) and evs[0]["cfg"]["cool"] > 0:
            out = [e for e in evs if e["ev"] != "tick"]
            for e in out:
                if e["ev"] == "kv":
                    e["now"] = 0
            return out

    def report_released(evs):      # a refused release reports the address as released
        for e in evs:
            if e["ev"] == "ret" and e["op"] == "release" and e["err"] in ("badseq", "badhandle"):
                for c in evs:
                    if c["ev"] == "call" and c["op"] == "release" and c["c"] == e["c"]:
                        ip = c["opts"][0]["ip"]
                e["released"] = [ip]
                return evs

    return pipeline.corruption_selftest(ctx, P, _ipam.fresh([("other_handle", other_handle), ("stale_seq", stale_seq), ("no_cooldown", no_cooldown),
                                                 ("report_released", report_released)]), n_random=25)


MANIFEST = dict(
    text="Each block write of a release is judged by TLC: an allocated ordinal may only leave the allocated state for a request that "
         "names its address, its handle (if any) and - by the allocation generation the spec tracks itself - the allocation its "
         "sequence number was captured from; refused or unallocated addresses must be reported as such and change nothing; a released "
         "ordinal (spec clock = harness time shifts) is not deallocated or re-assigned before the cooldown; an auto-assign never takes "
         "an address while a longer-free usable one stays free; an undisturbed ReleaseByHandle leaves the handle nothing.",
    design_ref="3.3 C21",
    technique="TLA+ (P_IPAM, I_IPAM) + TLC; ABA / cooldown histories from TLC and seeds on the real client; trace validation with TLC",
)
