"""C24 - Typha clients converge to the datastore view from any join point (snapcache + syncserver + syncclient)."""
import os

from vlib import core, pipeline
from vlib.core import HarnessError, log


def signature(t_id, events, off, reason):
    e = events[off]
    return "%s:%s:%s" % (reason, e.get("ev"), e.get("s", ""))


def nontrivial(evs):
    # a client joined after upstream had already written something, and was told in-sync
    wrote = False
    late = set()
    for e in evs:
        if e["ev"] == "up":
            wrote = True
        if e["ev"] == "cjoin" and wrote:
            late.add(e["c"])
        if e["ev"] == "c_status" and e["s"] == "insync" and e["c"] in late:
            return True
    return False


P = {
    "specdir": "typha",
    "design": [{"module": "I_Typha", "cfg": "MC_I_Typha_flap.cfg", "workers": 4, "timeout": 900, "thorough_timeout": 1700,
                "heap": "4g"},
               {"module": "I_Typha", "cfg": "MC_I_Typha_quick.cfg", "thorough_cfg": "MC_I_Typha.cfg",
                "workers": 4, "timeout": 900, "thorough_timeout": 1700, "heap": "4g"},
               {"module": "I_Typha", "cfg": "MC_I_Typha_live.cfg", "workers": 4, "timeout": 900, "thorough_timeout": 1700,
                "heap": "4g"}],
    "gen": {"module": "Gen_Typha", "cfg": "Gen_cover_flap.cfg", "workers": 1,
            "max": 500, "thorough_max": 4000, "timeout": 900, "thorough_timeout": 1700},
    "driver": {"cmd": "typha", "timeout": 1700},
    "n_random": (150, 1200),
    "trace": {"module": "T_Typha", "cfg": "T_Typha.cfg", "timeout": 1500, "heap": "4g"},
    # validate in chunks of ~40k events: the HWM search of T_Typha is super-linear in the file length
    "chunk": 40000,
    "chunk": 120000,
    "signature": signature,
    "nontrivial": nontrivial,
    "rule": "behaviours = driver decisions (upstream write batches / statuses, client joins with streamed or binary "
            "snapshot, hold / release of a client's callbacks, settle points): one per transition of I_Typha's state graph "
            "(1 key x 3 versions over 2 values with batches of up to 3 writes, so value flaps A->B->A and delete/re-create "
            "inside ONE batch occur; thorough also 2 keys x 1 version) thinned by seed, TLC -simulate walks of 30 decisions "
            "(thorough), 12 scripted-input flap scenarios per run (A->B->A, A->B->C->B, A->B->C->A, present->deleted->present "
            "with the same value, two keys interleaved; MaxBatchSize 8-15; one client connected throughout, one joining after "
            "the batch, streamed and binary snapshots), plus seeded random runs (2-6 keys, 1-3 clients joining at random points of the upstream sequence, "
            "MaxBatchSize 2-4, MaxMessageSize 1-3, a quarter with 20 kB values so that held clients exert real TCP "
            "back-pressure); a trace is non-trivial when a client that joined after the first upstream write was told in-sync",
    "assumptions": ["the upstream is a well-behaved syncer: per-key strictly increasing versions (revisions), deletions only of present "
                    "keys, a write of a present key changes its value (values come from a small domain, so an old value can return)",
                    "InSyncRule is judged against the datastore content at the FIRST upstream in-sync (later in-syncs are implied)",
                    "MaxFallBehind / DropInterval are 1h: the server never drops a slow client in these runs",
                    "a wait that times out in the driver is a harness error (exit 2) after one re-execution, never a verdict"],
    "exhaustive": False,
}


def _std(ctx, PP):
    try:
        return pipeline.standard_check(ctx, PP)
    except HarnessError as e:
        if "timeout" not in str(e) or "TLC timeout" in str(e):
            raise
        log("driver wait timed out; re-executing once with a longer bound:", str(e)[-300:])
        P2 = dict(PP)
        P2["design"] = []
        d = dict(PP["driver"])
        d["env"] = dict(d.get("env", {}), VERIF_BOUND_S="120")
        P2["driver"] = d
        return pipeline.standard_check(ctx, P2)


def run(ctx):
    # first the scripted-input flap scenarios on their own (deterministic: every flap is ONE OnUpdates call)
    P0 = dict(P)
    P0["design"] = []
    P0["gen"] = None
    P0["driver"] = dict(P["driver"], env={"VERIF_MODE": "flaps"})
    P0["n_random"] = (24, 240)
    _std(ctx, P0)
    if ctx.violations:
        return
    P1 = dict(P)
    if os.environ.get("VERIF_NODESIGN"):      # development aid for mutation campaigns: legs A+B only
        P1["design"] = []
    elif not ctx.quick:
        P1["design"] = P["design"] + [{"module": "I_Typha", "cfg": "MC_I_Typha_2c.cfg", "workers": 4,
                                       "thorough_timeout": 1700, "heap": "4g"}]
    _std(ctx, P1)
    if not ctx.replay and not ctx.violations and not ctx.quick:
        P4 = dict(P)                            # the 2-key cover (batch size 2: batches split over several crumbs)
        P4["design"] = []
        P4["gen"] = dict(P["gen"], cfg="Gen_cover.cfg")
        P4["n_random"] = (0, 0)
        _std(ctx, P4)
    if not ctx.replay and not ctx.violations and not ctx.quick:
        P2 = dict(P)
        P2["design"] = []
        P2["gen"] = {"module": "Gen_Typha", "cfg": "Gen_sim.cfg", "simulate": {"num": 100, "depth": 3000},
                     "timeout": 1700, "thorough_timeout": 1700}
        P2["n_random"] = (0, 0)
        _std(ctx, P2)


def selftest(ctx):
    def _deliveries(evs):
        """[(event index, kv index, client, key, ver, del)] per trace"""
        out = []
        for i, e in enumerate(evs):
            if e["ev"] == "reset":
                if out:
                    yield out
                out = []
            if e["ev"] == "c_upd":
                for n, kv in enumerate(e["kvs"]):
                    out.append((i, n, e["c"], kv["k"], kv["ver"], kv["del"]))
        if out:
            yield out

    def older_after_newer(evs):
        for ds in _deliveries(evs):
            first = {}
            for (i, n, c, k, v, d) in ds:
                if (c, k) in first and first[(c, k)][2] < v:
                    i1, n1, _ = first[(c, k)]
                    evs[i1]["kvs"][n1], evs[i]["kvs"][n] = evs[i]["kvs"][n], evs[i1]["kvs"][n1]
                    return evs
                first.setdefault((c, k), (i, n, v))

    def never_written(evs):
        for e in evs:
            if e["ev"] == "c_upd" and e["kvs"]:
                e["kvs"][0]["ver"] += 50
                return evs

    def forged_value(evs):
        for e in evs:
            if e["ev"] == "c_upd":
                for kv in e["kvs"]:
                    if not kv["del"]:
                        kv["val"] += 7
                        return evs

    def insync_too_early(evs):
        # move a client's first in-sync to just after its join, in a trace where upstream wrote a key before reporting
        # in-sync and never deleted it
        start = 0
        for i, e in enumerate(evs + [{"ev": "reset"}]):
            if e["ev"] == "reset":
                tr = evs[start:i]
                cur, snap, deleted_later = {}, None, set()
                for x in tr:
                    if x["ev"] == "up":
                        for kv in x["kvs"]:
                            cur[kv["k"]] = not kv["del"]
                            if snap is not None and kv["del"]:
                                deleted_later.add(kv["k"])
                    if x["ev"] == "ustatus" and x["s"] == "insync" and snap is None:
                        snap = {k for k, p in cur.items() if p}
                if snap and (snap - deleted_later):
                    for a, x in enumerate(tr):
                        if x["ev"] == "cjoin":
                            for b in range(a + 1, len(tr)):
                                y = tr[b]
                                if y["ev"] == "c_status" and y["c"] == x["c"] and y["s"] == "insync":
                                    if any(z["ev"] == "c_upd" and z["c"] == x["c"] for z in tr[a:b]):
                                        ga, gb = start + a, start + b
                                        return evs[:ga + 1] + [evs[gb]] + evs[ga + 1:gb] + evs[gb + 1:]
                                    break
                start = i

    def lost_update(evs):
        for ds in _deliveries(evs):
            last = {}
            for (i, n, c, k, v, d) in ds:
                last[(c, k)] = (i, n, d)
            for (c, k), (i, n, d) in sorted(last.items()):
                if not d:
                    evs[i]["kvs"] = evs[i]["kvs"][:n] + evs[i]["kvs"][n + 1:]
                    return evs

    return pipeline.corruption_selftest(ctx, P, [("older_after_newer", older_after_newer), ("never_written", never_written),
                                                 ("forged_value", forged_value), ("insync_too_early", insync_too_early),
                                                 ("lost_update", lost_update)], n_random=25)


MANIFEST = dict(
    text="TLC checks exhaustively (2 keys, 1-2 clients, MaxBatchSize 2, all interleavings of upstream writes/statuses, the "
         "cache loop's batching and breadcrumb publication, joins at any point, snapshot streaming, delta following with "
         "coalescing, slow readers) that the Typha design (I_Typha) satisfies the property layer P_Typha - every delivered "
         "value was written upstream, per connection a key's versions never decrease, in-sync only when the connection's "
         "knowledge is at least the datastore content at upstream in-sync, exact convergence once drained - and, under weak "
         "fairness with no state constraint, that every client eventually and permanently holds the server's view. "
         "Generated schedules drive the real snapcache.Cache + syncserver.Server + syncclient over loopback TCP (streamed and "
         "binary-snapshot clients, clients held at a gate); upstream writes and all client callbacks are validated by TLC "
         "against P_Typha.",
    design_ref="3.4 C24",
    technique="TLA+ spec (P_Typha/I_Typha, safety + liveness) + TLC; TLC-generated schedules replayed on the real code over "
              "loopback TCP; trace validation with TLC",
)
