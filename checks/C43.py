"""C43 (resolver level) - cluster routes take the path their pool's encapsulation requires (felix/calc L3RouteResolver)."""
from vlib import pipeline
from checks import calc_common as cc

CFG = "T_C43.cfg"
UNIVERSES = ["routes", "routes6"]


def nontrivial(evs):
    # a remote-workload route inside a pool was emitted (block or borrowed address)
    for e in evs:
        if e["ev"] == "emit" and e["m"]["kind"] == "route_update":
            b = e["m"]["body"]
            if "REMOTE_WORKLOAD" in b["types"] and b["pool"] != "NONE":
                return True
    return False


RULE = ("TLC behaviours of Gen_CalcEnv (environment transition cover = every arrival order, reversion and deletion of up to 2/3 keys) "
        "bound by seed to keys of the `routes` universe (pools vxlan / vxlan-cross-subnet / ipip / ipip-cross-subnet / none and a "
        "second disjoint pool, local and remote blocks with borrowed addresses and changing owners, three nodes in and out of the local "
        "subnet, tunnel addresses, a local workload inside local and remote blocks) with a seeded background, + seeded random "
        "histories; at every in-sync flush TLC requires for every block with an owner and every borrowed address: a route naming "
        "the owner, REMOTE_/LOCAL_WORKLOAD typed, pool type of the most specific covering pool, SameSubnet <=> pool is cross-subnet "
        "and owner's address lies in the local node's subnet (Nets.tla), the owner's current address, the borrowed flag; and every "
        "local workload /32 flagged local_workload; non-trivial = a remote-workload route inside a pool was emitted")


def make_P(ctx):
    return cc.make_P(ctx, CFG, UNIVERSES, nontrivial, RULE, design=False, env={"VERIF_FRESH": "none", "VERIF_WINDOWS": "most"}, quick_beh=150, n_random=(240, 4000),
                     assumptions=["resolver level only: RouteUpdate contents; the route-manager level (targets per route class) is checked by the routemgr check",
                                  "destinations that are also a tunnel or host address are left to C01's fresh oracle"])


def _manager_replay(ctx):
    # replay directories of the manager-level leg carry signatures "manager:..."
    if not ctx.replay:
        return False
    try:
        import json, os
        return str(json.load(open(os.path.join(ctx.replay, "meta.json"))).get("signature", "")).startswith("manager:")
    except Exception:
        return False


def run(ctx):
    if not _manager_replay(ctx):
        pipeline.standard_check(ctx, make_P(ctx))
    # manager level (routeManager + vxlan/ipip/noencap managers): checks/c43_managers.py
    if not ctx.replay or _manager_replay(ctx):
        from checks import c43_managers
        c43_managers.run_manager_level(ctx)


def selftest(ctx):
    P = make_P(ctx)

    def flip_same_subnet(evs):
        for e in reversed(evs):
            if e["ev"] == "emit" and e["m"]["kind"] == "route_update" and "REMOTE_WORKLOAD" in e["m"]["body"]["types"] and e["m"]["body"]["types"] == ["REMOTE_WORKLOAD"]:
                e["m"]["body"]["sameSubnet"] = not e["m"]["body"]["sameSubnet"]
                return evs

    def wrong_pool(evs):
        for e in reversed(evs):
            if e["ev"] == "emit" and e["m"]["kind"] == "route_update" and e["m"]["body"]["types"] == ["REMOTE_WORKLOAD"] and e["m"]["body"]["pool"] == "VXLAN":
                e["m"]["body"]["pool"] = "NO_ENCAP"
                return evs

    def stale_node_ip(evs):
        for e in reversed(evs):
            if e["ev"] == "emit" and e["m"]["kind"] == "route_update" and e["m"]["body"]["types"] == ["REMOTE_WORKLOAD"] and e["m"]["body"]["nodeIp"]:
                e["m"]["body"]["nodeIp"] = "9.9.9.9"
                return evs

    def lose_block_route(evs):
        for i in range(len(evs) - 1, -1, -1):
            e = evs[i]
            if e["ev"] == "emit" and e["m"]["kind"] == "route_update" and e["m"]["body"]["types"] == ["REMOTE_WORKLOAD"] and e["m"]["body"]["dst"]["n"] == 29:
                return evs[:i] + evs[i + 1:]

    ok = cc.selftest(ctx, P, [("flip_same_subnet", flip_same_subnet), ("wrong_pool", wrong_pool), ("stale_node_ip", stale_node_ip),
                              ("lose_block_route", lose_block_route)], n_random=150)
    from checks import c43_managers
    return bool(c43_managers.selftest_manager_level(ctx)) and bool(ok)


MANIFEST = dict(
    text="Resolver level: every arrival order, reversion and deletion of node, pool, block and workload updates (TLC-generated from the "
         "syncer contract over a routes universe with all pool encapsulation modes, disjoint pools, borrowed allocations and borrowed tunnel addresses, nodes inside and "
         "outside the local subnet) is replayed on the real calculation graph; at every in-sync flush TLC (Nets.tla prefix arithmetic) "
         "requires each remote block / borrowed address to have a RouteUpdate naming the owning node and its current address, with the "
         "pool type of its most specific pool and SameSubnet exactly when the pool is cross-subnet and the owner lies in the local "
         "subnet, local blocks typed LOCAL_WORKLOAD and local workload /32s flagged so that no blackhole covers them. The manager "
         "level (direct vs tunnel targets, blackholes) is the routemgr check.",
    design_ref="3.1 C43 (resolver level)",
    technique="TLA+ (P_Calc Want layer, Nets.tla) + TLC; TLC-generated histories replayed on real code; trace validation with TLC",
)
