"""C06 - selectors keep their meaning through canonical formatting (libcalico-go/lib/selector/parser)."""
import json
import os
import tempfile

from vlib import core, pipeline

KNOWN_NESTED_NOT = "canon-not-fixpoint:nested-not"


def _nested_not(ast):
    """purely syntactic: does the exported tree contain a negation directly under a negation?"""
    if not isinstance(ast, dict):
        return False
    if ast.get("op") == "not":
        return ast["a"].get("op") == "not" or _nested_not(ast["a"])
    return any(_nested_not(a) for a in ast.get("args", []))


def signature(t_id, events, off, reason):
    """Canonical signature of a rejected expression.  The one known finding (canonical text of
    `!(!x)` is `!!x`, which re-parses to `x`) gets its fixed signature only if (a) the only logged
    equalities that fail are re_canon/re_uid, (b) the tree has a negation directly under a negation and
    (c) TLC accepts the record once those two fields are neutralised - i.e. nothing else is wrong."""
    e = events[off]
    if e.get("ev") != "expr":
        return "%s:%s" % (reason, e.get("ev"))
    if not e.get("parse_ok"):
        return "parse-validate-disagree:%s" % e.get("text", "")[:80]
    bad = [c for c in ("re_canon", "re_uid", "re_evals") if e.get(c) != e.get(c[3:])]
    if not e.get("re_ok"):
        bad.append("re_ok")
    if not e.get("re_validate_ok"):
        bad.append("re_validate_ok")
    if e.get("parse_ok") != e.get("validate_ok"):
        bad.append("validate_ok")
    if bad == ["re_canon", "re_uid"] and _nested_not(e.get("ast")):
        fixed = dict(e)
        fixed["re_canon"], fixed["re_uid"] = e["canon"], e["uid"]
        os.makedirs(core.WORK, exist_ok=True)
        fd, path = tempfile.mkstemp(prefix="c06-sig-", suffix=".ndjson", dir=core.WORK)
        os.close(fd)
        try:
            core.write_ndjson(path, [events[0], fixed])
            if core.validate_trace("selector", "T_Selector", "T_Selector.cfg", path, timeout=120).accepted:
                return KNOWN_NESTED_NOT
        finally:
            os.unlink(path)
    return "expr:%s:%s" % ("+".join(bad) or "semantics", e.get("text", "")[:80])


def _depth(ast):
    if ast.get("op") == "not":
        return 1 + _depth(ast["a"])
    if ast.get("op") in ("and", "or"):
        return 1 + max(_depth(a) for a in ast["args"])
    return 0


def nontrivial(evs):
    # exercises both clauses: an accepted nested expression (round trip) and a rejected text (Validate = Parse)
    acc = any(e["ev"] == "expr" and e["parse_ok"] and _depth(e["ast"]) >= 1 for e in evs)
    rej = any(e["ev"] == "expr" and not e["parse_ok"] for e in evs)
    tlc = any(e.get("src") == "tlc" for e in evs)
    return acc and (rej or tlc)


P = {
    "specdir": "selector",
    "design": [{"module": "I_Canon", "coverage": False, "cfg": "MC_I_Canon.cfg", "thorough_cfg": "MC_I_Canon_deep.cfg", "workers": 4,
                "timeout": 900}],  # single-action spec (one initial state per tree): -coverage adds nothing and costs 10x,
    "gen": {"module": "Gen_Selector", "cfg": "Gen_Selector.cfg", "workers": 1, "max": 30, "thorough_max": None, "timeout": 900},
    "driver": {"cmd": "selector"},
    "n_random": (25, 1000),
    "trace": {"module": "T_Selector", "cfg": "T_Selector.cfg", "timeout": 1200},
    "chunk": 15000,
    "signature": signature,
    "nontrivial": nontrivial,
    "rule": "expressions = (A) every selector AST of depth <= 2 over 2 keys x 2 values (40 leaves: all, global, has, 5 "
            "label/value operators, in / not in with every value subset; !leaf; every ordered pair under && and ||) and "
            "depth-3 families over 6 leaves, enumerated by TLC (Gen_Selector; chunks thinned by seed in quick tier), "
            "each rendered by the driver in 3 spellings (plain; dense with single quotes, `!!!`, notin/startswith, "
            "flattened chains; random whitespace/quotes/redundant parentheses/set noise); (B) a seeded grammar-directed "
            "generator (depth <= 3, n-ary chains, 17 label names incl. keyword look-alikes, 12 value families incl. both "
            "quote characters, operators and brackets as values, empty string, non-ASCII) with 1-3 token-level mutations "
            "and character-level mutations per expression, plus a fixed list of edge texts.  Every accepted expression is "
            "evaluated by the real evaluator on ALL label maps of its trace's vocabulary (TLC checks the list is the "
            "exhaustive set) and TLC compares with Eval of the exported tree.  A trace is non-trivial if it has an "
            "accepted nested expression and a rejected text (or is TLC-generated); distinct = distinct event sequences.",
    "assumptions": ["label values are valid UTF-8 (sub-string operators are compared rune-wise in TLA+)",
                    "the grammar acceptor itself is not specified: which texts parse is the parser's business"],
    "exhaustive": False,
}


def run(ctx):
    pipeline.standard_check(ctx, P)
    tv = ctx.notes.get("trace_validation", {})
    ctx.notes["expressions"] = tv.get("events")


def selftest(ctx):
    import copy

    def deep(fn):
        return lambda evs: fn(copy.deepcopy(evs))

    def first(evs, pred):
        for e in evs:
            if e["ev"] == "expr" and pred(e):
                return e

    def flip_eval(evs):
        e = first(evs, lambda e: e["parse_ok"] and e["evals"])
        if e:
            e["evals"] = [not e["evals"][0]] + e["evals"][1:]
            e["re_evals"] = list(e["evals"])
            return evs

    def re_eval_differs(evs):
        e = first(evs, lambda e: e["parse_ok"] and e["evals"])
        if e:
            e["re_evals"] = e["evals"][:-1] + [not e["evals"][-1]]
            return evs

    def canon_differs(evs):
        e = first(evs, lambda e: e["parse_ok"])
        if e:
            e["re_canon"] = e["re_canon"] + " "
            return evs

    def uid_differs(evs):
        e = first(evs, lambda e: e["parse_ok"])
        if e:
            e["re_uid"] = "s:other"
            return evs

    def validate_disagrees(evs):
        e = first(evs, lambda e: not e["parse_ok"])
        if e:
            e["validate_ok"] = True
            return evs

    def validate_rejects_valid(evs):
        e = first(evs, lambda e: e["parse_ok"])
        if e:
            e["validate_ok"] = False
            return evs

    def drop_label_map(evs):
        if evs[0]["ev"] == "reset" and len(evs[0]["maps"]) > 1:
            evs[0]["maps"] = evs[0]["maps"][:-1]
            return evs

    def wrong_tree(evs):
        # the exported tree says `has(k)` where the evaluator answered for something that is not `has(k)`
        e = first(evs, lambda e: e["parse_ok"] and e["ast"]["op"] in ("eq", "in") and any(e["evals"]) and not all(e["evals"]))
        if e:
            e["ast"] = {"op": "ne", "k": e["ast"]["k"], "v": "never-a-value"}
            e["ct"] = dict(e.get("ct", {}), **{"never-a-value": list("never-a-value")})
            return evs

    P2 = dict(P)
    P2["driver"] = {"cmd": "selector"}
    return pipeline.corruption_selftest(ctx, P2, [(n, deep(f)) for n, f in [
        ("flip_eval", flip_eval), ("re_eval_differs", re_eval_differs), ("canon_differs", canon_differs),
        ("uid_differs", uid_differs), ("validate_accepts_rejected", validate_disagrees),
        ("validate_rejects_valid", validate_rejects_valid), ("drop_label_map", drop_label_map), ("wrong_tree", wrong_tree)]],
        n_random=3)


MANIFEST = dict(
    text="Every selector AST of depth <= 2 over a tiny vocabulary (TLC-enumerated, rendered in several spellings) and "
         "seeded grammar-directed expressions with token-level mutations are fed to the real parser; per expression "
         "the real Parse/Validate/String/UniqueID/Evaluate answers and a purely syntactic export of the node tree are "
         "recorded, and TLC (SelectorRT) checks Validate==Parse, re-parse of the canonical text gives the same canonical "
         "text, UniqueID and matches, and the real evaluator agrees with the reference semantics Eval on ALL label maps "
         "of the bounded vocabulary. Design leg: token-level model of the canonical printer and precedence parser "
         "(I_Canon), round trip checked exhaustively for all trees up to depth 3.",
    design_ref="3.1 C06",
    technique="TLA+ reference semantics (Selectors.Eval) + TLC; TLC-enumerated ASTs and grammar-directed generation "
              "replayed on the real parser; trace validation with TLC",
)
