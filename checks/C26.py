"""C26 - datastore watchers converge across watch failures and resyncs (libcalico-go watchersyncer)."""
import os

from vlib import core, pipeline
from vlib.core import HarnessError, log


def signature(t_id, events, off, reason):
    e = events[off]
    return "%s:%s:%s" % (reason, e.get("ev"), e.get("s", ""))


def nontrivial(evs):
    # the trace exercised a failure path: a failed/expired/not-installed List, a refused/failed Watch or an injected
    # watch error/expiry/close, and still reached the convergence check
    fault = any((e["ev"] in ("list", "watch") and e["res"] != "ok") or
                (e["ev"] == "wev" and e["kind"] in ("error", "expired", "closed")) for e in evs)
    return fault and any(e["ev"] == "quiesce" for e in evs)


P = {
    "specdir": "wsync",
    "design": [{"module": "I_WS", "cfg": "MC_I_WS_quick.cfg", "thorough_cfg": "MC_I_WS.cfg",
                "workers": 4, "timeout": 900, "thorough_timeout": 1700, "heap": "4g"}],
    "gen": {"module": "Gen_WS", "cfg": "Gen_cover5.cfg", "thorough_cfg": "Gen_cover8.cfg", "workers": 1,
            "max": 500, "thorough_max": 20000, "timeout": 600, "thorough_timeout": 1700},
    "driver": {"cmd": "wsync", "timeout": 1500},
    "n_random": (250, 5000),
    "trace": {"module": "T_WS", "cfg": "T_WS.cfg", "timeout": 900, "heap": "4g", "rerun_attempts": 4},
    "chunk": 150000,
    "signature": signature,
    "nontrivial": nontrivial,
    "rule": "behaviours = scripts of datastore decisions (mutate, answer the pending List/Watch of a type OK / error / "
            "not-installed / expired / refused / not-supported, deliver the next watch event, inject watch error / expiry / "
            "bookmark / close): one per transition of I_WS's state graph (2 types x 2 keys, <=5 decisions in quick / <=7 in thorough, 2 faults; "
            "both watchRetryTimeout regimes in thorough) thinned by seed, TLC -simulate walks of 40 decisions, plus seeded random scripts "
            "(2-6 keys, 5-35% faulty answers); every script is followed by a healing phase and a sentinel write, and the "
            "convergence check; scripts and random runs also block the consumer inside a callback (hold/release) so that the "
            "syncer consolidates several results in one pass; 16 scripted connection-loss scenarios per run (both types with "
            "SendDeletesOnConnFail, watchRetryTimeout always exceeded, watch expired / 5 watch errors, re-List fails, consumer "
            "held meanwhile); a trace is non-trivial when it contains at least one failure outcome",
    "assumptions": ["no UpdateProcessor (conversion is the identity); two resource types",
                    "watchRetryTimeout is either never or always exceeded (1h / -1ns); retry intervals shrunk to 1-3 ms",
                    "a wait that times out in the driver is a harness error (exit 2) after one re-execution, never a verdict",
                    "the harness datastore (revisioned map + mutation log replayed to watches) is itself validated against the "
                    "TLA+ store model in the same trace validation"],
    "exhaustive": False,
}


def _std(ctx, PP):
    """standard_check, re-executed once when a bounded wait in the driver timed out"""
    try:
        return pipeline.standard_check(ctx, PP)
    except HarnessError as e:
        if "timeout" not in str(e):
            raise
        log("driver wait timed out; re-executing once with a longer bound:", str(e)[-300:])
        P2 = dict(PP)
        P2["design"] = []
        d = dict(PP["driver"])
        d["env"] = dict(d.get("env", {}), VERIF_BOUND_S="120")
        P2["driver"] = d
        return pipeline.standard_check(ctx, P2)


def run(ctx):
    # first: sustained connection loss with SendDeletesOnConnFail while the consumer is held in a callback
    # (scripted inputs, deterministic through the quiescence wait)
    P0 = dict(P)
    P0["design"] = []
    P0["gen"] = None
    P0["driver"] = dict(P["driver"], env={"VERIF_MODE": "connloss"})
    P0["n_random"] = (32, 240)      # alternating: connection-loss / KDD-empty-collection scenarios
    _std(ctx, P0)
    if ctx.violations:
        return
    P1 = dict(P)
    if os.environ.get("VERIF_NODESIGN"):      # development aid for mutation campaigns: legs A+B only
        P1["design"] = []
    _std(ctx, P1)
    if not ctx.replay and not ctx.violations and not ctx.quick:
        # the other timing regime (watchRetryTimeout never exceeded once connected, no SendDeletesOnConnFail)
        P2 = dict(P)
        P2["design"] = [] if (ctx.quick or os.environ.get("VERIF_NODESIGN")) else \
            [{"module": "I_WS", "cfg": "MC_I_WS_never.cfg", "workers": 4, "thorough_timeout": 1700, "heap": "4g"}]
        P2["gen"] = dict(P["gen"], cfg="Gen_cover_never.cfg", thorough_cfg="Gen_cover_never.cfg", max=300)
        P2["n_random"] = (0, 0)
        _std(ctx, P2)
    if not ctx.replay and not ctx.violations:
        sims = ("Gen_sim.cfg", "Gen_sim_never.cfg")
        if ctx.quick:                          # quick: one timing regime per seed
            sims = (sims[ctx.seed % 2],)
        for cfg in sims:
            P3 = dict(P)
            P3["design"] = []
            P3["gen"] = {"module": "Gen_WS", "cfg": cfg, "simulate": {"num": 25, "depth": 600},
                         "thorough_simulate": {"num": 400, "depth": 600}, "timeout": 600, "thorough_timeout": 1700}
            P3["n_random"] = (0, 0)
            _std(ctx, P3)


def selftest(ctx):
    def _last_touches(evs):
        """per trace that reaches quiesce: {(t,k): (event index, kv index)} of the last update of each key"""
        last = {}
        for i, e in enumerate(evs):
            if e["ev"] == "reset":
                last = {}
            if e["ev"] == "cb_upd":
                for n, kv in enumerate(e["kvs"]):
                    last[(kv["t"], kv["k"])] = (i, n)
            if e["ev"] == "quiesce":
                yield last

    def lose_resync_delete(evs):
        # drop the final deletion of some key: the stream no longer converges
        for last in _last_touches(evs):
            for (t, k), (i, n) in sorted(last.items()):
                if evs[i]["kvs"][n]["rev"] == 0:
                    evs[i]["kvs"] = evs[i]["kvs"][:n] + evs[i]["kvs"][n + 1:]
                    return evs

    def double_delete(evs):
        for i, e in enumerate(evs):
            if e["ev"] == "cb_upd" and any(kv["rev"] == 0 for kv in e["kvs"]):
                kv = [kv for kv in e["kvs"] if kv["rev"] == 0][0]
                e["kvs"] = e["kvs"] + [dict(kv)]
                return evs

    def update_while_waiting(evs):
        # move the first update in front of the status that ends WaitForDatastore
        for i, e in enumerate(evs):
            if e["ev"] == "cb_status" and e["s"] == "resync" and i > 0:
                for k in range(i + 1, len(evs)):
                    if evs[k]["ev"] == "reset":
                        break
                    if evs[k]["ev"] == "cb_upd":
                        return evs[:i] + [evs[k]] + evs[i:k] + evs[k + 1:]

    def insync_too_early(evs):
        # move the first in-sync in front of the last definitive List answer that precedes it
        for i, e in enumerate(evs):
            if e["ev"] == "cb_status" and e["s"] == "insync":
                for k in range(i - 1, 0, -1):
                    if evs[k]["ev"] == "list" and evs[k]["res"] in ("ok", "notinstalled"):
                        first = not any(x["ev"] == "list" and x["ty"] == evs[k]["ty"] and x["res"] in ("ok", "notinstalled")
                                        for x in evs[_trace_start(evs, k):k])
                        if first:
                            return evs[:k] + [e] + evs[k:i] + evs[i + 1:]
                        break
                    if evs[k]["ev"] == "reset":
                        break

    def stale_revision(evs):
        # the final update of some key carries an older revision than the datastore holds
        for last in _last_touches(evs):
            for (t, k), (i, n) in sorted(last.items()):
                if evs[i]["kvs"][n]["rev"] > 1:
                    evs[i]["kvs"][n]["rev"] -= 1
                    return evs

    return pipeline.corruption_selftest(ctx, P, [("lose_resync_delete", lose_resync_delete), ("double_delete", double_delete),
                                                 ("update_while_waiting", update_while_waiting),
                                                 ("insync_too_early", insync_too_early), ("stale_revision", stale_revision)],
                                        n_random=40)


def _trace_start(evs, k):
    while k > 0 and evs[k]["ev"] != "reset":
        k -= 1
    return k


MANIFEST = dict(
    text="TLC checks exhaustively (2 resource types x 2 keys, every sequence of <=7 (quick) / <=9 (thorough) datastore decisions with <=2 faults, "
         "both watchRetryTimeout regimes) that the watcher syncer design (I_WS: per-type watcherCache state machine with "
         "mark-and-sweep resync, error counting, polling and not-installed states, results channel, status aggregation) "
         "satisfies the property layer P_WS: no update while WaitForDatastore, a deletion only for a key the stream holds, "
         "InSync only after every type had a List answered definitively, and - whenever every watch is open and drained - the "
         "stream applied in order equals the datastore content revision by revision. Generated decision scripts drive a "
         "harness datastore (gated List/Watch, unbuffered watch channels) under the real watchersyncer; after a healing phase "
         "and a sentinel write the recorded datastore mutations, List answers and callbacks are validated by TLC against P_WS.",
    design_ref="3.4 C26",
    technique="TLA+ spec (P_WS/I_WS) + TLC; TLC-generated fault scripts replayed on the real code through a scripted "
              "bapi.Client; trace validation with TLC",
)
