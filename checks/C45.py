"""C45 - every node elects the same owner for a load-balancer address (lib/datastructures/hashring)."""
import copy
import os

from vlib import core, pipeline


def signature(t_id, events, off, reason):
    e = events[off]
    return "%s:%s" % (reason, e.get("ev"))


def nontrivial(evs):
    # the antecedent: the same key looked up on two different rings (nodes) holding at least two members,
    # after at least one removal somewhere in the history
    if not any(e["ev"] == "rem" for e in evs):
        return False
    seen = {}
    for e in evs:
        if e["ev"] == "lookup" and e["f"]:
            seen.setdefault(e["k"], set()).add(e["n"])
        if e["ev"] == "lookups" and e["ks"] and e["fs"][0]:
            seen.setdefault(e["ks"][0], set()).add(e["n"])
    return any(len(v) >= 2 for v in seen.values())


BASE = {
    "specdir": "hashring",
    "driver": {"cmd": "hashring"},
    "trace": {"module": "T_Ring", "cfg": "T_Ring.cfg", "heap": "4g", "timeout": 900},
    "chunk": 150000,
    "signature": signature,
    "nontrivial": nontrivial,
    "rule": "behaviours = one per transition of the implementation-state graph of I_Ring (members map, pending lazy removals, "
            "sorted flag; 3 members, 2 replicas, 2 probes, hash range 4, five collision/tie/wrap-around hash tables), each "
            "completed by looking up every key on the history-ful ring and on a ring built fresh from the final member set; "
            "TLC random walks; seeded random multi-node histories (2-4 rings converging to one member set in different orders, "
            "fresh rings in ascending and shuffled order) with table-driven hashes (range 2..1024, 1-4 replicas/probes) and with "
            "the default XXH3 hash (up to 100 replicas); large rings (40-120 members x 64-150 replicas = thousands of virtual nodes, "
            "default hash) where 0-3 removals and 0-4 insertions in random order separate batches of 200-400 lookups, each batch "
            "repeated on a ring built fresh (ascending or shuffled order) from the current member set; non-trivial = a key looked up on two rings after a removal",
    "assumptions": ["the hash function is deterministic (table-driven or the package's default XXH3)",
                    "a ring is used from one goroutine (documented as not safe for concurrent use)"],
    "exhaustive": False,
}


def drift(ctx, leg):
    """Implementation-shaped comparison (never a verdict): owner = Owner(members, key) for table-driven hashes."""
    tp = os.path.join(ctx.work, "trace.ndjson")
    if not os.path.exists(tp):
        return
    tr = core.validate_trace("hashring", "T_Ring", "T_Ring_exact.cfg", tp, heap="4g", timeout=900)
    d = ctx.notes.setdefault("drift", [])
    if not tr.accepted:
        d.append({"leg": leg, "line": tr.hwm, "event": tr.bad_line})
        core.log("drift: the real ring's owner differs from I_Ring's Owner() at line %d: %s" % (tr.hwm, tr.bad_line))
    ctx.notes["exact_owner_checked"] = ctx.notes.get("exact_owner_checked", 0) + 1


def legs(quick):
    D = {"workers": 4, "heap": "4g"}
    design = [dict(D, module="MC_Ring", cfg="MC_I_Ring_quick.cfg", thorough_cfg="MC_I_Ring.cfg"),
              dict(D, module="MC_Ring", cfg="MC_I_Ring_quick1.cfg", thorough_cfg="MC_I_Ring_p1b.cfg")]
    out = [dict(BASE, design=design,
                gen={"module": "Gen_Ring", "cfg": "Gen_cover_q.cfg", "thorough_cfg": "Gen_cover.cfg", "workers": 4,
                     "max": 600, "thorough_max": 20000},
                n_random=(150, 3000)),
           dict(BASE, design=[],
                gen={"module": "Gen_Ring", "cfg": "Gen_sim.cfg", "simulate": {"num": 80, "depth": 40},
                     "thorough_simulate": {"num": 1500, "depth": 40}},
                n_random=(0, 0)),
           # large rings with the default hash: thousands of virtual nodes, removals and several insertions between
           # lookup batches, every batch repeated on a ring built fresh from the current member set
           dict(BASE, design=[], gen=None, n_random=(0, 0),
                driver={"cmd": "hashring", "env": {"VERIF_RING_BIG": "3" if quick else "30"}})]
    return out


def run(ctx):
    for i, P in enumerate(legs(ctx.quick)):
        pipeline.standard_check(ctx, P)
        if ctx.violations:
            break
        if i == 0 or (i == 1 and not ctx.quick):      # legs with table-driven hashes
            drift(ctx, i + 1)
        if ctx.replay:
            break


def _fresh(fn):
    # corruption_selftest hands out shallow copies: never let one corruption leak into the next one
    return lambda evs: fn(copy.deepcopy(evs))


def selftest(ctx):
    P = dict(BASE, design=[], gen=None, n_random=(25, 25))

    def drop_remove(evs):
        # forget a removal of a member that owned something afterwards is hard to aim at; drop one whose
        # member is later inserted on no ring and check the length observation catches it
        for i, e in enumerate(evs):
            if e["ev"] == "rem" and evs[i + 1]["ev"] == "len" and i > 3 and evs[i - 1]["ev"] == "len" \
                    and evs[i - 1]["n"] == e["n"] and evs[i - 1]["len"] != evs[i + 1]["len"]:
                return evs[:i] + evs[i + 1:]

    def non_member_owner(evs):
        for e in evs:
            if e["ev"] == "lookup" and e["f"]:
                e["m"] = 999
                return evs

    def stale_value(evs):
        for e in evs:
            if e["ev"] == "lookup" and e["f"]:
                e["ver"] += 1
                return evs

    def history_dependent_owner(evs):
        # make the fresh ring (node 100) disagree with the history-ful rings on one key
        members = set()
        for e in evs:
            if e["ev"] == "reset":
                members = set()
            if e["ev"] == "ins" and e["n"] == 100:
                members.add(e["m"])
            if e["ev"] == "lookup" and e["n"] == 100 and e["f"] and len(members) >= 2:
                other = sorted(members - {e["m"]})[0]
                e["m"], e["ver"] = other, 1000 + other
                return evs

    def found_on_empty(evs):
        for e in evs:
            if e["ev"] == "lookup" and not e["f"]:
                e["f"] = True
                return evs
        # no lookup on an empty ring recorded: fabricate one at the start of the first trace
        evs.insert(1, {"ev": "lookup", "t": evs[0]["t"], "n": 9, "k": 1, "f": True, "m": 1, "ver": 1})
        return evs

    return pipeline.corruption_selftest(ctx, P, [("drop_remove", _fresh(drop_remove)), ("non_member_owner", _fresh(non_member_owner)),
                                                 ("stale_value", _fresh(stale_value)),
                                                 ("history_dependent_owner", _fresh(history_dependent_owner)),
                                                 ("found_on_empty", _fresh(found_on_empty))], n_random=25)


MANIFEST = dict(
    text="Property layer Ring: per node the current member set; a Lookup must return a current member with its current value "
         "and the same (member set, key) must get the same owner on every ring whatever the insert/remove history (compared "
         "with rings built fresh from the final set). I_Ring models the members map, lazy removals, entry table and sorted "
         "flag with a table-driven hash; TLC checks exhaustively over all hash tables that every Lookup answers the "
         "set-determined Owner(); its state graph generates the histories replayed on real rings (table-driven hash with "
         "collisions, ties, wrap-around; and the default XXH3), and TLC validates every recorded Lookup.",
    design_ref="3.8 C45",
    technique="TLA+ specs (Ring/I_Ring) + TLC; TLC-generated behaviours replayed; trace validation with TLC",
)
