"""C30 - Windows rule flattening preserves policy verdicts for supported rules.

Pipeline (Go-first, one TLC judgement pass; DESIGN 3.2):
  1. TLC enumerates every small tier layout over a tiny rule alphabet (specs/winpol/Gen_Win, `BEH` lines);
     harness/cmd/winpol turns them plus seeded random cases (supported rules only, IP sets, 0-3 tiers, staged
     policies, profiles, static rules, IP sets / port lists beyond the 4000-entry chunk limit) into the
     protobuf messages the calculation graph would send + the same data as PolicySem JSON.
  2. The in-package driver (inpkg/felix/dataplane/windows, `go test -overlay`) feeds every case through the REAL
     NewWinDataplaneDriver wiring (IP-set cache, PolicySets, policyManager, endpointManager incl. flattenTiers /
     rewritePriorities), records every GetPolicySetRules result and the rules applied to the HNS endpoint and
     exports them field by field to the HNS rule IR.
  3. TLC (specs/winpol/T_Win over specs/lib/HNS + PolicySem + PolicyProbes) derives the probe connections of
     every case from the case itself and checks, for both directions,
        HNS!Verdict(applied rules, conn) = WinSem!WinReference(case, conn)                      (L2)
        HNS!Verdict(GetPolicySetRules result, conn) = WinSem!WinCallReference(call, conn)       (L1)
     A panic of the real code is never accepted.
A rejected case is re-executed and re-validated alone with the strict config before it is reported.
"""
import concurrent.futures
import hashlib
import json
import os
import random
import shutil
import time

from vlib import core
from vlib.core import HarnessError, log

SPEC = "winpol"
PKG = "felix/dataplane/windows"

# (cfg, how many layouts to replay in quick / thorough; None = all)
ENUM = {
    "quick": [("Gen_Win_quick.cfg", 400)],
    "thorough": [("Gen_Win_all2.cfg", None), ("Gen_Win_q.cfg", None), ("Gen_Win_m14.cfg", 3000), ("Gen_Win_m16.cfg", 3000),
                 ("Gen_Win_m25.cfg", 3000), ("Gen_Win_m36.cfg", 3000), ("Gen_Win_m27.cfg", 3000)],
}
SIZES = {"quick": dict(n=40, nbig=4, nmulti=12, shards=4), "thorough": dict(n=2500, nbig=27, nmulti=600, shards=4)}


def _scale(x):
    try:
        return max(1, int(x * float(os.environ.get("VERIF_C30_SCALE", "1"))))
    except ValueError:
        return x


def _enumerate(ctx, plan):
    """Leg A: TLC enumerates the small-scope layouts; returns {"alphabet":..., "layouts":[...]}."""
    alphabet, sets, layouts, info = {}, {}, [], []
    rnd = random.Random(ctx.seed)

    def one(item):
        # the enumeration is a pure function of the generator spec and its config: keep TLC's output between runs
        cfg, _ = item
        h = hashlib.sha1()
        for d, names in ((os.path.join(core.SPECS, SPEC), ["Gen_Win.tla", "WinSem.tla", cfg]),
                         (os.path.join(core.SPECS, "lib"), ["PolicySem.tla", "PolicyProbes.tla", "HNS.tla", "Nets.tla"])):
            for nme in names:
                h.update(open(os.path.join(d, nme), "rb").read())
        cache = os.path.join(core.WORK, "c30-enum-%s-%s.json" % (cfg, h.hexdigest()[:16]))
        if os.path.exists(cache):
            try:
                return json.load(open(cache))
            except ValueError:
                pass
        r = core.tlc(SPEC, "Gen_Win", cfg, workers=1, timeout=900, heap="4g")
        if r.violated or r.error or not r.behaviours:
            raise HarnessError("Gen_Win %s failed: %s\n%s" % (cfg, r.violated or r.error, r.out[-1500:]))
        tmp = "%s.%d" % (cache, os.getpid())
        json.dump(r.behaviours, open(tmp, "w"))
        os.replace(tmp, cache)
        return r.behaviours

    with concurrent.futures.ThreadPoolExecutor(max_workers=3) as ex:
        results = list(ex.map(one, plan))
    for (cfg, take), behs in zip(plan, results):
        al = [b["alphabet"] for b in behs if "alphabet" in b]
        for b in behs:
            for k, v in b.get("sets", {}).items():
                if sets.setdefault(k, v) != v:
                    raise HarnessError("IP set %s differs between two alphabets" % k)
        ls = [b["layout"] for b in behs if "layout" in b]
        if len(al) != 1 or not ls:
            raise HarnessError("Gen_Win %s printed no layouts" % cfg)
        for k, v in al[0].items():
            if alphabet.setdefault(k, v) != v:
                raise HarnessError("rule code %s means different rules in two alphabets" % k)
        total = len(ls)
        if take is not None and _scale(take) < total:
            ls = rnd.sample(ls, _scale(take))
        layouts += ls
        info.append({"cfg": cfg, "layouts_enumerated": total, "replayed": len(ls), "exhaustive": len(ls) == total})
        log("enumerated %d layouts (%s), replaying %d" % (total, cfg, len(ls)))
    return {"alphabet": alphabet, "sets": sets, "layouts": layouts}, info


def _generate(ctx, beh_path, n, nbig, out, classes=None, nmulti=0):
    binp = core.go_build("winpol")
    env = core.goenv()
    env.update({"VERIF_SEED": str(ctx.seed), "VERIF_N": str(n), "VERIF_NBIG": str(nbig), "VERIF_BEH": beh_path or "",
                "VERIF_OUT": out, "VERIF_CLASSES": classes or "", "VERIF_NMULTI": str(nmulti)})
    p = core.run([binp], env=env, timeout=900, check=False)
    if p.returncode != 0 or not os.path.exists(out):
        raise HarnessError("winpol generator failed:\n%s" % (p.stdout or "")[-3000:])


_TESTBIN = {}


def _execute(ctx, cases, out):
    """Run the in-package driver (test binary built once per check run with `go test -c -overlay`)."""
    binp = _TESTBIN.get(ctx.work)
    if binp is None:
        # built into the persistent bin directory (the go command skips the link when it is up to date), then
        # copied next to the work files: the real code reads static-rules.json from the executable's directory
        os.makedirs(core.BIN, exist_ok=True)
        built = os.path.join(core.BIN, "windataplane.test")
        p = core.go_test_overlay(PKG, run_re="^TestVerifWinpol$", timeout=1700, extra_args=["-c", "-o", built])
        if p.returncode != 0 or not os.path.exists(built):
            raise HarnessError("building the in-package driver failed rc=%s:\n%s" % (p.returncode, (p.stdout or "")[-4000:]))
        binp = os.path.join(ctx.work, "windataplane.test")
        shutil.copy2(built, binp)
        _TESTBIN[ctx.work] = binp
    if os.path.exists(out):
        os.unlink(out)
    env = core.goenv()
    env.update({"VERIF_CASES": cases, "VERIF_OUT": out})
    p = core.run([binp, "-test.run", "^TestVerifWinpol$", "-test.count", "1", "-test.timeout", "1700s"],
                 cwd=os.path.join(core.REPO, PKG), env=env, timeout=1800, check=False)
    if p.returncode != 0 or "VERIF winpol:" not in (p.stdout or "") or not os.path.exists(out) or os.path.getsize(out) == 0:
        raise HarnessError("in-package driver failed rc=%s:\n%s" % (p.returncode, (p.stdout or "")[-4000:]))


def _bulk_validate(ctx, lines, shards):
    """Diag pass over all case lines, sharded over parallel single-worker TLC runs. -> (stats, rejects)"""
    order = sorted(range(len(lines)), key=lambda i: -len(lines[i]))
    parts = [[] for _ in range(max(1, min(shards, len(lines))))]
    weight = [0] * len(parts)
    for i in order:                                   # greedy balancing by line length (a proxy for the work)
        k = weight.index(min(weight))
        parts[k].append(i)
        weight[k] += len(lines[i]) + 20000
    paths = []
    for k, idx in enumerate(parts):
        p = os.path.join(ctx.work, "shard-%d.ndjson" % k)
        with open(p, "w") as f:
            for i in sorted(idx):
                f.write(lines[i] + "\n")
        paths.append(p)

    def one(p):
        return core.tlc(SPEC, "T_Win", "T_Win_diag.cfg", workers=1, timeout=1500 if ctx.quick else 3400,
                        extra_files={"trace.ndjson": p}, heap="3g", stack="256m")

    with concurrent.futures.ThreadPoolExecutor(max_workers=len(paths)) as ex:
        results = list(ex.map(one, paths))
    stats, rejects = {}, {}
    for p, r in zip(paths, results):
        if r.violated or r.error:
            raise HarnessError("T_Win diag pass failed on %s: %s\n%s" % (p, r.violated or r.error, r.out[-3000:]))
        for ln in r.prints:
            if not ln.startswith('"WIN '):
                continue
            rec = json.loads(json.loads(ln)[4:])
            if rec["kind"] == "stat":
                stats[rec["case"]] = rec
            elif rec["kind"] == "reject":
                rejects[rec["case"]] = rec
        ctx.cov["states"] += r.distinct
        ctx.cov["transitions"] += max(r.generated, 1)
    return stats, rejects


def _signature(rec):
    """rec: the TLC reject record.  The only label besides the level is computed by TLC itself
    (WinSem!WinOnlySvcMix): the case is accepted once the protocol / source matches that the code ignores
    next to a destination service set are dropped from the reference."""
    w = rec["witness"]
    if w[0] == "panic":
        return "panic:" + str(w[1])
    return "%s-verdict-mismatch" % w[0] + ("+service-set-with-other-match" if rec.get("svcmix") else "")


def _confirm(ctx, cids, rerun_lines):
    """The re-executed lines of the representative rejected cases must be rejected again (one TLC run)."""
    p = os.path.join(ctx.work, "confirm.ndjson")
    with open(p, "w") as f:
        for cid in cids:
            if cid not in rerun_lines:
                raise HarnessError("case %s missing from the re-execution" % cid)
            f.write(rerun_lines[cid] + "\n")
    r = core.tlc(SPEC, "T_Win", "T_Win_diag.cfg", workers=1, timeout=1500, extra_files={"trace.ndjson": p}, heap="3g",
                 stack="256m", keep=ctx.work)
    if r.violated or r.error:
        raise HarnessError("T_Win confirmation pass failed: %s\n%s" % (r.violated or r.error, r.out[-3000:]))
    again = set()
    for ln in r.prints:
        if ln.startswith('"WIN '):
            rec = json.loads(json.loads(ln)[4:])
            if rec["kind"] == "reject":
                again.add(rec["case"])
    for cid in cids:
        if cid not in again:
            raise HarnessError("rejection of case %s did not reproduce on re-execution" % cid)


def run(ctx, n=None, nbig=None, enum=None, classes=None, corrupt=None, nmulti=None):
    tier = "quick" if ctx.quick else "thorough"
    sz = SIZES[tier]
    n = _scale(sz["n"]) if n is None else n
    nbig = sz["nbig"] if nbig is None else nbig
    nmulti = _scale(sz["nmulti"]) if nmulti is None else nmulti
    plan = ENUM[tier] if enum is None else enum
    classes = classes or os.environ.get("VERIF_C30_CLASSES") or None      # development knob: random classes to generate

    # (the models' own unit tests, specs/winpol/MC_HNS, are ASSUMEs evaluated at the start of every T_Win run)
    beh, info = _enumerate(ctx, plan) if plan else ({"alphabet": {}, "sets": {}, "layouts": []}, [])
    beh_path = os.path.join(ctx.work, "behaviours.json")
    json.dump(beh, open(beh_path, "w"))
    ctx.notes["behaviours_from_tlc"] = len(beh["layouts"])
    ctx.notes["enumeration"] = info

    cases = os.path.join(ctx.work, "cases.ndjson")
    trace = os.path.join(ctx.work, "trace.ndjson")
    t0 = time.time()
    _generate(ctx, beh_path if beh["layouts"] else None, n, nbig, cases, classes, nmulti)
    t1 = time.time()
    _execute(ctx, cases, trace)
    log("stages: enumerate %.0fs, generate %.0fs, build+execute real code %.0fs" % (t0 - ctx.t0, t1 - t0, time.time() - t1))
    lines = [l for l in open(trace).read().splitlines() if l]
    if corrupt:
        lines = corrupt(lines)
    by_id, parsed = {}, {}
    for l in lines:
        c = json.loads(l)
        parsed[c["case"]] = c
        by_id[c["case"]] = l
    log("%d endpoint renderings by the real code (%d enumerated layouts, %d random, %d chunking, %d multi-endpoint scenarios)"
        % (len(lines), len(beh["layouts"]), n, nbig, nmulti))

    t0 = time.time()
    stats, rejects = _bulk_validate(ctx, lines, sz["shards"])
    log("TLC judged %d cases, %d probe connections, %d rejected (%.0fs)"
        % (len(stats), sum(s["probes"] for s in stats.values()), len(rejects), time.time() - t0))
    if set(stats) != set(parsed):
        raise HarnessError("TLC judged %d of %d cases" % (len(stats), len(parsed)))
    oos = [c for c, s in stats.items() if not s["inscope"]]
    if oos:
        raise HarnessError("generator produced cases outside the property's antecedent: %s" % oos[:5])

    # ---- rejected cases: confirm by re-execution, classify, report
    by_sig = {}
    for cid in sorted(rejects):
        by_sig.setdefault(_signature(rejects[cid]), []).append(cid)
    reps = [cids[0] for _, cids in sorted(by_sig.items())]          # one representative per signature is reported
    if reps:
        sub = os.path.join(ctx.work, "cases-rerun.ndjson")
        with open(sub, "w") as f:
            for l in open(cases):
                if l.strip() and json.loads(l)["case"] in {parsed[cid].get("src", cid) for cid in reps}:
                    f.write(l)
        if corrupt is None:
            t2 = os.path.join(ctx.work, "trace-rerun.ndjson")
            _execute(ctx, sub, t2)
            rerun_lines = {json.loads(l)["case"]: l for l in open(t2).read().splitlines() if l}
        else:
            rerun_lines = {cid: by_id[cid] for cid in reps}
        _confirm(ctx, reps, rerun_lines)
        log("%d rejected cases, %d signatures, representatives re-executed and rejected again" % (len(rejects), len(reps)))
    rejected_notes = []
    for sig, cids in sorted(by_sig.items()):
        cid = cids[0]
        one = os.path.join(ctx.work, "rejected-%s.ndjson" % cid)
        open(one, "w").write(by_id[cid] + "\n")
        what = "case %s (%s): %s" % (cid, parsed[cid]["cls"], json.dumps(rejects[cid]["witness"])[:400])
        rdir = core.save_replay(ctx, "case%s" % cid,
                                files={"trace.ndjson": one, "tlc.out": os.path.join(ctx.work, "tlc-T_Win-T_Win_diag.cfg.out"),
                                       "cases.ndjson": os.path.join(ctx.work, "cases-rerun.ndjson")},
                                meta={"property": ctx.id, "case": cid, "signature": sig, "witness": rejects[cid]["witness"],
                                      "seed": ctx.seed, "tier": ctx.tier, "class": parsed[cid]["cls"],
                                      "how": "VERIF_CASES=cases.ndjson go test -overlay ... -run TestVerifWinpol; "
                                             "TLC T_Win/T_Win.cfg on trace.ndjson"})
        new_v = core.report(ctx, sig, what, rdir)
        rejected_notes.append({"signature": sig, "cases": len(cids), "known": not new_v, "example": cid})

    # ---- evidence
    evals = sum(2 * s["probes"] + s["l1"] for s in stats.values())
    ctx.cov["traces_validated_against_impl"] += len(stats)
    ctx.cov["evaluations"] += evals
    ctx.cov["distinct_nontrivial"] += sum(1 for s in stats.values() if len(s["reached"]) > 1)
    ctx.cov["exhaustive"] = bool(info) and all(i["exhaustive"] for i in info)
    ctx.cov["rule"] = ("cases = TLC-enumerated tier layouts (<=2 tiers x <=2 policies x <=2 rules over a 6-rule alphabet, both "
                       "directions, tier default actions, position of the default tier) + seeded random endpoints (supported "
                       "rules, IP sets, 0-3 tiers, profiles, host addresses, staged policies, static rules, late IP sets) + "
                       "IP sets / port lists of more than 4000 entries; every case is rendered by the real endpoint manager; "
                       "probes are derived by TLC from the case's own rules (CIDR edges, port-range ends, set members, chunk "
                       "boundaries, protocols) and tried in both directions; evaluations = (connection, rule list) verdict "
                       "comparisons (applied rules in 2 directions + every GetPolicySetRules result); a case is non-trivial "
                       "when its probes reach at least two different reference verdicts")
    by_cls = {}
    for cid, c in parsed.items():
        by_cls[c["cls"]] = by_cls.get(c["cls"], 0) + 1
    ctx.notes["cases_by_class"] = by_cls
    ctx.notes["probe_connections"] = sum(s["probes"] for s in stats.values())
    ctx.notes["rules_applied"] = sum(s["acl"] for s in stats.values())
    ctx.notes["max_rule_list_entries"] = max([max([len(r["localAddrs"]) + len(r["remoteAddrs"]) + len(r["localPorts"]) +
                                                   len(r["remotePorts"]) for r in c["acl"]] or [0]) for c in parsed.values()] or [0])
    ctx.notes["rejected"] = rejected_notes
    some = next((c for c in parsed.values() if c["cls"] != "enum" and c["acl"]), None) or next(iter(parsed.values()))
    ctx.sample({"case": some["case"], "cls": some["cls"], "tiers": [t["name"] for t in some["tiers"]],
                "applied_rules": some["acl"][:3], "stat": stats[some["case"]]}, limit=2)
    ctx.assumptions += [
        "HNS evaluates Switch ACLs by ascending Priority, first match decides (specs/lib/HNS.tla); for two matching rules of "
        "equal priority and different actions no verdict is assumed; unmatched traffic is never relied on",
        "Windows-specific reference behaviours taken from the code's own comments: WinProfilesApply, WinProfilesAsLastTier, "
        "WinPassOutOfLastTierIsDeny, WinHostToEndpointAllowed, WinStaticRulesFirst (specs/winpol/WinSem.tla)",
        "policies containing rules the Windows dataplane documents as unsupported (negated matches, ICMP type/code, named "
        "ports) are outside the property's antecedent and are not generated",
    ]
    return stats, rejects


def selftest(ctx):
    """Corrupt recorded rule lists of accepted cases; every corruption must be rejected (strict config)."""
    cases = os.path.join(ctx.work, "cases.ndjson")
    trace = os.path.join(ctx.work, "trace.ndjson")
    _generate(ctx, None, 16, 0, cases, "rand")
    _execute(ctx, cases, trace)
    lines = [l for l in open(trace).read().splitlines() if l]
    stats, rejects = _bulk_validate(ctx, lines, 2)
    good = [json.loads(l) for l in lines if json.loads(l)["case"] not in rejects]
    if len(good) < 4:
        log("selftest: too few accepted cases")
        return False

    def pick(pred):
        for c in good:
            hit = pred(json.loads(json.dumps(c)))
            if hit is not None:
                return hit
        return None

    def flip_action(c):
        for r in c["acl"]:
            if r["ruleType"] == "Switch" and r["action"] == "Allow" and r["id"] == "" and r["proto"] == 256 \
                    and not (r["localAddrs"] or r["remoteAddrs"]):
                r["action"] = "Block"
                return c
        return None

    def drop_catch_all(c):
        for d in ("In", "Out"):
            sw = [r for r in c["acl"] if r["dir"] == d and r["ruleType"] == "Switch"]
            if sw and sw[-1]["action"] == "Block" and sw[-1]["proto"] == 256:
                c["acl"].remove(sw[-1])
                return c
        return None

    def equal_priority(c):
        for call in c["calls"]:
            rs = call["rules"]
            for i in range(len(rs) - 1):
                if rs[i]["action"] != rs[i + 1]["action"] and rs[i + 1]["proto"] == 256 and not (
                        rs[i + 1]["localAddrs"] or rs[i + 1]["remoteAddrs"] or rs[i + 1]["localPorts"] or rs[i + 1]["remotePorts"]):
                    rs[i + 1]["prio"] = rs[i]["prio"]
                    return c
        return None

    def swap_direction(c):
        for r in c["acl"]:
            if r["ruleType"] == "Switch" and r["action"] == "Allow" and r["id"] == "" and (r["localPorts"] or r["remoteAddrs"]):
                r["localPorts"], r["remotePorts"] = r["remotePorts"], r["localPorts"]
                r["localAddrs"], r["remoteAddrs"] = r["remoteAddrs"], r["localAddrs"]
                return c
        return None

    def drop_list_entry(c):
        for r in c["acl"]:
            if r["ruleType"] == "Switch" and r["action"] == "Allow" and r["id"] == "":
                for f in ("remoteAddrs", "localAddrs", "localPorts", "remotePorts"):
                    if len(r[f]) >= 2:
                        r[f] = r[f][:-1]
                        return c
        return None

    def panic(c):
        c["panic"] = "injected"
        return c

    ok = True
    for name, fn in (("flip-allow-to-block", flip_action), ("drop-end-of-tier-rule", drop_catch_all),
                     ("equal-priority-across-actions", equal_priority), ("swap-local-remote", swap_direction),
                     ("drop-list-entry", drop_list_entry), ("panic", panic)):
        bad = pick(fn)
        if bad is None:
            log("selftest: corruption %s not applicable" % name)
            ok = False
            continue
        p = os.path.join(ctx.work, "selftest-%s.ndjson" % name)
        open(p, "w").write(json.dumps(bad) + "\n")
        tr = core.validate_trace(SPEC, "T_Win", "T_Win.cfg", p, timeout=600, heap="3g", stack="256m")
        log("selftest: corruption %-30s -> %s" % (name, "accepted (BAD)" if tr.accepted else "rejected"))
        # a corruption that happens to be semantically neutral for one case is retried on the other cases
        if tr.accepted:
            again = False
            for c in good:
                b2 = fn(json.loads(json.dumps(c)))
                if b2 is None or b2["case"] == bad["case"]:
                    continue
                open(p, "w").write(json.dumps(b2) + "\n")
                if not core.validate_trace(SPEC, "T_Win", "T_Win.cfg", p, timeout=600, heap="3g", stack="256m").accepted:
                    again = True
                    log("selftest:   ... rejected on case %s" % b2["case"])
                    break
            ok = ok and again
    return ok


MANIFEST = dict(
    text="Every generated endpoint (TLC-enumerated small tier layouts, seeded random supported-rule policies with IP sets, "
         "tiers, staged policies, profiles, static rules, and address/port lists beyond the 4000-entry chunk limit) is "
         "rendered by the real Windows policy sets / policy manager / endpoint manager (GetPolicySetRules, flattenTiers, "
         "rewritePriorities); TLC evaluates the resulting hns.ACLPolicy lists with an HNS priority model on probe "
         "connections derived from the case and compares every verdict, in both directions, with the PolicySem reference "
         "restricted to the documented Windows behaviours. A panic of the renderer is never accepted.",
    design_ref="3.2 C30",
    technique="TLA+ reference semantics (PolicySem + named Windows deviations) and HNS ACL evaluation model checked by TLC on "
              "rule lists rendered by the real code; TLC-enumerated small scope replayed through the real code",
)
