"""C39 - overlapping IP pools resolve to one allocatable pool per address (kube-controllers ippool controller)."""
import copy
import ipaddress

from vlib import pipeline

PKG = "kube-controllers/pkg/controllers/ippool"


def signature(t_id, events, off, reason):
    e = events[off]
    return "%s:%s" % (reason, e.get("ev"))


def _eligible(p):
    return not p["disabled"] and not p["deleting"]


def nontrivial(evs):
    # the antecedent of the property is exercised when a reconcile ran on a snapshot that held a masked
    # pool (Allocatable=False although enabled and not deleting), a terminating pool, or finalized a pool
    prev = []
    for e in evs:
        if e["ev"] == "reconcile":
            if any(p["deleting"] for p in prev):
                return True
            if any(_eligible(p) and p["cond"] == "F" for p in e["pools"]):
                return True
        prev = e.get("pools", prev)
    return False


P = {
    "specdir": "pools",
    "design": [
        {"module": "I_Pools", "cfg": "MC_I_Pools_quick.cfg", "thorough_cfg": "MC_I_Pools.cfg", "workers": 4,
         "heap": "4g", "timeout": 600, "thorough_timeout": 2400, "allow_zero": ("IReconcileFail",)},
    ],
    "gen": {"module": "Gen_Pools", "cfg": "Gen_cover.cfg", "thorough_cfg": "Gen_cover3.cfg", "workers": 1,
            "max": 2500, "thorough_max": 60000, "timeout": 600, "thorough_timeout": 2400},
    "driver": {"overlay_pkg": PKG, "run": "^TestVerifPools$"},
    "n_random": (400, 6000),
    "trace": {"module": "T_Pools", "cfg": "T_Pools.cfg", "timeout": 1500, "heap": "4g"},
    "chunk": 150000,
    "signature": signature,
    "nontrivial": nontrivial,
    "rule": "behaviours = for every reachable abstract state (pools x blocks) of the generator model a shortest "
            "history reaching it followed by Reconcile - plain, and with the status write of one pool rejected by the API "
            "server (at most one such pass per history) - (TLC, VIEW + ACTION_CONSTRAINT; quick: 2 pools over "
            "{A, B in A, E apart} x 1 block spot with creation-stamp ties, thinned by seed; thorough: 3 pools), "
            "TLC -simulate walks of 24 steps for 3 pools over the 5-CIDR laminar family, and seeded random "
            "histories over 3-6 pools, 12 IPv4/IPv6 CIDRs and 11 block spots with passes in which the status writes of 1-2 "
            "pools are rejected (usually followed by the retry); a trace is non-trivial if a "
            "reconcile ran on a snapshot holding a terminating pool or left an enabled, non-deleting pool "
            "Allocatable=False; distinct = distinct event sequences",
    "assumptions": [
        "the informer caches equal the API server state when Reconcile starts (atomic on the snapshot); status "
        "(condition) writes may be rejected with a conflict, finalizer writes succeed; a pass with rejected writes is "
        "accepted iff it would be accepted had those writes landed (the rest of what it wrote is judged as is), and "
        "the passes after it are judged in full",
        "API-server semantics (resourceVersion conflicts, status sub-resource, delete vs finalizers) are "
        "emulated by the driver's miniature API server and re-checked in TLA+ at every environment step",
        "allocatable = accepted by IPAM's pool filter (enabled, not deleting, not Allocatable=False)",
    ],
    "exhaustive": False,
}


def run(ctx):
    pipeline.standard_check(ctx, P)
    if not ctx.replay and not ctx.violations:
        P2 = dict(P)
        P2["design"] = [{"module": "I_Pools", "cfg": "MC_I_Pools_quick2.cfg", "thorough_cfg": "MC_I_Pools_mid.cfg",
                         "workers": 4, "heap": "4g", "timeout": 600, "thorough_timeout": 2400}]
        P2["gen"] = {"module": "Gen_Pools", "cfg": "Gen_sim.cfg", "simulate": {"num": 150, "depth": 30},
                     "thorough_simulate": {"num": 4000, "depth": 30}, "timeout": 600}
        P2["n_random"] = (0, 0)
        pipeline.standard_check(ctx, P2)
    if not ctx.quick and not ctx.replay and not ctx.violations:
        # thorough: every reachable state of the 2-pool model WITH one rejected status write
        P3 = dict(P)
        P3["design"] = []
        P3["gen"] = {"module": "Gen_Pools", "cfg": "Gen_cover.cfg", "workers": 1, "thorough_max": 30000,
                     "thorough_timeout": 2400}
        P3["n_random"] = (0, 0)
        pipeline.standard_check(ctx, P3)


def _overlap(a, b):
    def net(c):
        return ipaddress.ip_network("%s/%d" % (ipaddress.ip_address(bytes(c["a"])), c["n"]))
    x, y = net(a), net(b)
    return x.version == y.version and x.overlaps(y)


def selftest(ctx):
    def second_allocatable(evs):
        # a masked pool reported Allocatable=True next to the pool that masks it
        for e in evs:
            if e["ev"] == "reconcile":
                for p in e["pools"]:
                    if _eligible(p) and p["cond"] == "F" and any(
                            q is not p and _eligible(q) and q["cond"] == "T" and _overlap(p["cidr"], q["cidr"])
                            for q in e["pools"]):
                        p["cond"] = "T"
                        p["fin"] = True
                        return evs

    def displaced(evs):
        # the winner and a loser of an overlap swap places
        for e in evs:
            if e["ev"] == "reconcile":
                for p in e["pools"]:
                    for q in e["pools"]:
                        if (_eligible(p) and p["cond"] == "T" and _eligible(q) and q["cond"] == "F"
                                and _overlap(p["cidr"], q["cidr"])
                                and sum(1 for r in e["pools"] if _overlap(r["cidr"], q["cidr"])) == 2):
                            p["cond"], q["cond"] = "F", "T"
                            p["fin"], q["fin"] = False, True
                            return evs

    def unmasked(evs):
        # a pool overlapping a terminating pool reported allocatable
        for e in evs:
            if e["ev"] == "reconcile":
                for t in e["pools"]:
                    if t["deleting"] and not t["disabled"]:
                        for q in e["pools"]:
                            if q is not t and _eligible(q) and q["cond"] == "F" and _overlap(t["cidr"], q["cidr"]):
                                q["cond"] = "T"
                                q["fin"] = True
                                return evs

    def finalizer_lost(evs):
        # an allocatable pool left without the finalizer
        for e in evs:
            if e["ev"] == "reconcile":
                for p in e["pools"]:
                    if p["fin"] and _eligible(p) and p["cond"] == "T":
                        p["fin"] = False
                        return evs

    def finalized_with_blocks(evs):
        # a terminating pool that still has a block inside it disappears in a reconcile
        for e in evs:
            if e["ev"] == "reconcile":
                for p in e["pools"]:
                    if p["deleting"] and any(_overlap(p["cidr"], b) and b["n"] >= p["cidr"]["n"] for b in e["blocks"]):
                        e["pools"] = [x for x in e["pools"] if x is not p]
                        return evs

    def promoted_in_failed_pass(evs):
        # in a pass whose status write on a terminating pool was rejected, an overlapping masked pool is promoted
        for e in evs:
            if e["ev"] == "reconcile" and e.get("failed"):
                for t in e["pools"]:
                    if t["name"] in e["failed"] and t["deleting"] and not t["disabled"]:
                        for q in e["pools"]:
                            if q is not t and _eligible(q) and q["cond"] == "F" and _overlap(t["cidr"], q["cidr"]):
                                q["cond"], q["fin"] = "T", True
                                return evs

    def error_without_fault(evs):
        for e in evs:
            if e["ev"] == "reconcile" and e.get("failed"):
                e["failed"] = []
                return evs

    def drop_delete(evs):
        for i, e in enumerate(evs):
            if e["ev"] == "delete":
                return evs[:i] + evs[i + 1:]

    def failed_reconcile(evs):
        for e in evs:
            if e["ev"] == "reconcile" and not e.get("failed"):
                e["err"] = "injected"
                return evs

    # corruption_selftest hands out shallow copies: work on deep copies so that corruptions stay independent
    def deep(fn):
        return lambda evs: fn(copy.deepcopy(evs))

    return pipeline.corruption_selftest(ctx, P, [(n, deep(f)) for n, f in [
        ("second_allocatable", second_allocatable), ("displaced", displaced), ("unmasked", unmasked),
        ("finalizer_lost", finalizer_lost), ("finalized_with_blocks", finalized_with_blocks),
        ("drop_delete", drop_delete), ("failed_reconcile", failed_reconcile),
        ("promoted_in_failed_pass", promoted_in_failed_pass), ("error_without_fault", error_without_fault)]],
        n_random=400)


MANIFEST = dict(
    text="TLC checks exhaustively (3 pools over a laminar CIDR family, blocks appearing/vanishing, API-server delete "
         "semantics) that the transcribed reconcile design (I_Pools) is accepted by the property layer (Pools: no two "
         "allocatable pools overlap, no displacement of an already-allocatable pool by a newer one, terminating pools "
         "keep masking, finalizer kept while blocks exist / carried by allocatable pools); for every reachable "
         "abstract state a history reaching it plus Reconcile is replayed on the real IPPoolController.reconcile() "
         "(in-package overlay driver, miniature API server + hand-filled informer indexers) and every recorded step "
         "is validated by TLC against Pools with CIDR arithmetic from Nets; plus TLC random walks and seeded random "
         "histories over IPv4/IPv6 families.",
    design_ref="3.3 C39",
    technique="TLA+ spec (Pools/I_Pools) + TLC; TLC-generated behaviours replayed via go test -overlay; trace "
              "validation with TLC",
)
