"""C27 - Felix configuration resolves by source priority, deterministically (felix/config).

Custom run(): the known defects of this property are spread all over the input space (every assignment
with a fatal value in a shadowed source), so the trace spec is run in its classifying mode
(T_Config_all.cfg: every deviating run is consumed and printed as `REJECT <t> <line> <case> <signature>`
by TLC) and each distinct signature is then re-executed on the real code, re-judged by TLC and reported
once.  Verdicts are still only real-code outcomes that the property-layer spec P_Config rejects twice.
"""
import json
import os
import random
import re

from vlib import core
from vlib.core import HarnessError, log

SPEC = "config"
DRIVER = "cfgresolve"
REJ = re.compile(r'^"REJECT (\d+) (\d+) (\d+) (.*)"$', re.M)


# ------------------------------------------------------------------------------------------------
def case_shape(beh):
    asg = beh[0]["asg"]
    nset = sum(1 for e in asg if e)
    nalt = sum(1 for e in asg if any(k["sp"] == "a" for k in e))
    dup = any(len(e) > 1 for e in asg)
    return nset, nalt, dup


def select_cases(behs, seed, quick):
    """quick tier: every case with at most one setting source, every canonical two-source case, and seeded
    samples of the rest; thorough: see below."""
    behs = sorted(behs, key=lambda b: json.dumps(b, sort_keys=True))
    rnd = random.Random(seed)
    if not quick:
        # all canonical assignments (5^6), all cases with at most two setting sources, and a seeded quarter of
        # the three-source cases with an alternative spelling / two case-variant keys (15 000 of them)
        keep, rest = [], []
        for b in behs:
            nset, nalt, dup = case_shape(b)
            (keep if (nalt == 0 or nset <= 2) else rest).append(b)
        return keep + rnd.sample(rest, len(rest) // 4)
    keep, alt2, three = [], [], []
    for b in behs:
        nset, nalt, dup = case_shape(b)
        if nset <= 1 or (nset == 2 and nalt == 0):
            keep.append(b)
        elif nset == 2:
            alt2.append(b)
        else:
            three.append(b)
    keep += rnd.sample(alt2, min(60, len(alt2))) + rnd.sample(three, min(100, len(three)))
    return keep


_BIN = {}


def run_driver(ctx, beh_path, out_path, n_random, params, only=None, dupreps=None):
    if "bin" not in _BIN:
        _BIN["bin"] = core.go_build(DRIVER)
    binp = _BIN["bin"]
    env = core.goenv()
    env.update({"VERIF_BEH": beh_path, "VERIF_OUT": out_path, "VERIF_SEED": str(ctx.seed), "VERIF_N": str(n_random),
                "VERIF_TIER": ctx.tier, "VERIF_C27_PARAMS": params})
    if only is not None:
        env["VERIF_C27_ONLY"] = json.dumps(only)
    if dupreps:
        env["VERIF_C27_DUPREPS1"], env["VERIF_C27_DUPREPS"] = str(dupreps[0]), str(dupreps[1])
    if os.path.exists(out_path):
        os.unlink(out_path)
    p = core.run([binp], env=env, timeout=3000, check=False)
    if p.returncode != 0:
        raise HarnessError("driver %s failed rc=%d:\n%s" % (DRIVER, p.returncode, (p.stdout or "")[-3000:]))
    if not os.path.exists(out_path) or os.path.getsize(out_path) == 0:
        raise HarnessError("driver produced no trace\n" + (p.stdout or "")[-2000:])
    m = re.search(r"C27SUMMARY (.*)", p.stdout or "")
    return json.loads(m.group(1)) if m else {}


def read_groups(path):
    """-> list of traces: {"t":, "reset": line, "param":, "groups": [(case idx, [lines])]}"""
    traces, cur, grp = [], None, None
    with open(path) as f:
        for raw in f:
            raw = raw.rstrip("\n")
            if not raw:
                continue
            # cheap field extraction (lines are large); full parse only for reset lines
            if '"ev":"reset"' in raw:
                d = json.loads(raw)
                cur = {"t": d["t"], "reset": raw, "param": d["param"], "groups": []}
                traces.append(cur)
                grp = None
            elif '"ev":"case"' in raw:
                d = json.loads(raw)
                grp = (d["case"], [raw])
                cur["groups"].append(grp)
            else:
                grp[1].append(raw)
    return traces


def chunks_of(traces, max_lines):
    """split into chunks of whole case groups; a chunk is a list of lines (reset line repeated as needed)"""
    out, cur, n = [], [], 0
    for tr in traces:
        cur.append(tr["reset"])
        n += 1
        for _, lines in tr["groups"]:
            if n + len(lines) > max_lines and n > 1:
                out.append(cur)
                cur, n = [tr["reset"]], 1
            cur += lines
            n += len(lines)
    if n > 1 or cur:
        out.append(cur)
    return out


def classify(ctx, lines, tag, strict=False):
    """Run T_Config over `lines`; returns (accepted, [(t, case, signature)], TLCResult-ish)."""
    p = os.path.join(ctx.work, "chunk-%s.ndjson" % tag)
    with open(p, "w") as f:
        f.write("\n".join(lines) + "\n")
    tr = core.validate_trace(SPEC, "T_Config", "T_Config.cfg" if strict else "T_Config_all.cfg", p, workers=1,
                             timeout=1800, heap="4g", keep=ctx.work)
    rej = [(int(a), int(c), s) for a, _, c, s in REJ.findall(tr.out)]
    return tr, rej, p


# ------------------------------------------------------------------------------------------------
def run(ctx):
    quick = ctx.quick
    # ---- design leg: the loop of resolve() refines P_Config!Allowed; reading checks of P_Config
    for cfg, to in ((("MC_I_Config_quick.cfg", 600),) if quick else
                    (("MC_I_Config.cfg", 3000), ("MC_I_Config_all6.cfg", 3000))):
        r = core.design_check(SPEC, "I_Config", cfg, workers=4, timeout=to, allow_zero=("SkipShadowedLate",), heap="4g")
        ctx.add_design(r)
        log("design I_Config/%s: %d distinct, %d generated, %.1fs" % (cfg, r.distinct, r.generated, r.wall))

    # ---- leg A: cases from TLC
    beh_path = os.path.join(ctx.work, "behaviours.json")
    only = None
    if ctx.replay:
        behs = json.load(open(os.path.join(ctx.replay, "behaviours.json")))
        meta = json.load(open(os.path.join(ctx.replay, "meta.json")))
        only = [[meta["param"], i] for i in range(len(behs))]
        params, n_random = "all", 0
    else:
        g = core.tlc(SPEC, "Gen_Config", "Gen_quick.cfg" if quick else "Gen_full.cfg", workers=2, timeout=1800, heap="4g")
        if g.violated or not g.behaviours:
            raise HarnessError("generator problem: %s\n%s" % (g.violated, g.out[-2000:]))
        behs = select_cases(g.behaviours, ctx.seed, quick)
        ctx.cov["states"] += g.distinct
        ctx.cov["transitions"] += g.generated
        ctx.notes["behaviour_generator"] = {"module": "Gen_Config", "cases_generated": len(g.behaviours), "cases_used": len(behs)}
        params, n_random = ("reps", 200) if quick else ("all", 2000)
        log("generated %d cases, using %d" % (len(g.behaviours), len(behs)))
    json.dump(behs, open(beh_path, "w"))
    ctx.sample({"case": behs[min(len(behs) - 1, 7)]})

    # ---- drive the real code
    trace_path = os.path.join(ctx.work, "trace.ndjson")
    dupreps = (12, 2) if quick else (48, 3)
    summary = run_driver(ctx, beh_path, trace_path, n_random, params, only=only, dupreps=dupreps)
    ctx.notes["driver"] = summary
    traces = read_groups(trace_path)
    by_t = {tr["t"]: tr for tr in traces}
    glen_of = {(tr["t"], g[0]): len(g[1]) for tr in traces for g in tr["groups"]}
    ngroups = sum(len(tr["groups"]) for tr in traces)
    nlines = sum(1 + sum(len(g[1]) for g in tr["groups"]) for tr in traces)
    log("driver: %d parameters, %d (parameter, case) groups, %d trace lines" % (len(traces), ngroups, nlines))

    # ---- leg B: TLC classifies every run
    rejects = {}          # signature -> list of (t, case, number of lines in the group)
    tlc_states, tlc_wall = 0, 0.0
    chunks = chunks_of(traces, 12000 if quick else 40000)
    from concurrent.futures import ThreadPoolExecutor
    with ThreadPoolExecutor(max_workers=3) as ex:          # three single-worker TLC processes
        results = list(ex.map(lambda ic: classify(ctx, ic[1], "c%d" % ic[0]), enumerate(chunks)))
    for lines, (tr, rej, p) in zip(chunks, results):
        tlc_states += tr.states
        tlc_wall += tr.wall
        if not tr.accepted:
            # a line no action of the trace spec can consume at all (malformed / out of protocol)
            bad = lines[tr.hwm] if tr.hwm < len(lines) else ""
            rdir = core.save_replay(ctx, "nomatch", files={"trace.ndjson": p, "behaviours.json": beh_path},
                                    meta={"property": ctx.id, "reason": tr.reason, "line": bad[:2000]})
            core.report(ctx, "no-match", "trace line not accepted by T_Config: " + bad[:300], rdir)
            return
        for t, c, sig in rej:
            rejects.setdefault(sig, []).append((t, c, glen_of[(t, c)]))
    log("TLC classified %d lines: %d deviating runs, signatures: %s" %
        (nlines, sum(len(v) for v in rejects.values()), {k: len(v) for k, v in rejects.items()}))

    # ---- every distinct signature: re-execute on the real code, re-judge, report once
    for sig in sorted(rejects):
        if sig.startswith("harness:"):
            raise HarnessError("trace spec could not classify driver input: %s %s" % (sig, rejects[sig][:3]))
    # known findings are all confirmed; of the unknown signatures the three most frequent are enough for a verdict
    unknown = sorted((s_ for s_ in rejects if not core.known_match(ctx.id, s_)), key=lambda s_: (-len(rejects[s_]), s_))
    skipped = unknown[3:]
    if skipped:
        log("further deviating signatures not re-executed (a verdict needs only the first ones): %s" % skipped[:20])
        ctx.notes["signatures_not_reexecuted"] = skipped
    for s_ in skipped:
        rejects.pop(s_)
    cands = {sig: sorted(set(v), key=lambda x: (-x[2], x[0], x[1]))[:3] for sig, v in rejects.items()}
    confirmed = {}
    for attempt in range(3):
        todo = [(sig, cands[sig][attempt]) for sig in sorted(cands) if sig not in confirmed and attempt < len(cands[sig])]
        if not todo:
            break
        # one re-execution for all pending signatures: generated cases go into a fresh behaviours file,
        # seeded random histories are re-run by index
        re_behs, only2 = [], []
        for sig, (t, c, _) in todo:
            if c >= len(behs):
                continue
            only2.append([by_t[t]["param"], len(re_behs)])
            re_behs.append(behs[c])
        got = {}          # (param, original case index) -> lines of the re-executed group
        rerun = os.path.join(ctx.work, "trace-rerun.ndjson")
        if re_behs:
            rb = os.path.join(ctx.work, "beh-rerun.json")
            json.dump(re_behs, open(rb, "w"))
            run_driver(ctx, rb, rerun, 0, "all", only=only2, dupreps=dupreps)
            back = {(p_, i): c for (p_, i), c in zip([tuple(x) for x in only2], [x[1][1] for x in todo if x[1][1] < len(behs)])}
            for tr in read_groups(rerun):
                for ci, lines in tr["groups"]:
                    got[(tr["param"], back[(tr["param"], ci)])] = [tr["reset"]] + lines
        rnd_todo = [[by_t[t]["param"], c] for sig, (t, c, _) in todo if c >= len(behs)]
        if rnd_todo:
            run_driver(ctx, beh_path, rerun, n_random, params, only=rnd_todo, dupreps=dupreps)
            for tr in read_groups(rerun):
                for ci, lines in tr["groups"]:
                    got[(tr["param"], ci)] = [tr["reset"]] + lines
        # one TLC pass over all re-executed groups (trace numbers re-assigned 1..k to tell them apart)
        batch, owner = [], {}
        for sig, (t, c, _) in todo:
            lines2 = got.get((by_t[t]["param"], c))
            if not lines2:
                continue
            tn = len(owner) + 1
            owner[tn] = (sig, t, c, lines2)
            for x in lines2:
                dd = json.loads(x)
                dd["t"] = tn
                batch.append(json.dumps(dd, separators=(",", ":")))
        if not batch:
            continue
        tr2, rej2, p2 = classify(ctx, batch, "confirm-%d" % attempt)
        if not tr2.accepted:
            continue
        for tn, (sig, t, c, lines2) in owner.items():
            if any(a == tn and s2 == sig for a, _, s2 in rej2):
                one = os.path.join(ctx.work, "reexecuted-%d-%d.ndjson" % (attempt, tn))
                open(one, "w").write("\n".join(lines2) + "\n")
                confirmed[sig] = (t, c, by_t[t]["param"], one, c >= len(behs))
    for sig in sorted(rejects):
        if sig not in confirmed:
            raise HarnessError("deviation %r did not reproduce on re-execution (candidates %s)" % (sig, cands[sig]))
        t, c, param, p2, is_random = confirmed[sig]
        grp = next(g for g in by_t[t]["groups"] if g[0] == c)
        first = os.path.join(ctx.work, "rejected-first.ndjson")
        open(first, "w").write("\n".join([by_t[t]["reset"]] + grp[1]) + "\n")
        one_beh = os.path.join(ctx.work, "beh-one.json")
        json.dump([] if is_random else [behs[c]], open(one_beh, "w"))
        name = re.sub(r"[^A-Za-z0-9]+", "-", sig)[:60]
        rdir = core.save_replay(ctx, name, files={"trace.ndjson": first, "trace-reexecuted.ndjson": p2, "behaviours.json": one_beh,
                                                  "tlc.out": os.path.join(ctx.work, "tlc-T_Config-T_Config_all.cfg.out")},
                                meta={"property": ctx.id, "signature": sig, "param": param, "case_index": c,
                                      "case": None if is_random else behs[c], "seed": ctx.seed, "tier": ctx.tier,
                                      "occurrences": len(rejects[sig]),
                                      "parameters_affected": sorted({by_t[x[0]]["param"] for x in rejects[sig]})[:40]})
        what = "%s (parameter %s, case %s; %d deviating runs over %d parameters)" % (
            sig, param, "random history" if is_random else json.dumps(behs[c][0]["asg"], separators=(",", ":")),
            len(rejects[sig]), len({x[0] for x in rejects[sig]}))
        core.report(ctx, sig, what, rdir)

    # ---- evidence
    nontrivial = 0
    for tr in traces:
        for c, _ in tr["groups"]:
            if c >= len(behs):
                nontrivial += 1
            else:
                nset, nalt, dup = case_shape(behs[c])
                nontrivial += 1 if (nset >= 2 or dup) else 0
    ctx.cov["traces_validated_against_impl"] += ngroups
    ctx.cov["evaluations"] += nlines
    ctx.cov["distinct_nontrivial"] += nontrivial
    ctx.cov["rule"] = ("one unit = one (real parameter, assignment case) group: the case applied to fresh Configs in ascending, "
                       "descending and a seeded source order, once through UpdateFromConfigUpdate, plus repeated runs with re-built "
                       "maps when a source holds two case-variant keys; every UpdateFrom step is judged against P_Config!Allowed and "
                       "equal assignments must give equal answers. Non-trivial = at least two sources set the parameter, or a source "
                       "holds two case-variant keys, or a seeded random update history. Cases come from TLC (Gen_Config); quick tier: "
                       "all cases with <=1 setting source, all canonical 2-source cases, seeded samples of the rest; class "
                       "representatives get all cases, one parameter per (parser type, class) the <=2-source ones; thorough: every "
                       "registered parameter and all 5^6 canonical assignments for the class representatives")
    ctx.cov["exhaustive"] = not quick
    ctx.notes["trace_validation"] = {"groups": ngroups, "lines": nlines, "tlc_states": tlc_states, "tlc_wall_s": round(tlc_wall, 1),
                                     "signatures": {k: len(v) for k, v in rejects.items()}}
    ctx.assumptions += ["the meaning of a literal (valid/invalid, parsed value) is what the parameter's own Parse returns; parser "
                        "correctness is not part of C27",
                        "effective values are compared through a deterministic rendering of the Config field (pointers dereferenced, "
                        "regexps by source text)",
                        "the `changed` flag and the content of Config.Err beyond 'set when UpdateFrom returned an error' are not judged"]


# ------------------------------------------------------------------------------------------------
SELFTEST_CASES = [
    [[], [], [], [], [{"k": "v1", "sp": "c"}], []],
    [[{"k": "v2", "sp": "c"}], [], [], [{"k": "v1", "sp": "a"}], [], []],
    [[{"k": "v1", "sp": "c"}], [], [{"k": "none", "sp": "c"}], [], [], []],
    [[], [{"k": "v1", "sp": "c"}], [], [], [], [{"k": "bad", "sp": "c"}]],
    [[{"k": "v1", "sp": "c"}], [{"k": "v2", "sp": "c"}], [{"k": "v1", "sp": "c"}], [{"k": "v2", "sp": "c"}], [{"k": "v1", "sp": "c"}], []],
]


def selftest(ctx):
    """Corrupt recorded runs; each corruption must produce a REJECT that the uncorrupted trace does not have."""
    beh_path = os.path.join(ctx.work, "st-beh.json")
    json.dump([[{"op": "case", "asg": a}] for a in SELFTEST_CASES], open(beh_path, "w"))
    trace_path = os.path.join(ctx.work, "st-trace.ndjson")
    run_driver(ctx, beh_path, trace_path, 14, "reps", dupreps=(4, 2))
    lines = open(trace_path).read().splitlines()
    tr, base, _ = classify(ctx, lines, "st-base")
    if not tr.accepted:
        log("selftest: uncorrupted trace not consumed")
        return False
    base = set(base)
    evs = [json.loads(x) for x in lines]
    bad_keys = {(t, c) for t, c, _ in base}

    def clean_runs():
        for i, e in enumerate(evs):
            if e["ev"] == "run" and (e["t"], e["case"]) not in bad_keys:
                yield i, e

    def flip_value(es):
        for i, e in clean_runs():
            for st in e["steps"]:
                if not st["err"] and st["sets"] and st["sets"][0]["raw"]:
                    st["val"] = st["val"] + "x"
                    return es

    def flip_error(es):
        for i, e in clean_runs():
            st = e["steps"][-1]
            st["err"] = not st["err"]
            st["errfield"] = st["err"] or st["errfield"]
            return es

    def hide_source(es):
        # drop the raw pairs of the step that changed the value: the recorded answer no longer follows
        for i, e in clean_runs():
            for st in e["steps"]:
                if st["changed"] and st["api"] == "one" and not st["err"]:
                    st["sets"][0]["raw"] = []
                    return es

    def swap_class(es):
        # pretend a die-on-parse-failure parameter is not fatal
        for e in es:
            if e["ev"] == "reset" and e["die"] and not e["local"]:
                e["die"] = False
                return es

    def unstable(es):
        # same assignment, different answer in a later run of the same case
        seen = {}
        for i, e in clean_runs():
            k = (e["t"], e["case"])
            if k in seen and len(e["steps"]) == 1 and not e["steps"][0]["err"]:
                e["steps"][0]["val"] = "\"verif-other\""
                return es
            seen[k] = i

    ok = True
    for name, fn in [("flip_value", flip_value), ("flip_error", flip_error), ("hide_source", hide_source),
                     ("swap_class", swap_class), ("unstable", unstable)]:
        evs = [json.loads(x) for x in lines]
        out = fn(evs)
        if out is None:
            log("selftest: corruption %s not applicable" % name)
            ok = False
            continue
        tr2, rej2, _ = classify(ctx, [json.dumps(e, separators=(",", ":")) for e in out], "st-" + name)
        new = set(rej2) - base
        good = (not tr2.accepted) or bool(new)
        log("selftest: corruption %-12s -> %s" % (name, ("rejected %s" % sorted(new)[:2]) if good else "accepted (BAD)"))
        ok = ok and good
    return ok


MANIFEST = dict(
    text="P_Config defines Allowed(class, assignment) - the outcomes the statement permits (highest-priority eligible source "
         "decides: parsed value / zero for none / default for non-fatal invalid / error for fatal) - and TLC checks exhaustively that "
         "the loop of Config.resolve (I_Config, one action per key) refines it and that shadowed or non-local sources never matter. "
         "TLC enumerates the assignment cases (value kinds x key spellings x six sources); the driver applies each to real "
         "config.Config objects through UpdateFrom / UpdateFromConfigUpdate in several source orders with re-built maps, for real "
         "parameters of every metadata class and every param_types parser (thorough: every registered parameter); TLC judges every "
         "recorded step against Allowed and demands equal answers for equal assignments (order independence).",
    design_ref="3.7 C27",
    technique="TLA+ spec (P_Config/I_Config) + TLC exhaustive; TLC-generated cases replayed on real config.Config; trace validation with TLC",
)
