"""C25 - reconnecting to Typha converges without stale or lost resources (syncersv1/dedupebuffer)."""
import os

from vlib import pipeline


def signature(t_id, events, off, reason):
    e = events[off]
    return "%s:%s" % (reason, e.get("ev"))


def _scan(evs):
    """yield (index, event, esync, down-before, upIS, downIS) following the property layer's bookkeeping
    (used only to find applicable corruption points / count non-trivial traces, never for verdicts)"""
    esync, down, up, dn = False, {}, 0, 0
    for i, e in enumerate(evs):
        ev = e["ev"]
        if ev == "reset":
            esync, down, up, dn = False, {}, 0, 0
        yield i, e, esync, dict(down), up, dn
        if ev == "p_restart":
            esync = False
        elif ev == "p_status" and e["s"] == "insync":
            esync, up = True, up + 1
        elif ev == "s_status" and e["s"] == "insync":
            dn += 1
        elif ev == "s_upd":
            for kv in e["kvs"]:
                if kv["v"]:
                    down[kv["k"]] = kv["v"]
                else:
                    down.pop(kv["k"], None)


def nontrivial(evs):
    # the antecedent of Converged after a reconnection: a quiescence observation at which the latest
    # connection is in sync, in an epoch >= 2, with something delivered downstream
    restarted = False
    for i, e, esync, down, up, dn in _scan(evs):
        if e["ev"] == "p_restart":
            restarted = True
        if e["ev"] == "idle" and esync and restarted and down:
            return True
    return False


P = {
    "specdir": "dedupe",
    "design": [{"module": "I_Dedupe", "cfg": "MC_I_Dedupe_quick.cfg", "thorough_cfg": "MC_I_Dedupe.cfg",
                "workers": 4, "timeout": 900, "thorough_timeout": 1700, "heap": "4g"},
               ],
    "gen": {"module": "Gen_Dedupe", "cfg": "Gen_cover.cfg", "thorough_cfg": "Gen_cover2.cfg", "workers": 1,
            "max": 800, "thorough_max": 30000, "timeout": 600, "thorough_timeout": 1700},
    "driver": {"cmd": "dedupe"},
    "n_random": (300, 6000),
    "trace": {"module": "T_Dedupe", "cfg": "T_Dedupe.cfg", "timeout": 900, "heap": "4g"},
    "chunk": 200000,
    "signature": signature,
    "nontrivial": nontrivial,
    "rule": "behaviours = one per transition of I_Dedupe's state graph (2 keys x 2 values, <=4 producer calls, 1 restart "
            "in quick; <=5 calls, 2 restarts in thorough; TLC VIEW + ACTION_CONSTRAINT), thinned by seed in quick tier, each "
            "followed by a drain; plus seeded random runs (2-8 keys, Typha-like snapshots or arbitrary updates, restarts "
            "while the sink is blocked mid-batch, consumer started late) and a few runs over 130-250 keys so that "
            "pullNextBatch's batch size of 100 is crossed; a trace is non-trivial when it has a quiescence observation in "
            "an epoch >= 2 at which the latest connection is in sync and downstream holds something",
    "assumptions": ["the producer is the Typha client: OnTyphaConnectionRestarted is followed by OnStatusUpdated(WaitForDatastore) "
                    "and OnStatusUpdated(ResyncInProgress) (syncclient.Start/loop)",
                    "'the buffer drains' is observed as: every producer call returned, every pulled update delivered, consumer "
                    "goroutine parked in sync.Cond.Wait"],
    "exhaustive": False,
}


def run(ctx):
    P1 = dict(P)
    if os.environ.get("VERIF_NODESIGN"):      # development aid for mutation campaigns: legs A+B only
        P1["design"] = []
    pipeline.standard_check(ctx, P1)
    if not ctx.replay and not ctx.violations:
        # long random walks of I_Dedupe chosen by TLC (-simulate, weighted so that pulls/restarts are frequent)
        P2 = dict(P)
        P2["design"] = []
        P2["gen"] = {"module": "Gen_Dedupe", "cfg": "Gen_sim.cfg", "simulate": {"num": 80, "depth": 200},
                     "thorough_simulate": {"num": 800, "depth": 200}, "timeout": 600, "thorough_timeout": 1700}
        P2["n_random"] = (0, 0)
        pipeline.standard_check(ctx, P2)
    if not ctx.replay and not ctx.violations:
        if not ctx.quick:
            # second design config: pull batch size 2 and two-update producer batches (batch splitting)
            from vlib import core
            r = core.design_check("dedupe", "I_Dedupe", "MC_I_Dedupe_b2.cfg", workers=4, timeout=1700, heap="4g")
            ctx.add_design(r)
        P3 = dict(P)
        P3["design"] = []
        P3["gen"] = None
        P3["driver"] = {"cmd": "dedupe", "env": {"VERIF_BIG": "1"}}
        P3["n_random"] = (4, 60)
        pipeline.standard_check(ctx, P3)


def selftest(ctx):
    def flip_type(evs):
        for e in evs:
            if e["ev"] == "s_upd":
                for kv in e["kvs"]:
                    if kv["v"] and kv["ut"] in ("new", "upd"):
                        kv["ut"] = "upd" if kv["ut"] == "new" else "new"
                        return evs

    def _last_delivery_before_synced_idle(evs, want_delete):
        last = None
        for i, e, esync, down, up, dn in _scan(evs):
            if e["ev"] == "reset":
                last = None
            if e["ev"] == "s_upd":
                last = (i, down)
            if e["ev"] == "idle" and esync and last is not None:
                j, down_before = last
                kvs = evs[j]["kvs"]
                for n, kv in enumerate(kvs):
                    if any(x["k"] == kv["k"] for x in kvs[n + 1:]):
                        continue
                    if want_delete and kv["v"] == 0 and kv["k"] in down_before:
                        return j, n
                    if not want_delete and kv["v"]:
                        return j, n
        return None

    def stale_value(evs):
        hit = _last_delivery_before_synced_idle(evs, False)
        if hit:
            j, n = hit
            evs[j]["kvs"][n]["v"] += 7
            return evs

    def lose_deletion(evs):
        hit = _last_delivery_before_synced_idle(evs, True)
        if hit:
            j, n = hit
            kvs = evs[j]["kvs"]
            evs[j]["kvs"] = kvs[:n] + kvs[n + 1:]
            return evs

    def extra_insync(evs):
        for i, e, esync, down, up, dn in _scan(evs):
            if e["ev"] == "s_status" and e["s"] == "insync" and dn + 1 == up:
                return evs[:i + 1] + [dict(e)] + evs[i + 1:]

    return pipeline.corruption_selftest(ctx, P, [("flip_type", flip_type), ("stale_value", stale_value),
                                                 ("lose_deletion", lose_deletion), ("extra_insync", extra_insync)],
                                        n_random=30)


MANIFEST = dict(
    text="TLC checks exhaustively (2 keys x 2 values, 2 restarts, all interleavings of producer calls, pulls and gated "
         "sink returns) that the dedupe buffer design (I_Dedupe: queue, liveResourceKeys, liveKeysNotSeenSinceReconnect, "
         "status coalescing, consumer goroutine) satisfies the property layer P_Dedupe: at every quiescent point at which the "
         "latest connection has reported in-sync the downstream view equals that connection's view, New/Updated match what "
         "downstream holds, in-sync is forwarded at most once per upstream report. Every transition of that state graph is "
         "replayed on the real DedupeBuffer (producer calls from the driver, SendToSinkForever against a gated sink so pulls "
         "happen at chosen points, including mid-batch), and all recorded calls are validated by TLC against P_Dedupe; plus "
         "seeded random runs incl. >100-key batches.",
    design_ref="3.4 C25",
    technique="TLA+ spec (P_Dedupe/I_Dedupe) + TLC; TLC-generated behaviours replayed on the real code with a gated sink; "
              "trace validation with TLC",
)
