"""C41 - flow offload never bypasses endpoints that need per-packet processing.

Two halves, each a leg (add a leg by appending to LEGS):
  rules : checks/c41_rules.py  - the rendered offload rule fires only for established flows with neither
                                 address in the no-flow-offload set (TLA+ netfilter model over the real rendering)
  state : checks/c41_state.py  - the no-flow-offload set holds exactly the addresses of the endpoints with DSCP /
                                 rate / connection limits after any history (flowtableExclusionManager)"""
import importlib

from vlib.core import log


def _leg(module, fn):
    try:
        m = importlib.import_module("checks." + module)
    except ModuleNotFoundError:
        return None
    return getattr(m, fn, None)


# (name, module, run function, selftest function)
LEGS = [
    ("rules", "c41_rules", "run_rule_half", "selftest_rule_half"),
    ("state", "c41_state", "run_state_half", "selftest_state_half"),
]


def run(ctx):
    ran = []
    for name, module, fn, _ in LEGS:
        f = _leg(module, fn)
        if f is None:
            log("C41: leg %s (%s.%s) is not available" % (name, module, fn))
            continue
        f(ctx)
        ran.append(name)
    ctx.notes["c41_legs_run"] = ran
    ctx.cov["rule"] = (ctx.cov.get("rule") or "") + " | rule half: see notes rule_half"
    ctx.cov["exhaustive"] = False


def selftest(ctx):
    ok = True
    for name, module, _, fn in LEGS:
        f = _leg(module, fn)
        if f is None:
            log("C41 selftest: leg %s not available" % name)
            continue
        ok = bool(f(ctx)) and ok
    return ok


MANIFEST = dict(
    text="Rule half: generated hosts are rendered with nftables flow offload enabled and TLC walks the forward path through "
         "the TLA+ netfilter model for every conntrack state and addresses on and around the no-flow-offload set: the offload "
         "statement may only fire for established (RELATED/ESTABLISHED) flows with neither address in the set. State half: "
         "histories of endpoint updates with QoS features toggling and shared/changing addresses are replayed on the real "
         "flowtableExclusionManager and validated against the set specification.",
    design_ref="3.2 C41 (rule half), 3.6 C41 (state half)",
    technique="TLA+ kernel model (Netfilter) over exported rule IR; TLA+ set specification + trace validation",
)
