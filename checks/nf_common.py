"""Shared runner for the rendered-program checks (C08 C09 C10 C40 C41 rule half).

Pipeline: nfdrv (real renderer -> nfparse -> one ndjson line per case) -> TLC walks the case file in
parallel chunks; the trace spec consumes every line and prints <<"REJECT", t>> for a case its CaseOK
predicate rejects -> rejected cases are re-executed (driver run again, same inputs), and the re-executed
lines go through the spec's diagnosis walk (DNext) which confirms the rejection and classifies it
(<<"DIAG", t, <<"CLASS", ...>>>>) -> one VIOLATION / KNOWN-FINDING per signature.
"""
import concurrent.futures
import json
import os
import re

from vlib import core
from vlib.core import HarnessError, log

SPECDIR = "nf"


def drive(ctx, mode, n, out_path, beh_path=None, extra_env=None):
    binp = core.go_build("nfdrv")
    env = core.goenv()
    env.update({"VERIF_NF_MODE": mode, "VERIF_OUT": out_path, "VERIF_SEED": str(ctx.seed), "VERIF_N": str(n),
                "VERIF_TIER": ctx.tier, "VERIF_BEH": beh_path or ""})
    env.update(extra_env or {})
    if os.path.exists(out_path):
        os.unlink(out_path)
    p = core.run([binp], env=env, timeout=1800, check=False)
    if p.returncode != 0:
        raise HarnessError("nfdrv %s failed rc=%d:\n%s" % (mode, p.returncode, (p.stdout or "")[-3000:]))
    with open(out_path) as f:
        lines = [l for l in f.read().splitlines() if l]
    if not lines:
        raise HarnessError("nfdrv %s produced no cases" % mode)
    return lines


def model_unit_check(ctx):
    """Design leg: unit facts of the kernel model and of PolicySem (specs/nf/MC_NfUnit.tla, ASSUMEs)."""
    try:
        r = core.tlc(SPECDIR, "MC_NfUnit", "MC_NfUnit.cfg", workers=1, timeout=300)
    except HarnessError as e:
        raise HarnessError("kernel model unit facts failed (model problem, not a code verdict): %s" % str(e)[-1500:])
    if "NFUNIT ok" not in r.out or r.violated:
        raise HarnessError("kernel model unit facts failed:\n" + r.out[-2000:])
    ctx.notes["model_unit_facts"] = "specs/nf/MC_NfUnit.tla: all ASSUMEs hold (%.0fs)" % r.wall


def _tlc_walk(module, cfg, lines, tag, timeout, keep, specdir=None):
    path = os.path.join(keep, "cases-%s.ndjson" % tag)
    with open(path, "w") as f:
        f.write("\n".join(lines) + "\n")
    r = core.tlc(specdir or SPECDIR, module, cfg, workers=1, timeout=timeout, heap="3g", stack="256m",
                 extra_files={"trace.ndjson": path})
    if r.violated:
        raise HarnessError("TLC did not consume the whole case file (%s %s): %s\n%s" % (module, cfg, r.violated, r.out[-3000:]))
    return r


def walk_parallel(ctx, module, cfg, lines, chunks=4, timeout=900, max_bytes=6 << 20, specdir=None):
    """-> (rejected t ids, list of NPROBE int-tuples, tlc wall seconds, states).
    The case file is cut into interleaved parts (at least `chunks`, more when a part would exceed max_bytes: TLC holds
    the whole part as TLA+ values); at most 4 TLC processes run at a time."""
    k = max(1, min(chunks, len(lines) // 8 or 1))
    total = sum(len(l) for l in lines)
    k = max(k, -(-total // max_bytes))
    parts = [lines[i::k] for i in range(k)]
    with concurrent.futures.ThreadPoolExecutor(max_workers=min(k, 4)) as ex:
        futs = [ex.submit(_tlc_walk, module, cfg, part, "%s-%d" % (module, i), timeout, ctx.work, specdir) for i, part in enumerate(parts)]
        res = [f.result() for f in futs]
    rejected, probes, wall, states = [], [], 0.0, 0
    for r in res:
        wall += r.wall / min(k, 4)
        states += r.distinct
        for m in re.finditer(r'<<"REJECT", (-?\d+)>>', r.out):
            rejected.append(int(m.group(1)))
        for m in re.finditer(r'<<"NPROBE", ([\d, ]+)>>', r.out):
            probes.append(tuple(int(x) for x in m.group(1).split(",")))
    return rejected, probes, wall, states


def diagnose(ctx, module, diag_cfg, lines, timeout=600, specdir=None):
    """-> {t: (class tuple text, full diag text)}"""
    r = _tlc_walk(module, diag_cfg, lines, module + "-diag", timeout, ctx.work, specdir)
    out = {}
    for m in re.finditer(r'<<\s*"DIAG",\s*(-?\d+),\s*(<<.*?>>)\s*>>\s*(?=\n[^ \n]|\Z)', r.out, re.S):
        txt = " ".join(m.group(2).split())
        out[int(m.group(1))] = re.sub(r"\s+>>", ">>", re.sub(r"<<\s+", "<<", txt))
    return out


def signature_of(flavour, diag_text):
    m = re.match(r'<<"CLASS", "(\w+)"(?:, (\{[^}]*\}|"[^"]*"))?(?:, "(\w+)")?', diag_text)
    if not m:
        return "%s:unclassified" % flavour
    cls = m.group(1)
    if cls == "refused":
        reasons = sorted(re.findall(r'"([^"]+)"', m.group(2) or ""))
        return "%s:refused:%s" % (flavour, "+".join(reasons))
    if cls == "verdict":
        return "%s:verdict:%s:%s" % (flavour, (m.group(2) or "").strip('"'), m.group(3) or "")
    return "%s:%s" % (flavour, cls)


def check_cases(ctx, *, mode, n, module, cfg, diag_cfg, beh_path=None, extra_env=None, chunks=4, timeout=900,
                sig_fn=None, nontrivial_fn=None, tag=None):
    """Generate + validate; report violations; account evidence. Returns dict with numbers."""
    tag = tag or mode
    out = os.path.join(ctx.work, "%s.ndjson" % tag)
    lines = drive(ctx, mode, n, out, beh_path, extra_env)
    rejected, probes, wall, states = walk_parallel(ctx, module, cfg, lines, chunks=chunks, timeout=timeout)
    info = {"cases": len(lines), "rejected": [], "tlc_wall_s": round(wall, 1)}
    if rejected:
        log("%s: %d case(s) rejected, re-executing: %s" % (tag, len(rejected), rejected[:12]))
        again = drive(ctx, mode, n, os.path.join(ctx.work, "%s-rerun.ndjson" % tag), beh_path, extra_env)
        by_t = {json.loads(l)["t"]: l for l in again}
        sel = [by_t[t] for t in rejected if t in by_t]
        if len(sel) != len(rejected):
            raise HarnessError("re-execution did not reproduce the rejected cases (non-deterministic driver?)")
        diags = diagnose(ctx, module, diag_cfg, sel)
        seen = set()
        for t in rejected:
            d = diags.get(t)
            if d is None:
                raise HarnessError("no diagnosis for re-executed case %s" % t)
            if d.startswith('<<"CLASS", "none"'):
                raise HarnessError("rejection of case %s did not reproduce on re-execution" % t)
            case = json.loads(by_t[t])
            sig = (sig_fn or (lambda c, dd: signature_of(c.get("flavour", "-"), dd)))(case, d)
            info["rejected"].append({"case": t, "signature": sig})
            if sig in seen:
                continue
            seen.add(sig)
            one = os.path.join(ctx.work, "rejected-%s-%s.ndjson" % (tag, t))
            open(one, "w").write(by_t[t] + "\n")
            dfile = os.path.join(ctx.work, "diag-%s-%s.txt" % (tag, t))
            open(dfile, "w").write(d + "\n")
            rdir = core.save_replay(ctx, "%s-case%s" % (tag, t), files={"trace.ndjson": one, "diagnosis.txt": dfile,
                                                                        "behaviours.json": beh_path or ""},
                                    meta={"property": ctx.id, "case": t, "signature": sig, "seed": ctx.seed, "tier": ctx.tier,
                                          "mode": mode, "n": n, "diagnosis": d[:2000]})
            core.report(ctx, sig, "case %s of %s rejected: %s" % (t, tag, d[:600]), rdir)
    ctx.cov["traces_validated_against_impl"] += len(lines)
    ctx.cov["evaluations"] += sum(p[0] * (p[1] if len(p) > 1 else 1) for p in probes)
    ctx.cov["states"] += states
    ctx.cov["transitions"] += states
    nt = sum(1 for p in probes if (nontrivial_fn(p) if nontrivial_fn else True))
    ctx.cov["distinct_nontrivial"] += nt
    info["probe_packets"] = sum(p[0] for p in probes)
    info["evaluations"] = sum(p[0] * (p[1] if len(p) > 1 else 1) for p in probes)
    info["nontrivial_cases"] = nt
    ctx.notes.setdefault("legs", []).append(dict(info, leg=tag))
    first = json.loads(lines[0])
    ctx.sample({"leg": tag, "case": {k: first[k] for k in first if k not in ("prog", "ksets", "tables")},
                "rendered_rules": sum(len(v) for v in first.get("prog", {}).get("chains", {}).values())})
    return info, lines


def corruption_selftest(ctx, *, mode, n, module, cfg, corruptions, extra_env=None, eligible=None, tries=1):
    """Record cases from the real renderer, check TLC accepts them, then corrupt the exported IR / case
    of one case at a time and require that exactly that case is rejected."""
    lines = drive(ctx, mode, n, os.path.join(ctx.work, "selftest.ndjson"), None, extra_env)
    known = {f.get("signature") for f in core.load_known() if f.get("property") == ctx.id}
    rejected, probes, _, _ = walk_parallel(ctx, module, cfg, lines, chunks=2)
    cases = [json.loads(l) for l in lines]
    good = [c for c in cases if c["t"] not in set(rejected)]
    if eligible is not None:
        # restrict to cases in which the corrupted element can matter (NPROBE's last field is the case id)
        ok_t = {p[-1] for p in probes if eligible(p)}
        good = [c for c in good if c["t"] in ok_t]
    if rejected:
        log("selftest: %d uncorrupted case(s) rejected (known findings are tolerated here): %s" % (len(rejected), rejected[:8]))
        if not known:
            return False
    ok = True
    batch, expect = [], {}
    for name, fn in corruptions:
        done = 0
        for c in good:
            bad = fn(json.loads(json.dumps(c)))
            if bad is not None:
                bad["t"] = 100000 + len(batch)
                batch.append(json.dumps(bad, separators=(",", ":"), sort_keys=True))
                expect[bad["t"]] = name
                done += 1
                if done >= tries:
                    break
        if not done:
            log("selftest: corruption %s not applicable to any recorded case" % name)
            ok = False
    rej, _, _, _ = walk_parallel(ctx, module, cfg, batch, chunks=1)
    # with tries > 1 a corruption is applied to several recorded cases (it need not change the meaning of
    # every one of them, e.g. a dropped rule that no probe reaches); it must be rejected on at least one
    per = {}
    for t, name in sorted(expect.items()):
        per.setdefault(name, []).append(t in rej)
    for name, _ in corruptions:
        hits = per.get(name, [])
        good_ = any(hits)
        log("selftest: corruption %-28s -> %s (%d of %d corrupted cases rejected)" %
            (name, "rejected" if good_ else "accepted (BAD)", sum(hits), len(hits)))
        ok = ok and good_
    return ok
