"""C07 - indexed selector matching equals direct selector evaluation (felix/labelindex InheritIndex,
labelnamevalueindex, labelrestrictionindex, Selector.LabelRestrictions)."""
from vlib import pipeline


def signature(t_id, events, off, reason):
    e = events[off]
    kind = events[0].get("kind", "restr")
    return "%s:%s:%s" % (kind, reason, e.get("ev"))


def nontrivial_idx(evs):
    kind = evs[0].get("kind")
    if kind == "inherit":
        # the antecedent: a match that starts AND later stops, or an item that inherits from a parent
        started = {(e["sel"], e["item"]) for e in evs if e["ev"] == "started"}
        stopped = {(e["sel"], e["item"]) for e in evs if e["ev"] == "stopped"}
        inherit = any(e["ev"] == "update_labels" and e["parents"] for e in evs) and any(e["ev"] == "update_parent" and e["labels"] for e in evs)
        return bool(started & stopped) or (bool(started) and inherit)
    if kind == "ridx":
        # some query was pruned (fewer candidates than registered selectors) and some query had candidates
        n, pruned, hit = 0, False, False
        ids = set()
        for e in evs:
            if e["ev"] == "r_add":
                ids.add(e["id"])
            elif e["ev"] == "r_del":
                ids.discard(e["id"])
            elif e["ev"] == "r_query":
                pruned = pruned or len(e["got"]) < len(ids)
                hit = hit or bool(e["got"])
        return pruned and hit
    if kind == "kvidx":
        return any(e["ev"] == "kv_scan" and e["name"] != "full-scan" and e["got"] for e in evs)
    return False


def nontrivial_restr(evs):
    return any(e["ev"] == "expr" and e.get("parse_ok") and e.get("restr") for e in evs)


IDX = {
    "specdir": "labelindex",
    "design": [{"module": "I_Inherit", "cfg": "MC_I_Inherit_quick.cfg", "thorough_cfg": "MC_I_Inherit.cfg", "workers": 4,
                "timeout": 900, "thorough_timeout": 1500},
               {"module": "I_Inherit", "cfg": "MC_I_Inherit_2p.cfg", "workers": 4, "timeout": 900}],
    "gen": {"module": "Gen_Inherit", "cfg": "Gen_cover_small.cfg", "thorough_cfg": "Gen_cover.cfg", "workers": 1,
            "max": 700, "thorough_max": 30000, "timeout": 900, "thorough_timeout": 1500},
    "driver": {"cmd": "labelidx"},
    "n_random": (80, 3000),
    "trace": {"module": "T_LabelIdx", "cfg": "T_LabelIdx.cfg", "timeout": 1500},
    "chunk": 60000,
    "signature": signature,
    "nontrivial": nontrivial_idx,
    "rule": "InheritIndex: one behaviour per transition of the abstract (items, parent labels, selectors) state graph "
            "(TLC, VIEW + ACTION_CONSTRAINT; 1 item x 1 parent x 1 selector id in quick tier, 1 item x 2 ordered parents "
            "in thorough tier, thinned by seed) plus seeded random histories (2-5 items, 1-3 parents incl. duplicated, "
            "unknown and deleted parents, 1-4 selector ids, grammar-generated selectors of depth <= 3, identical "
            "re-updates); every call, callback and call-return is validated.  Candidate indexes: seeded random "
            "histories of LabelRestrictionIndex (after every change 6 random label maps are queried, at the end ALL "
            "label maps of the vocabulary) and LabelNameValueIndex (random and selector-derived restrictions).  "
            "non-trivial: inherit trace with a match that starts and stops (or starts through an inherited label); "
            "ridx trace with a pruned and a non-empty candidate set; kvidx trace with a non-full-scan strategy that "
            "returned items; distinct = distinct event sequences",
    "assumptions": ["item / parent / selector ids are strings (the index is generic over comparable ids)",
                    "callbacks do not re-enter the index"],
    "exhaustive": False,
}

RESTR = {
    "specdir": "selector",
    "design": [{"module": "I_Restr", "coverage": False, "cfg": "MC_I_Restr_quick.cfg", "thorough_cfg": "MC_I_Restr.cfg", "workers": 4, "timeout": 900}],
    "gen": {"module": "Gen_Selector", "cfg": "Gen_Selector.cfg", "workers": 1, "max": 25, "thorough_max": None, "timeout": 900},
    "driver": {"cmd": "selector", "env": {"VERIF_RESTR": "1"}},
    "n_random": (15, 400),
    "trace": {"module": "T_Restr", "cfg": "T_Restr.cfg", "timeout": 1500},
    "chunk": 40000,
    "signature": signature,
    "nontrivial": nontrivial_restr,
    "rule": "restriction soundness: Selector.LabelRestrictions() of every TLC-enumerated AST (depth <= 2 exhaustive over "
            "2 keys x 2 values, depth-3 families; chunks thinned by seed in quick tier) and of seeded grammar-generated "
            "selectors is checked by TLC against Eval for ALL label maps of the trace's vocabulary",
    "exhaustive": False,
}


def run(ctx):
    if ctx.replay:
        # a replay bundle belongs to the leg that produced it (signature prefix in meta.json)
        import json
        import os
        try:
            sig = json.load(open(os.path.join(ctx.replay, "meta.json"))).get("signature", "")
        except Exception:
            sig = ""
        pipeline.standard_check(ctx, RESTR if sig.startswith("restr") else IDX)
        return
    pipeline.standard_check(ctx, IDX)
    if not ctx.replay:
        rule = ctx.cov["rule"]
        pipeline.standard_check(ctx, RESTR)
        ctx.cov["rule"] = rule + " || " + RESTR["rule"]
        if not ctx.quick and not ctx.violations:
            # long TLC random walks over 3 items x 2 parents x 2 selector ids
            P3 = dict(IDX)
            P3["design"] = []
            P3["gen"] = {"module": "Gen_Inherit", "cfg": "Gen_sim.cfg", "simulate": {"num": 300, "depth": 70}, "timeout": 1500,
                         "thorough_timeout": 1500}
            P3["n_random"] = (0, 0)
            pipeline.standard_check(ctx, P3)
            ctx.cov["rule"] = rule + " || " + RESTR["rule"]


def selftest(ctx):
    import copy

    def deep(fn):
        # corruption_selftest hands out shallow copies; nested fields must not leak between corruptions
        return lambda evs: fn(copy.deepcopy(evs))

    def first(evs, pred):
        for i, e in enumerate(evs):
            if pred(e):
                return i

    def drop_started(evs):
        i = first(evs, lambda e: e["ev"] == "started")
        if i is not None:
            return evs[:i] + evs[i + 1:]

    def duplicate_started(evs):
        i = first(evs, lambda e: e["ev"] == "started")
        if i is not None:
            return evs[:i + 1] + [dict(evs[i])] + evs[i + 1:]

    def stop_without_start(evs):
        i = first(evs, lambda e: e["ev"] == "started")
        if i is not None:
            evs[i]["ev"] = "stopped"
            return evs

    def drop_call(evs):
        # a parent update that changed some match disappears (with its done marker); its callbacks stay
        for i, e in enumerate(evs):
            if e["ev"] == "update_parent" and evs[i + 1]["ev"] in ("started", "stopped"):
                j = i + 1
                while evs[j]["ev"] != "done":
                    j += 1
                return evs[:i] + evs[i + 1:j] + evs[j + 1:]

    def weaken_restriction(evs):
        # claim a restriction the selector does not imply: label must be ABSENT for an `eq`-like selector
        i = first(evs, lambda e: e["ev"] in ("update_sel", "r_add") and e["restr"] and any(r["present"] for r in e["restr"].values()))
        if i is not None:
            for r in evs[i]["restr"].values():
                if r["present"]:
                    r["present"], r["absent"] = False, True
            return evs

    def lose_candidate(evs):
        # a candidate that does not match may legitimately be missing, and which ones match is TLC's business:
        # drop the candidates of EVERY query (some query of a 20+ step history has a real match)
        hit = False
        for e in evs:
            if e["ev"] == "r_query" and e["got"]:
                e["got"] = []
                hit = True
        return evs if hit else None

    def lose_scanned_item(evs):
        i = first(evs, lambda e: e["ev"] == "kv_scan" and e["name"] in ("single-value", "multi-value", "label-name") and e["got"]
                  and not e["r"]["absent"])
        if i is not None:
            evs[i]["got"] = []
            return evs

    return pipeline.corruption_selftest(ctx, IDX, [(n, deep(f)) for n, f in [
        ("drop_started", drop_started), ("duplicate_started", duplicate_started), ("stop_without_start", stop_without_start),
        ("drop_parent_update", drop_call), ("unsound_restriction", weaken_restriction), ("lose_candidate", lose_candidate),
        ("lose_scanned_item", lose_scanned_item)]], n_random=24)


MANIFEST = dict(
    text="TLC checks exhaustively that the re-evaluation strategy of InheritIndex (I_Inherit: dirty items, children of a "
         "changed parent, full scans on selector change, arbitrary processing order) keeps the reported match relation "
         "equal to Eval over effective labels (own labels win, then the first parent that has the label), and that the "
         "LabelRestrictions derivation rules (I_Restr) are sound for every AST of depth <= 2 and all label maps. "
         "TLC-generated behaviours and seeded random histories are replayed on the real InheritIndex, "
         "LabelRestrictionIndex and LabelNameValueIndex; every call, start/stop callback, candidate set and scan is "
         "validated by TLC (LabelIdx): exact relation when a call returns, alternating glitch-free callbacks, "
         "restrictions sound for ALL label maps of the vocabulary, candidate sets never missing a match.",
    design_ref="3.1 C04 (index level) and C07",
    technique="TLA+ spec (LabelIdx / I_Inherit / I_Restr, Selectors.Eval) + TLC; TLC-generated behaviours replayed; "
              "trace validation with TLC",
)
