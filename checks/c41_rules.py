"""C41, rule half: the rendered flow-offload rule fires only for established flows with neither address in the
no-flow-offload set.  Same export as C40 (whole filter table of a generated host, nftables with
NFTablesFlowTableOffload); TLC walks the forward path for every conntrack state x addresses on and around
the members of the set and looks at the offload flag the kernel model records."""
from checks import nf_common as nf

MODULE, CFG, DIAG = "T_C40", "T_C41.cfg", "T_C41_diag.cfg"


def nontrivial(p):
    # NPROBE = (forward-path walks, 1, walks in which the offload statement fired, case)
    return len(p) >= 3 and p[2] > 0


def sig(case, d):
    import re
    m = re.match(r'<<"CLASS", "offload", "(\w+)", "src-excluded", (\w+), "dst-excluded", (\w+)', d)
    if m:
        return "offload:%s:src=%s:dst=%s" % m.groups()
    return nf.signature_of(case.get("flavour", "-"), d)


def run_rule_half(ctx):
    n = 16 if ctx.quick else 400
    info, _ = nf.check_cases(ctx, mode="c40", n=n, module=MODULE, cfg=CFG, diag_cfg=DIAG, chunks=4,
                             extra_env={"VERIF_NF_OFFLOAD": "1"},
                             timeout=900 if ctx.quick else 3000, nontrivial_fn=nontrivial, sig_fn=sig, tag="c41rules")
    if info["nontrivial_cases"] == 0 and not info["rejected"]:   # (rejected cases print no probe statistics)
        raise nf.HarnessError("vacuous: the offload rule never fired in any generated case")
    ctx.notes["rule_half"] = ("hosts as in C40, nftables with NFTablesFlowTableOffload on; forward path x 5 conntrack "
                              "states x (members of no-flow-offload, their neighbours, two other addresses)^2 x interface pairs; "
                              "non-trivial = the offload statement fired at least once")
    ctx.assumptions += ["'established' = conntrack state ESTABLISHED or RELATED (felix/design/dataplane.md: the rule matches "
                        "RELATED,ESTABLISHED so that NEW and INVALID packets still traverse policy)"]
    return info


def selftest_rule_half(ctx):
    def offload_rule(c):
        for n, rs in sorted(c["tables"]["filter"]["prog"]["chains"].items()):
            for r in rs:
                if r["a"]["k"] == "offload":
                    return r

    def ct_match_lost(c):
        r = offload_rule(c)
        if r:
            r["m"] = [m for m in r["m"] if m["k"] != "ct"]
            return c

    def src_exclusion_lost(c):
        r = offload_rule(c)
        if r:
            r["m"] = [m for m in r["m"] if not (m["k"] == "set" and m["dirs"] == ["src"])]
            return c

    def dst_exclusion_positive(c):
        r = offload_rule(c)
        if r:
            for m in r["m"]:
                if m["k"] == "set" and m["dirs"] == ["dst"]:
                    m["neg"] = False
                    return c

    def new_state_added(c):
        r = offload_rule(c)
        if r:
            for m in r["m"]:
                if m["k"] == "ct":
                    m["states"].append("NEW")
                    return c

    return nf.corruption_selftest(ctx, mode="c40", n=12, module=MODULE, cfg=CFG, extra_env={"VERIF_NF_OFFLOAD": "1"}, corruptions=[
        ("ct_match_lost", ct_match_lost), ("src_exclusion_lost", src_exclusion_lost),
        ("dst_exclusion_positive", dst_exclusion_positive), ("new_state_added", new_state_added)],
        eligible=nontrivial, tries=8)
