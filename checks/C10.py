"""C10 - workload traffic dispatch is exact and fails closed; host endpoint dispatch per the statement.

Sets of interface names -> real WorkloadDispatchChains / DispatchMappings / Host*DispatchChains (iptables
prefix tree and nftables verdict maps through the real table layer) -> nfparse -> TLC runs the dispatch
program for every probe interface name."""
from checks import nf_common as nf

MODULE, CFG, DIAG = "T_C10", "T_C10.cfg", "T_C10_diag.cfg"


def nontrivial(p):
    # NPROBE = (probe names, directions, probes that are known names, case): both known and unknown names probed
    return len(p) >= 3 and 0 < p[2] < p[0]


def sig(case, d):
    return nf.signature_of("%s:%s" % (case.get("flavour", "-"), case.get("sub", "-")), d)


def run(ctx):
    nf.model_unit_check(ctx)
    n = 60 if ctx.quick else 1500
    nf.check_cases(ctx, mode="c10", n=n, module=MODULE, cfg=CFG, diag_cfg=DIAG, chunks=4,
                   timeout=900 if ctx.quick else 3000, nontrivial_fn=nontrivial, sig_fn=sig)
    ctx.cov["rule"] = ("cases = seeded sets of 0-40 workload interface names (one or two workload prefixes; shared prefixes, "
                       "names that are prefixes of other names, single-character suffixes, the bare prefix, duplicates, 15-char "
                       "names) and 0-40 host interface names, with/without a wildcard host endpoint, apply-on-forward on/off, "
                       "from-only / to-only variants; each rendered for iptables and nftables; probes (computed by TLC from "
                       "the case) = every name, every name with one character appended / removed / changed, every proper "
                       "prefix, the bare workload prefixes +- characters, 'lo', 'eth9', each in every direction the chains "
                       "exist for; non-trivial = both known and unknown names probed")
    ctx.cov["exhaustive"] = False
    ctx.assumptions += [
        "an endpoint's own chain is the chain the real renderer produces for that interface name "
        "(WorkloadEndpointToIptablesChains / HostEndpointToFilterChains), recorded, not computed",
        "iptables '+' and nftables '*' suffix = prefix match on the interface name, otherwise exact match",
        "the nftables verdict maps are programmed as endpointManager does: DispatchMappings -> AddOrReplaceMap on the "
        "filter layer (replicated in the harness)",
        "workload dispatch chains are only consulted for interface names carrying a workload prefix (static chains)",
    ]


def selftest(ctx):
    def some_chain(c, pred):
        for name, rs in sorted(c["prog"]["chains"].items()):
            if pred(name, rs):
                return rs

    def drop_end_rule(c):
        if c["sub"] != "workload":
            return None
        rs = some_chain(c, lambda n, rs: rs and rs[-1]["a"]["k"] in ("drop", "reject"))
        if rs:
            del rs[-1]
            return c

    def exact_becomes_wildcard(c):
        if c["flavour"] != "ipt":
            return None
        for name, rs in sorted(c["prog"]["chains"].items()):
            for r in rs:
                if r["m"] and r["m"][0]["k"] == "iface" and not r["m"][0]["wild"] and r["a"]["k"] == "goto":
                    r["m"][0]["wild"] = True
                    return c

    def wrong_target(c):
        for name, rs in sorted(c["prog"]["chains"].items()):
            gotos = [r for r in rs if r["a"]["k"] == "goto" and r["m"] and not r["m"][0].get("wild")]
            if len(gotos) >= 2:
                gotos[0]["a"]["t"] = gotos[1]["a"]["t"]
                return c

    def vmap_entry_lost(c):
        for name, es in sorted(c["prog"]["maps"].items()):
            if len(es) >= 1:
                del es[0]
                return c

    def vmap_wrong_verdict(c):
        for name, es in sorted(c["prog"]["maps"].items()):
            if len(es) >= 2:
                es[0]["a"] = es[1]["a"]
                return c

    def wildcard_goto_lost(c):
        if c["sub"] != "host" or not c["wild"]:
            return None
        root = c["roots"]["from"]
        if root and c["prog"]["chains"][root] and c["prog"]["chains"][root][-1]["a"]["k"] == "goto":
            del c["prog"]["chains"][root][-1]
            return c

    return nf.corruption_selftest(ctx, mode="c10", n=40, module=MODULE, cfg=CFG, corruptions=[
        ("drop_end_rule", drop_end_rule), ("exact_becomes_wildcard", exact_becomes_wildcard), ("wrong_target", wrong_target),
        ("vmap_entry_lost", vmap_entry_lost), ("vmap_wrong_verdict", vmap_wrong_verdict),
        ("wildcard_goto_lost", wildcard_goto_lost)], eligible=nontrivial, tries=3)


MANIFEST = dict(
    text="Seeded sets of workload and host interface names are rendered by the real dispatch renderers (iptables prefix "
         "tree; nftables verdict maps through the real table layer); TLC runs the rendered dispatch program in the TLA+ "
         "netfilter model for every probe interface name (names, names +- one character, proper prefixes, unknown "
         "workload-prefixed names): a known name must leave the program into exactly its own endpoint chain, an unknown "
         "workload-prefixed name must be denied, host dispatch must use the wildcard endpoint iff configured.",
    design_ref="3.2 C10",
    technique="TLA+ kernel model (Netfilter) evaluated by TLC over rule IR exported from the real dispatch renderers",
)
