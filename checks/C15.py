"""C15 - iptables/nftables sync converges and leaves other software's rules alone
(felix/iptables.Table over testutils.MockDataplane in legacy and nft-backend mode, felix/nftables.NftablesTable
over the knftables fake)."""
import copy

from vlib import core, pipeline


def _apply_window(events, off):
    """events of the Apply that contains events[off]"""
    lo = off
    while lo > 0 and events[lo].get("ev") != "apply_begin":
        lo -= 1
    return events[lo:off + 1]


def signature(t_id, events, off, reason):
    backend = events[0].get("backend", "?")
    e = events[off]
    win = _apply_window(events, off)
    if backend == "nftables" and any(x.get("ev") == "write" and not x.get("ok") and not x.get("injected")
                                     and str(x.get("why", "")).startswith("no such chain") for x in win):
        return "nft:flush-of-absent-dirty-chain"
    return "%s:%s:%s:%s" % (backend, reason, e.get("ev"), e.get("ok"))


def nontrivial(evs):
    # exercises the antecedent: a successful Apply that had to change the kernel while foreign or stale
    # content was present, or an Apply with a failed command / out-of-band edit inside it
    start = evs[0].get("kernel", {})
    junk = any(rs for rs in start.values())
    wrote = any(e["ev"] == "write" and e.get("ok") for e in evs)
    failed = any(e["ev"] in ("write", "read") and not e.get("ok") for e in evs)
    edited = any(e["ev"] == "edit" for e in evs)
    return wrote and (junk or failed or edited)


def select(behs, rnd, quotas=(2500, 60, 40, 40)):
    """stratified choice among the generated behaviours: A = an out-of-band edit, or a new complete desired state, on
    a table that an earlier Apply had converged (the driver appends refresh-interval + Apply); B = an Apply with an edit / failure inside it after
    an earlier Apply; C = anything else that goes on after a first Apply; D = first Apply from a start kernel"""
    cls = {"A": [], "B": [], "C": [], "D": []}
    for b in behs:
        ops = [o.get("op") for o in b if o.get("op") != "end"]
        first = ops.index("apply") if "apply" in ops else None
        deep = first is not None and first < len(ops) - 1
        last = [o for o in b if o.get("op") != "end"][-1]
        if deep and last.get("op") in ("edit", "program"):
            cls["A"].append(b)
        elif deep and last.get("op") == "apply" and (last.get("pre") != "none" or last.get("fw") or last.get("fr")):
            cls["B"].append(b)
        elif deep:
            cls["C"].append(b)
        else:
            cls["D"].append(b)
    out = []
    for k, q in zip("ABCD", quotas):
        out += cls[k] if len(cls[k]) <= q else rnd.sample(cls[k], q)
    return out


_MAP_ACTIONS = ("MSetMap", "MRemoveMap", "MEditMap")
DESIGN = [{"module": "MC_RTable", "cfg": "MC_quick.cfg", "thorough_cfg": "MC_thorough.cfg", "workers": 4,
           "heap": "4g", "timeout": 400, "thorough_timeout": 1700,
           # the verdict-map actions are explored in the separate slim configuration below
           "allow_zero": _MAP_ACTIONS},
          {"module": "MC_RTable", "cfg": "MC_maps.cfg", "workers": 4, "heap": "4g", "timeout": 400,
           "thorough_timeout": 1700}]

P = {
    "specdir": "reconcile_table",
    "design": DESIGN,
    "gen": {"module": "Gen_RTable", "cfg": "Gen_cover.cfg", "thorough_cfg": "Gen_cover5.cfg", "workers": 1, "timeout": 400, "thorough_timeout": 1500},
    "driver": {"cmd": "rtable"},
    "n_random": (60, 600),
    "trace": {"module": "T_RTable", "cfg": "T_RTable.cfg", "timeout": 900, "heap": "4g", "rerun_attempts": 3},
    "chunk": 60000,
    "signature": signature,
    "nontrivial": nontrivial,
    "rule": "every behaviour is run on three backends (iptables.Table legacy, iptables.Table nft-backend, "
            "nftables.Table): TLC behaviours = one per transition of the generator's (desired, kernel, belief) "
            "graph (depth-bounded, thinned by seed) and TLC -simulate walks, plus seeded random histories over 3 "
            "Felix chains / 2 kernel chains; each ends with refresh-interval + Apply; a trace is non-trivial if a "
            "successful write happened with foreign/stale start content, an out-of-band edit or a failed command; "
            "distinct = distinct event sequences",
    "assumptions": [
        "the kernel is the repository's mock; the iptables mock's restore is made atomic by the harness (a mock "
        "assertion = rejected transaction, table rolled back) as the real iptables-restore is",
        "desired state is consistent (no jump to an undefined chain) whenever Apply is called, as table.go requires",
        "a failed Apply (panic) is followed by a new Table (Felix exits on it in production)",
        "no two identical rules in one chain are created by the environment (the iptables mock deletes all "
        "matching rules on delete-by-value)",
        "hook position contract = table.go expectedHashesForInsertAppendChain: insert-mode rules first, "
        "append-mode rules after the foreign rules, AppendRules last",
    ],
    "exhaustive": False,
}


def run(ctx):
    # one driver run / one validation for both TLC generators: the -simulate walks (2 kernel chains, rich
    # menus) are generated first and appended to the selected cover behaviours
    sim_behs = []
    if not ctx.replay:
        sim = {"num": 40, "depth": 20} if ctx.quick else {"num": 600, "depth": 20}
        r = core.tlc(P["specdir"], "Gen_RTable", "Gen_sim.cfg", workers=1, simulate=sim, seed=ctx.seed,
                     timeout=400 if ctx.quick else 1500, heap="4g")
        if r.violated and r.violated != "deadlock":
            raise core.HarnessError("generator spec problem (simulate): %s\n%s" % (r.violated, r.out[-2000:]))
        sim_behs = r.behaviours
        ctx.notes["simulate_behaviours_from_tlc"] = len(sim_behs)
    def sel(behs, rnd):
        keep = select(behs, rnd) if ctx.quick else select(behs, rnd, (1200, 400, 200, 200))
        ctx.notes["cover_behaviours_selected"] = len(keep)
        return keep + sim_behs

    Pq = dict(P)
    Pq["gen"] = dict(P["gen"], select=sel, max=None, thorough_max=None)
    pipeline.standard_check(ctx, Pq)


def selftest(ctx):
    def lose_foreign_rule(evs):
        # a successful write that drops one foreign rule from a kernel chain
        for i, e in enumerate(evs):
            if e["ev"] == "write" and e["ok"]:
                for c, rs in e["kernel"].items():
                    for j, r in enumerate(rs):
                        if r["h"] == "" and not r["tgt"].startswith(("cali", "felix")) and c in ("FORWARD", "INPUT", "other", "other2"):
                            e["kernel"][c] = rs[:j] + rs[j + 1:]
                            return evs

    def stale_chain_survives(evs):
        # the last successful write of a trace leaves a stale Felix chain behind
        last = {}
        for i, e in enumerate(evs):
            if e["ev"] == "write" and e["ok"]:
                last[e["t"]] = i
        for t, i in sorted(last.items()):
            e = evs[i]
            if "cali-old" not in e["kernel"]:
                e["kernel"]["cali-old"] = [{"h": "STALE", "id": 1, "tgt": ""}]
                return evs

    def wrong_rule_order(evs):
        # a Felix chain ends up with its rules swapped
        last = {}
        for i, e in enumerate(evs):
            if e["ev"] == "write" and e["ok"]:
                last[e["t"]] = i
        for t, i in sorted(last.items()):
            e = evs[i]
            for c, rs in e["kernel"].items():
                if c.startswith("cali-") and len(rs) >= 2 and (rs[0]["id"], rs[0]["tgt"]) != (rs[1]["id"], rs[1]["tgt"]):
                    e["kernel"][c] = [rs[1], rs[0]] + rs[2:]
                    return evs

    def hook_below_foreign(evs):
        # insert-mode hook rule ends up below a foreign rule
        last = {}
        for i, e in enumerate(evs):
            if e["ev"] == "reset":
                mode = e["cfg"]["mode"]
                owns = e["cfg"]["ownsAll"]
            if e["ev"] == "write" and e["ok"] and mode == "insert" and not owns:
                last[e["t"]] = i
        for t, i in sorted(last.items()):
            e = evs[i]
            for c in ("FORWARD", "INPUT"):
                rs = e["kernel"].get(c, [])
                for j in range(len(rs) - 1):
                    if rs[j]["h"] != "" and rs[j + 1]["h"] == "" and not rs[j + 1]["tgt"].startswith(("cali", "felix")):
                        rs[j], rs[j + 1] = rs[j + 1], rs[j]
                        return evs

    def drop_read(evs):
        # Felix claims success without having re-read after the refresh interval elapsed on an edited kernel
        for i, e in enumerate(evs):
            if e["ev"] == "edit" and i + 3 < len(evs) and evs[i + 1]["ev"] == "tick" and evs[i + 2]["ev"] == "apply_begin" \
                    and evs[i + 3]["ev"] == "read":
                j = i + 3
                while evs[j]["ev"] != "apply_end":
                    j += 1
                if evs[j]["ok"]:
                    return evs[:i + 3] + [evs[j]] + evs[j + 1:]

    def rewrite_unchanged(evs):
        # a write made with fresh knowledge claims to have touched a referenced, non-empty Felix chain whose content
        # is the one that an earlier converged Apply left and that is still desired
        def last_kernel(i):
            for k in range(i, -1, -1):
                if "kernel" in evs[k]:
                    return evs[k]["kernel"]
            return None

        good = None          # kernel at the end of the last clean successful Apply of this trace
        clean = False
        for i, e in enumerate(evs):
            ev = e["ev"]
            if ev == "reset" or ev in ("edit", "restart"):
                good = None
            if ev == "apply_begin":
                clean = True
                saw_read = False
            if ev == "read":
                saw_read = e["ok"]
                clean = clean and e["ok"]
            if ev == "write" and not e["ok"]:
                clean = False
            if ev == "write" and e["ok"] and clean and good is not None and evs[i - 1]["ev"] == "read" and evs[i - 1]["ok"]:
                prev = last_kernel(i - 1)
                for c, rs in sorted(e["kernel"].items()):
                    referenced = any(r["tgt"] == c for k2, rs2 in e["kernel"].items() if not k2.startswith("cali-") for r in rs2)
                    if c.startswith("cali-") and rs and prev and prev.get(c) == rs and good.get(c) == rs \
                            and c not in e["touched"] and referenced:
                        e["touched"] = sorted(e["touched"] + [c])
                        return evs
            if ev == "apply_end":
                good = last_kernel(i) if (e["ok"] and clean and saw_read) else None

    def deep(fn):
        # corruption_selftest hands out shallow copies; the corruptions edit nested kernel objects
        return lambda evs: fn(copy.deepcopy(evs))

    return pipeline.corruption_selftest(ctx, P, [(n, deep(f)) for n, f in [
        ("lose_foreign_rule", lose_foreign_rule), ("stale_chain_survives", stale_chain_survives),
        ("wrong_rule_order", wrong_rule_order), ("hook_below_foreign", hook_below_foreign),
        ("drop_read", drop_read), ("rewrite_unchanged", rewrite_unchanged)]], n_random=40)


MANIFEST = dict(
    text="Property spec RTable (desired, kernel as chains of rules owned by felix(hash)/foreign, belief) with the "
         "environment ExternalEdit / failing commands / Tick / Restart; TLC checks exhaustively that the property is "
         "implementable from every reachable state (reference reconciler never blocked, Target is a witness of "
         "Converged and ForeignSame). TLC-generated start kernels x desired histories x edits x failures x restarts "
         "and seeded random histories are replayed on the real iptables.Table (mock in legacy and nft mode) and "
         "nftables.Table (knftables fake); the whole mock kernel is logged after every command and edit and TLC "
         "validates every trace against RTable: foreign content identical across every write, exact Felix content "
         "and hook placement after each successful Apply that had reason to look, no rewrite of unchanged chains, "
         "no Apply failure without an injected fault.",
    design_ref="3.5 C15",
    technique="TLA+ property spec (RTable) + TLC exhaustive design check; TLC-generated behaviours (cover + simulate) "
              "replayed on real code over the repository's kernel mocks; trace validation with TLC",
)
