"""C32 - flow aggregation conserves counts and emits each window once (goldmane/pkg/storage BucketRing)."""
from vlib import pipeline


def signature(t_id, events, off, reason):
    e = events[off]
    return "%s:%s" % (reason, e.get("ev"))


def nontrivial(evs):
    # the antecedents: an accepted flow that is later queried or emitted, and at least one rollover
    kinds = [e["ev"] for e in evs]
    shown = any(e["ev"] in ("emit", "list", "stats") and e.get("flows") for e in evs)
    return "add" in kinds and "roll_begin" in kinds and shown


P = {
    "specdir": "ring",
    "design": [{"module": "I_Ring", "cfg": "MC_I_Ring_quick.cfg", "thorough_cfg": "MC_I_Ring.cfg", "workers": 4,
                "timeout": 900, "thorough_timeout": 3000}],
    "gen": {"module": "Gen_Ring", "cfg": "Gen_sim.cfg", "simulate": {"num": 40, "depth": 25},
            "thorough_simulate": {"num": 1000, "depth": 25}, "timeout": 600, "thorough_timeout": 1800},
    "driver": {"cmd": "ring"},
    "n_random": (80, 2000),
    "trace": {"module": "T_Ring", "cfg": "T_Ring.cfg", "timeout": 1200},
    "chunk": 60000,
    "signature": signature,
    "nontrivial": nontrivial,
    "rule": "behaviours = TLC random walks (-simulate) of I_Ring with queries (ring of 5 buckets, pushAfter 1, 2 buckets per "
            "window, 2 keys; adds at every retained bucket plus one too old / one too new; rollovers with and without sink; aligned "
            "List and Statistics ranges incl. open ends), replayed with 10/15/60 s buckets and seeded in-bucket offsets and "
            "counters; plus seeded random histories over rings of 5-16 buckets, other pushAfter/aggregation settings, up to 4 keys, "
            "sink attached/detached; every AddFlow, sink receipt, List and Statistics result is validated against P_Ring; "
            "non-trivial = a trace with an accepted flow, a rollover and a non-empty emission or query result",
    "assumptions": ["query ranges are bucket-aligned (0 = open end); unaligned ranges are not judged",
                    "ring configurations keep (n-1-pushAfter) % bucketsToAggregate != 0 (see notes/C32.md)",
                    "Statistics is exercised as PacketCount grouped by policy with one enforced policy per flow key"],
    "exhaustive": False,
}


def run(ctx):
    pipeline.standard_check(ctx, P)


def selftest(ctx):
    def drop_add(evs):
        # an accepted flow vanishes from the history: a later result that contains it is no longer explained
        for i, e in enumerate(evs):
            if e["ev"] == "add" and any(x["ev"] in ("emit", "list", "stats") and x["t"] == e["t"] and
                                        any(f["key"] == e["key"] for f in x["flows"]) for x in evs[i:]):
                return evs[:i] + evs[i + 1:]

    def inflate_emit(evs):
        for e in evs:
            if e["ev"] == "emit" and e["flows"]:
                e["flows"][0]["pin"] += 1
                return evs

    def double_emit(evs):
        for i, e in enumerate(evs):
            if e["ev"] == "emit":
                return evs[:i + 1] + [dict(e)] + evs[i + 1:]

    def lose_key_in_list(evs):
        for e in evs:
            if e["ev"] == "list" and e["flows"]:
                e["flows"] = e["flows"][1:]
                return evs

    def wrong_stats(evs):
        for e in evs:
            if e["ev"] == "stats" and e["flows"]:
                e["flows"][0]["pout"] += 2
                return evs

    return pipeline.corruption_selftest(ctx, P, [("drop_add", drop_add), ("inflate_emit", inflate_emit), ("double_emit", double_emit),
                                                 ("lose_key_in_list", lose_key_in_list), ("wrong_stats", wrong_stats)], n_random=40)


MANIFEST = dict(
    text="P_Ring keeps the bag of accepted, still retained flows and defines every List / Statistics result and every sink receipt "
         "as sums over it (windows pairwise disjoint, complete, counted once); I_Ring models the ring arithmetic of BucketRing "
         "(findBucket, rollover, the walk-back of EmitFlowCollections with pushed flags) and TLC checks exhaustively on a small ring "
         "that it conserves counts and only emits what P_Ring allows. TLC random walks and seeded histories are replayed on the real "
         "BucketRing with explicit time; TLC validates every recorded result against P_Ring.",
    design_ref="3.4 C32",
    technique="TLA+ spec (P_Ring/I_Ring) + TLC; TLC-generated behaviours replayed; trace validation with TLC",
)
