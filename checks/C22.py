"""C22 - each block has at most one confirmed owner."""
from vlib import pipeline
from . import _ipam
from .C19 import BASE

RULE = ("EVERY interleaving of two concurrent ClaimAffinity calls of two hosts on one block with <= 1 crash at any store call "
        "(440 complete schedules enumerated by TLC; three claimers in the thorough tier), plus TLC walks with claim / ReleaseAffinity "
        "(mustBeEmpty or not) / auto-assign of 3 clients on 3 hosts on one block with a crash and a conflict (thorough tier), 42 directed "
        "schedules (crashed claimers' left-over pending claims + non-empty release + restart; half-done release + restart; release "
        "paused before each write x same-host re-confirm paused before each call x foreign claim x re-confirmer dies or not), plus seeded "
        "concurrent runs; non-trivial = two owners tried to claim the same block, or a client crashed")


def run(ctx):
    design = [{"module": "MC_IPAM", "cfg": "MC_c22_quick.cfg", "thorough_cfg": "MC_c22.cfg", "workers": 4,
               "allow_zero": _ipam.ALLOW_ZERO, "timeout": 600, "thorough_timeout": 1700}]
    P, _ = _ipam.leg(ctx, BASE, "all-interleavings+seeded-concurrent", design=design,
              gen={"module": "Gen_IPAM", "cfg": "Gen_claim2.cfg", "thorough_cfg": "Gen_claim2x.cfg", "workers": 4,
                   "timeout": 600, "thorough_timeout": 1700, "thorough_max": 4000},
              n_random=(12, 300), mode="conc", nontrivial=_ipam.contended_claim, rule=RULE)
    orphan = dict(kind="orphan-block", classify=_ipam.classify_orphan, what="a block records an owner that holds no claim on it")
    _ipam.handle_soft(ctx, P, **orphan)
    if ctx.violations:
        return
    # directed three-actor / crash-and-restart histories (Dir_IPAM: scripts executed by TLC through I_IPAM, then
    # replayed through the gate): left-over pending claims of crashed hosts + a non-empty affinity release
    # (block without affinity) + AutoAssign of the restarted hosts; a half-done release + AutoAssign of the same
    # host; ReleaseAffinity(mustBeEmpty) paused before each of its writes x a same-host AutoAssign re-confirming
    # (getBlockFromAffinity) paused before each of its calls x a foreign claim x the re-confirmer dying or not
    P, _ = _ipam.leg(ctx, BASE, "directed",
                     gen={"module": "Dir_IPAM", "cfg": "Dir_c22.cfg", "workers": 1, "timeout": 600},
                     nontrivial=_ipam.contended_claim, rule=RULE)
    _ipam.handle_soft(ctx, P, **orphan)
    if ctx.violations or ctx.quick:
        return
    P, _ = _ipam.leg(ctx, BASE, "tlc-walks",
              gen={"module": "Gen_IPAM", "cfg": "Gen_sim_c22.cfg", "simulate": {"num": 1000, "depth": 120},
                   "timeout": 1500},
              nontrivial=_ipam.contended_claim, rule=RULE)
    _ipam.handle_soft(ctx, P, **orphan)


def selftest(ctx):
    P = dict(BASE)
    P.update({"driver": {"cmd": "ipam", "env": {"VERIF_MODE": "conc"}}, "trace": dict(_ipam.TRACE)})

    def one_phase(evs):            # a claim written as confirmed at once (no pending phase)
        for e in evs:
            if e["ev"] == "kv" and e["kind"] == "aff" and e["op"] == "create" and e["err"] == "":
                e["val"]["state"] = "confirmed"
                return evs

    def foreign_block(evs):        # a block created with another host's affinity
        for e in evs:
            if e["ev"] == "kv" and e["kind"] == "block" and e["op"] == "create" and e["err"] == "":
                e["val"]["aff"] = "host:intruder"
                return evs

    def confirm_wrong(evs):        # a confirmation of a claim whose block belongs to somebody else
        for e in evs:
            if e["ev"] == "kv" and e["kind"] == "aff" and e["op"] == "update" and e["err"] == "" and e["val"]["state"] == "confirmed":
                e["val"]["owner"] = "host:intruder"
                return evs

    def release_nonempty(evs):     # mustBeEmpty release that strips a non-empty block
        for i, e in enumerate(evs):
            if e["ev"] == "kv" and e["kind"] == "block" and e["op"] == "update" and e["err"] == "" and e["val"]["aff"] and \
                    any(o["s"] == "a" for o in e["val"]["ords"]):
                e["val"]["aff"] = ""
                return evs

    return pipeline.corruption_selftest(ctx, P, _ipam.fresh([("one_phase", one_phase), ("foreign_block", foreign_block),
                                                 ("confirm_wrong", confirm_wrong), ("release_nonempty", release_nonempty)]), n_random=6)


MANIFEST = dict(
    text="TLC enumerates every interleaving of concurrent claimers of one block with a crash between any two store calls; each "
         "schedule is replayed through the memkv gate on real clients (zero drift: the real client makes exactly the calls I_IPAM "
         "predicts) and every store state of the recorded traces satisfies: at most one confirmed affinity per block, a confirmed "
         "affinity is what its block records (hard), a block's owner holds a claim (soft channel: one known same-host race); a claim is created pending, confirmed only when the block "
         "says so; only an explicit non-mustBeEmpty ReleaseAffinity of the owner may strip a non-empty block.",
    design_ref="3.3 C22",
    technique="TLA+ (P_IPAM, I_IPAM) + TLC exhaustive schedule enumeration; gate-driven replay on the real client; trace validation with TLC",
)
